(* C07 — Bounded concurrency, no deadlock, guaranteed termination.
   Statements only; proofs are in Exec/InvSlots.v (bound) and Exec/Progress.v. *)
From Coq Require Import List Arith Bool.
Import ListNotations.
From TV Require Import Exec.Model Exec.Monitors Exec.Facts Exec.InvSlots Exec.Shape Extracted.Facts.

(* tie to the source: stage order of RunTask, dedup protocol, MaximumTaskCall (extracted on every run) *)
Theorem C07_shape : exec_shape_ok = true.
Proof. reflexivity. Qed.
Print Assumptions C07_shape.

(* With --concurrency N at most N commands execute at any instant: for every program (cyclic ones
   included), every configuration and every schedule (list of scheduler choices), the monitor that
   counts simultaneously executing commands never exceeds N. *)
Theorem C07_bound :
  forall (p : prog) (c : cfg) (sched : list choice), mon_C07 c (trace (run p c sched)) = true.
Proof. exact bound_all_schedules. Qed.
Print Assumptions C07_bound.

(* the same on what the harness can observe (EvEnd is a ghost event) *)
Theorem C07_bound_observable :
  forall p c sched, mon_C07 c (filter observable (trace (run p c sched))) = true.
Proof. exact bound_observable. Qed.
Print Assumptions C07_bound_observable.

(* the invariant behind it, in every reachable state: slots in use = number of slot holders <= N,
   and every activation inside a command holds a slot *)
Theorem C07_slots_invariant :
  forall p c sched n, limited c = Some n ->
    used (run p c sched) = count snd (sig (run p c sched)) /\
    used (run p c sched) <= n /\
    count (fun y => probe_pc (fst y)) (sig (run p c sched)) <= used (run p c sched).
Proof. exact slots_invariant. Qed.
Print Assumptions C07_slots_invariant.

(* non-vacuity: a schedule of a two-task program with N = 1 that reaches a state with a running command *)
Definition ex_prog : prog :=
  [ {| t_deps := [ {| c_task := 1; c_var := VInherit |} ]; t_cmds := [Shell 0 false]; t_run := Always;
       t_ignore := false; t_internal := false; t_g := dummy_guards |};
    {| t_deps := []; t_cmds := [Shell 0 false]; t_run := Once; t_ignore := false; t_internal := false; t_g := dummy_guards |} ].
Definition ex_cfg : cfg :=
  {| cf_N := Some 1; cf_parallel := false; cf_force := false; cf_forceall := false; cf_yes := false;
     cf_roots := [ {| c_task := 0; c_var := VConst 0 |} ]; cf_maxcall := 1000 |}.
Definition ex_sched : list choice := [ChRoot 0] ++ repeat (ChStep 0) 4 ++ repeat (ChStep 1) 10.
Example C07_example :
  used (run ex_prog ex_cfg ex_sched) = 1 /\
  existsb (fun e => match e with EvProbeBegin _ _ _ => true | _ => false end) (trace (run ex_prog ex_cfg ex_sched)) = true.
Proof. vm_compute. split; reflexivity. Qed.
