(* C15 - Task name resolution: exact name, then wildcard, then unique alias.
   Statements only; proofs are in Resolve/Proofs*.v.

   Vocabulary (Resolve/Model.v): [find v tbl req] is the resolution of the
   requested name [req] against the task table [tbl] (Taskfile order) under the
   variant [v]; [good v] = the variant reads names the way the property states
   (literal parts quoted, a star swallows anything); [current_variant] is computed
   from the facts extracted from /repo on this run (Run/ResolveCases.v);
   [raw_variant] is the unquoted regular-expression reading of the pinned tree.
   [mon_choice], [mon_suggest], [mon_cli] are the functions cases.v evaluates on
   what the real GetTask / task binary did. *)
From Coq Require Import String Ascii List Bool Arith.
Import ListNotations.
From TV Require Import Resolve.Model Resolve.Proofs Resolve.ProofsFind Resolve.ProofsRaw
     Extracted.Facts Run.ResolveCases Resolve.ProofsCurrent.

(* --- a requested name runs the task with exactly that name if one exists --- *)
Theorem C15_exact_first :
  forall v tbl req, In req (names tbl) -> find v tbl req = Found Exact req [].
Proof. exact exact_first. Qed.
Print Assumptions C15_exact_first.

(* --- only '*' is special, .MATCH is exactly the matched substrings (the left-most greedy filling) --- *)
Theorem C15_wildcard_sound_complete :
  forall pat n ws, wildcard_match pat n = Some ws <-> subst pat ws = Some n /\ greedy pat n ws.
Proof. exact wildcard_sound_complete. Qed.
Print Assumptions C15_wildcard_sound_complete.

Theorem C15_wildcard_complete :
  forall pat n ws', subst pat ws' = Some n -> exists ws, wildcard_match pat n = Some ws.
Proof. exact wildcard_complete. Qed.
Print Assumptions C15_wildcard_complete.

(* every other character is literal: a name without a star matches itself and nothing else *)
Theorem C15_literal :
  forall pat n ws, count_star pat = 0 -> (wildcard_match pat n = Some ws <-> n = pat /\ ws = []).
Proof. exact wildcard_literal. Qed.
Print Assumptions C15_literal.

(* --- otherwise the first task, in table order, whose pattern matches --- *)
Theorem C15_first_in_order :
  forall v tbl req pre t post ws, good v ->
    ~ In req (names tbl) -> tbl = pre ++ t :: post -> no_pattern pre req ->
    wildcard_match (t_name t) req = Some ws ->
    find v tbl req = Found Wild (t_name t) ws.
Proof. exact first_in_order. Qed.
Print Assumptions C15_first_in_order.

(* --- otherwise the unique task that has the name as an alias; ambiguous aliases give 203 --- *)
Theorem C15_alias_unique :
  forall v tbl req n, good v ->
    ~ In req (names tbl) -> no_pattern tbl req -> aliased tbl req = [n] ->
    find v tbl req = Found Alias n [].
Proof. exact alias_unique. Qed.
Print Assumptions C15_alias_unique.

Theorem C15_alias_ambiguous_203 :
  forall v tbl req, good v ->
    ~ In req (names tbl) -> no_pattern tbl req -> length (aliased tbl req) >= 2 ->
    find v tbl req = Ambiguous (aliased tbl req) /\
    outcome_code spec_codes (find v tbl req) = Some 203.
Proof. exact (fun v => alias_ambiguous v spec_codes). Qed.
Print Assumptions C15_alias_ambiguous_203.

(* --- unknown names give 200 and nothing runs (even next to names that resolve) --- *)
Theorem C15_unknown_200_nothing_runs :
  forall v tbl pre req post, good v ->
    (forall r, In r pre -> is_found (find v tbl r) = true) ->
    ~ In req (names tbl) -> no_pattern tbl req -> aliased tbl req = [] ->
    run_calls v spec_codes tbl (pre ++ req :: post) = ([], Some 200).
Proof. exact (fun v => run_unknown v spec_codes). Qed.
Print Assumptions C15_unknown_200_nothing_runs.

Theorem C15_nothing_runs_on_error :
  forall v k tbl reqs r, In r reqs -> is_found (find v tbl r) = false -> fst (run_calls v k tbl reqs) = [].
Proof. exact run_nothing_on_error. Qed.
Print Assumptions C15_nothing_runs_on_error.

(* --- the suggestion oracle is asked over every task name and every alias --- *)
Theorem C15_suggestion_attempted :
  forall v tbl req wds, good v -> v_fuzzy v = true ->
    find v tbl req = NotFound wds ->
    wds = Some (words tbl) /\
    (forall n, In n (names tbl) -> In n (words tbl)) /\
    (forall t a, In t tbl -> In a (t_aliases t) -> In a (words tbl)).
Proof. exact suggestion_attempted. Qed.
Print Assumptions C15_suggestion_attempted.

(* --- every outcome, in one statement; resolution never panics --- *)
Theorem C15_characterisation :
  forall v tbl req, good v ->
    match find v tbl req with
    | Found Exact n ws => n = req /\ ws = [] /\ In req (names tbl)
    | Found Wild n ws =>
        ~ In req (names tbl) /\
        exists pre t post, tbl = pre ++ t :: post /\ t_name t = n /\ wildcard_match n req = Some ws /\ no_pattern pre req
    | Found Alias n ws => ws = [] /\ ~ In req (names tbl) /\ no_pattern tbl req /\ aliased tbl req = [n]
    | Ambiguous ns => ~ In req (names tbl) /\ no_pattern tbl req /\ aliased tbl req = ns /\ length ns >= 2
    | NotFound w => ~ In req (names tbl) /\ no_pattern tbl req /\ aliased tbl req = [] /\
                    w = (if v_fuzzy v then Some (words tbl) else None)
    | Panicked | Unmodelled => False
    end.
Proof. exact find_characterisation. Qed.
Print Assumptions C15_characterisation.

Theorem C15_total :
  forall v tbl req, good v -> find v tbl req <> Panicked /\ find v tbl req <> Unmodelled.
Proof. exact spec_total. Qed.
Print Assumptions C15_total.

(* --- the monitors evaluated on the real runs hold for every table and request --- *)
Theorem C15_monitor :
  forall closest : oracle,
    (forall wds r w, closest wds r = Some w -> In w wds /\ w <> []) ->
    (forall wds r, has_close wds r = true -> closest wds r <> None) ->
    forall v tbl req, good v -> v_fuzzy v = true ->
      mon_C15 tbl req (observe closest req (find v tbl req)) = true.
Proof. exact monitor_holds. Qed.
Print Assumptions C15_monitor.

Theorem C15_monitor_cli :
  forall v tbl reqs ran code, good v ->
    run_calls v spec_codes tbl reqs = (ran, Some code) -> mon_cli tbl reqs code ran = true.
Proof. exact mon_cli_holds. Qed.
Print Assumptions C15_monitor_cli.

(* --- tie to the source: the extracted facts have a shape the model reads --- *)
Theorem C15_facts_recognised : facts_recognised = true.
Proof. exact facts_recognised_ok. Qed.
Print Assumptions C15_facts_recognised.

Theorem C15_shape_as_modelled : shape_as_modelled = true.
Proof. exact shape_as_modelled_ok. Qed.
Print Assumptions C15_shape_as_modelled.

Theorem C15_codes_current : current_codes = spec_codes.
Proof. exact current_codes_ok. Qed.
Print Assumptions C15_codes_current.

(* --- the unquoted reading (task name compiled as a regular expression) --- *)

(* on names free of metacharacters the regexp parser + backtracking matcher ARE the property's matcher *)
Theorem C15_raw_plain :
  forall dotall name req, name_plain name = true ->
    raw_match dotall name req =
    match wildcard_match_gen (okw dotall) name req with Some ws => MYes ws | None => MNo end.
Proof. exact raw_plain. Qed.
Print Assumptions C15_raw_plain.

(* partial: whatever the variant, it resolves correctly when the names it reads as
   regular expressions are free of metacharacters and (if its star stops at newlines) the request has none *)
Theorem C15_partial :
  forall v tbl req closest, within_reach v tbl req ->
    mon_choice tbl req (observe closest req (find v tbl req)) = true.
Proof. exact mon_choice_partial. Qed.
Print Assumptions C15_partial.

Theorem C15_current_partial :
  forall tbl req closest, within_reach current_variant tbl req ->
    mon_choice tbl req (observe closest req (find current_variant tbl req)) = true.
Proof. exact current_partial. Qed.
Print Assumptions C15_current_partial.

Theorem C15_current_cli_partial :
  forall tbl reqs ran code,
    (forall r, In r reqs -> within_reach current_variant tbl r) ->
    run_calls current_variant current_codes tbl reqs = (ran, Some code) -> mon_cli tbl reqs code ran = true.
Proof. exact current_cli_partial. Qed.
Print Assumptions C15_current_cli_partial.

(* full statement for the tree under check as soon as the extracted facts say it is repaired *)
Theorem C15_current_full_when_repaired :
  forall closest : oracle,
    (forall wds r w, closest wds r = Some w -> In w wds /\ w <> []) ->
    (forall wds r, has_close wds r = true -> closest wds r <> None) ->
    good current_variant -> v_fuzzy current_variant = true ->
    forall tbl req, mon_C15 tbl req (observe closest req (find current_variant tbl req)) = true.
Proof. exact current_full_when_repaired. Qed.
Print Assumptions C15_current_full_when_repaired.

(* refuted: the full statement fails for the variants of the pinned tree *)
Theorem C15_raw_not_literal_refuted :
  exists tbl req, mon_choice tbl req (observe (fun _ _ => None) req (find raw_variant tbl req)) = false.
Proof. exact (ex_intro _ _ (ex_intro _ _ (proj2 raw_not_literal))). Qed.
Print Assumptions C15_raw_not_literal_refuted.

Theorem C15_raw_panic_refuted :
  exists tbl req, find raw_variant tbl req = Panicked /\
                  mon_choice tbl req (observe (fun _ _ => None) req (find raw_variant tbl req)) = false /\
                  outcome_code spec_codes (find raw_variant tbl req) = Some 2.
Proof. exact (ex_intro _ _ (ex_intro _ _ raw_panics)). Qed.
Print Assumptions C15_raw_panic_refuted.

Theorem C15_no_dotall_refuted :
  exists v tbl req, v_quote v = true /\ v_fuzzy v = true /\
    mon_choice tbl req (observe (fun _ _ => None) req (find v tbl req)) = false.
Proof. exact no_dotall_refuted. Qed.
Print Assumptions C15_no_dotall_refuted.

Theorem C15_no_fuzzy_refuted :
  exists v tbl req, good v /\ forall closest : oracle,
    mon_suggest tbl req (observe closest req (find v tbl req)) = false.
Proof. exact no_fuzzy_refuted. Qed.
Print Assumptions C15_no_fuzzy_refuted.

(* --- non-vacuity --- *)
Local Open Scope string_scope.
Example C15_oracle_exists :
  (forall wds r w, simple_closest wds r = Some w -> In w wds /\ w <> []) /\
  (forall wds r, has_close wds r = true -> simple_closest wds r <> None).
Proof. exact (conj simple_closest_sound simple_closest_complete). Qed.

Example C15_good_exists : good spec_variant.
Proof. exact good_spec. Qed.

Example C15_example_greedy :
  wildcard_match (lit "a*b*c") (lit "aXbYbZc") = Some [lit "XbY"; lit "Z"] /\
  wildcard_match (lit "x.y") (lit "xay") = None /\
  wildcard_match (lit "a(b") (lit "a(b") = Some [].
Proof. exact example_greedy. Qed.

Example C15_example_order :
  let tbl := [mk (lit "build") [lit "b"]; mk (lit "build-*") []; mk (lit "*-x") [lit "b"]; mk (lit "lint") [lit "l"; lit "li"]] in
  find spec_variant tbl (lit "build") = Found Exact (lit "build") [] /\
  find spec_variant tbl (lit "build-x") = Found Wild (lit "build-*") [lit "x"] /\
  find spec_variant tbl (lit "li") = Found Alias (lit "lint") [] /\
  find spec_variant tbl (lit "b") = Ambiguous [lit "build"; lit "*-x"] /\
  find spec_variant tbl (lit "lnit") = NotFound (Some [lit "build"; lit "b"; lit "build-*"; lit "*-x"; lit "b"; lit "lint"; lit "l"; lit "li"]) /\
  run_calls spec_variant spec_codes tbl [lit "build"; lit "nope"] = ([], Some 200) /\
  has_close (words tbl) (lit "lnit") = true /\
  within_reach raw_variant tbl (lit "build-x").
Proof. exact example_order. Qed.
