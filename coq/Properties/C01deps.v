(* C01 — Dependencies complete before a task's commands start: the machine against mon_C01, for
   all programs, configurations and schedules.  Statements only; proofs are in Exec/InvDeps.v. *)
From Coq Require Import List Arith Bool.
Import ListNotations.
From TV Require Import Exec.Model Exec.Monitors Exec.InvTree Exec.InvDeps.

(* whenever a command of an activation is announced or starts executing, every dep of its task is
   satisfied in the trace so far: the dep's own activation printed "finished" / "up to date" /
   "not for current platform", or the one real execution of the dep's dedup key (run: once /
   when_changed) printed "finished" / "up to date" *)
Theorem C01_deps_before_cmds :
  forall p c sched, mon_C01 p c (trace (run p c sched)) = true.
Proof. exact deps_monitor_all_schedules. Qed.
Print Assumptions C01_deps_before_cmds.

(* the harness only sees the observable part of the trace; mon_C01 looks at nothing else *)
Theorem C01_deps_before_cmds_observable :
  forall p c sched, mon_C01 p c (filter observable (trace (run p c sched))) = true.
Proof. exact deps_monitor_observable. Qed.
Print Assumptions C01_deps_before_cmds_observable.

(* state-level core (Exec/InvTree.v): an activation at or past its first command has, for every
   dep, a child activation on the child path, for the dep's task and variable, that returned nil *)
Theorem C01_deps_returned_ok :
  forall p c sched a x,
    get_act (run p c sched) a = Some x -> deps_ok_zone (a_pc x) = true ->
    forall j d, nth_error (t_deps (get_task p (a_task x))) j = Some d ->
      exists k y, get_act (run p c sched) k = Some y /\ a_path y = a_path x ++ [j] /\ a_task y = c_task d /\
                  a_var y = eval_var (a_var x) (c_var d) /\ a_pc y = PDone ROk.
Proof. exact deps_returned_ok. Qed.
Print Assumptions C01_deps_returned_ok.

(* ... and an activation that returns nil is vouched for in the monitor state: by its own
   "finished" / "up to date" / platform-skip line, or by that of the execution of its dedup key *)
Theorem C01_returned_ok_witnessed :
  forall p c sched a y,
    get_act (run p c sched) a = Some y -> okres (a_pc y) = true ->
    exists st, mfold (step01 false p c) st0 (trace (run p c sched)) = Some st /\
      (mem_aid (a_path y) (ok_acts st) = true \/
       exists k, key_of p (a_task y) (a_var y) = Some k /\ mem_key k (ok_keys st) = true).
Proof. exact returned_ok_witnessed. Qed.
Print Assumptions C01_returned_ok_witnessed.

(* ------------------------------------------------------------------ *)
(* Non-vacuity: task 0 has deps 1 and 2, both of which have the dep 3, a run: once task.  Under a
   round-robin schedule the dep activation [0;0;0] (below task 1) executes task 3; the dep
   activation [0;1;0] (below task 2) is skipped in its favour, never prints "finished", and returns
   only after [0;0;0] printed "finished"; only then does task 2 (activation [0;1]) announce its
   command.  The monitor accepts on the strength of the dedup key, and rejects the same trace with
   that announcement moved before the owner's "finished". *)
Module Example.
  Definition tk (deps : list nat) (r : runmode) : task :=
    {| t_deps := map (fun t => {| c_task := t; c_var := VInherit |}) deps; t_cmds := [Shell 0 false];
       t_run := r; t_ignore := false; t_internal := false; t_g := dummy_guards |}.
  Definition ex_prog : prog := [tk [1; 2] Always; tk [3] Always; tk [3] Always; tk [] Once].
  Definition ex_cfg : cfg :=
    {| cf_N := None; cf_parallel := false; cf_force := false; cf_forceall := false; cf_yes := true;
       cf_roots := [{| c_task := 0; c_var := VConst 0 |}]; cf_maxcall := 1000 |}.
  Definition round : list choice := [ChRoot 0; ChStep 0; ChStep 1; ChStep 2; ChStep 3; ChStep 4].
  Fixpoint rounds (n : nat) : list choice := match n with O => [] | S m => round ++ rounds m end.
  Definition ex_sched : list choice := rounds 50.

  Definition ex_observed : list event :=
    [EvStarted [0] 0; EvStarted [0; 0] 1; EvStarted [0; 1] 2;
     EvStarted [0; 0; 0] 3; EvSkipping (KOnce 3) [0; 1; 0];
     EvAnnounce [0; 0; 0] 0; EvProbeBegin [0; 0; 0] 0 0; EvProbeEnd [0; 0; 0] 0; EvFinished [0; 0; 0];
     EvAnnounce [0; 0] 0; EvAnnounce [0; 1] 0;
     EvProbeBegin [0; 0] 0 0; EvProbeBegin [0; 1] 0 0; EvProbeEnd [0; 0] 0; EvProbeEnd [0; 1] 0;
     EvFinished [0; 0]; EvFinished [0; 1];
     EvAnnounce [0] 0; EvProbeBegin [0] 0 0; EvProbeEnd [0] 0; EvFinished [0]].

  Example ex_trace : filter observable (trace (run ex_prog ex_cfg ex_sched)) = ex_observed.
  Proof. vm_compute. reflexivity. Qed.

  Example ex_completes : run_result ex_prog ex_cfg (run ex_prog ex_cfg ex_sched) = Some ROk.
  Proof. vm_compute. reflexivity. Qed.

  (* the skipped activation returns (ghost event) only after the owner's "finished" and return *)
  Example ex_skipped_returns_after_owner :
    filter (fun e => match e with
                     | EvFinished [0; 0; 0] | EvEnd [0; 0; 0] _ | EvEnd [0; 1; 0] _ | EvAnnounce [0; 1] _ => true
                     | _ => false end) (trace (run ex_prog ex_cfg ex_sched))
    = [EvFinished [0; 0; 0]; EvEnd [0; 0; 0] ROk; EvEnd [0; 1; 0] ROk; EvAnnounce [0; 1] 0].
  Proof. vm_compute. reflexivity. Qed.

  (* the skipped dep activation never prints an "ok end" line of its own *)
  Example ex_skipped_silent :
    forallb (fun e => match ok_end e with Some a => negb (aid_eqb a [0; 1; 0]) | None => true end)
            (trace (run ex_prog ex_cfg ex_sched)) = true.
  Proof. vm_compute. reflexivity. Qed.

  Example ex_accepted : mon_C01 ex_prog ex_cfg (trace (run ex_prog ex_cfg ex_sched)) = true.
  Proof. vm_compute. reflexivity. Qed.

  (* the instance of the theorem *)
  Example ex_accepted_by_theorem : mon_C01 ex_prog ex_cfg (trace (run ex_prog ex_cfg ex_sched)) = true.
  Proof. apply C01_deps_before_cmds. Qed.

  (* the monitor discriminates: task 2 announcing its command before the one execution of the
     shared dep finished is rejected *)
  Definition ex_bad : list event :=
    [EvStarted [0] 0; EvStarted [0; 0] 1; EvStarted [0; 1] 2;
     EvStarted [0; 0; 0] 3; EvSkipping (KOnce 3) [0; 1; 0];
     EvAnnounce [0; 0; 0] 0; EvProbeBegin [0; 0; 0] 0 0; EvProbeEnd [0; 0; 0] 0;
     EvAnnounce [0; 1] 0; EvFinished [0; 0; 0]].
  Example ex_bad_rejected : mon_C01 ex_prog ex_cfg ex_bad = false.
  Proof. vm_compute. reflexivity. Qed.
End Example.
