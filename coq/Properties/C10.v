(* C10 - Variable and environment precedence follows the documented order.
   Statements only; proofs are in Vars/Proofs.v, Vars/ProofsSites.v, Vars/ProofsEnv.v.

   Extracted.Facts (regenerated from /repo on every run) supplies VarLayers,
   VarLayersTaskDir, EnvMergeOrder, the dotenv / OS-wins guards,
   CliGlobalsTarget and the three merge facts behind current_flags
   (Run/VarsCases.v). *)
From Coq Require Import List String Bool.
Import ListNotations.
From TV Require Import Vars.Model Vars.Proofs Vars.ProofsSites Vars.ProofsEnv Extracted.Facts Run.VarsCases.
Local Open Scope string_scope.
Local Open Scope list_scope.

(* ---------- shape obligations: the code still has the shape the model follows ---------- *)

(* the loops of Compiler.getVariables, in source order, and which of them use the task's directory *)
Theorem C10_layers_shape :
  VarLayers = expected_layers /\ VarLayersTaskDir = expected_taskdir_layers.
Proof. exact (conj eq_refl eq_refl). Qed.
Print Assumptions C10_layers_shape.

(* that order, read from the back, is the documented one: task vars, call vars,
   included-Taskfile vars, include-statement vars, global vars, (global env:,
   special variables,) OS environment *)
Theorem C10_doc_order : map docsite_of_layer VarLayers = map Some (rev doc_order).
Proof. exact expected_is_documented. Qed.
Print Assumptions C10_doc_order.

Theorem C10_env_shape :
  EnvMergeOrder = expected_envorder /\ TaskDotenvFirstWins = true /\ GlobalDotenvFirstWins = true /\
  GlobalEnvBeatsDotenv = true /\ EnvOsWinsUnlessExperiment = true.
Proof. exact (conj eq_refl (conj eq_refl (conj eq_refl (conj eq_refl eq_refl)))). Qed.
Print Assumptions C10_env_shape.

(* compiledTask's loop over the sh: entries of the task's env does not look at the process
   environment itself: the "already set in the OS" rule lives in env.GetFromVars alone, where it
   is guarded by the ENV_PRECEDENCE experiment (EnvOsWinsUnlessExperiment above) *)
Theorem C10_env_sh_loop_shape : EnvShLoopConsultsProcessEnv = false.
Proof. exact eq_refl. Qed.
Print Assumptions C10_env_sh_loop_shape.

(* Reader.include templates an include statement's fields with the OS environment as the base
   and the including file's vars merged on top: global vars > OS environment there too *)
Theorem C10_include_template_vars_shape :
  IncludeTemplateVarsBase = "env.GetEnviron()" /\ IncludeTemplateVarsTop = "vertex.Taskfile.Vars" /\
  fl_include_os_first current_flags = false.
Proof. exact (conj eq_refl (conj eq_refl eq_refl)). Qed.
Print Assumptions C10_include_template_vars_shape.

(* every extracted fact has a value the model knows how to follow *)
Theorem C10_facts_known : vars_facts_known = true.
Proof. exact eq_refl. Qed.
Print Assumptions C10_facts_known.

(* ---------- variables: order ---------- *)

(* For ANY list of layers: after getVariables, n has the value written by the
   last definition of n in layer order - i.e. the one in the highest layer that
   defines n - evaluated in the state produced by everything before it. *)
Theorem C10_vars :
  forall w ls c n,
    vget n (fst (get_variables w ls c)) =
    match split_last n (flat ls) with
    | None => None
    | Some (pre, de) => Some (entry_value w (fst de) (snd de) (run_flat w pre ([], c)))
    end.
Proof. exact last_writer_wins. Qed.
Print Assumptions C10_vars.

(* ... instantiated at the layer order read from the source *)
Theorem C10_vars_current :
  forall w x c n,
    vget n (fst (get_variables w (assemble VarLayers VarLayersTaskDir (w_os w) x) c)) =
    match split_last n (flat (assemble VarLayers VarLayersTaskDir (w_os w) x)) with
    | None => None
    | Some (pre, de) => Some (entry_value w (fst de) (snd de) (run_flat w pre ([], c)))
    end.
Proof. exact (fun w x => last_writer_wins w (assemble VarLayers VarLayersTaskDir (w_os w) x)). Qed.
Print Assumptions C10_vars_current.

Theorem C10_higher_layers_irrelevant :
  forall w lo hi c n,
    (forall l, In l hi -> defines n l = false) ->
    vget n (fst (get_variables w (lo ++ hi) c)) = vget n (fst (get_variables w lo c)).
Proof. exact higher_layers_irrelevant. Qed.
Print Assumptions C10_higher_layers_irrelevant.

Theorem C10_literals :
  forall w ls c n pre d e post s,
    flat ls = pre ++ (d, e) :: post -> e_name e = n -> e_expr e = Lit s ->
    (forall x, In x post -> e_name (snd x) <> n) ->
    vget n (fst (get_variables w ls c)) = Some s.
Proof. exact literal_precedence. Qed.
Print Assumptions C10_literals.

(* ---------- variables: what the layers contain ---------- *)

(* Full statement, for the repaired include merge: for every Taskfile chain,
   every set of definitions of every kind, direct or called, the values a task
   sees are those of the documented order. *)
Theorem C10_sites :
  forall w fl c c0,
    w_os w = c_os c -> flags_repaired fl = true ->
    case_vars w VarLayers VarLayersTaskDir fl c c0 = doc_vars w c c0.
Proof. exact repaired_follows_documentation. Qed.
Print Assumptions C10_sites.

(* the same through the monitor that cases.v evaluates on the real binary's output *)
Theorem C10_sites_monitor :
  forall sh fl c,
    flags_repaired fl = true ->
    mon_vars sh c (probe_values c (fst (case_vars (mkw sh strong_key (c_os c) (c_exp c))
                                                  VarLayers VarLayersTaskDir fl c []))) = true.
Proof. exact repaired_monitor_true. Qed.
Print Assumptions C10_sites_monitor.

(* the tree as it is now satisfies the full statement as soon as its merge facts are the repaired ones *)
Theorem C10_sites_current :
  flags_repaired current_flags = true ->
  forall sh c, model_mon sh current_flags c = true.
Proof. exact (fun H sh c => repaired_monitor_true sh current_flags c H). Qed.
Print Assumptions C10_sites_current.

(* 7.15: included tasks receive a copy of the PARENT's merged vars as "included
   Taskfile vars": a global of the parent then beats the include statement's
   vars and a NAME=value assignment *)
Theorem C10_include_refuted :
  forall sh fl, fl_snapshot_parent fl = true ->
                model_mon sh fl witness_include = false /\ model_mon sh fl witness_cli = false.
Proof. exact snapshot_parent_refuted. Qed.
Print Assumptions C10_include_refuted.

(* the included file's vars are merged into the parent's: tasks of the root file see them *)
Theorem C10_leak_refuted :
  forall sh fl, fl_merge_up fl = true -> model_mon sh fl witness_leak = false.
Proof. exact merge_up_refuted. Qed.
Print Assumptions C10_leak_refuted.

(* include-statement vars are templated when the file is read *)
Theorem C10_eager_refuted :
  forall sh fl, fl_include_eager fl = true -> model_mon sh fl witness_eager = false.
Proof. exact include_eager_refuted. Qed.
Print Assumptions C10_eager_refuted.

(* which of the three the current tree has, by its extracted facts *)
Theorem C10_current_refuted :
  forall sh,
    (fl_snapshot_parent current_flags = true -> model_mon sh current_flags witness_include = false) /\
    (fl_merge_up current_flags = true -> model_mon sh current_flags witness_leak = false) /\
    (fl_include_eager current_flags = true -> model_mon sh current_flags witness_eager = false).
Proof.
  exact (fun sh => conj (fun H => proj1 (snapshot_parent_refuted sh current_flags H))
                        (conj (merge_up_refuted sh current_flags) (include_eager_refuted sh current_flags))).
Qed.
Print Assumptions C10_current_refuted.

(* whatever the merge does: tasks of the root file follow the documented order
   as long as no included file declares vars *)
Theorem C10_partial :
  forall w fl c c0,
    w_os w = c_os c -> c_depth c = 0 -> files_merged (c_chain c) = [] ->
    case_vars w VarLayers VarLayersTaskDir fl c c0 = doc_vars w c c0.
Proof. exact root_tasks_partial. Qed.
Print Assumptions C10_partial.

(* ---------- NAME=value ---------- *)

Theorem C10_cli :
  CliGlobalsTarget = "e.Taskfile.Vars" /\
  forall fl c n e, efind_last n (c_cli c) = Some e -> efind n (case_gvars fl c) = Some e.
Proof. exact (conj eq_refl cli_is_global_layer). Qed.
Print Assumptions C10_cli.

(* ---------- environment ---------- *)

(* For every set of literal definitions at the env sites: $n in a command of the
   task is task env, else task dotenv (first file that has n), else global env,
   else global dotenv (first file); the process environment wins unless
   TASK_X_ENV_PRECEDENCE - with the merge order and guards read from the source. *)
Theorem C10_env :
  forall sh e vs c n,
    wf_ecase e ->
    let w := current_world sh (n_os e) (n_exp e) in
    vgetd n (env_from_vars w (fst (task_env w current_params
                                            (ectx GlobalEnvBeatsDotenv GlobalDotenvFirstWins e) vs c)))
    = doc_env_value e n.
Proof.
  exact (fun sh e vs c n H =>
           task_env_documented (current_world sh (n_os e) (n_exp e)) current_params e vs c n
                               eq_refl eq_refl eq_refl eq_refl eq_refl H).
Qed.
Print Assumptions C10_env.

Theorem C10_env_monitor :
  forall sh e vs c,
    wf_ecase e ->
    let w := current_world sh (n_os e) (n_exp e) in
    mon_env e (map (fun n => vgetd n (env_from_vars w (fst (task_env w current_params
                          (ectx GlobalEnvBeatsDotenv GlobalDotenvFirstWins e) vs c)))) (n_probes e)) = true.
Proof.
  exact (fun sh e vs c H =>
           task_env_monitor (current_world sh (n_os e) (n_exp e)) current_params e vs c
                            eq_refl eq_refl eq_refl eq_refl eq_refl H).
Qed.
Print Assumptions C10_env_monitor.

(* ---------- non-vacuity ---------- *)

(* the repaired merge on the 7.15 input prints the include statement's value *)
Example C10_example_repaired :
  probe_values witness_include
    (fst (case_vars (mkw (fun _ _ _ => "") strong_key [] false) VarLayers VarLayersTaskDir
                    repaired_flags witness_include [])) = ["inc"].
Proof. vm_compute. reflexivity. Qed.

(* the hypotheses of C10_env are satisfiable, and the rule is not constant *)
Example C10_example_env :
  let e := {| n_os := [("A", "os")]; n_exp := false; n_genv := [("A", "g"); ("B", "g")];
              n_gdot := [[("C", "d1")]; [("C", "d2")]]; n_tdot := []; n_tenv := [("B", "t")];
              n_genv_sh := []; n_tenv_sh := []; n_probes := ["A"; "B"; "C"] |} in
  wf_ecase e /\ map (doc_env_value e) (n_probes e) = ["os"; "t"; "d1"].
Proof.
  split; [repeat split; cbn; repeat constructor; cbn; intuition discriminate | vm_compute; reflexivity].
Qed.
