(* C13 — Guards stop a task with the documented exit class: mon_C13_status (Exec/Monitors.v) for all
   programs, configurations and schedules.  Statements only; proofs are in Exec/InvGuardStatus.v. *)
From Coq Require Import List Arith Bool.
Import ListNotations.
From TV Require Import Exec.Model Exec.Monitors Exec.InvFail Exec.InvStatus Exec.InvGuardStatus.

(* the monitor of Exec/Monitors.v, for every completed run: if no command failed and Run reports an
   error, it is: the typed error of a guard some task of the program can fail (206 / 207 / 205 without
   --yes / a failing precondition), 204 only if the call counter can trip, 202 only if some task is
   internal, a task-run error (201) only if a guard can fail or the counter can trip, "context
   canceled" only if a caller was skipped in favour of a shared execution, a precondition error also
   when a caller was skipped and --force / --force-all is given - and never an exit status *)
Theorem C13_status_all_schedules :
  forall p c sched r, run_result p c (run p c sched) = Some r ->
    mon_C13_status p c (trace (run p c sched)) r = true.
Proof. exact guard_status_all_schedules. Qed.
Print Assumptions C13_status_all_schedules.

(* the precondition clause can be tightened: --force alone does not suffice *)
Theorem C13_status_precond_tight :
  forall p c sched, run_result p c (run p c sched) = Some (RErr EPrecond) ->
    failing_ends p c (trace (run p c sched)) = [] ->
    ex_prefalse p || (skipped (trace (run p c sched)) && cf_forceall c) = true.
Proof. exact guard_status_precond_tight. Qed.
Print Assumptions C13_status_precond_tight.

Theorem C13_precond_needs_forceall :
  forall p c, cf_forceall c = false -> ex_prefalse p = false ->
    forall sched r, run_result p c (run p c sched) = Some r -> r <> RErr EPrecond.
Proof. exact precond_needs_forceall. Qed.
Print Assumptions C13_precond_needs_forceall.

(* the first version of the monitor's precondition clause (some precondition of the program fails)
   holds of every completed run that does not report a precondition error while none can fail ... *)
Theorem C13_status_old_partial :
  forall p c sched r, run_result p c (run p c sched) = Some r ->
    (r = RErr EPrecond -> ex_prefalse p = true) ->
    mon_C13_status_old p c (trace (run p c sched)) r = true.
Proof. exact guard_status_old_partial. Qed.
Print Assumptions C13_status_old_partial.

(* ... but was too strong: with --force-all a precondition that holds fails when its context is
   cancelled (here by a missing required variable of a sibling), and a skipped caller carries that
   error to the root's errgroup before the 206 arrives.  The monitor as it stands accepts the run *)
Example C13_status_precond_clause_too_strong :
  failing_ends exq_prog exq_cfg exq_trace = [] /\
  skipped exq_trace = true /\
  ex_prefalse exq_prog = false /\
  run_result exq_prog exq_cfg (run exq_prog exq_cfg exq_sched) = Some (RErr EPrecond) /\
  mon_C13_status_old exq_prog exq_cfg exq_trace (RErr EPrecond) = false /\
  mon_C13_status exq_prog exq_cfg exq_trace (RErr EPrecond) = true.
Proof. exact guard_status_precond_refuted. Qed.
Print Assumptions C13_status_precond_clause_too_strong.

(* the invariants behind it, for every reachable state: every error value held anywhere (in a
   program point, an errgroup, Run) is of a class the program and flags allow ... *)
Theorem C13_errors_allowed :
  forall p c sched, inv_P (err_static p c) (run p c sched).
Proof. exact run_inv_static. Qed.
Print Assumptions C13_errors_allowed.

(* ... and, as long as nobody is skipped, an activation holding an error only a cancellation
   produces sits below a context cancelled because an error had already been recorded; Run's own
   error is never of that kind *)
Theorem C13_cancellation_never_wins :
  forall p c sched, noskip (trace (run p c sched)) = true ->
    qinv p (run p c sched) /\ rct p (run p c sched).
Proof. exact run_qinv. Qed.
Print Assumptions C13_cancellation_never_wins.

(* "when the guarded task is the one named on the command line the exit status is the documented
   class": a completed run whose only root task fails its own entry guard (required variable: 206,
   enum: 207) returns exactly guard_code, and the CLI exits with that code, with or without --exit-code *)
Theorem C13_root_guard_result :
  forall p c cl e, cf_roots c = [cl] -> t_internal (get_task p (c_task cl)) = false ->
    guard_code c (get_task p (c_task cl)) = Some e ->
    forall sched r, run_result p c (run p c sched) = Some r -> r = RErr e.
Proof. exact root_guard_result. Qed.
Print Assumptions C13_root_guard_result.

Theorem C13_root_guard_exit_status :
  forall p c cl e, cf_roots c = [cl] -> t_internal (get_task p (c_task cl)) = false ->
    guard_code c (get_task p (c_task cl)) = Some e ->
    forall sched r flag, run_result p c (run p c sched) = Some r ->
      exists n, e = ECode n /\ (n = 206 \/ n = 207) /\ r = RErr (ECode n) /\ exit_status flag r = n.
Proof. exact root_guard_exit_status. Qed.
Print Assumptions C13_root_guard_exit_status.

Theorem C13_exit_status_code : forall flag n, exit_status flag (RErr (ECode n)) = n.
Proof. exact exit_status_code. Qed.
Print Assumptions C13_exit_status_code.

(* non-vacuity: a root whose dependency misses a required variable: Run reports 206 and the monitor
   accepts exactly that class (not an untyped error, not 207) *)
Definition exr_mk (deps : list call) (cmds : list cmd) (g : guards) : task :=
  {| t_deps := deps; t_cmds := cmds; t_run := Always; t_ignore := false; t_internal := false; t_g := g |}.
Definition exr_prog : prog :=
  [ exr_mk [exq_call 1] [Shell 0 false] dummy_guards; exr_mk [] [Shell 0 false] exq_noreq ].
Definition exr_cfg : cfg :=
  {| cf_N := Some 1; cf_parallel := false; cf_force := false; cf_forceall := false; cf_yes := false;
     cf_roots := [ exq_call 0 ]; cf_maxcall := 1000 |}.
Definition exr_sched : list choice := ChRoot 0 :: concat (repeat [ChStep 0; ChStep 1] 30).
Definition exr_trace : list event := trace (run exr_prog exr_cfg exr_sched).
Example C13_status_example :
  run_result exr_prog exr_cfg (run exr_prog exr_cfg exr_sched) = Some (RErr (ECode 206)) /\
  failing_ends exr_prog exr_cfg exr_trace = [] /\
  mon_C13_status exr_prog exr_cfg exr_trace (RErr (ECode 206)) = true /\
  mon_C13_status exr_prog exr_cfg exr_trace (RErr (ECode 207)) = false /\
  mon_C13_status exr_prog exr_cfg exr_trace (RErr (EExit 1)) = false /\
  mon_C13_status exr_prog exr_cfg exr_trace (RErr ECancel) = false /\
  exit_status false (RErr (ECode 206)) = 206.
Proof. vm_compute. repeat split; reflexivity. Qed.
Print Assumptions C13_status_example.
