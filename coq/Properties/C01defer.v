(* C01 for deferred commands — a deferred command is a command of the task too: it is only ever
   announced or started by an activation whose deps all ended successfully.  The machine against
   mon_C01d, for all programs, configurations and schedules.  Statements only; proofs are in
   Exec/InvDepsD.v (on top of the invariant of Exec/InvDeps.v). *)
From Coq Require Import List Arith Bool.
Import ListNotations.
From TV Require Import Exec.Model Exec.Monitors Exec.InvDeps Exec.InvDepsD.

Theorem C01_deps_before_deferred_cmds :
  forall p c sched, mon_C01d p c (trace (run p c sched)) = true.
Proof. exact deps_monitor_deferred_all_schedules. Qed.
Print Assumptions C01_deps_before_deferred_cmds.

(* the harness only sees the observable part of the trace; mon_C01d looks at nothing else *)
Theorem C01_deps_before_deferred_cmds_observable :
  forall p c sched, mon_C01d p c (filter observable (trace (run p c sched))) = true.
Proof. exact deps_monitor_deferred_observable. Qed.
Print Assumptions C01_deps_before_deferred_cmds_observable.

(* ------------------------------------------------------------------ *)
(* Non-vacuity: task 0 has the dep 1, a deferred shell command and a shell command.
   (a) the dep fails: task 0 never enters its command loop, so no deferred entry is registered and
       no deferred event appears; the monitor accepts the run, and rejects the same trace with a
       deferred announcement of [0] appended after the dep's failure (mon_C01 does not see it);
   (b) the dep succeeds: the deferred command is announced and runs after "finished" of the dep,
       and the monitor accepts on the strength of that line. *)
Module Example.
  Definition prog_of (dep_exit : nat) : prog :=
    [ {| t_deps := [{| c_task := 1; c_var := VInherit |}]; t_cmds := [DeferShell 0; Shell 0 false];
         t_run := Always; t_ignore := false; t_internal := false; t_g := dummy_guards |};
      {| t_deps := []; t_cmds := [Shell dep_exit false];
         t_run := Always; t_ignore := false; t_internal := false; t_g := dummy_guards |} ].
  Definition ex_fail : prog := prog_of 1.
  Definition ex_good : prog := prog_of 0.
  Definition ex_cfg : cfg :=
    {| cf_N := None; cf_parallel := false; cf_force := false; cf_forceall := false; cf_yes := true;
       cf_roots := [{| c_task := 0; c_var := VConst 0 |}]; cf_maxcall := 1000 |}.
  Definition round : list choice := [ChRoot 0; ChStep 0; ChStep 1].
  Fixpoint rounds (n : nat) : list choice := match n with O => [] | S m => round ++ rounds m end.
  Definition ex_sched : list choice := rounds 40.

  Definition is_deferred (e : event) : bool :=
    match e with EvDAnnounce _ _ | EvDProbeBegin _ _ _ | EvDProbeEnd _ _ => true | _ => false end.

  (* (a) the dep fails *)
  Example fail_trace :
    trace (run ex_fail ex_cfg ex_sched)
    = [EvStarted [0] 0; EvStarted [0; 0] 1; EvAnnounce [0; 0] 0; EvProbeBegin [0; 0] 0 0; EvProbeEnd [0; 0] 0;
       EvEnd [0; 0] (RErr (EExit 1)); EvEnd [0] (RErr (ETaskRun (Some 1)))].
  Proof. vm_compute. reflexivity. Qed.

  Example fail_result : run_result ex_fail ex_cfg (run ex_fail ex_cfg ex_sched) = Some (RErr (ETaskRun (Some 1))).
  Proof. vm_compute. reflexivity. Qed.

  Example fail_no_deferred_event : existsb is_deferred (trace (run ex_fail ex_cfg ex_sched)) = false.
  Proof. vm_compute. reflexivity. Qed.

  Example fail_accepted : mon_C01d ex_fail ex_cfg (trace (run ex_fail ex_cfg ex_sched)) = true.
  Proof. vm_compute. reflexivity. Qed.

  Example fail_then_deferred_rejected :
    mon_C01d ex_fail ex_cfg (trace (run ex_fail ex_cfg ex_sched) ++ [EvDAnnounce [0] 0]) = false.
  Proof. vm_compute. reflexivity. Qed.

  Example fail_then_deferred_probe_rejected :
    mon_C01d ex_fail ex_cfg (trace (run ex_fail ex_cfg ex_sched) ++ [EvDProbeBegin [0] 0 0]) = false.
  Proof. vm_compute. reflexivity. Qed.

  (* mon_C01 alone is blind to it: this is what mon_C01d adds *)
  Example fail_then_deferred_unseen_by_C01 :
    mon_C01 ex_fail ex_cfg (trace (run ex_fail ex_cfg ex_sched) ++ [EvDAnnounce [0] 0]) = true.
  Proof. vm_compute. reflexivity. Qed.

  (* (b) the dep succeeds *)
  Example good_deferred_after_dep :
    filter (fun e => match e with EvFinished [0; 0] => true | _ => is_deferred e end)
           (trace (run ex_good ex_cfg ex_sched))
    = [EvFinished [0; 0]; EvDAnnounce [0] 0; EvDProbeBegin [0] 0 0; EvDProbeEnd [0] 0].
  Proof. vm_compute. reflexivity. Qed.

  Example good_result : run_result ex_good ex_cfg (run ex_good ex_cfg ex_sched) = Some ROk.
  Proof. vm_compute. reflexivity. Qed.

  Example good_accepted : mon_C01d ex_good ex_cfg (trace (run ex_good ex_cfg ex_sched)) = true.
  Proof. vm_compute. reflexivity. Qed.

  (* the instance of the theorem *)
  Example good_accepted_by_theorem : mon_C01d ex_good ex_cfg (trace (run ex_good ex_cfg ex_sched)) = true.
  Proof. apply C01_deps_before_deferred_cmds. Qed.
End Example.
