(* C02 — Commands of a task run one at a time, in order; task calls are synchronous.
   Statements only; proofs are in Exec/InvPhase.v (sequence), Exec/InvUniq.v (call paths). *)
From Coq Require Import List Arith Bool String.
Import ListNotations.
From TV Require Import Exec.Model Exec.Monitors Exec.InvUniq Exec.InvPhase Exec.Shape Extracted.Facts.
Local Open Scope string_scope.

(* tie to the source: stage order of RunTask, dedup protocol, deferred calls templated in the caller *)
Theorem C02_shape : exec_shape_ok = true.
Proof. reflexivity. Qed.
Print Assumptions C02_shape.

(* For every program (any nesting of task calls, deps, defer entries; cyclic ones included), every
   configuration and every schedule: the events of each execution of a task follow the sequence
   automaton of Exec/Monitors.v (phase_step): "started" first; then its shell commands in strictly
   increasing index order, each one announced, started and ended before the next is announced (no
   entry starts before the previous one has completely finished); the command's probe reports the
   variable value the call passed (the callee sees the vars of the call); "finished" only after the
   last command; nothing of the command loop after that. *)
Theorem C02_sequential :
  forall (p : prog) (c : cfg) (sched : list choice), mon_C02seq p c (trace (run p c sched)) = true.
Proof. exact sequence_all_schedules. Qed.
Print Assumptions C02_sequential.

Theorem C02_sequential_observable :
  forall p c sched, mon_C02seq p c (filter observable (trace (run p c sched))) = true.
Proof. exact sequence_observable. Qed.
Print Assumptions C02_sequential_observable.

(* call paths identify executions: two different activations never share a call path, in every
   reachable state (what makes "the events of one execution" well defined in an observed trace) *)
Theorem C02_call_paths_unique :
  forall p c sched i j x y,
    get_act (run p c sched) i = Some x -> get_act (run p c sched) j = Some y -> a_path x = a_path y -> i = j.
Proof. exact paths_unique. Qed.
Print Assumptions C02_call_paths_unique.

(* The bracket part of C02 (a task: entry returns only after the callee, its deps and its deferred
   commands went quiet: mon_C02seal, mon_calls, mon_waits) is evaluated on every observed run of the
   real Executor and enforced by the replay of the run in the machine; its theorem over all
   schedules is not closed yet (see DESIGN.md, C02: partial). *)

(* non-vacuity: a caller with a nested call; the callee's events lie between the caller's commands *)
Definition ex_prog : prog :=
  [ {| t_deps := []; t_cmds := [Shell 0 false; CallC {| c_task := 1; c_var := VConst 5 |}; Shell 0 false];
       t_run := Always; t_ignore := false; t_internal := false; t_g := dummy_guards |};
    {| t_deps := []; t_cmds := [Shell 0 false]; t_run := Always; t_ignore := false; t_internal := false; t_g := dummy_guards |} ].
Definition ex_cfg : cfg :=
  {| cf_N := None; cf_parallel := false; cf_force := false; cf_forceall := false; cf_yes := false;
     cf_roots := [ {| c_task := 0; c_var := VConst 0 |} ]; cf_maxcall := 1000 |}.
Example C02_example :
  let tr := trace (run ex_prog ex_cfg (ChRoot 0 :: List.concat (repeat [ChStep 0; ChStep 1] 40))) in
  run_result ex_prog ex_cfg (run ex_prog ex_cfg (ChRoot 0 :: List.concat (repeat [ChStep 0; ChStep 1] 40))) = Some ROk /\
  mon_C02 ex_prog ex_cfg (filter observable tr) = true /\
  existsb (fun e => match e with EvProbeBegin [0; 1] 0 5 => true | _ => false end) tr = true.
Proof. vm_compute. repeat split; reflexivity. Qed.
