(* C02 — statements only; proofs are in Exec/*.v. *)
From Coq Require Import List Arith Bool String.
Import ListNotations.
From TV Require Import Exec.Model Exec.Monitors Exec.Shape Extracted.Facts.
Local Open Scope string_scope.

(* tie to the source: stage order of RunTask, dedup protocol, error wrapping, deferred calls
   (facts extracted from task.go / hash.go on every run) *)
Theorem C02_shape : exec_shape_ok = true.
Proof. reflexivity. Qed.
Print Assumptions C02_shape.
