(* C02 (calls) -- A task: call among the commands completes before the caller moves on: the machine
   against mon_calls (= mon_C01 plus calls_ok), for all programs, configurations and schedules.
   Statements only; proofs are in Exec/InvCalls.v. *)
From Coq Require Import List Arith Bool.
Import ListNotations.
From TV Require Import Exec.Model Exec.Monitors Exec.InvDeps Exec.InvCalls.

(* whenever a command of an activation is announced or starts executing, every dep of its task and
   every task: call among the earlier commands of its task is satisfied in the trace so far (the
   calls: unless the task has ignore_error), and when an activation prints "finished" every task:
   call among its commands is -- "satisfied": the callee's own activation printed "finished" /
   "up to date" / "not for current platform", or the one real execution of the callee's dedup key
   (run: once / when_changed) printed "finished" / "up to date" *)
Theorem C02_calls_before_next_cmd :
  forall p c sched, mon_calls p c (trace (run p c sched)) = true.
Proof. exact calls_monitor_all_schedules. Qed.
Print Assumptions C02_calls_before_next_cmd.

(* the harness only sees the observable part of the trace; mon_calls looks at nothing else *)
Theorem C02_calls_before_next_cmd_observable :
  forall p c sched, mon_calls p c (filter observable (trace (run p c sched))) = true.
Proof. exact calls_monitor_observable. Qed.
Print Assumptions C02_calls_before_next_cmd_observable.

(* state-level: the activation a caller waits for at command i is the one on the child path
   [path ++ [#deps + i]], running the called task with the variable passed *)
Theorem C02_call_waits_for_callee :
  forall p c sched a x i cid,
    get_act (run p c sched) a = Some x -> a_pc x = PCallWait i cid ->
    exists cl y, nth_error (t_cmds (get_task p (a_task x))) i = Some (CallC cl) /\
      get_act (run p c sched) cid = Some y /\
      a_path y = a_path x ++ [length (t_deps (get_task p (a_task x))) + i] /\
      a_task y = c_task cl /\ a_var y = eval_var (a_var x) (c_var cl).
Proof. exact call_waits_for_callee. Qed.
Print Assumptions C02_call_waits_for_callee.

(* ... and an activation whose command loop has reached index n has every call among the commands
   below n satisfied in the monitor state reached on the trace so far, unless its task ignores
   errors *)
Theorem C02_calls_below_satisfied :
  forall p c sched a x n,
    get_act (run p c sched) a = Some x -> didx (a_pc x) = Some n ->
    exists st, mfold (step01 true p c) st0 (trace (run p c sched)) = Some st /\
      (t_ignore (get_task p (a_task x)) = true \/
       forall i cl, i < n -> nth_error (t_cmds (get_task p (a_task x))) i = Some (CallC cl) ->
         dep_satisfied p c st (a_path x) (a_var x) (length (t_deps (get_task p (a_task x))) + i) cl = true).
Proof. exact calls_below_satisfied. Qed.
Print Assumptions C02_calls_below_satisfied.

(* ------------------------------------------------------------------ *)
(* Non-vacuity: task 0 runs a shell command, calls task 1 (run: once) twice, and runs a second
   shell command.  The first callee activation [0;1] executes task 1; the second, [0;2], is skipped
   in favour of that execution, never prints "finished", and returns at once.  Task 0 announces its
   command 3 only after [0;1] printed "finished".  The monitor accepts -- the first call on the
   strength of the callee's own "finished", the second on the strength of the dedup key -- and
   rejects the same trace with the caller's announcement moved before the callee's "finished". *)
Module Example.
  Definition tk (cmds : list cmd) (r : runmode) (ig : bool) : task :=
    {| t_deps := []; t_cmds := cmds; t_run := r; t_ignore := ig; t_internal := false; t_g := dummy_guards |}.
  Definition call1 : cmd := CallC {| c_task := 1; c_var := VInherit |}.
  Definition ex_prog : prog :=
    [tk [Shell 0 false; call1; call1; Shell 0 false] Always false; tk [Shell 0 false] Once false].
  Definition ex_cfg : cfg :=
    {| cf_N := None; cf_parallel := false; cf_force := false; cf_forceall := false; cf_yes := true;
       cf_roots := [{| c_task := 0; c_var := VConst 0 |}]; cf_maxcall := 1000 |}.
  Definition round : list choice := [ChRoot 0; ChStep 0; ChStep 1; ChStep 2].
  Fixpoint rounds (n : nat) : list choice := match n with O => [] | S m => round ++ rounds m end.
  Definition ex_sched : list choice := rounds 60.

  Definition ex_observed : list event :=
    [EvStarted [0] 0; EvAnnounce [0] 0; EvProbeBegin [0] 0 0; EvProbeEnd [0] 0;
     EvStarted [0; 1] 1; EvAnnounce [0; 1] 0; EvProbeBegin [0; 1] 0 0; EvProbeEnd [0; 1] 0;
     EvFinished [0; 1];
     EvSkipping (KOnce 1) [0; 2];
     EvAnnounce [0] 3; EvProbeBegin [0] 3 0; EvProbeEnd [0] 3; EvFinished [0]].

  Example ex_trace : filter observable (trace (run ex_prog ex_cfg ex_sched)) = ex_observed.
  Proof. vm_compute. reflexivity. Qed.

  Example ex_completes : run_result ex_prog ex_cfg (run ex_prog ex_cfg ex_sched) = Some ROk.
  Proof. vm_compute. reflexivity. Qed.

  (* the caller moves on (ghost events included) only after both callees returned *)
  Example ex_caller_after_callees :
    filter (fun e => match e with
                     | EvFinished [0; 1] | EvEnd [0; 1] _ | EvEnd [0; 2] _ | EvAnnounce [0] 3 => true
                     | _ => false end) (trace (run ex_prog ex_cfg ex_sched))
    = [EvFinished [0; 1]; EvEnd [0; 1] ROk; EvEnd [0; 2] ROk; EvAnnounce [0] 3].
  Proof. vm_compute. reflexivity. Qed.

  Example ex_accepted : mon_calls ex_prog ex_cfg (trace (run ex_prog ex_cfg ex_sched)) = true.
  Proof. vm_compute. reflexivity. Qed.

  (* the instance of the theorem *)
  Example ex_accepted_by_theorem : mon_calls ex_prog ex_cfg (trace (run ex_prog ex_cfg ex_sched)) = true.
  Proof. apply C02_calls_before_next_cmd. Qed.

  (* the monitor discriminates: the caller announcing its next command before the callee printed
     "finished" is rejected ... *)
  Definition ex_bad : list event :=
    [EvStarted [0] 0; EvAnnounce [0] 0; EvProbeBegin [0] 0 0; EvProbeEnd [0] 0;
     EvStarted [0; 1] 1; EvAnnounce [0; 1] 0; EvProbeBegin [0; 1] 0 0; EvProbeEnd [0; 1] 0;
     EvAnnounce [0] 3;
     EvFinished [0; 1]].
  Example ex_bad_rejected : mon_calls ex_prog ex_cfg ex_bad = false.
  Proof. vm_compute. reflexivity. Qed.
  (* ... by the calls clause: mon_C01 (deps only) has nothing to say about it *)
  Example ex_bad_deps_only : mon_C01 ex_prog ex_cfg ex_bad = true.
  Proof. vm_compute. reflexivity. Qed.
  (* and so is the caller printing "finished" while a call is outstanding *)
  Example ex_bad_finished_rejected :
    mon_calls ex_prog ex_cfg
      [EvStarted [0] 0; EvAnnounce [0] 0; EvProbeBegin [0] 0 0; EvProbeEnd [0] 0;
       EvStarted [0; 1] 1; EvFinished [0]] = false.
  Proof. vm_compute. reflexivity. Qed.

  (* ignore_error on the task: the callee fails (exit status 1), the caller carries on with its next
     command and finishes; the monitor accepts because of the exemption -- and rejects the same
     observed trace for the program without ignore_error (whose own run stops after the callee) *)
  Definition ig_prog (ig : bool) : prog :=
    [tk [call1; Shell 0 false] Always ig; tk [Shell 1 false] Always false].
  Definition ig_observed : list event :=
    [EvStarted [0] 0; EvStarted [0; 0] 1; EvAnnounce [0; 0] 0; EvProbeBegin [0; 0] 0 0; EvProbeEnd [0; 0] 0;
     EvAnnounce [0] 1; EvProbeBegin [0] 1 0; EvProbeEnd [0] 1; EvFinished [0]].
  Example ig_trace : filter observable (trace (run (ig_prog true) ex_cfg ex_sched)) = ig_observed.
  Proof. vm_compute. reflexivity. Qed.
  Example ig_accepted : mon_calls (ig_prog true) ex_cfg ig_observed = true.
  Proof. vm_compute. reflexivity. Qed.
  Example ig_needed : mon_calls (ig_prog false) ex_cfg ig_observed = false.
  Proof. vm_compute. reflexivity. Qed.
  Example noig_stops :
    filter observable (trace (run (ig_prog false) ex_cfg ex_sched))
    = [EvStarted [0] 0; EvStarted [0; 0] 1; EvAnnounce [0; 0] 0; EvProbeBegin [0; 0] 0 0; EvProbeEnd [0; 0] 0].
  Proof. vm_compute. reflexivity. Qed.
End Example.
