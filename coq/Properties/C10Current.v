(* C10 - Variable and environment precedence: the statements about the tree AS IT IS NOW.

   Properties/C10.v has C10_sites_current with the premise [flags_repaired current_flags = true].
   That premise is FALSE today: the three include-merge findings are open
   (vars:included-task-gets-snapshot-of-parent-vars (7.15), vars:included-file-vars-merged-into-
   parent-globals, vars:include-statement-vars-templated-at-read-time), so the full statement
   C10_sites does NOT hold for the current tree and is not claimed here.  This file states, against
   Extracted.Facts (regenerated from /repo by every check) and [current_flags] / [current_key] /
   [current_world] (Run/VarsCases.v):

   Fact obligations (closed by computation):
     C10_current_key_strong            current_key = strong_key <- DynCacheKey = ["Sh";"Dir";"Env"]
                                       (repair 712cd7c, C10's "dynamic-var-cache-keyed-by-text-only";
                                       a revert breaks this file)
     C10_current_world_is_documented   current_world = the world the monitor's reference uses
                                       <- DynCacheKey, EnvOsWinsUnlessExperiment
     C10_current_snapshot_parent_open  fl_snapshot_parent current_flags = true <- IncludedTaskfileVarsSource = "t1.Vars"
     C10_current_merge_up_open         fl_merge_up current_flags = true        <- MergeIncludedVarsIntoParent
     C10_current_include_eager_open    fl_include_eager current_flags = true   <- IncludeVarsTemplatedAtRead
     C10_current_flags_not_repaired    flags_repaired current_flags = false (C10_sites_current is vacuous today)
     The three _open facts record OPEN findings: when one of them is repaired in /repo the fact
     and the matching _current_live_refuted below stop compiling; they are then to be replaced
     by the discharged premise, and once all three are repaired by the instance of C10_sites.
   Strongest statements that hold for the current tree (no premise on the facts):
     C10_partial_current, C10_partial_current_monitor - tasks of the root file (include depth 0)
     when no included file declares vars: the documented order, for every value kind, call, cache;
     (C10_vars_current, C10_env, C10_env_monitor, C10_cli of Properties/C10.v are already
     unconditional statements about the current tree.)
   The open findings as statements about today's tree:
     C10_include_current_live_refuted, C10_leak_current_live_refuted, C10_eager_current_live_refuted,
     C10_sites_current_live_refuted.
   Premises NOT discharged: [flags_repaired current_flags = true] (false today, see above). *)
From Coq Require Import List String Bool.
Import ListNotations.
From TV Require Import Vars.Model Vars.Proofs Vars.ProofsSites Vars.ProofsEnv Vars.CurrentFacts
     Extracted.Facts Run.VarsCases.
Local Open Scope string_scope.
Local Open Scope list_scope.

(* ---- fact obligations ---- *)

(* repaired: the dynamic-variable cache is keyed by text, directory and environment *)
Theorem C10_current_key_strong : current_key = strong_key.
Proof. reflexivity. Qed.
Print Assumptions C10_current_key_strong.

Theorem C10_current_world_is_documented :
  forall sh os exp, current_world sh os exp = mkw sh strong_key os exp.
Proof. reflexivity. Qed.
Print Assumptions C10_current_world_is_documented.

(* open findings: what the include merge of the current tree does *)
Theorem C10_current_snapshot_parent_open : fl_snapshot_parent current_flags = true.
Proof. reflexivity. Qed.
Print Assumptions C10_current_snapshot_parent_open.

Theorem C10_current_merge_up_open : fl_merge_up current_flags = true.
Proof. reflexivity. Qed.
Print Assumptions C10_current_merge_up_open.

Theorem C10_current_include_eager_open : fl_include_eager current_flags = true.
Proof. reflexivity. Qed.
Print Assumptions C10_current_include_eager_open.

Theorem C10_current_flags_not_repaired : flags_repaired current_flags = false.
Proof. reflexivity. Qed.
Print Assumptions C10_current_flags_not_repaired.

(* ---- what holds for the current tree ---- *)

(* tasks of the root file follow the documented order as long as no included file declares vars *)
Theorem C10_partial_current :
  forall sh c c0,
    c_depth c = 0 -> files_merged (c_chain c) = [] ->
    case_vars (current_world sh (c_os c) (c_exp c)) VarLayers VarLayersTaskDir current_flags c c0
    = doc_vars (current_world sh (c_os c) (c_exp c)) c c0.
Proof.
  exact (fun sh c c0 => root_tasks_partial (current_world sh (c_os c) (c_exp c)) current_flags c c0 eq_refl).
Qed.
Print Assumptions C10_partial_current.

(* the same through the monitor cases.v evaluates, on the model cases.v compares with (vrun_model) *)
Theorem C10_partial_current_monitor :
  forall sh c,
    c_depth c = 0 -> files_merged (c_chain c) = [] ->
    mon_vars sh c (probe_values c (fst (case_vars (current_world sh (c_os c) (c_exp c))
                                                  VarLayers VarLayersTaskDir current_flags c []))) = true.
Proof. exact (fun sh c => root_tasks_monitor sh current_flags c). Qed.
Print Assumptions C10_partial_current_monitor.

(* ---- the open findings, as statements about the current tree ---- *)

(* 7.15: a global of the parent beats the include statement's vars and a NAME=value assignment *)
Theorem C10_include_current_live_refuted :
  forall sh, model_mon sh current_flags witness_include = false /\ model_mon sh current_flags witness_cli = false.
Proof. exact (fun sh => snapshot_parent_refuted sh current_flags C10_current_snapshot_parent_open). Qed.
Print Assumptions C10_include_current_live_refuted.

(* the included file's vars reach tasks of the root file *)
Theorem C10_leak_current_live_refuted :
  forall sh, model_mon sh current_flags witness_leak = false.
Proof. exact (fun sh => merge_up_refuted sh current_flags C10_current_merge_up_open). Qed.
Print Assumptions C10_leak_current_live_refuted.

(* include-statement vars are templated when the file is read *)
Theorem C10_eager_current_live_refuted :
  forall sh, model_mon sh current_flags witness_eager = false.
Proof. exact (fun sh => include_eager_refuted sh current_flags C10_current_include_eager_open). Qed.
Print Assumptions C10_eager_current_live_refuted.

(* hence the conclusion of C10_sites_current fails for the tree as it is *)
Theorem C10_sites_current_live_refuted :
  forall sh, exists c, model_mon sh current_flags c = false.
Proof. exact (fun sh => ex_intro _ witness_leak (C10_leak_current_live_refuted sh)). Qed.
Print Assumptions C10_sites_current_live_refuted.

(* the witnesses lie outside the domain of C10_partial_current, as they must *)
Example C10_current_witnesses_outside_partial :
  c_depth witness_include = 1 /\ c_depth witness_cli = 1 /\ c_depth witness_eager = 1 /\
  files_merged (c_chain witness_leak) <> [].
Proof. repeat split; try reflexivity. discriminate. Qed.
