(* C07 — guaranteed termination.  Statements only; the proofs are in Exec/Termination.v.

   [effective p c s ch]: the scheduler choice ch is enabled in s (the activation can step / the
   root can be started); a choice that is not effective is a no-op of the machine.
   [count_effective p c s sched]: number of effective choices along sched, starting from s.
   [bound p c]: an executable number computed from the program and the configuration,
     cf_maxcall c * (sum over the tasks t of p of 17 * #cmds t + 14 * #deps t) + 14 * #roots.
   [greedy p c s sched]: at every position of sched, if some choice is enabled in the current
   state then the choice taken is effective (the scheduler never idles while work is enabled).
   [quiescent p c s]: no choice is enabled in s. *)
From Coq Require Import List Arith Bool Lia NArith.
Import ListNotations.
From TV Require Import Exec.Model Exec.Progress Exec.Termination Properties.C07progress.

(* ------------------------------------------------------------------ *)
(* The executor cannot run forever: EVERY program, cyclic ones included *)

(* along any schedule, at most [bound p c] choices are effective *)
Theorem C07_effective_bound :
  forall (p : prog) (c : cfg) (sched : list choice),
    count_effective p c (init_state p) sched <= bound p c.
Proof. exact effective_bound. Qed.
Print Assumptions C07_effective_bound.

Theorem C07_bound_closed :
  forall (p : prog) (c : cfg),
    bound p c = cf_maxcall c * list_sum (map (wt p) (seq 0 (length p))) + length (cf_roots c) * 14.
Proof. exact bound_closed. Qed.
Print Assumptions C07_bound_closed.

Theorem C07_terminates_bound_general :
  forall (p : prog) (c : cfg), exists B, forall sched, count_effective p c (init_state p) sched <= B.
Proof. exact terminates_bound_general. Qed.
Print Assumptions C07_terminates_bound_general.

(* the requested statement (the hypothesis is not needed) *)
Theorem C07_terminates_bound :
  forall (p : prog) (c : cfg), acyclic p ->
    exists B, forall sched, count_effective p c (init_state p) sched <= B.
Proof. exact terminates_bound. Qed.
Print Assumptions C07_terminates_bound.

(* a schedule that never idles while something is enabled has, after bound+1 choices, driven the
   machine into a state where nothing is enabled any more: Run has returned or (cyclic programs
   only, see C07_progress) it is deadlocked; in no case does it run on *)
Theorem C07_greedy_reaches_quiescence :
  forall (p : prog) (c : cfg) (sched : list choice),
    greedy p c (init_state p) sched -> S (bound p c) <= length sched -> quiescent p c (run p c sched).
Proof. exact greedy_reaches_quiescence. Qed.
Print Assumptions C07_greedy_reaches_quiescence.

(* ------------------------------------------------------------------ *)
(* Guaranteed termination for acyclic programs (with C07_progress)      *)

Theorem C07_terminates :
  forall (p : prog) (c : cfg), acyclic p ->
    exists B, forall sched,
      greedy p c (init_state p) sched -> B <= length sched -> run_result p c (run p c sched) <> None.
Proof. exact terminates. Qed.
Print Assumptions C07_terminates.

(* not vacuous: greedy schedules of every length exist (constructively: [greedy_sched]) *)
Theorem C07_greedy_exists :
  forall (p : prog) (c : cfg) (n : nat), exists sched, length sched = n /\ greedy p c (init_state p) sched.
Proof. exact greedy_exists. Qed.
Print Assumptions C07_greedy_exists.

(* ... and the canonical one of length bound+1 makes Run return *)
Theorem C07_terminates_witness :
  forall (p : prog) (c : cfg), acyclic p ->
    run_result p c (run p c (greedy_sched p c (init_state p) (S (bound p c)))) <> None.
Proof. exact terminates_witness. Qed.
Print Assumptions C07_terminates_witness.

(* the same with schedules all of whose choices are effective: they are no longer than the
   bound, and as long as Run has not returned they can be extended by one more effective choice *)
Theorem C07_all_effective_length :
  forall (p : prog) (c : cfg) (sched : list choice),
    all_effective p c (init_state p) sched -> length sched <= bound p c.
Proof. exact all_effective_length. Qed.
Print Assumptions C07_all_effective_length.

Theorem C07_all_effective_extends :
  forall (p : prog) (c : cfg) (sched : list choice), acyclic p ->
    all_effective p c (init_state p) sched -> run_result p c (run p c sched) = None ->
    exists ch, all_effective p c (init_state p) (sched ++ [ch]).
Proof. exact all_effective_extends. Qed.
Print Assumptions C07_all_effective_extends.

(* ------------------------------------------------------------------ *)
(* non-vacuity                                                         *)

(* the example of C07progress.v: of the 880 choices of its round-robin schedule 90 are
   effective; the bound for this program is 1000 * 113 + 28 *)
Example C07_term_ex_bound : N.of_nat (bound ex_prog ex_cfg) = 113028%N.
Proof. vm_compute. reflexivity. Qed.
Example C07_term_ex_count :
  length ex_sched = 880 /\
  count_effective ex_prog ex_cfg (init_state ex_prog) ex_sched = 90 /\
  (count_effective ex_prog ex_cfg (init_state ex_prog) ex_sched <=? bound ex_prog ex_cfg) = true.
Proof. vm_compute. repeat split; reflexivity. Qed.

(* its canonical greedy schedule of length bound+1: 90 effective choices, then Run has returned nil *)
Example C07_term_ex_greedy :
  let g := greedy_sched ex_prog ex_cfg (init_state ex_prog) (S (bound ex_prog ex_cfg)) in
  count_effective ex_prog ex_cfg (init_state ex_prog) g = 90 /\
  run_result ex_prog ex_cfg (run ex_prog ex_cfg g) = Some ROk.
Proof. vm_compute. split; reflexivity. Qed.

(* the cyclic run: once program of C07progress.v: bound 1000 * 14 + 14; its greedy schedule makes 9
   effective choices and is then stuck for good without Run having returned (the deadlock) *)
Example C07_term_cyc :
  N.of_nat (bound cyc_prog cyc_cfg) = 14014%N /\
  let g := greedy_sched cyc_prog cyc_cfg (init_state cyc_prog) (S (bound cyc_prog cyc_cfg)) in
  count_effective cyc_prog cyc_cfg (init_state cyc_prog) g = 9 /\
  run_result cyc_prog cyc_cfg (run cyc_prog cyc_cfg g) = None.
Proof. vm_compute. repeat split; reflexivity. Qed.

(* a cyclic program that does not deadlock: task 0 calls itself (run: always).  It is the call
   counter that ends it: with MaximumTaskCall = 50, 50 activations are created, the 50th fails
   with the 'called too many times' error, which unwinds through all callers; 737 effective
   choices, below the bound 50 * 17 + 14 *)
Definition loop_prog : prog := [ mk [] [ CallC {| c_task := 0; c_var := VInherit |} ] Always ].
Definition loop_cfg : cfg :=
  {| cf_N := Some 2; cf_parallel := false; cf_force := false; cf_forceall := false; cf_yes := false;
     cf_roots := [ {| c_task := 0; c_var := VConst 0 |} ]; cf_maxcall := 50 |}.
Example C07_term_loop :
  let g := greedy_sched loop_prog loop_cfg (init_state loop_prog) (S (bound loop_prog loop_cfg)) in
  bound loop_prog loop_cfg = 864 /\
  count_effective loop_prog loop_cfg (init_state loop_prog) g = 737 /\
  length (acts (run loop_prog loop_cfg g)) = 50 /\
  run_result loop_prog loop_cfg (run loop_prog loop_cfg g) = Some (RErr (ETaskRun None)).
Proof. vm_compute. repeat split; reflexivity. Qed.
