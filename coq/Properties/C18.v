(* C18 — Concurrent execution is free of data races (PARTIAL: see the note at the end).
   Statements only; proofs are in Race/Proofs.v and Race/ProofsTable.v. *)
From Coq Require Import List String Bool Arith.
Import ListNotations.
From TV Require Import Race.Model Race.Proofs Extracted.Facts Run.RaceCases Race.ProofsTable.

(* The discipline is sufficient: if every object class of the access table T is
   atomic, or only read on task goroutines (immutable after Setup), or guarded
   by one mutex of the instance at every access (exclusively at every write), or
   ordered by one signal channel (written by its creator before the close, read
   after waiting for it) -- per-call copies and accesses made before the first
   go statement being exempt -- then in EVERY execution (any number of threads,
   any interleaving the mutex / fork / join / channel semantics allows, any
   length) whose accesses are instances of T's entries made under the recorded
   synchronisation, no two conflicting accesses, not both atomic, are unordered
   by happens-before. *)
Theorem C18_discipline_sound :
  forall (owner sig_owner : oid -> option tid) (T : table) (tr : trace),
    lockset_ok T = true -> valid tr -> annotated owner sig_owner T tr -> race_free tr.
Proof. exact discipline_sound. Qed.
Print Assumptions C18_discipline_sound.

(* The table extracted from the current sources (extract/facts_race.go) was
   produced by a successful extraction ... *)
Theorem C18_extraction_ok : race_extract_ok = true.
Proof. exact extract_ok. Qed.
Print Assumptions C18_extraction_ok.

(* ... and every class that breaks the discipline is a recorded open finding
   (Run/RaceCases.v: current_known_offenders; [] once they are repaired):
   on the current tree groupWriter.buff, prefixWriter.buff, MatrixRow.Value. *)
Theorem C18_table_offenders : subset_b (offenders current_table) current_known_offenders = true.
Proof. exact table_offenders. Qed.
Print Assumptions C18_table_offenders.

Theorem C18_table_ok_modulo_known :
  lockset_ok (drop_classes current_known_offenders current_table) = true.
Proof. exact table_ok_modulo_known. Qed.
Print Assumptions C18_table_ok_modulo_known.

(* Full statement for the tree without open findings. *)
Theorem C18_table_ok :
  current_known_offenders = [] ->
  lockset_ok current_table = true /\
  forall owner sig_owner tr, valid tr -> annotated owner sig_owner current_table tr -> race_free tr.
Proof.
  exact (fun H => conj (offenders_nil_ok current_table
                          (subset_nil _ (eq_ind_r (fun l => subset_b (offenders current_table) l = true) table_offenders (eq_sym H))))
                       (fun o s tr Hv Ha => current_sound o s H tr Hv Ha)).
Qed.
Print Assumptions C18_table_ok.

(* Meanwhile: executions that stay away from the offending classes are race free. *)
Theorem C18_current_partial :
  forall owner sig_owner tr, valid tr ->
    annotated owner sig_owner (drop_classes current_known_offenders current_table) tr -> race_free tr.
Proof. exact current_partial. Qed.
Print Assumptions C18_current_partial.

(* Why an offending entry matters: a table with one unlocked write of a shared
   instance on task goroutines (the shape of resolveMatrixRefs: row.Value = ...)
   has a valid, annotated execution with a race. *)
Theorem C18_unlocked_write_refuted :
  exists T owner sig_owner tr,
    lockset_ok T = false /\ valid tr /\ annotated owner sig_owner T tr /\ ~ race_free tr.
Proof. exact unlocked_write_refuted. Qed.
Print Assumptions C18_unlocked_write_refuted.

(* The executable happens-before check never misses an ordering (used to turn
   a computed "no path" into "not ordered"). *)
Theorem C18_hb_check_complete : forall tr i j, hb tr i j -> hb_b (List.length tr) tr i j = true.
Proof. exact hb_b_complete. Qed.
Print Assumptions C18_hb_check_complete.

(* Non-vacuity: a table using all four disciplines (mutex with reader and
   writer, immutable after Setup, signal channel, per-call copy) and a 19-event
   execution of three threads that meets every hypothesis of C18_discipline_sound. *)
Example C18_example :
  lockset_ok good_table = true /\ valid good_trace /\
  annotated good_owner good_sig_owner good_table good_trace /\ race_free good_trace.
Proof.
  exact (conj good_table_ok (conj good_trace_valid (conj good_trace_annotated
          (discipline_sound good_owner good_sig_owner good_table good_trace good_table_ok good_trace_valid good_trace_annotated)))).
Qed.

(* PARTIAL.  What is proved: the discipline implies happens-before race freedom
   in the model, and the extracted table meets the discipline except for the
   named classes.  What is NOT proved: that the accesses of the Go code are
   exactly the table's entries (the table is extracted syntactically:
   extract/facts_race.go, with the assumptions listed in race_assumptions) and
   that the Go race detector's verdict coincides with the model's (sampled by
   harness/drivers/race under -race). *)
