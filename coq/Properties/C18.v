(* C18 — Concurrent execution is free of data races (PARTIAL: see the note at the end).
   Statements only; proofs are in Race/Proofs.v and Race/ProofsTable.v. *)
From Coq Require Import List String Bool Arith.
Import ListNotations.
From TV Require Import Race.Model Race.Proofs Extracted.Facts Run.RaceCases Race.ProofsTable.

(* The discipline is sufficient: if every object class of the access table T is
   atomic, or only read on task goroutines (immutable after Setup), or guarded
   by one mutex of the instance at every access (exclusively at every write), or
   ordered by one signal channel (written by its creator before the close, read
   after waiting for it) -- per-call copies and accesses made before the first
   go statement being exempt -- then in EVERY execution (any number of threads,
   any interleaving the mutex / fork / join / channel semantics allows, any
   length) whose accesses are instances of T's entries made under the recorded
   synchronisation, no two conflicting accesses, not both atomic, are unordered
   by happens-before. *)
Theorem C18_discipline_sound :
  forall (owner sig_owner : oid -> option tid) (T : table) (tr : trace),
    lockset_ok T = true -> valid tr -> annotated owner sig_owner T tr -> race_free tr.
Proof. exact discipline_sound. Qed.
Print Assumptions C18_discipline_sound.

(* The table extracted from the current sources (extract/facts_race.go) was
   produced by a successful extraction ... *)
Theorem C18_extraction_ok : race_extract_ok = true.
Proof. exact extract_ok. Qed.
Print Assumptions C18_extraction_ok.

(* ... and it meets the discipline, for the CURRENT tree, with no class exempted
   (finite and exact: vm_compute over the extracted table).  Re-introducing an
   unlocked write of a shared instance on a task goroutine -- or handing a
   shared object to code that mutates its "own copy", e.g. passing a deferred
   command on without DeepCopy -- changes the extracted table and breaks this. *)
Theorem C18_table_ok : lockset_ok current_table = true.
Proof. exact table_ok. Qed.
Print Assumptions C18_table_ok.

Theorem C18_table_no_offenders : offenders current_table = [] /\ current_known_offenders = [].
Proof. exact (conj table_no_offenders eq_refl). Qed.
Print Assumptions C18_table_no_offenders.

(* Hence: every execution annotated by the extracted table is race free. *)
Theorem C18_current_sound :
  forall owner sig_owner tr, valid tr -> annotated owner sig_owner current_table tr -> race_free tr.
Proof. exact current_sound. Qed.
Print Assumptions C18_current_sound.

(* Cross-check with the fact extracted for C11 (extract/facts_vars.go): a defer:
   entry reaches the compiled task as a copy, not as the shared definition
   (runDeferred renders it in place). *)
Theorem C18_deferred_entry_copied : DeferEntrySharedWithDefinition = false.
Proof. reflexivity. Qed.
Print Assumptions C18_deferred_entry_copied.

(* The named pre-fix variant: with the entries as they were extracted before
   /repo 25abf76 (output buffers) and 3d636e5 (matrix ref), exactly those three
   classes offend ... *)
Theorem C18_prefix_variant_refuted :
  offenders (current_table ++ prefix_offending_table)%list
  = ["internal/output.groupWriter.buff"; "internal/output.prefixWriter.buff"; "taskfile/ast.MatrixRow.Value"]%string.
Proof. exact prefix_table_offenders. Qed.
Print Assumptions C18_prefix_variant_refuted.

(* ... and such an entry matters: the table holding the pre-fix resolveMatrixRefs
   entry (row.Value = ..., no lock, shared instance, task goroutines) has a
   valid, annotated execution with a race. *)
Theorem C18_unlocked_write_refuted :
  In bad_entry prefix_offending_table /\
  exists owner sig_owner tr,
    lockset_ok [bad_entry] = false /\ valid tr /\ annotated owner sig_owner [bad_entry] tr /\ ~ race_free tr.
Proof. exact prefix_matrix_refuted. Qed.
Print Assumptions C18_unlocked_write_refuted.

(* The executable happens-before check never misses an ordering (used to turn
   a computed "no path" into "not ordered"). *)
Theorem C18_hb_check_complete : forall tr i j, hb tr i j -> hb_b (List.length tr) tr i j = true.
Proof. exact hb_b_complete. Qed.
Print Assumptions C18_hb_check_complete.

(* Non-vacuity: a table using all four disciplines (mutex with reader and
   writer, immutable after Setup, signal channel, per-call copy) and a 19-event
   execution of three threads that meets every hypothesis of C18_discipline_sound. *)
Example C18_example :
  lockset_ok good_table = true /\ valid good_trace /\
  annotated good_owner good_sig_owner good_table good_trace /\ race_free good_trace.
Proof.
  exact (conj good_table_ok (conj good_trace_valid (conj good_trace_annotated
          (discipline_sound good_owner good_sig_owner good_table good_trace good_table_ok good_trace_valid good_trace_annotated)))).
Qed.

(* PARTIAL.  What is proved: the discipline implies happens-before race freedom
   in the model, and the table extracted from the current tree meets the
   discipline.  What is NOT proved: that the accesses of the Go code are
   exactly the table's entries (the table is extracted syntactically:
   extract/facts_race.go; its one remaining assumption is listed in race_assumptions) and
   that the Go race detector's verdict coincides with the model's (sampled by
   harness/drivers/race under -race). *)
