(* C09 - Loading a Taskfile tree is deterministic: the statements about the tree AS IT IS NOW.

   Properties/C09.v proves C09_det and C09_order for every variant v with [v_declared v = true];
   nothing there says that [current_variant] (Run/MergeCases.v, from the extracted facts) has the
   flag, and C09_det_refuted is guarded by [v_declared current_variant = false] (vacuous after the
   repair).  This file discharges the premise against Extracted.Facts (regenerated from /repo by
   every check): reverting e5e2d57 (graph.Merge walks the includes of each vertex in declared
   order instead of PredecessorMap in topological-sort order) makes C09_current_declared false
   and the build breaks.

   Fact obligations (closed by computation on Extracted.Facts):
     C09_current_declared      v_declared <- "AdjacencyMap" and ("Keys" or "All") in graph_merge_calls,
                               no "PredecessorMap"
     C09_current_dc_struct_ok  the part of valid_load that speaks about the variant (needed by C09_order)
     C09_current_copies_vars   Vars.Merge stamps include.Dir on a copy of the variable (v_inplace = false)
     C09_current_stable_sort   graph.Merge calls StableTopologicalSort and not TopologicalSort
   Statements about the current tree (what stays a hypothesis is the well-formedness of the input:
   valid_pi g pi / wf_graphb g / valid_sigma s, and for the order "the load succeeded"):
     C09_det_current, C09_order_current.
   Example: on the sibling tree of the former finding 7.14 both topological orders give the same
   vars and the same table order (the canonical one).
   No premise is left undischarged for C09; no finding is open. *)
From Coq Require Import List String Bool.
Import ListNotations.
From TV Require Import Merge.Model Merge.Spec Merge.ProofsBase Merge.ProofsRun Merge.ProofsC08Mon Merge.ProofsC08Refs
     Merge.ProofsC09 Merge.ProofsKeys Merge.ProofsC09b Extracted.Facts Run.MergeCases Merge.ProofsCurrent.

(* ---- fact obligations ---- *)

Theorem C09_current_declared : v_declared current_variant = true.
Proof. vm_compute; reflexivity. Qed.
Print Assumptions C09_current_declared.

Theorem C09_current_copies_vars : v_inplace current_variant = false.
Proof. vm_compute; reflexivity. Qed.
Print Assumptions C09_current_copies_vars.

Theorem C09_current_dc_struct_ok : dc_struct_ok current_variant = true.
Proof. vm_compute; reflexivity. Qed.
Print Assumptions C09_current_dc_struct_ok.

(* the order in which graph.Merge processes sibling Taskfiles is a function of the graph (stable sort):
   needed because ast.Var.Dir, stamped in place into shared included Taskfiles by Vars.Merge, is
   outside the model (Run/MergeCases.v: sort_stable); graph.TopologicalSort ranges over Go maps *)
Theorem C09_current_stable_sort : sort_stable = true.
Proof. vm_compute; reflexivity. Qed.
Print Assumptions C09_current_stable_sort.

(* ---- the statements at the current tree, without premises on the facts ---- *)

(* the whole result (tasks in order, aliases, vars, env, output, error flag) is the same for every
   topological order graph.TopologicalSort may return and every order of the edge data *)
Theorem C09_det_current :
  forall g pi pi' s s', valid_pi g pi -> valid_pi g pi' ->
    merge_all current_variant g pi s = merge_all current_variant g pi' s'.
Proof. exact (fun g pi pi' s s' => det_declared current_variant g pi pi' s s' C09_current_declared C09_current_copies_vars). Qed.
Print Assumptions C09_det_current.

(* ... and the task table is in Taskfile order: own tasks, then the includes in declared order, recursively *)
Theorem C09_order_current :
  forall g pi s, wf_graphb g = true -> valid_pi g pi -> valid_sigma s ->
    f_err (merge_all current_variant g pi s) = None ->
    map fst (f_tasks (merge_all current_variant g pi s)) = canonical_keys g.
Proof.
  exact (fun g pi s Hw Hp Hs =>
           order_declared current_variant g pi s
             (Build_valid_load current_variant g pi s C09_current_dc_struct_ok C09_current_copies_vars Hw Hp Hs) C09_current_declared).
Qed.
Print Assumptions C09_order_current.

(* ---- the witness of the repaired finding 7.14, at the current variant ---- *)
Local Open Scope string_scope.

Example C09_current_siblings :
  let g := graph_of fs_siblings in
  let pi := ["/R/Taskfile.yml"; "/R/b/Taskfile.yml"; "/R/d/Taskfile.yml"] in
  let pi' := ["/R/Taskfile.yml"; "/R/d/Taskfile.yml"; "/R/b/Taskfile.yml"] in
  f_vars (merge_all current_variant g pi sigma_id) = [("X", "v=from-d")] /\
  f_vars (merge_all current_variant g pi' sigma_id) = [("X", "v=from-d")] /\
  map fst (f_tasks (merge_all current_variant g pi sigma_id)) = ["show"; "b:t"; "d:t"] /\
  map fst (f_tasks (merge_all current_variant g pi' sigma_id)) = ["show"; "b:t"; "d:t"].
Proof. vm_compute. repeat split; reflexivity. Qed.
