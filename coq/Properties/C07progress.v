(* C07 — no deadlock.  Statement only; the proof is in Exec/Progress.v. *)
From Coq Require Import List Arith Bool Lia.
Import ListNotations.
From TV Require Import Exec.Model Exec.Progress.

(* For every program whose static call graph (deps, task: calls, deferred task: calls) is acyclic,
   every configuration (any --concurrency value, limited or unlimited; parallel or sequential
   roots) and every schedule: in the state reached, some activation can take a step, or Run can
   start another root, or Run has returned.  The executor never deadlocks on its concurrency
   slots, on dependency joins, on nested calls or on deduplicated (run: once / when_changed)
   tasks.  No side condition on the pre-check: when it fails, Run has returned from the start. *)
Theorem C07_progress :
  forall (p : prog) (c : cfg) (sched : list choice), acyclic p ->
    let s := run p c sched in
    (exists a s', step p c s a = Some s') \/ (exists k s', start_root p c s k = Some s') \/ run_result p c s <> None.
Proof. exact progress. Qed.
Print Assumptions C07_progress.

(* ------------------------------------------------------------------ *)
(* non-vacuity                                                         *)

Definition mk (deps : list call) (cmds : list cmd) (r : runmode) : task :=
  {| t_deps := deps; t_cmds := cmds; t_run := r; t_ignore := false; t_internal := false; t_g := dummy_guards |}.

(* task 0: two deps on the run: once task 1, a command, a call of task 2 and a deferred call of task 2 *)
Definition ex_prog : prog :=
  [ mk [ {| c_task := 1; c_var := VInherit |}; {| c_task := 1; c_var := VConst 7 |} ]
       [ Shell 0 false; CallC {| c_task := 2; c_var := VInherit |}; DeferCall {| c_task := 2; c_var := VConst 3 |} ] Always;
    mk [] [Shell 0 false] Once;
    mk [] [Shell 0 false] Always ].

Definition ex_cfg : cfg :=
  {| cf_N := Some 1; cf_parallel := false; cf_force := false; cf_forceall := false; cf_yes := false;
     cf_roots := [ {| c_task := 0; c_var := VConst 0 |}; {| c_task := 2; c_var := VConst 0 |} ]; cf_maxcall := 1000 |}.

Example C07_progress_acyclic : acyclic ex_prog.
Proof.
  exists (fun t => match t with 0 => 1 | _ => 0 end).
  intros t d H. destruct t as [|[|[|[|t]]]]; unfold callees, get_task in H; simpl in H;
    repeat (destruct H as [<-|H]; [lia|]); contradiction.
Qed.

(* disabled choices are no-ops, so a generous round-robin schedule drives Run to its end:
   with one slot, through both deps (one skipped as a duplicate), the call, the deferred call
   and the second root, Run returns nil *)
Definition ex_sched : list choice :=
  concat (repeat [ChRoot 0; ChRoot 1; ChStep 0; ChStep 1; ChStep 2; ChStep 3; ChStep 4; ChStep 5] 110).
Example C07_progress_terminates :
  run_result ex_prog ex_cfg (run ex_prog ex_cfg ex_sched) = Some ROk /\
  length (acts (run ex_prog ex_cfg ex_sched)) = 6.
Proof. vm_compute. split; reflexivity. Qed.

(* blocked activations do occur: after the fork the root activation waits at its join
   (it cannot step) while its first dep can *)
Example C07_progress_blocked_state :
  let s := run ex_prog ex_cfg ([ChRoot 0] ++ repeat (ChStep 0) 5) in
  step ex_prog ex_cfg s 0 = None /\ step ex_prog ex_cfg s 1 <> None /\ run_result ex_prog ex_cfg s = None.
Proof. vm_compute. repeat split; discriminate. Qed.

(* the hypothesis is needed: a run: once task that depends on itself deadlocks — the child is
   skipped in favour of its own parent and waits for it, the parent waits for the child *)
Definition cyc_prog : prog := [ mk [ {| c_task := 0; c_var := VInherit |} ] [] Once ].
Definition cyc_cfg : cfg :=
  {| cf_N := None; cf_parallel := false; cf_force := false; cf_forceall := false; cf_yes := false;
     cf_roots := [ {| c_task := 0; c_var := VConst 0 |} ]; cf_maxcall := 1000 |}.
Example C07_progress_needs_acyclic :
  let s := run cyc_prog cyc_cfg ([ChRoot 0] ++ repeat (ChStep 0) 4 ++ repeat (ChStep 1) 5) in
  (forall a, step cyc_prog cyc_cfg s a = None) /\ (forall k, start_root cyc_prog cyc_cfg s k = None) /\
  run_result cyc_prog cyc_cfg s = None.
Proof.
  split; [|split].
  - intros [|[|[|a]]]; vm_compute; reflexivity.
  - intros [|k]; vm_compute; [reflexivity|destruct k; reflexivity].
  - vm_compute. reflexivity.
Qed.

(* ------------------------------------------------------------------ *)
(* "terminates having run all required work" is FALSE of the faithful model (finding 7.34): the
   per-task call counter that ends cyclic references also counts the references of an acyclic
   program, so a task referenced MaximumTaskCall times from an acyclic Taskfile ends with the
   'called too many times' class although nothing is cyclic.  Witness with cf_maxcall = 2 (the
   machine is parametric in it; /repo's value is the extracted fact maximum_task_call): task 0
   calls task 1 twice; the second call trips the counter (count >= maxcall, as in
   `atomic.AddInt32(...) >= MaximumTaskCall`), Run returns a task-run error and the second
   execution of task 1 never happens.  The harness replays this on the implementation with
   MaximumTaskCall references (stream "fanout"); it is the recorded finding
   exec:acyclic-fanout-trips-call-counter. *)
Definition fan_prog : prog :=
  [ mk [] [ CallC {| c_task := 1; c_var := VInherit |}; CallC {| c_task := 1; c_var := VInherit |} ] Always;
    mk [] [Shell 0 false] Always ].
Definition fan_cfg : cfg :=
  {| cf_N := None; cf_parallel := false; cf_force := false; cf_forceall := false; cf_yes := false;
     cf_roots := [ {| c_task := 0; c_var := VConst 0 |} ]; cf_maxcall := 2 |}.
Definition fan_sched : list choice := concat (repeat [ChRoot 0; ChStep 0; ChStep 1; ChStep 2] 40).

Example C07_fanout_acyclic : acyclic fan_prog.
Proof.
  exists (fun t => match t with 0 => 1 | _ => 0 end).
  intros t d H. destruct t as [|[|[|t]]]; unfold callees, get_task in H; simpl in H;
    repeat (destruct H as [<-|H]; [lia|]); contradiction.
Qed.

Theorem C07_all_work_refuted :
  exists p c sched, acyclic p /\
    (exists e, run_result p c (run p c sched) = Some (RErr e)) /\
    length (filter (fun ev => match ev with EvProbeBegin _ _ _ => true | _ => false end) (trace (run p c sched))) = 1.
Proof.
  exists fan_prog, fan_cfg, fan_sched. split; [exact C07_fanout_acyclic|]. split.
  - eexists. vm_compute. reflexivity.
  - vm_compute. reflexivity.
Qed.
Print Assumptions C07_all_work_refuted.
