(* C17 — Grouped and prefixed output is never torn, lost or duplicated.
   Statements only; proofs are in Output/Proofs.v. *)
From Coq Require Import List NArith Bool Permutation.
Import ListNotations.
From TV Require Import Base.Shuffle Output.Model Output.Proofs Extracted.Facts Run.OutputCases.

(* current_one_write (Run/OutputCases.v) = Nat.eqb group_close_sink_writes 1, the
   number of separate sink writes of groupWriter.close extracted from the source. *)

(* output: group — for every set of commands and every interleaving of their
   writes on the shared stream, the stream is a concatenation of whole blocks
   (begin, the command's bytes in order, end), one per command that flushed. *)
Theorem C17_group_contiguous :
  forall cfg cmds w,
    Shuffle (map (group_atoms current_one_write cfg) cmds) w ->
    mon_group cfg cmds (stream w) = true /\
    exists order, Permutation order (filter (g_flushes cfg) cmds) /\
                  stream w = concat (map (g_block cfg) order).
Proof.
  exact (fun cfg cmds w H =>
    conj (group_monitor_holds cfg cmds w H) (group_blocks_contiguous cfg cmds w H)).
Qed.
Print Assumptions C17_group_contiguous.

(* error_only: a block appears iff the command failed (and wrote something) *)
Theorem C17_group_error_only :
  forall cfg c, g_error_only cfg = true ->
    (group_atoms current_one_write cfg c <> [] <-> g_failed c = true /\ g_body c <> []).
Proof. exact group_error_only. Qed.
Print Assumptions C17_group_error_only.

(* tie to the source for the prefixed writer: the model takes the four writes of one line (bracket,
   prefix, bracket, line) as ONE mutex section (pw_atom); the extractor reports on every run whether
   prefixWriter.writeLine still takes the mutex.  Narrowing or dropping that lock breaks this
   obligation (the scheduled runs, R_prun, then look for a torn line). *)
Theorem C17_prefixed_mutex_section_tie : prefixed_writeline_locks = true.
Proof. reflexivity. Qed.
Print Assumptions C17_prefixed_mutex_section_tie.

(* output: prefixed — for every chunking of every command's output and every
   interleaving of the mutex sections, the stream consists of whole prefixed
   lines, each command's lines in order, each exactly once. *)
Theorem C17_prefixed_lines :
  forall (cmds : list (bytes * list bytes)) w,
    Shuffle (map pcmd_atoms cmds) w -> mon_prefixed cmds (stream w) = true.
Proof. exact prefixed_monitor_holds. Qed.
Print Assumptions C17_prefixed_lines.

Theorem C17_prefixed_chunking_invariant :
  forall p chunks,
    map (@concat N) (prefixed_atoms p chunks) = map (pline p) (lines_of (concat chunks)).
Proof. exact prefixed_per_command. Qed.
Print Assumptions C17_prefixed_chunking_invariant.

(* no byte lost or duplicated; lines are whole *)
Theorem C17_no_loss :
  forall s, concat (lines_of s) = s ++ (if needs_nl s then [nl] else []).
Proof. exact lines_no_loss. Qed.
Print Assumptions C17_no_loss.

Theorem C17_lines_whole : forall s, Forall whole_line (lines_of s).
Proof. exact lines_are_whole. Qed.
Print Assumptions C17_lines_whole.

(* why a single write matters: with begin and body written separately a block can be torn *)
Theorem C17_two_writes_refuted :
  exists cfg cmds w, Shuffle (map (group_atoms false cfg) cmds) w /\ mon_group cfg cmds (stream w) = false.
Proof. exact (ex_intro _ _ (ex_intro _ _ (ex_intro _ _ group_two_writes_refuted))). Qed.
Print Assumptions C17_two_writes_refuted.

(* non-vacuity: a concrete interleaving of two commands meets the hypothesis *)
Example C17_example :
  let cfg := {| g_begin := [66;10]%N; g_end := [69;10]%N; g_error_only := false |} in
  let a := {| g_chunks := [[97]%N; [97;10]%N]; g_failed := false |} in
  let b := {| g_chunks := [[98;10]%N]; g_failed := true |} in
  Shuffle (map (group_atoms true cfg) [a; b]) [[g_block cfg b]; [g_block cfg a]].
Proof.
  cbn. apply (Sh_take [[[[66; 10; 97; 97; 10; 69; 10]%N]]] _ [] []).
  apply (Sh_take [] _ [] [[]]). apply Sh_done. repeat constructor.
Qed.
