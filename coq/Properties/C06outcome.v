(* C06 (outcome) -- "Every referencing task waits for the one real execution and observes its
   outcome (success or failure)": the machine, for all programs, configurations and schedules.
   Statements only; proofs are in Exec/InvOutcome.v.  (The counting half of C06 -- each key is
   started at most once, whoever is skipped is skipped in favour of a started execution -- is
   Exec/InvDedup.v / Properties/C06.v.)

   In the model the relation between the result a skipped activation returns and the result of
   the one execution is plain equality: PWWait o -> PWReacq r reads r = exec_result of the owner o,
   PWReacq r -> PDone r hands r on as it is (no wrapping, no look at the waiter's own context, the
   slot reacquire only delays).  Nothing of the expected statement turned out false. *)
From Coq Require Import List Arith Bool.
Import ListNotations.
From TV Require Import Exec.Model Exec.Monitors Exec.InvTree Exec.InvOutcome.

(* (1) if the activation on the path h of a "skipping execution of task: k" line has returned r,
   then the owner o of k in the dedup table is another activation, it registered k, and its
   execution has completed with exactly r *)
Theorem C06_skipped_returns_owner_result :
  forall p c sched k h j y r,
    In (EvSkipping k h) (trace (run p c sched)) ->
    get_act (run p c sched) j = Some y -> a_path y = h -> act_result (run p c sched) j = Some r ->
    exists o z, lookup_key (dedup (run p c sched)) k = Some o /\ o <> j /\
                get_act (run p c sched) o = Some z /\ a_regkey z = Some k /\
                exec_result (run p c sched) o = Some r.
Proof. exact skipped_returns_owner_result. Qed.
Print Assumptions C06_skipped_returns_owner_result.

(* (1) until then it is a waiter: it never executes the task itself *)
Theorem C06_skipped_waits :
  forall p c sched k h j y,
    In (EvSkipping k h) (trace (run p c sched)) ->
    get_act (run p c sched) j = Some y -> a_path y = h -> act_result (run p c sched) j = None ->
    wpc (a_pc y) = true.
Proof. exact skipped_waits. Qed.
Print Assumptions C06_skipped_waits.

(* (1) the full picture behind a "skipping" line *)
Theorem C06_skipped_state :
  forall p c sched k h,
    In (EvSkipping k h) (trace (run p c sched)) ->
    exists j y o, get_act (run p c sched) j = Some y /\ a_path y = h /\
      key_of p (a_task y) (a_var y) = Some k /\ a_regkey y = None /\
      lookup_key (dedup (run p c sched)) k = Some o /\ o <> j /\
      match a_pc y with
      | PWRelease o' | PWWait o' => o' = o
      | PWReacq r | PDone r => exec_result (run p c sched) o = Some r
      | _ => False
      end.
Proof. exact skipped_state. Qed.
Print Assumptions C06_skipped_state.

(* (1) state level: a waiter waits for the table's owner of its key ... *)
Theorem C06_waiter_waits_for_owner :
  forall p c sched j y o,
    get_act (run p c sched) j = Some y -> (a_pc y = PWRelease o \/ a_pc y = PWWait o) ->
    exists k, key_of p (a_task y) (a_var y) = Some k /\ lookup_key (dedup (run p c sched)) k = Some o /\
              In (EvSkipping k (a_path y)) (trace (run p c sched)).
Proof. exact waiter_waits_for_owner. Qed.
Print Assumptions C06_waiter_waits_for_owner.

(* ... and the result it has learnt is the one the owner's execution completed with *)
Theorem C06_waiter_has_owner_result :
  forall p c sched j y r,
    get_act (run p c sched) j = Some y -> a_pc y = PWReacq r ->
    exists k o, key_of p (a_task y) (a_var y) = Some k /\ lookup_key (dedup (run p c sched)) k = Some o /\
                exec_result (run p c sched) o = Some r /\ In (EvSkipping k (a_path y)) (trace (run p c sched)).
Proof. exact waiter_has_owner_result. Qed.
Print Assumptions C06_waiter_has_owner_result.

(* (2) an activation that registered k is the table's owner of k, k is the key of its task and
   variable, it printed "started", and it is past the lookup and not a waiter *)
Theorem C06_regkey_is_owner :
  forall p c sched j y k,
    get_act (run p c sched) j = Some y -> a_regkey y = Some k ->
    lookup_key (dedup (run p c sched)) k = Some j /\ key_of p (a_task y) (a_var y) = Some k /\
    In (EvStarted (a_path y) (a_task y)) (trace (run p c sched)) /\
    pre_dedup (a_pc y) = false /\ wpc (a_pc y) = false.
Proof. exact regkey_is_owner. Qed.
Print Assumptions C06_regkey_is_owner.

(* (2) two distinct activations never both registered the same key *)
Theorem C06_owner_started_once_per_key :
  forall p c sched i j y z k,
    get_act (run p c sched) i = Some y -> get_act (run p c sched) j = Some z ->
    a_regkey y = Some k -> a_regkey z = Some k -> i = j.
Proof. exact owner_started_once_per_key. Qed.
Print Assumptions C06_owner_started_once_per_key.

(* (3) a run: always task is never skipped ... *)
Theorem C06_always_never_skipped :
  forall p c sched k h,
    In (EvSkipping k h) (trace (run p c sched)) -> t_run (get_task p (task_of p c h)) <> Always.
Proof. exact always_never_skipped. Qed.
Print Assumptions C06_always_never_skipped.

(* ... and an activation of a run: always task is never a waiter and never registers a key *)
Theorem C06_always_never_waits :
  forall p c sched j y,
    get_act (run p c sched) j = Some y -> t_run (get_task p (a_task y)) = Always ->
    wpc (a_pc y) = false /\ a_regkey y = None.
Proof. exact always_never_waits. Qed.
Print Assumptions C06_always_never_waits.

(* (4) a reference to a deduplicated task that is past the lookup and has not returned is THE
   execution of its key, or is a waiter on it *)
Theorem C06_reference_runs_or_is_skipped :
  forall p c sched j y k,
    get_act (run p c sched) j = Some y -> key_of p (a_task y) (a_var y) = Some k ->
    pre_dedup (a_pc y) = false -> is_done (a_pc y) = false ->
    (a_regkey y = Some k /\ lookup_key (dedup (run p c sched)) k = Some j /\ wpc (a_pc y) = false /\
     In (EvStarted (a_path y) (a_task y)) (trace (run p c sched)))
    \/
    (a_regkey y = None /\ wpc (a_pc y) = true /\ In (EvSkipping k (a_path y)) (trace (run p c sched)) /\
     exists o z, o <> j /\ lookup_key (dedup (run p c sched)) k = Some o /\
                 get_act (run p c sched) o = Some z /\ a_regkey z = Some k).
Proof. exact reference_runs_or_is_skipped. Qed.
Print Assumptions C06_reference_runs_or_is_skipped.

(* (4) also after it returned: the activation behind a "started" line of a deduplicated task is
   the owner of the key (the activation behind a "skipping" line: C06_skipped_state) *)
Theorem C06_started_is_owner :
  forall p c sched h t k,
    In (EvStarted h t) (trace (run p c sched)) -> key_of_act p c h = Some k ->
    exists j y, get_act (run p c sched) j = Some y /\ a_path y = h /\ a_task y = t /\
                a_regkey y = Some k /\ lookup_key (dedup (run p c sched)) k = Some j.
Proof. exact started_is_owner. Qed.
Print Assumptions C06_started_is_owner.

(* (4) a key in the table has exactly one execution *)
Theorem C06_key_one_execution :
  forall p c sched k o,
    lookup_key (dedup (run p c sched)) k = Some o ->
    exists z, get_act (run p c sched) o = Some z /\ a_regkey z = Some k /\
      key_of p (a_task z) (a_var z) = Some k /\
      In (EvStarted (a_path z) (a_task z)) (trace (run p c sched)) /\
      forall o' z', get_act (run p c sched) o' = Some z' -> a_regkey z' = Some k -> o' = o.
Proof. exact key_one_execution. Qed.
Print Assumptions C06_key_one_execution.

(* (4) run: when_changed: per distinct (task, variable) reached, exactly one execution, of that
   task with that variable *)
Theorem C06_when_changed_one_execution :
  forall p c sched t v o,
    lookup_key (dedup (run p c sched)) (KWhen t v) = Some o ->
    exists z, get_act (run p c sched) o = Some z /\ a_task z = t /\ a_var z = v /\
      a_regkey z = Some (KWhen t v) /\ In (EvStarted (a_path z) t) (trace (run p c sched)) /\
      forall o' z', get_act (run p c sched) o' = Some z' -> a_regkey z' = Some (KWhen t v) -> o' = o.
Proof. exact when_changed_one_execution. Qed.
Print Assumptions C06_when_changed_one_execution.

(* ------------------------------------------------------------------ *)
(* Non-vacuity: task 0 has deps 1 and 2, both of which have the dep 3, a run: once task whose
   command exits with status [ex].  Under a round-robin schedule the dep activation [0;0;0] (below
   task 1) registers the key and executes task 3; [0;1;0] (below task 2) is skipped in its favour. *)
Module Example.
  Definition tk (deps : list nat) (cmds : list cmd) (r : runmode) : task :=
    {| t_deps := map (fun t => {| c_task := t; c_var := VInherit |}) deps; t_cmds := cmds;
       t_run := r; t_ignore := false; t_internal := false; t_g := dummy_guards |}.
  Definition ex_prog (ex : nat) : prog :=
    [tk [1; 2] [Shell 0 false] Always; tk [3] [Shell 0 false] Always; tk [3] [Shell 0 false] Always;
     tk [] [Shell ex false] Once].
  Definition ex_cfg : cfg :=
    {| cf_N := None; cf_parallel := false; cf_force := false; cf_forceall := false; cf_yes := true;
       cf_roots := [{| c_task := 0; c_var := VConst 0 |}]; cf_maxcall := 1000 |}.
  Definition round : list choice := [ChRoot 0; ChStep 0; ChStep 1; ChStep 2; ChStep 3; ChStep 4].
  Fixpoint rounds (n : nat) : list choice := match n with O => [] | S m => round ++ rounds m end.
  Definition ex_sched : list choice := rounds 50.

  Definition snapshot (s : state) : list (aid * pc * option key) * list (key * nat) :=
    (map (fun x => (a_path x, a_pc x, a_regkey x)) (acts s), dedup s).

  (* the shared task FAILS (exit status 3): the owner [0;0;0], the skipped activation [0;1;0] and
     both their parents return that very error; Run returns it wrapped *)
  Example fail_trace :
    trace (run (ex_prog 3) ex_cfg ex_sched) =
    [EvStarted [0] 0; EvStarted [0; 0] 1; EvStarted [0; 1] 2;
     EvStarted [0; 0; 0] 3; EvSkipping (KOnce 3) [0; 1; 0];
     EvAnnounce [0; 0; 0] 0; EvProbeBegin [0; 0; 0] 0 0; EvProbeEnd [0; 0; 0] 0;
     EvEnd [0; 0; 0] (RErr (EExit 3)); EvEnd [0; 1; 0] (RErr (EExit 3));
     EvEnd [0; 0] (RErr (EExit 3)); EvEnd [0; 1] (RErr (EExit 3)); EvEnd [0] (RErr (ETaskRun (Some 3)))].
  Proof. vm_compute. reflexivity. Qed.

  Example fail_results :
    snapshot (run (ex_prog 3) ex_cfg ex_sched) =
    ([([0], PDone (RErr (ETaskRun (Some 3))), None);
      ([0; 0], PDone (RErr (EExit 3)), None);
      ([0; 1], PDone (RErr (EExit 3)), None);
      ([0; 0; 0], PDone (RErr (EExit 3)), Some (KOnce 3));
      ([0; 1; 0], PDone (RErr (EExit 3)), None)],
     [(KOnce 3, 3)]).
  Proof. vm_compute. reflexivity. Qed.

  Example fail_run_result : run_result (ex_prog 3) ex_cfg (run (ex_prog 3) ex_cfg ex_sched) = Some (RErr (ETaskRun (Some 3))).
  Proof. vm_compute. reflexivity. Qed.

  (* the instance of the theorem: the skipped activation (index 4, path [0;1;0]) returned what the
     execution of the owner (index 3) completed with *)
  Example fail_by_theorem :
    exists o z, lookup_key (dedup (run (ex_prog 3) ex_cfg ex_sched)) (KOnce 3) = Some o /\ o <> 4 /\
                get_act (run (ex_prog 3) ex_cfg ex_sched) o = Some z /\ a_regkey z = Some (KOnce 3) /\
                exec_result (run (ex_prog 3) ex_cfg ex_sched) o = Some (RErr (EExit 3)).
  Proof.
    destruct (get_act (run (ex_prog 3) ex_cfg ex_sched) 4) as [y|] eqn:Hy; [|vm_compute in Hy; discriminate].
    apply (C06_skipped_returns_owner_result (ex_prog 3) ex_cfg ex_sched (KOnce 3) [0; 1; 0] 4 y).
    - vm_compute. tauto.
    - exact Hy.
    - vm_compute in Hy. injection Hy as <-. reflexivity.
    - unfold act_result. rewrite Hy. vm_compute in Hy. injection Hy as <-. reflexivity.
  Qed.

  (* while the owner is still executing (it is about to fail), the skipped activation waits for it *)
  Example fail_waiting :
    snapshot (run (ex_prog 3) ex_cfg (rounds 17)) =
    ([([0], PDepsJoin, None); ([0; 0], PDepsJoin, None); ([0; 1], PDepsJoin, None);
      ([0; 0; 0], PFail (EExit 3), Some (KOnce 3)); ([0; 1; 0], PWWait 3, None)],
     [(KOnce 3, 3)]).
  Proof. vm_compute. reflexivity. Qed.

  (* the shared task SUCCEEDS: everybody returns nil *)
  Example ok_results :
    snapshot (run (ex_prog 0) ex_cfg ex_sched) =
    ([([0], PDone ROk, None); ([0; 0], PDone ROk, None); ([0; 1], PDone ROk, None);
      ([0; 0; 0], PDone ROk, Some (KOnce 3)); ([0; 1; 0], PDone ROk, None)],
     [(KOnce 3, 3)]).
  Proof. vm_compute. reflexivity. Qed.

  Example ok_skipped_silent_until_owner_done :
    filter (fun e => match e with
                     | EvSkipping _ _ | EvFinished [0; 0; 0] | EvEnd [0; 0; 0] _ | EvEnd [0; 1; 0] _ => true
                     | _ => false end) (trace (run (ex_prog 0) ex_cfg ex_sched))
    = [EvSkipping (KOnce 3) [0; 1; 0]; EvFinished [0; 0; 0]; EvEnd [0; 0; 0] ROk; EvEnd [0; 1; 0] ROk].
  Proof. vm_compute. reflexivity. Qed.

  Example ok_run_result : run_result (ex_prog 0) ex_cfg (run (ex_prog 0) ex_cfg ex_sched) = Some ROk.
  Proof. vm_compute. reflexivity. Qed.
End Example.
