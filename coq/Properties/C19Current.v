(* C19 - Command-line arguments reach their destination verbatim: the statements about the
   tree AS IT IS NOW.

   Properties/C19.v has C19_cli_args_current / C19_shellquote_current / C19_init_current with the
   premises [current_cli_ok = true] / [current_var_ok = true] / [current_init_ok = true].
   Today the first two are FALSE: values given on the command line go through the template
   engine and rendered text loses "<no value>" (open findings template:cli-value-evaluated and
   template:no-value-stripped, 7.32), so the full delivery statements do NOT hold for the current
   tree and are not claimed here.  This file states, against Extracted.Facts (regenerated from
   /repo by every check) and the current_* definitions of Run/QuoteCases.v:

   Fact obligations (closed by computation):
     C19_current_kind_joined    current_kind = Joined        <- cli_args_kind_code = 0   (repair b50a5ae)
     C19_current_init_ok        current_init_ok = true       <- init_args_get_result = 0 (repair f53abf3),
     C19_current_icfg_ok        icfg_ok current_icfg            isextonly_code = 1       (repair af6182b)
     C19_current_split_limit    current_split_limit = 2      <- splitvar_limit
       (a revert of one of the three repairs breaks this file)
     C19_current_cli_templated_open, C19_current_cli_strips_open, C19_current_var_templated_open,
     C19_current_var_strips_open, C19_current_cli_not_ok, C19_current_var_not_ok
                                <- cli_args_literal_code = 0, cli_vars_literal_code = 0,
                                   templater_strips_no_value = true
       These record the OPEN findings: when one is repaired in /repo the fact and the matching
       _current_live_refuted stop compiling and are to be replaced by the discharged premise of
       C19_cli_args_current / C19_shellquote_current.
   Statements about the current tree without premises on the facts:
     C19_init_current_tree, C19_init_ignores_after_dash_current   (full: --init)
     C19_cli_args_partial_current, C19_cli_args_partial_current_mon,
     C19_shellquote_partial_current, C19_shellquote_partial_current_mon
         (strongest that holds: texts containing neither the template opener nor "<no value>";
          the flag premise "CLI_ARGS is the joined string" is discharged)
     (C19_roundtrip*, C19_shellquote_one*, C19_splitvar*, C19_init_never_overwrites of
      Properties/C19.v do not depend on a variant or are already stated at current_split_limit.)
   The open findings as statements about today's tree:
     C19_cli_args_strip_current_live_refuted, C19_shellquote_strip_current_live_refuted,
     C19_template_inert_current_live_refuted, C19_cli_value_templated_current_live_unmodelled.
   Premises NOT discharged: [current_cli_ok = true], [current_var_ok = true] (false today). *)
From Coq Require Import List NArith Bool String.
Import ListNotations.
From TV Require Import Quote.Model Quote.ProofsCodec Quote.ProofsMisc Quote.CurrentFacts
     Extracted.Facts Run.QuoteCases Quote.ProofsCurrent.
Local Open Scope N_scope.

(* ---- fact obligations: what is repaired ---- *)

(* CLI_ARGS is the joined string of the quoted arguments (not a []string) *)
Theorem C19_current_kind_joined : current_kind = Joined.
Proof. reflexivity. Qed.
Print Assumptions C19_current_kind_joined.

(* --init reads its path from the positional arguments and "." is not an extension *)
Theorem C19_current_init_ok : current_init_ok = true.
Proof. reflexivity. Qed.
Print Assumptions C19_current_init_ok.

Theorem C19_current_icfg_ok : icfg_ok current_icfg.
Proof. exact (conj eq_refl eq_refl). Qed.
Print Assumptions C19_current_icfg_ok.

Theorem C19_current_split_limit : current_split_limit = 2%nat.
Proof. reflexivity. Qed.
Print Assumptions C19_current_split_limit.

(* ---- fact obligations: what is open ---- *)

Theorem C19_current_cli_templated_open : t_templ current_cli_t = true.
Proof. reflexivity. Qed.
Print Assumptions C19_current_cli_templated_open.

Theorem C19_current_cli_strips_open : t_strip current_cli_t = true.
Proof. reflexivity. Qed.
Print Assumptions C19_current_cli_strips_open.

Theorem C19_current_var_templated_open : t_templ current_var_t = true.
Proof. reflexivity. Qed.
Print Assumptions C19_current_var_templated_open.

Theorem C19_current_var_strips_open : t_strip current_var_t = true.
Proof. reflexivity. Qed.
Print Assumptions C19_current_var_strips_open.

(* the premises of C19_cli_args_current / C19_shellquote_current are false today *)
Theorem C19_current_cli_not_ok : current_cli_ok = false.
Proof. reflexivity. Qed.
Print Assumptions C19_current_cli_not_ok.

Theorem C19_current_var_not_ok : current_var_ok = false.
Proof. reflexivity. Qed.
Print Assumptions C19_current_var_not_ok.

(* ---- full statements that hold for the current tree: --init ---- *)

Theorem C19_init_current_tree :
  forall default wd f pos after,
    let '(f', r) := init_cmd current_icfg default wd f pos after in
    mon_init default wd f pos (created_of r) f' = true.
Proof. exact (fun default wd f pos after => current_init_sound default wd f pos after C19_current_init_ok). Qed.
Print Assumptions C19_init_current_tree.

Theorem C19_init_ignores_after_dash_current :
  forall default wd f pos after after',
    init_cmd current_icfg default wd f pos after = init_cmd current_icfg default wd f pos after'.
Proof. exact (fun default wd f pos after after' => init_cmd_ignores_after current_icfg default wd f pos after after' eq_refl). Qed.
Print Assumptions C19_init_ignores_after_dash_current.

(* ---- the strongest delivery statements that hold for the current tree ---- *)

(* helper {{.CLI_ARGS}}: every argument vector whose quoted text contains neither the template
   opener nor "<no value>" arrives verbatim *)
Theorem C19_cli_args_partial_current :
  forall g args, Forall wf_ustr args ->
    contains tmpl_open (join [sp] (map quote_raw args)) = false ->
    contains no_value (join [sp] (map quote_raw args)) = false ->
    deliver_cli g current_variant args = Argv (map sbytes args).
Proof. exact (fun g => deliver_cli_joined_partial g current_cli_t). Qed.
Print Assumptions C19_cli_args_partial_current.

Theorem C19_cli_args_partial_current_mon :
  forall g args, Forall wf_ustr args ->
    contains tmpl_open (join [sp] (map quote_raw args)) = false ->
    contains no_value (join [sp] (map quote_raw args)) = false ->
    mon_argv (map sbytes args) (deliver_cli g current_variant args) = true.
Proof. exact (fun g => mon_cli_joined_partial g current_cli_t). Qed.
Print Assumptions C19_cli_args_partial_current_mon.

(* helper {{shellQuote .X}} with X=value on the command line *)
Theorem C19_shellquote_partial_current :
  forall g x, wf_ustr x ->
    contains tmpl_open (sbytes x) = false -> u_contains_nv x = false ->
    contains no_value (quote_raw x) = false ->
    deliver_sq g current_var_t x = Argv [sbytes x].
Proof. exact (fun g => deliver_sq_partial g current_var_t). Qed.
Print Assumptions C19_shellquote_partial_current.

Theorem C19_shellquote_partial_current_mon :
  forall g x, wf_ustr x ->
    contains tmpl_open (sbytes x) = false -> u_contains_nv x = false ->
    contains no_value (quote_raw x) = false ->
    mon_argv [sbytes x] (deliver_sq g current_var_t x) = true.
Proof. exact (fun g => mon_sq_partial g current_var_t). Qed.
Print Assumptions C19_shellquote_partial_current_mon.

(* ---- the open findings, as statements about the current tree ---- *)

(* template:no-value-stripped: the argument x<no value>y arrives as xy *)
Theorem C19_cli_args_strip_current_live_refuted :
  exists args, Forall wf_ustr args /\
    mon_argv (map sbytes args) (deliver_cli true current_variant args) = false.
Proof. exact deliver_cli_strip_refuted. Qed.
Print Assumptions C19_cli_args_strip_current_live_refuted.

Theorem C19_shellquote_strip_current_live_refuted :
  exists x, wf_ustr x /\ mon_argv [sbytes x] (deliver_sq true current_var_t x) = false.
Proof. exact deliver_sq_strip_refuted. Qed.
Print Assumptions C19_shellquote_strip_current_live_refuted.

Theorem C19_template_inert_current_live_refuted :
  exists s, mon_inert s (maybe_strip current_cli_t s) = false.
Proof. exact render_strip_refuted. Qed.
Print Assumptions C19_template_inert_current_live_refuted.

(* template:cli-value-evaluated: a value with template syntax is handed to the template engine
   (outside the model: no delivery claim can be made for it), on both paths *)
Theorem C19_cli_value_templated_current_live_unmodelled :
  (exists args, Forall wf_ustr args /\ deliver_cli true current_variant args = Unmodelled) /\
  (exists x, wf_ustr x /\ deliver_sq true current_var_t x = Unmodelled).
Proof. exact deliver_templated_strip_unmodelled. Qed.
Print Assumptions C19_cli_value_templated_current_live_unmodelled.
