(* C09 — Loading a Taskfile tree is deterministic.
   Statements only; proofs are in Merge/Proofs*.v.

   pi (the result of graph.TopologicalSort, which iterates Go maps) and s (the order in which
   Reader.include's goroutines appended to the edge data) are the two places where one load can
   differ from the next; merge_all takes them as explicit arguments. *)
From Coq Require Import List String Bool.
Import ListNotations.
From TV Require Import Merge.Model Merge.Spec Merge.ProofsRun Merge.ProofsC08Mon Merge.ProofsC08Refs Merge.ProofsC09
     Merge.ProofsKeys Merge.ProofsC09b Extracted.Facts Run.MergeCases Merge.ProofsCurrent.

Theorem C09_variant_known : variant_known = true.
Proof. exact (eq_refl true). Qed.
Print Assumptions C09_variant_known.

(* the variant that merges the includes of each file in declared order and stamps include.Dir on a COPY of each
   variable (v_inplace = false; the variables carry their Dir in the model): the whole result (tasks in order,
   aliases, vars, env, output, error flag) is the same for every topological order and every edge-data order *)
Theorem C09_det :
  forall v g pi pi' s s', v_declared v = true -> v_inplace v = false -> valid_pi g pi -> valid_pi g pi' ->
    merge_all v g pi s = merge_all v g pi' s'.
Proof. exact det_declared. Qed.
Print Assumptions C09_det.

(* the listings the CLI prints (--list / --list-all, plain and --json) are the function [listed] of the merged table
   (Merge/Spec.v: keys ordered root-tasks-first then bytewise - sort.AlphaNumericWithRootTasksFirst -, internal
   tasks dropped, for --list also tasks without desc; the plain listing prints Task, the JSON listing label-or-Task,
   entry i for task i); monitor R_listing checks that on every load.  Hence: same set and order on every load *)
Theorem C09_listing_det :
  forall v g pi pi' s s' b, v_declared v = true -> v_inplace v = false -> valid_pi g pi -> valid_pi g pi' ->
    listing_plain b (f_tasks (merge_all v g pi s)) = listing_plain b (f_tasks (merge_all v g pi' s'))
    /\ listing_json b (f_tasks (merge_all v g pi s)) = listing_json b (f_tasks (merge_all v g pi' s')).
Proof. exact listing_det. Qed.
Print Assumptions C09_listing_det.

(* the current tree (finding 7.14): two sibling includes defining the same variable; both orders are
   topological, the variable's value and the order of the task table differ *)
Theorem C09_det_refuted :
  v_declared current_variant = false ->
  exists g pi pi', valid_load current_variant g pi sigma_id /\ valid_load current_variant g pi' sigma_id
    /\ f_err (merge_all current_variant g pi sigma_id) = None /\ f_err (merge_all current_variant g pi' sigma_id) = None
    /\ f_vars (merge_all current_variant g pi sigma_id) = [("X", "v=from-b")]%string
    /\ f_vars (merge_all current_variant g pi' sigma_id) = [("X", "v=from-d")]%string
    /\ map fst (f_tasks (merge_all current_variant g pi sigma_id)) = ["show"; "d:t"; "b:t"]%string
    /\ map fst (f_tasks (merge_all current_variant g pi' sigma_id)) = ["show"; "b:t"; "d:t"]%string.
Proof. exact det_refuted. Qed.
Print Assumptions C09_det_refuted.

(* ... and the task table is then in "Taskfile order": a file's own tasks, then its includes in declared
   order, recursively (what name resolution, C15, relies on) *)
Theorem C09_order :
  forall v g pi s, valid_load v g pi s -> v_declared v = true -> f_err (merge_all v g pi s) = None ->
    map fst (f_tasks (merge_all v g pi s)) = canonical_keys g.
Proof. exact order_declared. Qed.
Print Assumptions C09_order.

(* what is deterministic in EVERY variant, the current one included: two loads of one tree have the same
   set of keys and, for every origin, the same commands (targets and every field), deps, directory,
   internal flag, include vars, Task and attributes.  What may differ is the order of the table, alias
   lists, IncludedTaskfileVars and the global vars / env / output style. *)
Theorem C09_partial :
  forall v g pi pi' s s' tf cf df,
    valid_load v g pi s -> valid_load v g pi' s' -> wf_outb g = true ->
    f_err (merge_all v g pi s) = None -> f_err (merge_all v g pi' s') = None ->
    mon_stable tf cf df g (f_tasks (merge_all v g pi s)) (f_tasks (merge_all v g pi' s')) = true.
Proof. exact partial_det. Qed.
Print Assumptions C09_partial.

(* non-vacuity: both topological orders of the sibling tree meet the hypotheses of C09_partial *)
Example C09_example :
  valid_load current_variant (graph_of fs_siblings) ["/R/Taskfile.yml"; "/R/b/Taskfile.yml"; "/R/d/Taskfile.yml"]%string sigma_id
  /\ valid_load current_variant (graph_of fs_siblings) ["/R/Taskfile.yml"; "/R/d/Taskfile.yml"; "/R/b/Taskfile.yml"]%string sigma_id
  /\ wf_outb (graph_of fs_siblings) = true.
Proof. exact siblings_valid. Qed.
