(* C20 - Remote Taskfiles: the statements about the tree AS IT IS NOW.

   Properties/C20.v proves (a), (a'), (b), (d) for every variant V of the decision table and (c)
   C20_cache_keeps_running under the premise [v_fetch_fallback V = true]; for the tree under
   check it has C20_cache_keeps_running_current, a disjunction ("the full statement, or the 7.33
   counterexample") that holds whichever way the extracted fact points, and C20_tie_fallback_known,
   which accepts both the pre-fix (0) and the repaired (1) shape.  This file discharges the premise
   against Extracted.Facts (regenerated from /repo by every check) through [current_variant]
   (Run/RemoteCases.v): reverting e34a2f8 (a failed connection falls back to the approved cached
   copy like a timeout does) turns remote_fallback_kind into 0, C20_current_fallback becomes false
   and the build breaks.

   Fact obligations (closed by computation on Extracted.Facts):
     C20_current_fallback_kind   remote_fallback_kind = 1
     C20_current_fallback        v_fetch_fallback current_variant = true
     C20_current_is_repaired     current_variant = mkVariant true
   Statements about the current tree (no premise on the facts; [digest] stands for sha256 and is
   arbitrary, histories are unbounded):
     C20_cache_keeps_running_current_tree  (c), the one statement that needed the flag
     C20_only_approved_current, C20_content_guarded_current, C20_unapproved_104_current,
     C20_http_refused_current, C20_ever_approved_with_kills_current
                                           (a), (a'), (b), (d), kills: instances of the "every V" theorems
     C20_current_all_monitors              the five step monitors of cases.v together
   Known limit that holds for the current write order (kept as a theorem and an assumption string
   in lib/props_remote.py, not a recorded finding):
     C20_only_approved_kill_current_live_refuted  - a kill between the cache writes.
   No premise is left undischarged for C20; no finding is open. *)
From Coq Require Import List NArith Bool String.
Import ListNotations.
From TV Require Import Remote.Model Remote.Proofs Extracted.Facts Run.RemoteCases.
Local Open Scope N_scope.

(* ---- fact obligations: the current tree IS the repaired variant ---- *)

Theorem C20_current_fallback_kind : remote_fallback_kind = 1%nat.
Proof. reflexivity. Qed.
Print Assumptions C20_current_fallback_kind.

Theorem C20_current_fallback : v_fetch_fallback current_variant = true.
Proof. reflexivity. Qed.
Print Assumptions C20_current_fallback.

Theorem C20_current_is_repaired : current_variant = mkVariant true.
Proof. reflexivity. Qed.
Print Assumptions C20_current_is_repaired.

(* ---- (c) at the current tree: an approved copy in the cache keeps the task runnable ---- *)

Theorem C20_cache_keeps_running_current_tree :
  forall digest http h st,
    forallb (mon_keeps_running digest http) (run digest current_variant http st h) = true.
Proof. exact (fun digest http h st => run_keeps_running_repaired digest current_variant http h st C20_current_fallback). Qed.
Print Assumptions C20_cache_keeps_running_current_tree.

(* ---- (a), (a'), (b), (d), kills: the instances at the current tree ---- *)

Theorem C20_only_approved_current :
  forall digest http h,
    forallb (mon_only_approved digest) (run digest current_variant http empty_cache h) = true.
Proof. exact (fun digest http h => run_only_approved digest current_variant http h empty_cache (Inv_empty digest)). Qed.
Print Assumptions C20_only_approved_current.

Theorem C20_content_guarded_current :
  forall digest http h st,
    forallb (mon_content_guarded digest) (run digest current_variant http st h) = true.
Proof.
  exact (fun digest http => run_forall digest (mon_content_guarded digest) current_variant http
                                       (step_content_guarded digest current_variant http)).
Qed.
Print Assumptions C20_content_guarded_current.

Theorem C20_unapproved_104_current :
  forall digest http h st,
    forallb (mon_unapproved digest http) (run digest current_variant http st h) = true.
Proof.
  exact (fun digest http => run_forall digest (mon_unapproved digest http) current_variant http
                                       (step_unapproved digest current_variant http)).
Qed.
Print Assumptions C20_unapproved_104_current.

Theorem C20_http_refused_current :
  forall digest h st,
    forallb (mon_http_refused true) (run digest current_variant true st h) = true.
Proof.
  exact (fun digest => run_forall digest (mon_http_refused true) current_variant true
                                  (step_http_refused digest current_variant true)).
Qed.
Print Assumptions C20_http_refused_current.

Theorem C20_ever_approved_with_kills_current :
  forall digest http h,
    forallb (mon_ever_approved digest) (run_k digest current_variant http empty_cache [] h) = true.
Proof.
  exact (fun digest http h => run_k_ever_approved digest current_variant http h empty_cache [] (KInv_empty digest [])).
Qed.
Print Assumptions C20_ever_approved_with_kills_current.

(* every monitor cases.v evaluates per step, over every history of the current tree from an empty cache *)
Theorem C20_current_all_monitors :
  forall digest http h,
    forallb (mon_only_approved digest) (run digest current_variant http empty_cache h) = true /\
    forallb (mon_content_guarded digest) (run digest current_variant http empty_cache h) = true /\
    forallb (mon_unapproved digest http) (run digest current_variant http empty_cache h) = true /\
    forallb (mon_keeps_running digest http) (run digest current_variant http empty_cache h) = true /\
    forallb (mon_http_refused true) (run digest current_variant true empty_cache h) = true.
Proof.
  exact (fun digest http h =>
           conj (C20_only_approved_current digest http h)
          (conj (C20_content_guarded_current digest http h empty_cache)
          (conj (C20_unapproved_104_current digest http h empty_cache)
          (conj (C20_cache_keeps_running_current_tree digest http h empty_cache)
                (C20_http_refused_current digest h empty_cache))))).
Qed.
Print Assumptions C20_current_all_monitors.

(* ---- the known limit, at the current tree: a kill after the checksum was written ---- *)

Theorem C20_only_approved_kill_current_live_refuted :
  exists h, forallb (mon_only_approved_k id_digest) (run_k id_digest current_variant true empty_cache [] h) = false.
Proof. exact (ex_intro _ witness_kill only_approved_kill_refuted_witness). Qed.
Print Assumptions C20_only_approved_kill_current_live_refuted.

(* the 7.33 history (approve v1, then the server is down) at the current tree: the cached v1 runs *)
Example C20_current_733_witness :
  forallb (mon_keeps_running id_digest true) (run id_digest current_variant true empty_cache witness_733) = true /\
  map (fun o => (o_exit o, o_ran o)) (run id_digest current_variant true empty_cache witness_733) = [(0, [1]); (0, [1])].
Proof. vm_compute. split; reflexivity. Qed.
