(* C01 — statements only; proofs are in Exec/*.v. *)
From Coq Require Import List Arith Bool String.
Import ListNotations.
From TV Require Import Exec.Model Exec.Monitors Exec.Shape Extracted.Facts.
Local Open Scope string_scope.

(* tie to the source: stage order of RunTask, dedup protocol, error wrapping, deferred calls
   (facts extracted from task.go / hash.go on every run) *)
Theorem C01_shape : exec_shape_ok = true.
Proof. reflexivity. Qed.
Print Assumptions C01_shape.

(* runDeps is awaited before the command loop *)
Theorem C01_deps_stage_before_cmds : before "runDeps" "runCommand" runtask_stages = true.
Proof. exact deps_before_cmds. Qed.
Print Assumptions C01_deps_stage_before_cmds.
