(* C14 — further clauses: a defer entry placed after the command that failed never runs; EXIT_CODE
   is never invented.  Statements only; proofs are in Exec/InvDeferX.v. *)
From Coq Require Import List Arith Bool.
Import ListNotations.
From TV Require Import Exec.Model Exec.Monitors Exec.InvDefer Exec.InvDeferX.

(* for every started activation: (i) if it has a failing command of its own, ended at index f, every
   deferred command it announced has an index below f; (ii) if it has none, every EXIT_CODE its
   deferred commands print is 0 or the exit status of a command that failed somewhere in this run *)
Theorem C14x_all_schedules :
  forall p c sched, mon_C14x p c (trace (run p c sched)) = true.
Proof. exact defer_x_all_schedules. Qed.
Print Assumptions C14x_all_schedules.

Theorem C14x_observable :
  forall p c sched, mon_C14x p c (filter observable (trace (run p c sched))) = true.
Proof. exact defer_x_observable. Qed.
Print Assumptions C14x_observable.

(* the stronger fact behind (ii), whatever the activation's own commands did: every EXIT_CODE ever
   printed is 0 or the exit status of a command that failed in this run *)
Theorem C14x_exit_codes_not_invented :
  forall p c sched,
    Forall (fun e => match e with
                     | EvDProbeBegin _ _ code => okc p c (trace (run p c sched)) code = true
                     | _ => True end) (trace (run p c sched)).
Proof. exact exit_codes_not_invented. Qed.
Print Assumptions C14x_exit_codes_not_invented.

Definition exx_cfg : cfg :=
  {| cf_N := None; cf_parallel := false; cf_force := false; cf_forceall := false; cf_yes := false;
     cf_roots := [ {| c_task := 0; c_var := VConst 0 |} ]; cf_maxcall := 1000 |}.
Definition exx_task (cs : list cmd) : task :=
  {| t_deps := []; t_cmds := cs; t_run := Always; t_ignore := false; t_internal := false; t_g := dummy_guards |}.

(* non-vacuity (i): the defer entry after the failing command never runs; the monitor rejects the
   same trace with that entry announced and run *)
Definition exx_prog1 : prog := [ exx_task [DeferShell 0; Shell 3 false; DeferShell 0] ].
Example C14x_example_unreached :
  let tr := trace (run exx_prog1 exx_cfg (ChRoot 0 :: repeat (ChStep 0) 30)) in
  own_failure_idx exx_prog1 exx_cfg [0] tr = Some 1 /\ dann_of [0] tr = [0] /\ dcodes_of [0] tr = [3] /\
  mon_C14x exx_prog1 exx_cfg tr = true /\
  mon_C14x exx_prog1 exx_cfg (tr ++ [EvDAnnounce [0] 2; EvDProbeBegin [0] 2 3; EvDProbeEnd [0] 2]) = false.
Proof. vm_compute. repeat split; reflexivity. Qed.

(* non-vacuity (ii): a failing deferred command (exit status 5) does not show up in the EXIT_CODE of
   the deferred command that runs after it; the monitor rejects the trace in which it does *)
Definition exx_prog2 : prog := [ exx_task [DeferShell 0; DeferShell 5; Shell 0 false] ].
Example C14x_example_deferred_status :
  let tr := trace (run exx_prog2 exx_cfg (ChRoot 0 :: repeat (ChStep 0) 30)) in
  dann_of [0] tr = [1; 0] /\ dcodes_of [0] tr = [0; 0] /\ failing_codes exx_prog2 exx_cfg tr = [] /\
  mon_C14x exx_prog2 exx_cfg tr = true /\
  mon_C14x exx_prog2 exx_cfg
    (map (fun e => match e with EvDProbeBegin a 0 _ => EvDProbeBegin a 0 5 | _ => e end) tr) = false.
Proof. vm_compute. repeat split; reflexivity. Qed.

(* non-vacuity (ii), the callee's status: a failing callee hands its exit status to the caller's
   EXIT_CODE, and that status is one of failing_codes *)
Definition exx_prog3 : prog :=
  [ exx_task [DeferShell 0; CallC {| c_task := 1; c_var := VConst 0 |}]; exx_task [Shell 9 false] ].
Example C14x_example_callee_status :
  let tr := trace (run exx_prog3 exx_cfg (ChRoot 0 :: repeat (ChStep 0) 12 ++ repeat (ChStep 1) 20 ++ repeat (ChStep 0) 20)) in
  own_failure exx_prog3 exx_cfg [0] tr = None /\ dcodes_of [0] tr = [9] /\
  failing_codes exx_prog3 exx_cfg tr = [9] /\ mon_C14x exx_prog3 exx_cfg tr = true.
Proof. vm_compute. repeat split; reflexivity. Qed.
