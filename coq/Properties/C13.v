(* C13 — Guards are enforced before any command of the guarded task.
   Statements only; proofs are in Exec/InvPaths.v. *)
From Coq Require Import List Arith Bool String.
Import ListNotations.
Local Open Scope string_scope.
From TV Require Import Exec.Model Exec.Monitors Exec.InvPaths Exec.Shape Extracted.Facts.

Theorem C13_shape : exec_shape_ok = true.
Proof. reflexivity. Qed.
Print Assumptions C13_shape.

(* For every program, configuration (with or without --yes / --force) and schedule: no command,
   no "finished" line and no deferred command of a task whose guard fails (platform, required
   variable, enum, precondition, declined prompt) ever appears in the trace, wherever the task is
   reached from (root, dep, nested call, deduplicated); and a task only starts when its platform and
   required-variable guards hold. *)
Theorem C13_gate :
  forall (p : prog) (c : cfg) (sched : list choice), mon_C13 p c (trace (run p c sched)) = true.
Proof. exact guards_all_schedules. Qed.
Print Assumptions C13_gate.

Theorem C13_gate_observable :
  forall p c sched, mon_C13 p c (filter observable (trace (run p c sched))) = true.
Proof. exact guards_observable. Qed.
Print Assumptions C13_gate_observable.

(* the order facts the model hard-wires, checked against the extracted pipeline of RunTask *)
Theorem C13_guards_before_execution :
  before "shouldRunOnCurrentPlatform" "startExecution" runtask_stages &&
  before "areTaskRequiredVarsSet" "startExecution" runtask_stages &&
  before "areTaskRequiredVarsAllowedValuesSet" "startExecution" runtask_stages &&
  before "areTaskPreconditionsMet" "runCommand" runtask_stages &&
  before "Prompt" "runCommand" runtask_stages = true.
Proof. exact guards_before_execution. Qed.
Print Assumptions C13_guards_before_execution.

(* --force does not bypass preconditions: the anchor is outside the skipFingerprinting block *)
Theorem C13_force_keeps_preconditions : In "areTaskPreconditionsMet" runtask_stages.
Proof. exact preconditions_not_skipped_by_force. Qed.
Print Assumptions C13_force_keeps_preconditions.

(* non-vacuity: a program with a failing precondition reaches PBlock and ends with EPrecond *)
Definition ex_prog : prog :=
  [ {| t_deps := []; t_cmds := [Shell 0 false]; t_run := Always; t_ignore := false; t_internal := false;
       t_g := {| g_platform := true; g_required := true; g_enum := true; g_precond := Some false;
                 g_prompt := false; g_uptodate := false |} |} ].
Definition ex_cfg : cfg :=
  {| cf_N := None; cf_parallel := false; cf_force := true; cf_forceall := false; cf_yes := false;
     cf_roots := [ {| c_task := 0; c_var := VConst 0 |} ]; cf_maxcall := 1000 |}.
Example C13_example :
  run_result ex_prog ex_cfg (run ex_prog ex_cfg (ChRoot 0 :: repeat (ChStep 0) 12)) = Some (RErr EPrecond).
Proof. vm_compute. reflexivity. Qed.
