(* C03 — A failing command stops the task and fails the invocation: the machine of Exec/Model.v
   against mon_C03 (Exec/Monitors.v), for all programs, configurations and schedules.
   Statements only; proofs are in Exec/InvFail.v. *)
From Coq Require Import List Arith Bool.
Import ListNotations.
From TV Require Import Exec.Model Exec.Monitors Exec.InvTree Exec.InvFail.

(* (1) fail-stop: once a non-ignored failing shell command of an activation has ended, neither
   that activation nor any activation the failure propagates to (parent through a dep link;
   caller through a task: call unless the caller has ignore_error; never through a deferred call)
   announces or starts another command *)
Theorem C03_no_later_cmd :
  forall p c sched, mon_C03 p c (trace (run p c sched)) = true.
Proof. exact fail_stop_all_schedules. Qed.
Print Assumptions C03_no_later_cmd.

(* the harness sees the observable part of the trace; mon_C03 does not look at anything else *)
Theorem C03_no_later_cmd_observable :
  forall p c sched, mon_C03 p c (filter observable (trace (run p c sched))) = true.
Proof. exact fail_stop_observable. Qed.
Print Assumptions C03_no_later_cmd_observable.

(* the state-level core: every path on the monitor's dead list is the path of an activation that
   will necessarily return an error ([doomed]) ... *)
Theorem C03_dead_are_doomed :
  forall p c sched, exists dead,
    mfold (step03 p c) [] (trace (run p c sched)) = Some dead /\
    forall b, mem_aid b dead = true ->
      exists j y, get_act (run p c sched) j = Some y /\ a_path y = b /\ doomed p (run p c sched) j.
Proof. intros p c sched. exact (if_mon _ _ _ (run_inv_fail p c sched)). Qed.
Print Assumptions C03_dead_are_doomed.

(* ... such an activation is never about to announce or start a command, and once it has returned
   it has returned an error *)
Theorem C03_doomed_quiet :
  forall p s j x, doomed p s j -> get_act s j = Some x -> forall i, a_pc x <> PCmd i /\ a_pc x <> PRun i.
Proof. exact doomed_quiet. Qed.
Print Assumptions C03_doomed_quiet.

Theorem C03_doomed_returns_error :
  forall p s k y r, doomed p s k -> get_act s k = Some y -> a_pc y = PDone r -> exists e, r = RErr e.
Proof. exact doomed_done. Qed.
Print Assumptions C03_doomed_returns_error.

(* the parent of an activation that has not returned is waiting for it *)
Theorem C03_parent_waits :
  forall p c sched j y pa,
    get_act (run p c sched) j = Some y -> is_done (a_pc y) = false -> a_parent y = Some pa ->
    exists z, get_act (run p c sched) pa = Some z /\ waits_for z (a_kind y) j.
Proof. intros p c sched. exact (if_wait _ _ _ (run_inv_fail p c sched)). Qed.
Print Assumptions C03_parent_waits.

(* (2) exit status of the CLI for the error Run returned *)
Theorem C03_exit_status_ok : forall flag, exit_status flag ROk = 0.
Proof. exact exit_status_ok. Qed.
Print Assumptions C03_exit_status_ok.

Theorem C03_exit_status_taskrun_default : forall n, exit_status false (RErr (ETaskRun (Some n))) = 201.
Proof. exact exit_status_taskrun_noflag. Qed.
Print Assumptions C03_exit_status_taskrun_default.

Theorem C03_exit_status_taskrun_exit_code_flag : forall n, exit_status true (RErr (ETaskRun (Some n))) = n.
Proof. exact exit_status_taskrun_flag. Qed.
Print Assumptions C03_exit_status_taskrun_exit_code_flag.

(* [exit_status flag r <> 0] does not hold for arbitrary r <> ROk (ECode 0, and with the flag
   ETaskRun (Some 0), map to 0); it holds for every error whose code/status is not 0 ... *)
Theorem C03_exit_status_nonzero :
  forall flag e, err_nz e = true -> exit_status flag (RErr e) <> 0.
Proof. exact exit_status_err_nonzero. Qed.
Print Assumptions C03_exit_status_nonzero.

Theorem C03_exit_status_nonzero_default :
  forall e, (forall cd, e = ECode cd -> cd <> 0) -> exit_status false (RErr e) <> 0.
Proof. exact exit_status_noflag_nonzero. Qed.
Print Assumptions C03_exit_status_nonzero_default.

(* ... and every error the machine ever holds is of that kind, so: whenever Run returns an error
   the exit status is not 0, for every program, configuration, schedule and --exit-code setting *)
Theorem C03_run_error_nonzero_code :
  forall p c sched e, run_result p c (run p c sched) = Some (RErr e) -> err_nz e = true.
Proof. exact run_error_nz. Qed.
Print Assumptions C03_run_error_nonzero_code.

Theorem C03_run_failure_exit_nonzero :
  forall p c sched flag r, run_result p c (run p c sched) = Some r -> r <> ROk -> exit_status flag r <> 0.
Proof. exact run_failure_exit_nonzero. Qed.
Print Assumptions C03_run_failure_exit_nonzero.

(* how errors are wrapped on the way out: a command failure of a root activation is reported as a
   task-run error carrying the exit status; nested activations hand the raw error up; an
   exit-status failure of a dependency reaching a root is wrapped the same way *)
Theorem C03_wrap_cmd_direct : forall x e, indirect x = false -> wrap_cmd_error x e = ETaskRun (is_exit e).
Proof. exact wrap_cmd_error_direct. Qed.
Print Assumptions C03_wrap_cmd_direct.

Theorem C03_wrap_cmd_root_exit : forall x n, a_kind x = KRoot -> wrap_cmd_error x (EExit n) = ETaskRun (Some n).
Proof. exact wrap_cmd_error_root_exit. Qed.
Print Assumptions C03_wrap_cmd_root_exit.

Theorem C03_wrap_cmd_indirect : forall x e, indirect x = true -> wrap_cmd_error x e = e.
Proof. exact wrap_cmd_error_indirect. Qed.
Print Assumptions C03_wrap_cmd_indirect.

Theorem C03_wrap_deps_root_exit : forall x n, a_kind x = KRoot -> wrap_deps_error x (EExit n) = ETaskRun (Some n).
Proof. exact wrap_deps_error_root_exit. Qed.
Print Assumptions C03_wrap_deps_root_exit.

Theorem C03_wrap_deps_indirect : forall x e, indirect x = true -> wrap_deps_error x e = e.
Proof. exact wrap_deps_error_indirect. Qed.
Print Assumptions C03_wrap_deps_indirect.

Theorem C03_root_is_direct : forall x, a_kind x = KRoot -> indirect x = false.
Proof. exact root_direct. Qed.
Print Assumptions C03_root_is_direct.

(* the machine applies them at exactly these places *)
Theorem C03_step_fail_wraps :
  forall p c s a x e, get_act s a = Some x -> a_pc x = PFail e ->
    step p c s a = Some (set_act s a (set_pc x (PDefers (RErr (wrap_cmd_error x e))))).
Proof. exact step_fail_wraps. Qed.
Print Assumptions C03_step_fail_wraps.

Theorem C03_step_deps_wraps :
  forall p c s a x e, get_act s a = Some x -> a_pc x = PDepsReacq -> a_gerr x = Some e -> slot_free c s = true ->
    step p c s a = Some (set_act (acquire c s) a (set_holds (set_pc x (PEnd (RErr (wrap_deps_error x e)))) true)).
Proof. exact step_deps_wraps. Qed.
Print Assumptions C03_step_deps_wraps.

(* (3) mon_C03_status is its two clauses ... *)
Theorem C03_status_split :
  forall p c tr r, mon_C03_status p c tr r = status_clause1 p c tr r && status_clause2 p c tr r.
Proof. exact mon_C03_status_split. Qed.
Print Assumptions C03_status_split.

(* ... and the first holds of every completed run: a failure that reaches a root (through dep
   links and non-ignoring callers) makes Run return an error *)
Theorem C03_failure_reaches_root :
  forall p c sched r, run_result p c (run p c sched) = Some r ->
    status_clause1 p c (trace (run p c sched)) r = true.
Proof. exact fail_reaches_root_all_schedules. Qed.
Print Assumptions C03_failure_reaches_root.

(* mon_C03_status in full for completed runs in which no non-ignored failing command ended:
   Run does not report an exit-status error (no error the machine holds is an exit status) *)
Theorem C03_status_nothing_failed :
  forall p c sched r, run_result p c (run p c sched) = Some r ->
    failing_ends p c (trace (run p c sched)) = [] ->
    mon_C03_status p c (trace (run p c sched)) r = true.
Proof. exact no_failure_no_exit_error. Qed.
Print Assumptions C03_status_nothing_failed.

(* Clause 2 of mon_C03_status (with exactly one failing command, the error reported is the task-run
   error carrying exactly its exit status) is only demanded of programs in which commands are the
   only source of errors (only_cmd_errors: no guard can fail, the call counter cannot trip).  The
   restriction is needed: when a sibling dependency fails through a guard (here: a missing required
   variable, error 206) while the failing command is still running, the command ends under a
   cancelled context and Run reports the guard's error.  The monitor accepts that run (an earlier
   version of the monitor rejected it; found by this proof attempt, corrected before it could
   raise a false alarm on the implementation). *)
Definition exg_mk (deps : list call) (cmds : list cmd) (g : guards) : task :=
  {| t_deps := deps; t_cmds := cmds; t_run := Always; t_ignore := false; t_internal := false; t_g := g |}.
Definition exg_call (t : nat) : call := {| c_task := t; c_var := VConst 0 |}.
Definition exg_noreq : guards :=
  {| g_platform := true; g_required := false; g_enum := true; g_precond := None; g_prompt := false;
     g_uptodate := false |}.
Definition exg_prog : prog :=
  [ exg_mk [exg_call 1; exg_call 2] [] dummy_guards;
    exg_mk [] [] exg_noreq;
    exg_mk [] [Shell 3 false] dummy_guards ].
Definition exg_cfg : cfg :=
  {| cf_N := None; cf_parallel := false; cf_force := false; cf_forceall := false; cf_yes := false;
     cf_roots := [ exg_call 0 ]; cf_maxcall := 1000 |}.
Definition exg_sched : list choice :=
  ChRoot 0 :: repeat (ChStep 0) 5 ++ repeat (ChStep 2) 10 ++ [ChStep 1] ++ repeat (ChStep 2) 10 ++ repeat (ChStep 0) 10.
Definition exg_trace : list event := trace (run exg_prog exg_cfg exg_sched).

Example C03_status_guard_error_may_win :
  failing_ends exg_prog exg_cfg exg_trace = [([0; 1], 0)] /\
  run_result exg_prog exg_cfg (run exg_prog exg_cfg exg_sched) = Some (RErr (ECode 206)) /\
  mon_C03 exg_prog exg_cfg exg_trace = true /\
  status_clause1 exg_prog exg_cfg exg_trace (RErr (ECode 206)) = true /\
  only_cmd_errors exg_prog exg_cfg = false /\
  status_clause2 exg_prog exg_cfg exg_trace (RErr (ECode 206)) = true /\
  status_clause2 exg_prog exg_cfg exg_trace ROk = false.
Proof. vm_compute. repeat split; reflexivity. Qed.
Print Assumptions C03_status_guard_error_may_win.

(* non-vacuity: root task 0 depends on task 1, which calls task 2, whose second command exits
   with 3 (after registering a deferred command).  The failure kills the callee, its caller and
   the root; the deferred command still runs (and sees EXIT_CODE 3); nobody announces another
   command; Run reports a task-run error carrying 3 (exit status 201, or 3 with --exit-code);
   and the monitor is not trivially true: it rejects the same trace followed by a command of the
   (dead) root *)
Definition exf_mk (deps : list call) (cmds : list cmd) : task :=
  {| t_deps := deps; t_cmds := cmds; t_run := Always; t_ignore := false; t_internal := false; t_g := dummy_guards |}.
Definition exf_call (t : nat) : call := {| c_task := t; c_var := VConst 0 |}.
Definition exf_prog : prog :=
  [ exf_mk [exf_call 1] [Shell 0 false];
    exf_mk [] [CallC (exf_call 2); Shell 0 false];
    exf_mk [] [DeferShell 0; Shell 3 false; Shell 0 false] ].
Definition exf_cfg : cfg :=
  {| cf_N := Some 1; cf_parallel := false; cf_force := false; cf_forceall := false; cf_yes := false;
     cf_roots := [ exf_call 0 ]; cf_maxcall := 1000 |}.
Definition exf_sched : list choice :=
  ChRoot 0 :: concat (repeat [ChStep 0; ChStep 1; ChStep 2] 40).
Definition exf_trace : list event := trace (run exf_prog exf_cfg exf_sched).

Example C03_fail_example :
  filter observable exf_trace =
    [EvStarted [0] 0; EvStarted [0; 0] 1; EvStarted [0; 0; 0] 2;
     EvAnnounce [0; 0; 0] 1; EvProbeBegin [0; 0; 0] 1 0; EvProbeEnd [0; 0; 0] 1;
     EvDAnnounce [0; 0; 0] 0; EvDProbeBegin [0; 0; 0] 0 3; EvDProbeEnd [0; 0; 0] 0] /\
  failing_ends exf_prog exf_cfg exf_trace = [([0; 0; 0], 1)] /\
  mfold (step03 exf_prog exf_cfg) [] exf_trace = Some [[0; 0; 0]; [0; 0]; [0]] /\
  mon_C03 exf_prog exf_cfg exf_trace = true /\
  run_result exf_prog exf_cfg (run exf_prog exf_cfg exf_sched) = Some (RErr (ETaskRun (Some 3))) /\
  exit_status false (RErr (ETaskRun (Some 3))) = 201 /\
  exit_status true (RErr (ETaskRun (Some 3))) = 3 /\
  mon_C03_status exf_prog exf_cfg exf_trace (RErr (ETaskRun (Some 3))) = true /\
  mon_C03_status exf_prog exf_cfg exf_trace ROk = false /\
  mon_C03 exf_prog exf_cfg (exf_trace ++ [EvAnnounce [0] 0]) = false /\
  mon_C03 exf_prog exf_cfg (exf_trace ++ [EvProbeBegin [0; 0] 1 0]) = false.
Proof. vm_compute. repeat split; reflexivity. Qed.
Print Assumptions C03_fail_example.
