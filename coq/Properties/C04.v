(* C04 - Up-to-date soundness: never skip a task whose last attempt did not succeed.
   Statements only; proofs are in Fp/ProofsC04.v (and Fp/Refute.v for the witnesses).

   mon_C04 (Fp/Model.v) is the monitor cases.v evaluates on the behaviour of the real
   binary: every "up to date" must be justified by the most recent attempt (normal or
   forced run that got past the check: succeeded, failed, declined, killed) at the
   present fingerprint having run all commands successfully, with generates present. *)
From Coq Require Import List String NArith Bool.
Import ListNotations.
From TV Require Import Fp.Model Fp.ProofsSafe Fp.ProofsC04 Fp.ProofsPartial Fp.Refute Fp.Examples Extracted.Facts Run.FpCases.

(* the shapes of the code the model hard-wires (dry wiring, call sites, rollback on a failing command ...) *)
Theorem C04_shape_obligation : fp_shape_ok = true.
Proof. vm_compute. reflexivity. Qed.
Print Assumptions C04_shape_obligation.

(* Full statement, for the repaired protocol (record invalidated when an attempt starts,
   written after the last command succeeded, digest of the exact fingerprint): for every
   glob matcher, every injective digest, every project whose tasks do not share a state
   file, every history of file operations and invocations with every outcome
   (fail at any command, prompt declined, killed at any command boundary, --force, --dry,
   --status, --list --json ...). *)
Theorem C04_sound :
  forall (matchb : string -> path -> bool) (H : string -> string) (Hx : fpr -> string) (v : variant),
    v_safe v = true -> v_fp_exact v = true -> v_ts_exact v = true -> v_listjson_dry v = true ->
    (forall a b, Hx a = Hx b -> a = b) ->
    forall (p : project) (s : state) (h : list event),
      wf_proj p -> empty_store s ->
      mon_C04 matchb p (snap_of s) (observe matchb H Hx v p s h) = true.
Proof. exact c04_sound. Qed.
Print Assumptions C04_sound.

(* ... in particular for the variant the extracted facts say the tree is, once they say it is repaired *)
Theorem C04_sound_current :
  v_safe current = true -> v_fp_exact current = true -> v_ts_exact current = true -> v_listjson_dry current = true ->
  forall (Hx : fpr -> string), (forall a b, Hx a = Hx b -> a = b) ->
  forall (p : project) (s : state) (h : list event),
    wf_proj p -> empty_store s ->
    mon_C04 gmatch p (snap_of s) (observe gmatch idH Hx current p s h) = true.
Proof. exact (fun a b c d Hx i => c04_sound gmatch idH Hx current a b c d i). Qed.
Print Assumptions C04_sound_current.

(* The code as it is.  Each lemma: as long as the extracted flag says the repair is absent,
   the faithful model violates the monitor on the witness history (vm_compute). *)
Theorem C04_timestamp_failure_refuted :      (* 7.4 *)
  v_ts_rollback current = false -> v_safe current = false -> v_ts_exact current = false ->
  exists p h, mon_C04 gmatch p (snap_of w_init) (observe gmatch idH hx1 current p w_init h) = false.
Proof. exact (fun a b c => ex_intro _ _ (ex_intro _ _ (ts_failure_refuted current a b c))). Qed.
Print Assumptions C04_timestamp_failure_refuted.

Theorem C04_prompt_declined_refuted :        (* 7.5 *)
  v_prompt_rollback current = false -> v_safe current = false ->
  exists p h, mon_C04 gmatch p (snap_of w_init) (observe gmatch idH hx1 current p w_init h) = false.
Proof. exact (fun a b => ex_intro _ _ (ex_intro _ _ (prompt_declined_refuted current Checksum a b method_cs_ne))). Qed.
Print Assumptions C04_prompt_declined_refuted.

Theorem C04_listjson_refuted :               (* 7.6 *)
  v_listjson_dry current = false ->
  exists p h, mon_C04 gmatch p (snap_of w_init) (observe gmatch idH hx1 current p w_init h) = false.
Proof. exact (fun a => ex_intro _ _ (ex_intro _ _ (proj1 (listjson_refuted current Checksum a method_cs_ne)))). Qed.
Print Assumptions C04_listjson_refuted.

Theorem C04_killed_after_check_refuted :     (* 7.7 *)
  v_safe current = false ->
  exists p h, mon_C04 gmatch p (snap_of w_init) (observe gmatch idH hx1 current p w_init h) = false.
Proof. exact (fun a => ex_intro _ _ (ex_intro _ _ (killed_refuted current Checksum a method_cs_ne))). Qed.
Print Assumptions C04_killed_after_check_refuted.

Theorem C04_key_collision_refuted :          (* normalizeFilename is not injective *)
  exists p h, mon_C04 gmatch p (snap_of w_init) (observe gmatch idH hx1 current p w_init h) = false.
Proof. exact (ex_intro _ _ (ex_intro _ _ (key_collision_refuted current Checksum method_cs_ne))). Qed.
Print Assumptions C04_key_collision_refuted.

(* What does hold for the code as it is (the check writes the record, a failing command removes
   it): soundness for method checksum over every history in which no invocation is killed, the
   tasks have no prompt and --list --json does not write, provided no two distinct fingerprints
   of a task that occur collide under the digest (nocoll_run; for an injective hash: no collision
   of the basename++content stream, cf. C05_stream_not_injective). *)
Theorem C04_partial :
  v_safe current = false -> v_force_records current = false ->
  forall (matchb : string -> path -> bool) (H : string -> string) (Hx : fpr -> string)
         (p : project) (s : state) (h : list event),
    wf_cs_proj p -> cks s = [] ->
    forallb (ev_c04_ok current) h = true ->
    nocoll_run matchb H Hx current p (fs s) [] (observe matchb H Hx current p s h) = true ->
    mon_C04 matchb p (snap_of s) (observe matchb H Hx current p s h) = true.
Proof. exact (fun a b matchb H Hx => c04_partial matchb H Hx current a b). Qed.
Print Assumptions C04_partial.

Example C04_partial_example :
  wf_cs_proj [w_task Checksum] /\
  forallb (ev_c04_ok pinned) h_partial = true /\
  nocoll_run gmatch idH hx1 pinned [w_task Checksum] (fs w_init) []
             (observe gmatch idH hx1 pinned [w_task Checksum] w_init h_partial) = true /\
  map o_res (observe gmatch idH hx1 pinned [w_task Checksum] w_init h_partial)
  = [RFailed; ROk; RFile; RFailed; ROk; RSkipped].
Proof. exact partial_example. Qed.

(* non-vacuity of C04_sound: a two-task project meets wf_proj, and a 6-step history with a
   failed, a killed and a successful attempt runs to the end in the repaired variant *)
Example C04_example :
  wf_proj [w_task Checksum; w_gen Timestamp] /\ empty_store w_init /\
  map o_res (observe gmatch idH hx1 repaired [w_task Checksum; w_gen Timestamp] w_init h_example)
  = [RFailed; ROk; RSkipped; RFile; RKilled; ROk].
Proof. exact c04_example. Qed.
