(* C04 - Up-to-date soundness: never skip a task whose last attempt did not succeed.
   Statements only; proofs are in Fp/ProofsC04.v (and Fp/Refute.v for the witnesses).

   mon_C04 (Fp/Model.v) is the monitor cases.v evaluates on the behaviour of the real
   binary: every "up to date" must be justified by the most recent attempt (normal or
   forced run that got past the check: succeeded, failed, declined, killed) at the
   present fingerprint having run all commands successfully, with generates present. *)
From Coq Require Import List String NArith Bool.
Import ListNotations.
From TV Require Import Fp.Model Fp.ProofsSafe Fp.ProofsC04 Fp.ProofsPartial Fp.ProofsCurrentCs Fp.ProofsCurrentTs Fp.Refute Fp.Examples Fp.Current Extracted.Facts Run.FpCases.

(* READING GUIDE
   [LIVE]       about the tree as it is: the variant [current] computed from Extracted.Facts.  The
                repaired flags are discharged by computation (Fp/Current.v: cur_safe, cur_listjson_dry,
                cur_ts_rollback, cur_force_records), so a regression of a repair in /repo breaks these
                obligations; the hypotheses carve out exactly the OPEN findings, each shown necessary by
                a LIVE _refuted witness below.
   [REPAIRED]   about the variant in which every finding is repaired (exact fingerprints, digest
                recorded for method timestamp too): the full statement, no carve-outs.
   [HISTORICAL] about the code before the fix: commits (their premises are false for [current] today,
                the statements stay true and re-apply if a fix regresses).                          *)

(* the shapes of the code the model hard-wires (dry wiring, call sites, rollback on a failing command ...) *)
Theorem C04_shape_obligation : fp_shape_ok = true.
Proof. vm_compute. reflexivity. Qed.
Print Assumptions C04_shape_obligation.

(* [REPAIRED] Full statement, for the repaired protocol (record invalidated when an attempt starts,
   written after the last command succeeded, digest of the exact fingerprint): for every
   glob matcher, every injective digest, every project whose tasks do not share a state
   file, every history of file operations and invocations with every outcome
   (fail at any command, prompt declined, killed at any command boundary, --force, --dry,
   --status, --list --json ...). *)
Theorem C04_sound :
  forall (matchb : string -> path -> bool) (H : string -> string) (Hx : fpr -> string) (v : variant),
    v_safe v = true -> v_fp_exact v = true -> v_ts_exact v = true -> v_listjson_dry v = true ->
    v_dry_fail_guard v = true ->
    (forall a b, Hx a = Hx b -> a = b) ->
    forall (p : project) (s : state) (h : list event),
      wf_proj p -> empty_store s ->
      mon_C04 matchb p (snap_of s) (observe matchb H Hx v p s h) = true.
Proof. exact c04_sound. Qed.
Print Assumptions C04_sound.

(* [REPAIRED, conditional] ... for [current] once the facts say that the two open findings 7.8 and
   timestamp set-blindness are repaired too; today v_fp_exact current = v_ts_exact current = false, so
   this instance is vacuous - the live statements are C04_current_checksum / C04_current_timestamp. *)
Theorem C04_sound_current :
  v_safe current = true -> v_fp_exact current = true -> v_ts_exact current = true -> v_listjson_dry current = true ->
  v_dry_fail_guard current = true ->
  forall (Hx : fpr -> string), (forall a b, Hx a = Hx b -> a = b) ->
  forall (p : project) (s : state) (h : list event),
    wf_proj p -> empty_store s ->
    mon_C04 gmatch p (snap_of s) (observe gmatch idH Hx current p s h) = true.
Proof. exact (fun a b c d e Hx i => c04_sound gmatch idH Hx current a b c d e i). Qed.
Print Assumptions C04_sound_current.

(* ------------------------------------------------------------------------------------------- *)
(* [LIVE] The tree as it is.                                                                    *)

(* the repairs, as facts about /repo (a regression breaks these, hence everything below) *)
Theorem C04_current_flags :
  v_safe current = true /\ v_listjson_dry current = true /\ v_ts_rollback current = true /\
  v_prompt_rollback current = true /\ v_force_records current = true /\ v_dry_fail_guard current = true.
Proof. vm_compute. repeat split. Qed.
Print Assumptions C04_current_flags.

(* [LIVE] method checksum, every history, every outcome (fail / kill at any command, declined prompt,
   --force, --dry, --status, --list --json ...), under exactly two carve-outs:
     (i)  wf_csc_proj: no two tasks share a state file        [open: normalizeFilename collision;
                                                               necessary: C04_key_collision_refuted]
     (ii) nocoll_run:  no fingerprint at which a task is checked shares its digest with a DIFFERENT
                       fingerprint at which the task was attempted before   [open: 7.8 stream collision;
                                                               necessary: C04_stream_collision_refuted] *)
Theorem C04_current_checksum :
  forall (matchb : string -> path -> bool) (H : string -> string) (Hx : fpr -> string)
         (p : project) (s : state) (h : list event),
    wf_csc_proj p -> cks s = [] ->
    nocoll_run matchb H Hx current p (fs s) [] (observe matchb H Hx current p s h) = true ->
    mon_C04 matchb p (snap_of s) (observe matchb H Hx current p s h) = true.
Proof. exact c04_cur_checksum. Qed.
Print Assumptions C04_current_checksum.

(* [LIVE] method timestamp (marker compared with the newest source), every history and outcome, under
     (i)   wf_ts_proj: no two tasks share a marker; the tasks have no generates
                       [open: name collision - C04_key_collision_refuted; 7.4 residual (generates newer
                        than the sources stand in for a successful run) - C04_timestamp_residual_refuted]
     (iii) times_ok + ev_ok: logical time increases, file operations stamp the current time, and no file
                       matched by a sources pattern is removed, renamed or given an explicit mtime
                       [open: timestamp set-blindness - C04_timestamp_removal_refuted]               *)
Theorem C04_current_timestamp :
  forall (matchb : string -> path -> bool) (H : string -> string) (Hx : fpr -> string)
         (p : project) (s : state) (h : list event) (T : N),
    wf_ts_proj p -> tss s = [] ->
    times_ok T h = true -> forallb (ev_ok matchb p) h = true ->
    mon_C04 matchb p (snap_of s) (observe matchb H Hx current p s h) = true.
Proof. exact c04_cur_timestamp. Qed.
Print Assumptions C04_current_timestamp.

(* [LIVE] each carve-out is necessary: the open findings, witnessed on the current variant *)
Theorem C04_stream_collision_refuted :        (* 7.8, open *)
  exists p h, mon_C04 gmatch p (snap_of w_init) (observe gmatch idH hx1 current p w_init h) = false.
Proof. exact (ex_intro _ _ (ex_intro _ _ (proj2 (rename_collision_refuted current cur_fp_not_exact)))). Qed.
Print Assumptions C04_stream_collision_refuted.

Theorem C04_timestamp_removal_refuted :       (* timestamp set-blindness, open *)
  exists p h, mon_C04 gmatch p (snap_of w_init) (observe gmatch idH hx1 current p w_init h) = false.
Proof. exact (ex_intro _ _ (ex_intro _ _ (ts_removal_refuted_c04 current cur_ts_not_exact))). Qed.
Print Assumptions C04_timestamp_removal_refuted.

Theorem C04_timestamp_residual_refuted :      (* 7.4 residual, open: [run; force(fail); run] with generates *)
  exists p h, mon_C04 gmatch p (snap_of w_init) (observe gmatch idH hx1 current p w_init h) = false.
Proof. exact (ex_intro _ _ (ex_intro _ _ (ts_generates_residual_refuted current cur_ts_not_exact))). Qed.
Print Assumptions C04_timestamp_residual_refuted.

(* [LIVE] non-vacuity: an 8-step history with a failed and a killed (forced) attempt, an edit, a dry run;
   it meets the hypotheses of both theorems and ends: failed, ok, skipped, -, killed, ok, skipped, skipped *)
Example C04_current_checksum_example :
  wf_csc_proj [w_task Checksum] /\ cks w_init = [] /\
  nocoll_run gmatch idH hx1 current [w_task Checksum] (fs w_init) []
             (observe gmatch idH hx1 current [w_task Checksum] w_init h_cur) = true /\
  nocoll5_run gmatch idH hx1 current [w_task Checksum] (fs w_init) []
             (observe gmatch idH hx1 current [w_task Checksum] w_init h_cur) = true /\
  map o_res (observe gmatch idH hx1 current [w_task Checksum] w_init h_cur)
  = [RFailed; ROk; RSkipped; RFile; RKilled; ROk; RSkipped; RSkipped].
Proof. exact cur_checksum_example. Qed.

Example C04_current_timestamp_example :
  wf_ts_proj [w_task Timestamp] /\ tss w_init = [] /\ K gmatch [w_task Timestamp] 10 (fs w_init) /\
  times_ok 10 h_cur = true /\ forallb (ev_ok gmatch [w_task Timestamp]) h_cur = true /\
  map o_res (observe gmatch idH hx1 current [w_task Timestamp] w_init h_cur)
  = [RFailed; ROk; RSkipped; RFile; RKilled; ROk; RSkipped; RSkipped].
Proof. exact cur_timestamp_example. Qed.

(* [LIVE] task shape "deps": a dep (a task without sources, so it always runs) regenerates one of the
   task's sources from spec.txt before the up-to-date check; the fingerprint that counts is the one of the
   tree the deps leave (mon_C04 / mon_C05 / nocoll_run evaluate it through deps_fs).  After an edit of
   spec.txt the task runs again; failed and killed attempts in between do not make it skip. *)
Example C04_current_deps_example :
  wf_csc_proj [w_dep] /\ cks w_init_spec = [] /\
  nocoll_run gmatch idH hx1 current [w_dep] (fs w_init_spec) []
             (observe gmatch idH hx1 current [w_dep] w_init_spec h_dep) = true /\
  nocoll5_run gmatch idH hx1 current [w_dep] (fs w_init_spec) []
             (observe gmatch idH hx1 current [w_dep] w_init_spec h_dep) = true /\
  map o_res (observe gmatch idH hx1 current [w_dep] w_init_spec h_dep)
  = [ROk; RSkipped; RFile; RFailed; RKilled; ROk; RSkipped].
Proof. exact cur_deps_example. Qed.

(* ------------------------------------------------------------------------------------------- *)
(* [HISTORICAL unless marked] witnesses conditional on a repair being absent.  7.4-7.7 are repaired
   in /repo (641799f, d637d06, 2f7088d): their premises are false for [current] today; the statements
   re-apply the moment a repair regresses.  The key collision is LIVE (unconditional). *)
Theorem C04_timestamp_failure_refuted :      (* 7.4 *)
  v_ts_rollback current = false -> v_safe current = false -> v_ts_exact current = false ->
  exists p h, mon_C04 gmatch p (snap_of w_init) (observe gmatch idH hx1 current p w_init h) = false.
Proof. exact (fun a b c => ex_intro _ _ (ex_intro _ _ (ts_failure_refuted current a b c))). Qed.
Print Assumptions C04_timestamp_failure_refuted.

Theorem C04_prompt_declined_refuted :        (* 7.5 *)
  v_prompt_rollback current = false -> v_safe current = false ->
  exists p h, mon_C04 gmatch p (snap_of w_init) (observe gmatch idH hx1 current p w_init h) = false.
Proof. exact (fun a b => ex_intro _ _ (ex_intro _ _ (prompt_declined_refuted current Checksum a b method_cs_ne))). Qed.
Print Assumptions C04_prompt_declined_refuted.

Theorem C04_listjson_refuted :               (* 7.6 *)
  v_listjson_dry current = false ->
  exists p h, mon_C04 gmatch p (snap_of w_init) (observe gmatch idH hx1 current p w_init h) = false.
Proof. exact (fun a => ex_intro _ _ (ex_intro _ _ (proj1 (listjson_refuted current Checksum a method_cs_ne)))). Qed.
Print Assumptions C04_listjson_refuted.

Theorem C04_killed_after_check_refuted :     (* 7.7 *)
  v_safe current = false ->
  exists p h, mon_C04 gmatch p (snap_of w_init) (observe gmatch idH hx1 current p w_init h) = false.
Proof. exact (fun a => ex_intro _ _ (ex_intro _ _ (killed_refuted current Checksum a method_cs_ne))). Qed.
Print Assumptions C04_killed_after_check_refuted.

Theorem C04_key_collision_refuted :          (* [LIVE, open] normalizeFilename is not injective *)
  exists p h, mon_C04 gmatch p (snap_of w_init) (observe gmatch idH hx1 current p w_init h) = false.
Proof. exact (ex_intro _ _ (ex_intro _ _ (key_collision_refuted current Checksum method_cs_ne))). Qed.
Print Assumptions C04_key_collision_refuted.

(* [HISTORICAL] What held for the code BEFORE 641799f (the check writes the record, a failing command
   removes it; premise v_safe current = false is false today): soundness for method checksum over every history in which no invocation is killed, the
   tasks have no prompt and --list --json does not write, provided no two distinct fingerprints
   of a task that occur collide under the digest (nocoll_run; for an injective hash: no collision
   of the basename++content stream, cf. C05_stream_not_injective). *)
Theorem C04_partial :
  v_safe current = false -> v_force_records current = false ->
  forall (matchb : string -> path -> bool) (H : string -> string) (Hx : fpr -> string)
         (p : project) (s : state) (h : list event),
    wf_cs_proj p -> cks s = [] ->
    forallb (ev_c04_ok current) h = true ->
    ProofsPartial.nocoll_run matchb H Hx current p (fs s) [] (observe matchb H Hx current p s h) = true ->
    mon_C04 matchb p (snap_of s) (observe matchb H Hx current p s h) = true.
Proof. exact (fun a b matchb H Hx => c04_partial matchb H Hx current a b). Qed.
Print Assumptions C04_partial.

Example C04_partial_example :
  wf_cs_proj [w_task Checksum] /\
  forallb (ev_c04_ok pinned) h_partial = true /\
  ProofsPartial.nocoll_run gmatch idH hx1 pinned [w_task Checksum] (fs w_init) []
             (observe gmatch idH hx1 pinned [w_task Checksum] w_init h_partial) = true /\
  map o_res (observe gmatch idH hx1 pinned [w_task Checksum] w_init h_partial)
  = [RFailed; ROk; RFile; RFailed; ROk; RSkipped].
Proof. exact partial_example. Qed.

(* [REPAIRED] non-vacuity of C04_sound: a two-task project meets wf_proj, and a 6-step history with a
   failed, a killed and a successful attempt runs to the end in the repaired variant *)
Example C04_example :
  wf_proj [w_task Checksum; w_gen Timestamp] /\ empty_store w_init /\
  map o_res (observe gmatch idH hx1 repaired [w_task Checksum; w_gen Timestamp] w_init h_example)
  = [RFailed; ROk; RSkipped; RFile; RKilled; ROk].
Proof. exact c04_example. Qed.
