(* C11 - A task's meaning does not depend on what else ran in the same invocation.
   Statements only; proofs are in Vars/ProofsCache.v.

   Extracted.Facts supplies DynCacheKey (the index expression of
   c.dynamicCache in HandleDynamicVar) and MatrixResolveWritesShared
   (resolveMatrixRefs assigns into the rows of the matrix it is given). *)
From Coq Require Import List String Bool.
Import ListNotations.
From TV Require Import Vars.Model Vars.Proofs Vars.ProofsCache Extracted.Facts Run.VarsCases.
Local Open Scope string_scope.
Local Open Scope list_scope.

Theorem C11_facts_known : vars_facts_known = true.
Proof. exact eq_refl. Qed.
Print Assumptions C11_facts_known.

(* getVariables gets every ast.Var by value, but Var.Sh is a *string owned by the definition in
   the merged Taskfile: nothing in getVariables assigns through a pointer *)
Theorem C11_get_variables_no_pointer_write : GetVariablesWritesThroughPointer = false.
Proof. exact eq_refl. Qed.
Print Assumptions C11_get_variables_no_pointer_write.

(* ---------- the dynamic-variable cache ---------- *)

(* Full statement.  The shell is a function of (text, dir, env) (w_sh).  If its
   answer depends only on what the cache key records, then after ANY sequence of
   compilations of any tasks in the same process - any cache reachable that way -
   a task compiles to exactly what it compiles to in a fresh process: variables,
   environment, matrix items. *)
Theorem C11_noninterference :
  forall w P x s,
    key_respects w -> p_defer_shared P = false -> reachable w P s ->
    fst (compile w P x s) = fst (compile w P x empty_shared).
Proof. exact noninterference. Qed.
Print Assumptions C11_noninterference.

(* a key of (text, dir, env) records everything the shell sees: no condition on the commands *)
Theorem C11_noninterference_full_key :
  forall w P x s,
    k_sh (w_key w) = true -> k_dir (w_key w) = true -> k_env (w_key w) = true ->
    p_defer_shared P = false -> reachable w P s ->
    fst (compile w P x s) = fst (compile w P x empty_shared).
Proof. exact (fun w P x s H1 H2 H3 => noninterference w P x s (full_key_respects w H1 H2 H3)). Qed.
Print Assumptions C11_noninterference_full_key.

(* the current tree: as soon as its extracted key has dir and env, the full statement holds for it *)
Theorem C11_current :
  k_dir current_key = true -> k_env current_key = true -> DeferEntrySharedWithDefinition = false ->
  forall sh os exp x s,
    reachable (current_world sh os exp) current_params s ->
    fst (compile (current_world sh os exp) current_params x s)
    = fst (compile (current_world sh os exp) current_params x empty_shared).
Proof.
  exact (fun H2 H3 H4 sh os exp x s =>
           noninterference (current_world sh os exp) current_params x s
                           (full_key_respects (current_world sh os exp) eq_refl H2 H3) H4).
Qed.
Print Assumptions C11_current.

(* partial: a coarser key is enough for commands that ignore what it leaves out
   (with today's text-only key: commands whose output depends on neither dir nor env) *)
Theorem C11_partial :
  forall w P x s,
    k_sh (w_key w) = true ->
    (k_dir (w_key w) = true \/ forall t d d' e, w_sh w t d e = w_sh w t d' e) ->
    (k_env (w_key w) = true \/ forall t d e e', w_sh w t d e = w_sh w t d e') ->
    p_defer_shared P = false -> reachable w P s ->
    fst (compile w P x s) = fst (compile w P x empty_shared).
Proof. exact (fun w P x s H1 H2 H3 => noninterference w P x s (coarse_key_respects w H1 H2 H3)). Qed.
Print Assumptions C11_partial.

(* 7.16: every key without the directory is refuted by `sh: pwd` in two dirs *)
Theorem C11_cache_dir_refuted :
  forall ks b, k_dir ks = false ->
    let w := mkw sh_pwd ks [] false in
    outputs_eqb (after w (plain_params b) (dir_task "d1") (dir_task "d2"))
                (fst (compile w (plain_params b) (dir_task "d2") empty_shared)) = false.
Proof. exact key_without_dir_refuted. Qed.
Print Assumptions C11_cache_dir_refuted.

(* every key without the environment is refuted by `sh: echo $TASK` in two tasks *)
Theorem C11_cache_env_refuted :
  forall ks b, k_env ks = false ->
    let w := mkw sh_task ks [] false in
    outputs_eqb (after w (plain_params b) (env_task "e1") (env_task "e2"))
                (fst (compile w (plain_params b) (env_task "e2") empty_shared)) = false.
Proof. exact key_without_env_refuted. Qed.
Print Assumptions C11_cache_env_refuted.

(* which of the two the current tree has, by its extracted key *)
Theorem C11_current_refuted :
  forall b,
    (k_dir current_key = false ->
     let w := mkw sh_pwd current_key [] false in
     outputs_eqb (after w (plain_params b) (dir_task "d1") (dir_task "d2"))
                 (fst (compile w (plain_params b) (dir_task "d2") empty_shared)) = false) /\
    (k_env current_key = false ->
     let w := mkw sh_task current_key [] false in
     outputs_eqb (after w (plain_params b) (env_task "e1") (env_task "e2"))
                 (fst (compile w (plain_params b) (env_task "e2") empty_shared)) = false).
Proof.
  exact (fun b => conj (key_without_dir_refuted current_key b) (key_without_env_refuted current_key b)).
Qed.
Print Assumptions C11_current_refuted.

(* ---------- the shared task definitions ---------- *)

(* Full statement, for a compilation that resolves matrix refs into its own
   copy and hands the compiled task copies of the defer: entries: the shared
   definitions come back unchanged. *)
Theorem C11_no_shared_mutation :
  forall w P x s,
    p_matrix_shared P = false -> p_defer_shared P = false ->
    s_rows (snd (compile w P x s)) = s_rows s /\ s_defers (snd (compile w P x s)) = s_defers s.
Proof. exact no_shared_mutation. Qed.
Print Assumptions C11_no_shared_mutation.

Theorem C11_no_shared_mutation_current :
  MatrixResolveWritesShared = false -> DeferEntrySharedWithDefinition = false ->
  forall w x s, s_rows (snd (compile w current_params x s)) = s_rows s /\
                s_defers (snd (compile w current_params x s)) = s_defers s.
Proof. exact (fun H Hd w x s => no_shared_mutation w current_params x s H Hd). Qed.
Print Assumptions C11_no_shared_mutation_current.

(* 7.17: resolveMatrixRefs as it is writes the resolved list into the shared row *)
Theorem C11_shared_row_write_refuted :
  forall sh ks,
    s_rows (snd (compile (mkw sh ks [] false) (plain_params true) (matrix_task "a1 a2") empty_shared))
    <> s_rows empty_shared.
Proof. exact shared_row_write_refuted. Qed.
Print Assumptions C11_shared_row_write_refuted.

(* partial: compilations that do not overlap never see the row another one left *)
Theorem C11_shared_row_sequential :
  forall w P x c r1 r2 d,
    fst (compile w P x {| s_cache := c; s_rows := r1; s_defers := d |})
    = fst (compile w P x {| s_cache := c; s_rows := r2; s_defers := d |}).
Proof. exact shared_row_sequentially_harmless. Qed.
Print Assumptions C11_shared_row_sequential.

(* two overlapping compilations of one task do: A resolves, B resolves, A reads B's list *)
Theorem C11_shared_row_interleaving_refuted :
  forall sh ks,
    let w := mkw sh ks [] false in
    let P := plain_params true in
    let a := matrix_task "a1 a2" in
    let b := matrix_task "b1 b2 b3" in
    let '(pa, s1) := phase1 w P a empty_shared in
    let '(pb, s2) := phase1 w P b s1 in
    o_items (phase2 P a pa s2) = ["b1"; "b2"; "b3"] /\
    o_items (fst (compile w P a empty_shared)) = ["a1"; "a2"].
Proof. exact shared_row_interleaving_refuted. Qed.
Print Assumptions C11_shared_row_interleaving_refuted.

(* with a private copy the read does not depend on the shared state at all: any interleaving *)
Theorem C11_private_rows :
  forall P x pd s s',
    p_matrix_shared P = false -> p_defer_shared P = false -> phase2 P x pd s = phase2 P x pd s'.
Proof. exact private_rows_any_interleaving. Qed.
Print Assumptions C11_private_rows.

(* a defer: entry is rendered lazily by runDeferred, INTO the entry the compiled task holds: if
   that is the definition's own entry (no copy), the second call of a task with other vars
   runs the first call's deferred command - already without any concurrency - and the shared
   definition has changed *)
Theorem C11_shared_defer_refuted :
  forall sh ks,
    let w := mkw sh ks [] false in
    let s1 := snd (compile w (params_defer true) (defer_task "one") empty_shared) in
    o_defers (fst (compile w (params_defer true) (defer_task "two") s1)) = ["cleanup one"] /\
    o_defers (fst (compile w (params_defer true) (defer_task "two") empty_shared)) = ["cleanup two"] /\
    s_defers s1 <> s_defers empty_shared.
Proof. exact shared_defer_refuted. Qed.
Print Assumptions C11_shared_defer_refuted.

(* ---------- the directory of task-level sh: variables ---------- *)

(* found while testing the repair of 7.16 (the repaired cache un-hides it): getVariables
   templates the task's dir: right after the special variables, so a dir: that refers to a
   global var is still empty there and the task-level sh: variables run in the root dir *)
Theorem C11_early_task_dir_refuted :
  forall ks,
    let w := mkw sh_pwd ks [] false in
    o_vars (fst (compile w (params_dir_after "Special") dir_from_global empty_shared)) = ["ROOT"] /\
    o_vars (fst (compile w (params_dir_after "IncludeVars") dir_from_global empty_shared)) = ["ROOT/d1"].
Proof. exact early_task_dir_refuted. Qed.
Print Assumptions C11_early_task_dir_refuted.

(* ---------- non-vacuity ---------- *)

(* reachable states exist beyond the empty one, and the hypothesis of the full
   statement is met by the full key *)
Example C11_example :
  let w := mkw sh_pwd strong_key [] false in
  reachable w (plain_params true) (snd (compile w (plain_params true) (dir_task "d1") empty_shared)) /\
  key_respects w /\
  o_vars (fst (compile w (plain_params true) (dir_task "d2")
                       (snd (compile w (plain_params true) (dir_task "d1") empty_shared)))) = ["ROOT/d2"].
Proof.
  split; [apply reach_step, reach_init|]. split; [apply full_key_respects; reflexivity|].
  vm_compute. reflexivity.
Qed.
