(* C06 — run: once / when_changed / always execute the right number of times.
   Statements only; proofs are in Exec/InvDedup.v (counts) and Exec/InvCalls.v (outcome). *)
From Coq Require Import List Arith Bool.
Import ListNotations.
From TV Require Import Exec.Model Exec.Monitors Exec.InvDedup Exec.Shape Extracted.Facts.

(* tie to the source: GetHash maps always -> no key, once -> task name, when_changed -> structural hash;
   later callers wait for completion and return the first execution's error *)
Theorem C06_shape : exec_shape_ok = true.
Proof. reflexivity. Qed.
Print Assumptions C06_shape.

(* For every program, configuration and schedule: each dedup key (task for run: once; task and
   variable value for run: when_changed) is started at most once, and a caller is only skipped in
   favour of an execution that was started. *)
Theorem C06_counts :
  forall (p : prog) (c : cfg) (sched : list choice), mon_C06 p c (trace (run p c sched)) = true.
Proof. exact dedup_all_schedules. Qed.
Print Assumptions C06_counts.

(* non-vacuity: two deps on the same run: once task; one starts, one is skipped *)
Definition ex_prog : prog :=
  [ {| t_deps := [ {| c_task := 1; c_var := VConst 1 |}; {| c_task := 1; c_var := VConst 2 |} ];
       t_cmds := []; t_run := Always; t_ignore := false; t_internal := false; t_g := dummy_guards |};
    {| t_deps := []; t_cmds := [Shell 0 false]; t_run := Once; t_ignore := false; t_internal := false; t_g := dummy_guards |} ].
Definition ex_cfg : cfg :=
  {| cf_N := None; cf_parallel := false; cf_force := false; cf_forceall := false; cf_yes := false;
     cf_roots := [ {| c_task := 0; c_var := VConst 0 |} ]; cf_maxcall := 1000 |}.
Example C06_example :
  let tr := trace (run ex_prog ex_cfg ([ChRoot 0] ++ repeat (ChStep 0) 4 ++ repeat (ChStep 1) 3 ++ repeat (ChStep 2) 3)) in
  skipped_keys tr = [KOnce 1] /\ started_keys ex_prog ex_cfg tr = [KOnce 1].
Proof. vm_compute. split; reflexivity. Qed.
