(* C08 - Included tasks behave as namespaced copies: the statements about the tree AS IT IS NOW.

   Properties/C08.v proves C08_refs for every variant v with [v_keep_rootref v = true] and
   C08_attrs for every v with [dc_complete v .. = true]; nothing there says that the variant
   computed from the extracted facts ([current_variant], Run/MergeCases.v) has these flags, and
   its _refuted theorems are guarded by "[.. current_variant] = false" (vacuous after the repairs).
   This file discharges the flag premises against Extracted.Facts (regenerated from /repo by
   every check), so that reverting 0422d1a (':'-references kept through the merges, stripped once
   at the root) or 0f7bc47 (Task.DeepCopy assigns Watch) - or adding a field to ast.Task / Cmd /
   Dep without copying it - makes an obligation of this file false: the build breaks.

   Fact obligations (closed by computation on Extracted.Facts):
     C08_current_keeps_rootref      v_keep_rootref <- tasks_merge_ref_fn = "taskRefWithNamespace",
                                    tasks_merge_ref_fn_trims = "false", "stripRootRefs" in graph_merge_calls
     C08_current_copies_vars        v_inplace = false <- vars_merge_dir_inplace = "false" (Vars.Merge assigns .Dir on a local copy
                                    of <loop var>.Value and stores that copy)
     C08_current_dc_struct_ok       the part of valid_load that speaks about the variant
                                    <- task/cmd/dep_deepcopy_fields contain the fields the merge itself touches
     C08_current_deepcopy_complete  dc_complete at the field lists the monitor R_c08_attrs uses
                                    <- task_fields/cmd_fields/dep_fields vs task/cmd/dep_deepcopy_fields
     C08_current_nothing_missing    deepcopy_missing = [] (the R_c08_deepcopy monitor; also compiled_task_fields)
   Statements about the current tree (general statements applied to those facts; what stays a
   hypothesis is the well-formedness of the input: wf_graphb g, valid_pi g pi, valid_sigma s, and
   "the load succeeded"):
     C08_current_valid_load, C08_refs_current, C08_attrs_current, C08_current_all_monitors.
   Examples: the three witnesses of the former findings 7.12 / 7.13 (Merge/ProofsCurrent.v), on
   which the guarded _refuted theorems of Properties/C08.v are now vacuous, pass at the current variant.
   No premise is left undischarged for C08; no finding is open. *)
From Coq Require Import List String Bool Permutation.
Import ListNotations.
From TV Require Import Merge.Model Merge.Spec Merge.ProofsBase Merge.ProofsRun Merge.ProofsC08 Merge.ProofsC08Mon
     Merge.ProofsC08Refs Merge.ProofsKeys Merge.ProofsErrors Merge.ProofsReader Extracted.Facts Run.MergeCases
     Merge.ProofsCurrent.

(* ---- fact obligations: the current tree IS the repaired variant ---- *)

Theorem C08_current_keeps_rootref : v_keep_rootref current_variant = true.
Proof. vm_compute; reflexivity. Qed.
Print Assumptions C08_current_keeps_rootref.

(* Vars.Merge stamps include.Dir on a local copy of the variable (9941da6), not on the included Taskfile's own *)
Theorem C08_current_copies_vars : v_inplace current_variant = false.
Proof. vm_compute; reflexivity. Qed.
Print Assumptions C08_current_copies_vars.

Theorem C08_current_dc_struct_ok : dc_struct_ok current_variant = true.
Proof. vm_compute; reflexivity. Qed.
Print Assumptions C08_current_dc_struct_ok.

(* every field of ast.Task (outside the ones the merge rewrites), ast.Cmd and ast.Dep is assigned by DeepCopy *)
Theorem C08_current_deepcopy_complete : dc_complete current_variant task_fields cmd_fields dep_fields = true.
Proof. vm_compute; reflexivity. Qed.
Print Assumptions C08_current_deepcopy_complete.

Theorem C08_current_nothing_missing : deepcopy_missing = [].
Proof. vm_compute; reflexivity. Qed.
Print Assumptions C08_current_nothing_missing.

(* ---- the statements at the current tree, without premises on the facts ---- *)

(* valid_load at the current variant is a condition on the input alone *)
Theorem C08_current_valid_load :
  forall g pi s, wf_graphb g = true -> valid_pi g pi -> valid_sigma s -> valid_load current_variant g pi s.
Proof. exact (fun g pi s => Build_valid_load current_variant g pi s C08_current_dc_struct_ok C08_current_copies_vars). Qed.
Print Assumptions C08_current_valid_load.

(* deps and task: references resolve to the own file, ':'-prefixed ones to the root Taskfile *)
Theorem C08_refs_current :
  forall g pi s, wf_graphb g = true -> valid_pi g pi -> valid_sigma s ->
    f_err (merge_all current_variant g pi s) = None ->
    mon_refs g (f_tasks (merge_all current_variant g pi s)) = true.
Proof.
  exact (fun g pi s Hw Hp Hs =>
           refs_hold_keep current_variant g pi s (C08_current_valid_load g pi s Hw Hp Hs) C08_current_keeps_rootref).
Qed.
Print Assumptions C08_refs_current.

(* every attribute of the task, every field of every command and dep survives the merge *)
Theorem C08_attrs_current :
  forall g pi s, wf_graphb g = true -> valid_pi g pi -> valid_sigma s ->
    f_err (merge_all current_variant g pi s) = None ->
    mon_attrs task_fields cmd_fields dep_fields g (f_tasks (merge_all current_variant g pi s)) = true.
Proof.
  exact (fun g pi s Hw Hp Hs =>
           attrs_hold current_variant g pi s task_fields cmd_fields dep_fields
                      (C08_current_valid_load g pi s Hw Hp Hs) C08_current_deepcopy_complete).
Qed.
Print Assumptions C08_attrs_current.

(* the five per-origin monitors of cases.v together, for every include graph and every order *)
Theorem C08_current_all_monitors :
  forall g pi s, wf_graphb g = true -> valid_pi g pi -> valid_sigma s ->
    f_err (merge_all current_variant g pi s) = None ->
    mon_present g (f_tasks (merge_all current_variant g pi s)) = true /\
    mon_refs g (f_tasks (merge_all current_variant g pi s)) = true /\
    mon_attrs task_fields cmd_fields dep_fields g (f_tasks (merge_all current_variant g pi s)) = true /\
    mon_place g (f_tasks (merge_all current_variant g pi s)) = true /\
    mon_aliases g (f_tasks (merge_all current_variant g pi s)) = true.
Proof.
  exact (fun g pi s Hw Hp Hs He =>
           conj (present_holds current_variant g pi s (C08_current_valid_load g pi s Hw Hp Hs) He)
          (conj (C08_refs_current g pi s Hw Hp Hs He)
          (conj (C08_attrs_current g pi s Hw Hp Hs He)
          (conj (place_holds current_variant g pi s (C08_current_valid_load g pi s Hw Hp Hs) He)
                (aliases_hold current_variant g pi s (C08_current_valid_load g pi s Hw Hp Hs) He))))).
Qed.
Print Assumptions C08_current_all_monitors.

(* ---- the witnesses of the repaired findings, at the current variant ---- *)
Local Open Scope string_scope.

(* 7.13 (a): `:root` two includes deep is the root file's task *)
Example C08_current_rootref_nested :
  let g := graph_of fs_nested in
  let pi := ["/R/Taskfile.yml"; "/R/b/Taskfile.yml"; "/R/b/c/Taskfile.yml"] in
  f_err (merge_all current_variant g pi sigma_id) = None /\
  mon_refs g (f_tasks (merge_all current_variant g pi sigma_id)) = true /\
  option_map (fun t => map c_task (t_cmds t)) (lookup "b:c:callroot" (f_tasks (merge_all current_variant g pi sigma_id)))
  = Some ["root"].
Proof. vm_compute. repeat split; reflexivity. Qed.

(* 7.13 (b): ... also under flatten *)
Example C08_current_rootref_flatten :
  let g := graph_of fs_flat in
  let pi := ["/R/Taskfile.yml"; "/R/b/Taskfile.yml"] in
  f_err (merge_all current_variant g pi sigma_id) = None /\
  mon_refs g (f_tasks (merge_all current_variant g pi sigma_id)) = true /\
  option_map (fun t => map c_task (t_cmds t)) (lookup "callroot" (f_tasks (merge_all current_variant g pi sigma_id)))
  = Some ["root"].
Proof. vm_compute. repeat split; reflexivity. Qed.

(* 7.12: a task with every field set keeps every field *)
Example C08_current_attrs_witness :
  let g := graph_of fs_attrs in
  let pi := ["/R/Taskfile.yml"; "/R/b/Taskfile.yml"] in
  f_err (merge_all current_variant g pi sigma_id) = None /\
  mon_attrs task_fields cmd_fields dep_fields g (f_tasks (merge_all current_variant g pi sigma_id)) = true.
Proof. vm_compute. repeat split; reflexivity. Qed.
