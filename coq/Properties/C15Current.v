(* C15 - Task name resolution: the statements about the tree AS IT IS NOW, unconditional.

   Properties/C15.v proves the full statements for every variant v with [good v]
   (and [v_fuzzy v = true]); for the tree under check it only has
   C15_current_full_when_repaired, which keeps "the extracted facts are the repaired
   ones" as premises.  This file discharges those premises against Extracted.Facts
   (regenerated from /repo by every check) through [current_variant]
   (Run/ResolveCases.v), so that

     * there is a theorem about the current tree without any premise on the facts, and
     * reverting one of the repairs d99ae7b (QuoteMeta), 7ea350c ((?s)), 5b7c1de (fuzzy
       model built after the read) in /repo changes a fact, makes one of the
       [C15_current_*] fact obligations below false, and this file stops compiling
       ("obligation broken") - whatever the harness happens to sample.

   Fact obligations (closed by computation on Extracted.Facts):
     C15_current_quotes   v_quote  <- resolve_wildcard_shape = "regex-quoted"
     C15_current_dotall   v_dotall <- resolve_wildcard_dotall = true
     C15_current_fuzzy    v_fuzzy  <- resolve_fuzzy_guard in {"returns-when-taskfile-nil","none"}
                                      && resolve_fuzzy_after_read && resolve_fuzzy_trains_names_and_aliases
     C15_current_is_good, C15_current_is_spec (= the three together), C15_current_codes
   Statements about the current tree (the general statements of Properties/C15.v applied to
   those facts; what stays a hypothesis is only what is part of the statement: the two laws
   of the suggestion oracle [closest]):
     C15_current_full, C15_current_cli_full, C15_current_total, C15_current_characterisation,
     C15_current_first_in_order, C15_current_alias_unique, C15_current_alias_ambiguous_203,
     C15_current_unknown_200_nothing_runs, C15_current_suggestion_attempted,
     C15_current_within_reach (the premise of C15_current_partial holds for every input).
   No premise is left undischarged for C15; no finding is open. *)
From Coq Require Import String Ascii List Bool Arith.
Import ListNotations.
From TV Require Import Resolve.Model Resolve.Proofs Resolve.ProofsFind Resolve.ProofsRaw
     Extracted.Facts Run.ResolveCases Resolve.ProofsCurrent.

(* ---- fact obligations: the current tree IS the repaired variant ---- *)

(* WildcardMatch quotes the literal parts of the task name (regexp.QuoteMeta) *)
Theorem C15_current_quotes : v_quote current_variant = true.
Proof. reflexivity. Qed.
Print Assumptions C15_current_quotes.

(* ... and its star swallows newlines ((?s)) *)
Theorem C15_current_dotall : v_dotall current_variant = true.
Proof. reflexivity. Qed.
Print Assumptions C15_current_dotall.

Theorem C15_current_is_good : good current_variant.
Proof. exact (conj C15_current_quotes C15_current_dotall). Qed.
Print Assumptions C15_current_is_good.

(* Setup builds the fuzzy model after the Taskfile was read, over names and aliases *)
Theorem C15_current_fuzzy : v_fuzzy current_variant = true.
Proof. reflexivity. Qed.
Print Assumptions C15_current_fuzzy.

(* the three together: the current tree is the variant the property text describes *)
Theorem C15_current_is_spec : current_variant = spec_variant.
Proof. reflexivity. Qed.
Print Assumptions C15_current_is_spec.

Theorem C15_current_codes : current_codes = spec_codes.
Proof. reflexivity. Qed.
Print Assumptions C15_current_codes.

(* ---- the full statements, at the current tree, without premises on the facts ---- *)

(* the monitor evaluated on the real GetTask holds for every table and request; the two
   hypotheses are the laws of the suggestion library (an oracle), not facts about /repo *)
Theorem C15_current_full :
  forall closest : oracle,
    (forall wds r w, closest wds r = Some w -> In w wds /\ w <> []) ->
    (forall wds r, has_close wds r = true -> closest wds r <> None) ->
    forall tbl req, mon_C15 tbl req (observe closest req (find current_variant tbl req)) = true.
Proof.
  exact (fun closest Hs Hc => current_full_when_repaired closest Hs Hc C15_current_is_good C15_current_fuzzy).
Qed.
Print Assumptions C15_current_full.

(* the CLI monitor, with the exit codes read from errors/errors.go *)
Theorem C15_current_cli_full :
  forall tbl reqs ran code,
    run_calls current_variant current_codes tbl reqs = (ran, Some code) -> mon_cli tbl reqs code ran = true.
Proof. exact (fun tbl reqs ran code => mon_cli_holds current_variant tbl reqs ran code C15_current_is_good). Qed.
Print Assumptions C15_current_cli_full.

(* resolution in the current tree never panics and never leaves the modelled regexp subset *)
Theorem C15_current_total :
  forall tbl req, find current_variant tbl req <> Panicked /\ find current_variant tbl req <> Unmodelled.
Proof. exact (fun tbl req => spec_total current_variant tbl req C15_current_is_good). Qed.
Print Assumptions C15_current_total.

Theorem C15_current_characterisation :
  forall tbl req,
    match find current_variant tbl req with
    | Found Exact n ws => n = req /\ ws = [] /\ In req (names tbl)
    | Found Wild n ws =>
        ~ In req (names tbl) /\
        exists pre t post, tbl = pre ++ t :: post /\ t_name t = n /\ wildcard_match n req = Some ws /\ no_pattern pre req
    | Found Alias n ws => ws = [] /\ ~ In req (names tbl) /\ no_pattern tbl req /\ aliased tbl req = [n]
    | Ambiguous ns => ~ In req (names tbl) /\ no_pattern tbl req /\ aliased tbl req = ns /\ length ns >= 2
    | NotFound w => ~ In req (names tbl) /\ no_pattern tbl req /\ aliased tbl req = [] /\ w = Some (words tbl)
    | Panicked | Unmodelled => False
    end.
Proof. exact (fun tbl req => find_characterisation current_variant tbl req C15_current_is_good). Qed.
Print Assumptions C15_current_characterisation.

Theorem C15_current_first_in_order :
  forall tbl req pre t post ws,
    ~ In req (names tbl) -> tbl = pre ++ t :: post -> no_pattern pre req ->
    wildcard_match (t_name t) req = Some ws ->
    find current_variant tbl req = Found Wild (t_name t) ws.
Proof. exact (fun tbl req pre t post ws => first_in_order current_variant tbl req pre t post ws C15_current_is_good). Qed.
Print Assumptions C15_current_first_in_order.

Theorem C15_current_alias_unique :
  forall tbl req n,
    ~ In req (names tbl) -> no_pattern tbl req -> aliased tbl req = [n] ->
    find current_variant tbl req = Found Alias n [].
Proof. exact (fun tbl req n => alias_unique current_variant tbl req n C15_current_is_good). Qed.
Print Assumptions C15_current_alias_unique.

Theorem C15_current_alias_ambiguous_203 :
  forall tbl req,
    ~ In req (names tbl) -> no_pattern tbl req -> length (aliased tbl req) >= 2 ->
    find current_variant tbl req = Ambiguous (aliased tbl req) /\
    outcome_code current_codes (find current_variant tbl req) = Some 203.
Proof. exact (fun tbl req => alias_ambiguous current_variant spec_codes tbl req C15_current_is_good). Qed.
Print Assumptions C15_current_alias_ambiguous_203.

Theorem C15_current_unknown_200_nothing_runs :
  forall tbl pre req post,
    (forall r, In r pre -> is_found (find current_variant tbl r) = true) ->
    ~ In req (names tbl) -> no_pattern tbl req -> aliased tbl req = [] ->
    run_calls current_variant current_codes tbl (pre ++ req :: post) = ([], Some 200).
Proof. exact (fun tbl pre req post => run_unknown current_variant spec_codes tbl pre req post C15_current_is_good). Qed.
Print Assumptions C15_current_unknown_200_nothing_runs.

Theorem C15_current_suggestion_attempted :
  forall tbl req wds,
    find current_variant tbl req = NotFound wds ->
    wds = Some (words tbl) /\
    (forall n, In n (names tbl) -> In n (words tbl)) /\
    (forall t a, In t tbl -> In a (t_aliases t) -> In a (words tbl)).
Proof.
  exact (fun tbl req wds => suggestion_attempted current_variant tbl req wds C15_current_is_good C15_current_fuzzy).
Qed.
Print Assumptions C15_current_suggestion_attempted.

(* the side condition of C15_partial / C15_current_partial is met by every table and request *)
Theorem C15_current_within_reach : forall tbl req, within_reach current_variant tbl req.
Proof.
  exact (fun tbl req =>
           conj (fun H : v_quote current_variant = false => False_ind _ (Bool.diff_true_false H))
                (fun H : v_dotall current_variant = false => False_ind _ (Bool.diff_true_false H))).
Qed.
Print Assumptions C15_current_within_reach.
