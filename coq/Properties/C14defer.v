(* C14 — Deferred commands always run, exactly once, in reverse order, and see EXIT_CODE:
   the machine's deferred stack against mon_C14, for all programs, configurations and schedules.
   Statements only; proofs are in Exec/InvDefer.v. *)
From Coq Require Import List Arith Bool.
Import ListNotations.
From TV Require Import Exec.Model Exec.Monitors Exec.InvDefer.

(* (1) safety, every reachable state: for every started activation the deferred announcements are
   strictly decreasing (reverse order of registration, hence each entry at most once), are
   DeferShell entries of its task, and EXIT_CODE printed by its deferred commands is the exit
   status of its own failing command - or unset (0) when that command ended under a cancelled
   context, which happens only if a task of the program can fail through a guard, or the expanded
   call tree is large enough for the call counter to trip, or another activation has a failing
   command *)
Theorem C14_defer_safety :
  forall p c sched, mon_C14 p c false (trace (run p c sched)) = true.
Proof. exact defer_safety. Qed.
Print Assumptions C14_defer_safety.

(* (2) completeness, completed runs: additionally every announced deferred command executed; an
   activation that printed "finished" ran exactly all its DeferShell entries in reverse order; one
   that stopped after announcing shell command i ran every DeferShell entry with a smaller index *)
Theorem C14_defer_complete :
  forall p c sched r, run_result p c (run p c sched) = Some r ->
                      mon_C14 p c true (trace (run p c sched)) = true.
Proof. exact defer_complete. Qed.
Print Assumptions C14_defer_complete.

(* the harness sees the observable part of the trace; mon_C14 does not look at anything else *)
Theorem C14_defer_safety_observable :
  forall p c sched, mon_C14 p c false (filter observable (trace (run p c sched))) = true.
Proof. exact defer_safety_observable. Qed.
Print Assumptions C14_defer_safety_observable.

Theorem C14_defer_complete_observable :
  forall p c sched r, run_result p c (run p c sched) = Some r ->
                      mon_C14 p c true (filter observable (trace (run p c sched))) = true.
Proof. exact defer_complete_observable. Qed.
Print Assumptions C14_defer_complete_observable.

Theorem C14_observable :
  forall p c complete tr, mon_C14 p c complete (filter observable tr) = mon_C14 p c complete tr.
Proof. exact mon_C14_observable. Qed.
Print Assumptions C14_observable.

(* ---- the pieces, each of independent interest ---- *)

(* mon_C14 is its order/completeness part and its EXIT_CODE part *)
Theorem C14_monitor_split :
  forall p c complete tr, mon_C14 p c complete tr = mon_C14_noexit p c complete tr && mon_C14_exit p c tr.
Proof. exact mon_C14_split. Qed.
Print Assumptions C14_monitor_split.

(* order / exactly once / completeness do not depend on any excuse *)
Theorem C14_defer_safety_noexit :
  forall p c sched, mon_C14_noexit p c false (trace (run p c sched)) = true.
Proof. exact defer_safety_noexit. Qed.
Print Assumptions C14_defer_safety_noexit.

Theorem C14_defer_complete_noexit :
  forall p c sched r, run_result p c (run p c sched) = Some r ->
                      mon_C14_noexit p c true (trace (run p c sched)) = true.
Proof. exact defer_complete_noexit. Qed.
Print Assumptions C14_defer_complete_noexit.

(* EXIT_CODE printed by a deferred command is the exit status of the activation's own failing
   command, or unset (0), whatever the program *)
Theorem C14_exit_code_own_or_unset :
  forall p c sched,
    forallb (fun a => exit_codes_weak p c a (trace (run p c sched))) (started_acts (trace (run p c sched))) = true.
Proof. exact exit_codes_weak_all. Qed.
Print Assumptions C14_exit_code_own_or_unset.

(* EXIT_CODE is exactly that exit status when no probe ends under a cancelled context *)
Theorem C14_exit_code_exact_uncancelled :
  forall p c sched, all_states probes_uncancelled p c (init_state p) sched ->
                    mon_C14 p c false (trace (run p c sched)) = true.
Proof. exact defer_safety_uncancelled. Qed.
Print Assumptions C14_exit_code_exact_uncancelled.

(* a command ends under a cancelled context only after an error: if the call counter (error 204,
   a ghost EvEnd of the model trace) did not trip, mon_C14 holds without the static call-count
   excuse being needed ... *)
Theorem C14_full_no_callcount_error :
  forall p c sched, no204 (trace (run p c sched)) = true ->
                    mon_C14 p c false (trace (run p c sched)) = true.
Proof. exact defer_safety_full. Qed.
Print Assumptions C14_full_no_callcount_error.

(* ... and a program whose expanded call tree has fewer task references than MaximumTaskCall
   never trips the call counter *)
Theorem C14_callcount_never_trips :
  forall p c sched, callcount_possible p c = false ->
                    all_states (callcount_safe c) p c (init_state p) sched.
Proof. exact callcount_safe_all. Qed.
Print Assumptions C14_callcount_never_trips.

(* non-vacuity: three defer entries (one a task call) around a failing command; the two shell
   entries registered before the failure run, in reverse order, with EXIT_CODE 7; the third is
   never registered *)
Definition exd_prog : prog :=
  [ {| t_deps := []; t_cmds := [DeferShell 0; DeferCall {| c_task := 1; c_var := VConst 0 |}; DeferShell 0;
                                Shell 7 false; DeferShell 0];
       t_run := Always; t_ignore := false; t_internal := false; t_g := dummy_guards |};
    {| t_deps := []; t_cmds := [Shell 0 false]; t_run := Always; t_ignore := false; t_internal := false;
       t_g := dummy_guards |} ].
Definition exd_cfg : cfg :=
  {| cf_N := Some 1; cf_parallel := false; cf_force := false; cf_forceall := false; cf_yes := false;
     cf_roots := [ {| c_task := 0; c_var := VConst 0 |} ]; cf_maxcall := 1000 |}.
Definition exd_sched : list choice :=
  ChRoot 0 :: repeat (ChStep 0) 20 ++ repeat (ChStep 1) 20 ++ repeat (ChStep 0) 20.
Example C14_defer_example :
  let s := run exd_prog exd_cfg exd_sched in
  run_result exd_prog exd_cfg s = Some (RErr (ETaskRun (Some 7))) /\
  dann_of [0] (trace s) = [2; 0] /\ dprobes_of [0] (trace s) = [2; 0] /\ dcodes_of [0] (trace s) = [7; 7] /\
  started_acts (trace s) = [[0]; [0; 1]] /\
  no_guard_errors exd_prog exd_cfg = true /\ callcount_possible exd_prog exd_cfg = false /\
  mon_C14_noexit exd_prog exd_cfg true (trace s) = true /\ mon_C14 exd_prog exd_cfg true (trace s) = true.
Proof. vm_compute. repeat split; reflexivity. Qed.

(* non-vacuity of the excuse: a sibling dep fails while the probe of the failing command is parked;
   the errgroup cancels the context, the command ends with "context canceled", EXIT_CODE is unset,
   and the monitor accepts it because another activation has a failing command *)
Definition exc_prog : prog :=
  [ {| t_deps := [ {| c_task := 1; c_var := VConst 0 |}; {| c_task := 2; c_var := VConst 0 |} ]; t_cmds := [];
       t_run := Always; t_ignore := false; t_internal := false; t_g := dummy_guards |};
    {| t_deps := []; t_cmds := [Shell 3 false]; t_run := Always; t_ignore := false; t_internal := false;
       t_g := dummy_guards |};
    {| t_deps := []; t_cmds := [DeferShell 0; Shell 7 false]; t_run := Always; t_ignore := false;
       t_internal := false; t_g := dummy_guards |} ].
Definition exc_cfg : cfg :=
  {| cf_N := None; cf_parallel := false; cf_force := false; cf_forceall := false; cf_yes := false;
     cf_roots := [ {| c_task := 0; c_var := VConst 0 |} ]; cf_maxcall := 1000 |}.
Definition exc_sched : list choice :=
  ChRoot 0 :: repeat (ChStep 0) 4 ++ repeat (ChStep 2) 11 ++ repeat (ChStep 1) 20 ++ repeat (ChStep 2) 12 ++
  repeat (ChStep 0) 10.
Example C14_defer_cancel_example :
  let s := run exc_prog exc_cfg exc_sched in
  dcodes_of [0; 1] (trace s) = [0] /\ own_failure exc_prog exc_cfg [0; 1] (trace s) = Some 7 /\
  no_guard_errors exc_prog exc_cfg = true /\ callcount_possible exc_prog exc_cfg = false /\
  foreign_failure exc_prog exc_cfg [0; 1] (trace s) = true /\
  mon_C14 exc_prog exc_cfg true (trace s) = true.
Proof. vm_compute. repeat split; reflexivity. Qed.
