(* C14 — Deferred commands always run, exactly once, in reverse order, and see EXIT_CODE:
   the machine's deferred stack against mon_C14, for all programs, configurations and schedules.
   Statements only; proofs are in Exec/InvDefer.v. *)
From Coq Require Import List Arith Bool.
Import ListNotations.
From TV Require Import Exec.Model Exec.Monitors Exec.InvDefer.

(* mon_C14 is its order/completeness part and its EXIT_CODE part *)
Theorem C14_monitor_split :
  forall p c complete tr, mon_C14 p c complete tr = mon_C14_noexit p c complete tr && mon_C14_exit p c tr.
Proof. exact mon_C14_split. Qed.
Print Assumptions C14_monitor_split.

(* (1) every reachable state: for every started activation the deferred announcements are strictly
   decreasing (hence each entry at most once) and are DeferShell entries of its task *)
Theorem C14_defer_safety :
  forall p c sched, mon_C14_noexit p c false (trace (run p c sched)) = true.
Proof. exact defer_safety_noexit. Qed.
Print Assumptions C14_defer_safety.

(* (2) completed runs: every announced deferred command executed; an activation that printed
   "finished" ran exactly all its DeferShell entries in reverse order; one that stopped after
   announcing shell command i ran every DeferShell entry with a smaller index *)
Theorem C14_defer_complete :
  forall p c sched r, run_result p c (run p c sched) = Some r ->
                      mon_C14_noexit p c true (trace (run p c sched)) = true.
Proof. exact defer_complete_noexit. Qed.
Print Assumptions C14_defer_complete.

(* EXIT_CODE printed by a deferred command is the exit status of the activation's own failing
   command, or unset (0) *)
Theorem C14_exit_code_own_or_unset :
  forall p c sched,
    forallb (fun a => exit_codes_weak p c a (trace (run p c sched))) (started_acts (trace (run p c sched))) = true.
Proof. exact exit_codes_weak_all. Qed.
Print Assumptions C14_exit_code_own_or_unset.

(* ... so mon_C14's EXIT_CODE conjunct holds for every activation for which its excuse applies *)
Theorem C14_exit_code_ok_if_foreign :
  forall p c sched a, In a (started_acts (trace (run p c sched))) ->
                      foreign_failure p c a (trace (run p c sched)) = true ->
                      exit_codes_ok p c a (trace (run p c sched)) = true.
Proof. exact exit_codes_ok_if_foreign. Qed.
Print Assumptions C14_exit_code_ok_if_foreign.

(* full mon_C14, EXIT_CODE exact, when no probe ends under a cancelled context *)
Theorem C14_full_uncancelled_safety :
  forall p c sched, all_states probes_uncancelled p c (init_state p) sched ->
                    mon_C14 p c false (trace (run p c sched)) = true.
Proof. exact defer_safety_uncancelled. Qed.
Print Assumptions C14_full_uncancelled_safety.

Theorem C14_full_uncancelled_complete :
  forall p c sched r, all_states probes_uncancelled p c (init_state p) sched ->
                      run_result p c (run p c sched) = Some r ->
                      mon_C14 p c true (trace (run p c sched)) = true.
Proof. exact defer_complete_uncancelled. Qed.
Print Assumptions C14_full_uncancelled_complete.

(* the harness sees the observable part of the trace; mon_C14 does not look at anything else *)
Theorem C14_observable :
  forall p c complete tr, mon_C14 p c complete (filter observable tr) = mon_C14 p c complete tr.
Proof. exact mon_C14_observable. Qed.
Print Assumptions C14_observable.

(* non-vacuity: three defer entries (one a task call) around a failing command; the two shell
   entries registered before the failure run, in reverse order, with EXIT_CODE 7; the third is
   never registered *)
Definition exd_prog : prog :=
  [ {| t_deps := []; t_cmds := [DeferShell 0; DeferCall {| c_task := 1; c_var := VConst 0 |}; DeferShell 0;
                                Shell 7 false; DeferShell 0];
       t_run := Always; t_ignore := false; t_internal := false; t_g := dummy_guards |};
    {| t_deps := []; t_cmds := [Shell 0 false]; t_run := Always; t_ignore := false; t_internal := false;
       t_g := dummy_guards |} ].
Definition exd_cfg : cfg :=
  {| cf_N := Some 1; cf_parallel := false; cf_force := false; cf_forceall := false; cf_yes := false;
     cf_roots := [ {| c_task := 0; c_var := VConst 0 |} ]; cf_maxcall := 1000 |}.
Definition exd_sched : list choice :=
  ChRoot 0 :: repeat (ChStep 0) 20 ++ repeat (ChStep 1) 20 ++ repeat (ChStep 0) 20.
Example C14_defer_example :
  let s := run exd_prog exd_cfg exd_sched in
  run_result exd_prog exd_cfg s = Some (RErr (ETaskRun (Some 7))) /\
  dann_of [0] (trace s) = [2; 0] /\ dprobes_of [0] (trace s) = [2; 0] /\ dcodes_of [0] (trace s) = [7; 7] /\
  started_acts (trace s) = [[0]; [0; 1]] /\
  mon_C14_noexit exd_prog exd_cfg true (trace s) = true /\ mon_C14 exd_prog exd_cfg true (trace s) = true.
Proof. vm_compute. repeat split; reflexivity. Qed.
