(* C11 - A task's meaning does not depend on what else ran: the statements about the tree AS IT IS NOW.

   Properties/C11.v has C11_current and C11_no_shared_mutation_current with the extracted facts
   as premises ([k_dir current_key = true], [k_env current_key = true],
   [MatrixResolveWritesShared = false], [DeferEntrySharedWithDefinition = false]); only
   C11_facts_known is an unconditional tie.  This file discharges those premises against
   Extracted.Facts (regenerated from /repo by every check) through [current_key] /
   [current_params] / [current_world] (Run/VarsCases.v): reverting 712cd7c (cache key with dir and
   env; task dir templated after the include vars) or 3d636e5 (matrix refs resolved into a private
   copy), or dropping the DeepCopy of the defer: entries, makes a fact obligation below false and
   the build breaks.

   Fact obligations (closed by computation on Extracted.Facts):
     C11_current_key_full         current_key = strong_key            <- DynCacheKey = ["Sh";"Dir";"Env"]
     C11_current_matrix_private   p_matrix_shared current_params = false <- MatrixResolveWritesShared
     C11_current_defer_private    p_defer_shared current_params = false  <- DeferEntrySharedWithDefinition
     C11_current_task_dir_late    p_dir_after current_params = "IncludeVars" <- TaskDirTemplatedAfter
     C11_current_params_repaired  current_params = the repaired parameter record (all of the above +
                                  the layer / env-order facts already tied by C10_layers_shape / C10_env_shape)
   Statements about the current tree (no premise on the facts; the shell [sh] is universally
   quantified, [reachable] is part of the statement):
     C11_current_key_respects, C11_noninterference_current, C11_no_shared_mutation_current_tree,
     C11_private_rows_current.
   Examples: the witnesses of the repaired findings 7.16 / early task dir / 7.17 behave correctly at
   the current tree.
   No premise is left undischarged for C11; no finding is open. *)
From Coq Require Import List String Bool.
Import ListNotations.
From TV Require Import Vars.Model Vars.Proofs Vars.ProofsCache Extracted.Facts Run.VarsCases.
Local Open Scope string_scope.
Local Open Scope list_scope.

(* ---- fact obligations: the current tree IS the repaired one ---- *)

Theorem C11_current_key_full : current_key = strong_key.
Proof. reflexivity. Qed.
Print Assumptions C11_current_key_full.

Theorem C11_current_matrix_private : p_matrix_shared current_params = false.
Proof. reflexivity. Qed.
Print Assumptions C11_current_matrix_private.

Theorem C11_current_defer_private : p_defer_shared current_params = false.
Proof. reflexivity. Qed.
Print Assumptions C11_current_defer_private.

Theorem C11_current_task_dir_late : p_dir_after current_params = "IncludeVars".
Proof. reflexivity. Qed.
Print Assumptions C11_current_task_dir_late.

Theorem C11_current_params_repaired : current_params = params_dir_after "IncludeVars".
Proof. reflexivity. Qed.
Print Assumptions C11_current_params_repaired.

(* ---- the full statements at the current tree ---- *)

(* the cache key of the current tree records everything the shell sees, whatever the shell is *)
Theorem C11_current_key_respects : forall sh os exp, key_respects (current_world sh os exp).
Proof. exact (fun sh os exp => full_key_respects (current_world sh os exp) eq_refl eq_refl eq_refl). Qed.
Print Assumptions C11_current_key_respects.

(* after ANY sequence of compilations in the same process a task compiles to exactly what it
   compiles to in a fresh process: variables, environment, matrix items, deferred commands *)
Theorem C11_noninterference_current :
  forall sh os exp x s,
    reachable (current_world sh os exp) current_params s ->
    fst (compile (current_world sh os exp) current_params x s)
    = fst (compile (current_world sh os exp) current_params x empty_shared).
Proof.
  exact (fun sh os exp x s =>
           noninterference (current_world sh os exp) current_params x s
                           (C11_current_key_respects sh os exp) C11_current_defer_private).
Qed.
Print Assumptions C11_noninterference_current.

(* the shared task definitions (matrix rows, defer: entries) come back unchanged from every compilation *)
Theorem C11_no_shared_mutation_current_tree :
  forall w x s, s_rows (snd (compile w current_params x s)) = s_rows s /\
                s_defers (snd (compile w current_params x s)) = s_defers s.
Proof.
  exact (fun w x s => no_shared_mutation w current_params x s C11_current_matrix_private C11_current_defer_private).
Qed.
Print Assumptions C11_no_shared_mutation_current_tree.

(* ... and what a compilation reads in its second phase does not depend on the shared state: any interleaving *)
Theorem C11_private_rows_current :
  forall x pd s s', phase2 current_params x pd s = phase2 current_params x pd s'.
Proof.
  exact (fun x pd s s' =>
           private_rows_any_interleaving current_params x pd s s' C11_current_matrix_private C11_current_defer_private).
Qed.
Print Assumptions C11_private_rows_current.

(* ---- the witnesses of the repaired findings, at the current tree ---- *)

(* 7.16: `sh: pwd` in two dirs / `sh: echo $TASK` in two tasks; dir: '{{.GD}}' with a global GD;
   7.17: the matrix row is not written; the defer entry is rendered per call *)
Example C11_current_witnesses :
  (let w := current_world sh_pwd [] false in
   outputs_eqb (after w current_params (dir_task "d1") (dir_task "d2"))
               (fst (compile w current_params (dir_task "d2") empty_shared)) = true) /\
  (let w := current_world sh_task [] false in
   outputs_eqb (after w current_params (env_task "e1") (env_task "e2"))
               (fst (compile w current_params (env_task "e2") empty_shared)) = true) /\
  o_vars (fst (compile (current_world sh_pwd [] false) current_params dir_from_global empty_shared)) = ["ROOT/d1"] /\
  s_rows (snd (compile (current_world sh_pwd [] false) current_params (matrix_task "a1 a2") empty_shared))
  = s_rows empty_shared /\
  (let w := current_world sh_pwd [] false in
   let s1 := snd (compile w current_params (defer_task "one") empty_shared) in
   o_defers (fst (compile w current_params (defer_task "two") s1)) = ["cleanup two"] /\
   s_defers s1 = s_defers empty_shared).
Proof. vm_compute. repeat split; reflexivity. Qed.
