(* C16 - No input makes Task crash (PARTIAL, see Properties/C16.v): the statements about the
   tree AS IT IS NOW.

   Decode is the one model whose current-tree theorems (C16_current_tree, C16_current_decode,
   C16_current_snippet in Properties/C16.v, proved in Decode/ProofsCurrent.v) already discharge
   the guard facts by computation, inside proofs.  This file makes the discharged facts explicit
   obligations and instantiates the remaining general statements (compile, read, include
   locations, monitor, open sites) at [current] (Run/DecodeCases.v, from Extracted.Facts,
   regenerated from /repo by every check).  Removing one of the ten guards of the repairs
   6872c41, 71697ed, ba432ef, 3314b21, def7ec5, 622d5d2, d99ae7b, 428324c, 182da12 (or a
   nil-receiver test of a DeepCopy) turns its fact into 0, C16_current_guards becomes false and
   the build breaks.

   Fact obligations (closed by computation on Extracted.Facts):
     C16_current_guard_facts   the twelve decode_* facts are all 1
     C16_current_guards        the ten boolean guards of [current] are on
     C16_current_wildcard      WildcardMatch: MustCompile kept (g_wc_must = true) with QuoteMeta (g_wc_quote = true)
   Statements about the current tree (no premise on the facts):
     C16_current_all_guards, C16_current_no_panic_compile, C16_current_no_panic_read,
     C16_current_monitor, C16_current_sites_closed  - under the law of Go's regexp "a QuoteMeta'd
         literal always compiles" ([forall n, o_wc_quoted o n = true]); this is a hypothesis on the
         ORACLE (third-party library), not on /repo, and is the one premise that cannot be discharged
         because the current tree keeps regexp.MustCompile;
     C16_current_git_split, C16_current_open_site_is_wildcard  - no hypothesis at all: every site in
         go-task's own code is closed, the only site that can be open is that MustCompile.
   No finding is open. *)
From Coq Require Import List String NArith ZArith Bool.
Import ListNotations.
From TV Require Import Decode.Model Decode.Proofs Decode.ProofsCodes Decode.ProofsRun Decode.ProofsMain
                       Extracted.Facts Run.DecodeCases Decode.ProofsCurrent Decode.CurrentFacts.
Local Open Scope string_scope.

(* ---- fact obligations: every guard is present in the current tree ---- *)

Theorem C16_current_guard_facts : guard_facts = [1; 1; 1; 1; 1; 1; 1; 1; 1; 1; 1; 1].
Proof. reflexivity. Qed.
Print Assumptions C16_current_guard_facts.

Theorem C16_current_guards :
  g_var_len current = true /\ g_glob_nil current = true /\ g_platform_nil current = true /\
  g_requires_nil current = true /\ g_snippet_clamp current = true /\ g_git_len current = true /\
  g_traverse_struct current = true /\ g_omap_nil current = true /\ g_deepcopy_nil current = true /\
  g_expand_literal_len current = true.
Proof. repeat split; reflexivity. Qed.
Print Assumptions C16_current_guards.

Theorem C16_current_wildcard : g_wc_must current = true /\ g_wc_quote current = true.
Proof. split; reflexivity. Qed.
Print Assumptions C16_current_wildcard.

(* ---- the general statements at the current tree ---- *)

Theorem C16_current_all_guards :
  forall o, (forall n, o_wc_quoted o n = true) -> all_guards current o.
Proof. exact current_all_guards. Qed.
Print Assumptions C16_current_all_guards.

(* compiling, listing, looking up names, dry-running: no panic event, for every table of tasks *)
Theorem C16_current_no_panic_compile :
  forall o goos goarch gvt (tbl : list task) (requested : list string) certain,
    (forall n, o_wc_quoted o n = true) ->
    table_events current o goos goarch gvt tbl requested certain = [].
Proof.
  exact (fun o goos goarch gvt tbl requested certain H =>
           no_panic_compile current o goos goarch gvt tbl requested certain (current_all_guards o H)).
Qed.
Print Assumptions C16_current_no_panic_compile.

(* reading the include graph *)
Theorem C16_current_no_panic_read :
  forall o fs fuel, (forall n, o_wc_quoted o n = true) -> forall s, read current o fs fuel <> RPanic s.
Proof. exact (fun o fs fuel H => no_panic_read current o fs fuel (current_all_guards o H)). Qed.
Print Assumptions C16_current_no_panic_read.

(* include locations: the git node of the current tree never indexes past the split *)
Theorem C16_current_git_split : forall path s, git_split (g_git_len current) path <> Panic s.
Proof.
  exact (fun path s H => match git_split_open (g_git_len current) path s H with
                         | conj _ E => Bool.diff_true_false E end).
Qed.
Print Assumptions C16_current_git_split.

(* whatever agrees with the model of the current tree, with documented codes, satisfies the C16 monitor *)
Theorem C16_current_monitor :
  forall o e x, (forall n, o_wc_quoted o n = true) -> agrees (predict current o e) x = true ->
    (forall c, x = OErr c -> documented c = true) -> mon_case x = true.
Proof. exact (fun o e x H => monitor_of_agreement current o e documented x (current_all_guards o H)). Qed.
Print Assumptions C16_current_monitor.

Theorem C16_current_sites_closed :
  forall o s, (forall n, o_wc_quoted o n = true) -> ~ site_open current o s.
Proof. exact (fun o s H => all_guards_closed current o s (current_all_guards o H)). Qed.
Print Assumptions C16_current_sites_closed.

(* execext.ExpandLiteral of the current tree: total, whatever the shell parser says about the string *)
Theorem C16_current_expand_literal : forall o str s, expand_literal current o str <> Panic s.
Proof. exact (fun o str s => expand_literal_total current o str eq_refl s). Qed.
Print Assumptions C16_current_expand_literal.

(* without the regexp law: the only site that can be open in the current tree *)
Theorem C16_current_open_site_is_wildcard :
  forall o s, site_open current o s -> s = SWildcard /\ exists n, o_wc_quoted o n = false.
Proof. exact current_open_site_is_wildcard. Qed.
Print Assumptions C16_current_open_site_is_wildcard.
