(* C14 — Deferred commands always run, exactly once, in reverse order.
   Statements only; proofs are in Exec/InvPhase.v. *)
From Coq Require Import List Arith Bool String.
Import ListNotations.
From TV Require Import Exec.Model Exec.Monitors Exec.InvPhase Exec.Shape Extracted.Facts.
Local Open Scope string_scope.

Theorem C14_shape : exec_shape_ok = true.
Proof. reflexivity. Qed.
Print Assumptions C14_shape.

(* For every program, configuration and schedule (sibling failures and cancellations included): in the
   events of each execution of a task, deferred commands are announced only after the command loop
   is over (after "finished", or after the last command that ran, or after a command that was
   announced and cancelled); they are deferred entries of that task; their indices strictly decrease
   (reverse order of registration, hence each at most once); and each announced deferred command
   starts and ends before the next one is announced.  This is the deferred part of the sequence
   automaton (phase_step) that mon_C02seq runs. *)
Theorem C14_reverse_order_each_to_its_end :
  forall (p : prog) (c : cfg) (sched : list choice), mon_C02seq p c (trace (run p c sched)) = true.
Proof. exact sequence_all_schedules. Qed.
Print Assumptions C14_reverse_order_each_to_its_end.

(* "exactly once for every entry reached", EXIT_CODE and "before the caller continues" are checked by
   mon_C14 / mon_C02seal on every observed run and fixed exactly by the replay of the run in the
   machine (the machine's deferred stack); their theorems over all schedules are not closed yet
   (DESIGN.md, C14: partial). *)

(* non-vacuity: a failing command between two defer entries; both run, in reverse order, with EXIT_CODE 7 *)
Definition ex_prog : prog :=
  [ {| t_deps := []; t_cmds := [DeferShell 0; Shell 7 false; DeferShell 0; Shell 0 false];
       t_run := Always; t_ignore := false; t_internal := false; t_g := dummy_guards |} ].
Definition ex_cfg : cfg :=
  {| cf_N := None; cf_parallel := false; cf_force := false; cf_forceall := false; cf_yes := false;
     cf_roots := [ {| c_task := 0; c_var := VConst 0 |} ]; cf_maxcall := 1000 |}.
Example C14_example :
  let tr := trace (run ex_prog ex_cfg (ChRoot 0 :: repeat (ChStep 0) 30)) in
  dann_of [0] tr = [0] /\ mon_C14 ex_prog ex_cfg true (filter observable tr) = true /\
  existsb (fun e => match e with EvDProbeBegin [0] 0 7 => true | _ => false end) tr = true.
Proof. vm_compute. repeat split; reflexivity. Qed.
