(* C02 — "... its cmds entries, including the entries produced by a for loop in list or matrix
   order, start ... in declaration order": the EXPANSION of `for:` entries into the per-call command
   list (variables.go: compiledTask, itemsFromFor, resolveMatrixRefs, product), which Exec/Model.v
   takes as already done.  Model: Exec/ForLoop.v; proofs: Exec/ForLoopProofs.v; tie to the source:
   Exec/ForShape.v.  Statements only.  The same expansion is used for deps entries.

   [mo] is the order in which Go iterates over a map (for: {var: X} with X a map; documented as
   random); it only matters for LMap loops. *)
From Coq Require Import List String Ascii Bool Arith Permutation.
Import ListNotations.
From TV Require Import Exec.ForLoop Exec.ForLoopProofs Exec.ForShape Run.ForCases Extracted.Facts.
Local Open Scope string_scope.

(* tie to the source: loop nest of product (rows outermost in matrix.All() order, combinations,
   then items), the cmds / deps loops of compiledTask append in entry order and item order, nothing
   else writes or reorders new.Cmds / new.Deps, itemsFromFor takes the items from where the model
   says, Matrix.All() walks the ordered map from the front *)
Theorem C02for_shape : for_shape_ok = true.
Proof. reflexivity. Qed.
Print Assumptions C02for_shape.

(* ---- (a) declaration order ---- *)

(* what an entry contributes sits between what the entries before it and the entries after it
   contribute, whatever those are *)
Theorem C02for_declaration_order :
  forall (mo : map_order) (es1 : list entry) (e : entry) (es2 : list entry),
    expand mo (es1 ++ [e] ++ es2) = (expand mo es1 ++ expand mo [e] ++ expand mo es2)%list.
Proof. exact expand_declaration_order. Qed.
Print Assumptions C02for_declaration_order.

Theorem C02for_plain : forall (mo : map_order) (x : xcmd), expand mo [Plain x] = [x].
Proof. exact expand_plain. Qed.
Print Assumptions C02for_plain.

(* the k-th command of entry e is at position |expansion of the entries before e| + k *)
Theorem C02for_position :
  forall (mo : map_order) es1 e es2 k x,
    nth_error (expand mo [e]) k = Some x ->
    nth_error (expand mo (es1 ++ [e] ++ es2)) (List.length (expand mo es1) + k) = Some x.
Proof. exact expand_position. Qed.
Print Assumptions C02for_position.

(* ---- (b) list loops: one command per item, in list order, each item once ---- *)

Theorem C02for_list :
  forall (mo : map_order) (xs : list string) (a : string) (c : cmdt),
    expand mo [For (LList xs) a c] = map (fun x => inst c [(as_name a, VStr x)]) xs.
Proof. exact expand_list. Qed.
Print Assumptions C02for_list.

Theorem C02for_list_length :
  forall (mo : map_order) xs a c, List.length (expand mo [For (LList xs) a c]) = List.length xs.
Proof. exact expand_list_length. Qed.
Print Assumptions C02for_list_length.

Theorem C02for_list_nth :
  forall (mo : map_order) xs a c i,
    nth_error (expand mo [For (LList xs) a c]) i =
    option_map (fun x => inst c [(as_name a, VStr x)]) (nth_error xs i).
Proof. exact expand_list_nth. Qed.
Print Assumptions C02for_list_nth.

(* for: {var: X} with X a list, and for: sources / generates (the glob result as an oracle list) *)
Theorem C02for_varlist :
  forall (mo : map_order) xs a c,
    expand mo [For (LVarList xs) a c] = map (fun x => inst c [(as_name a, VStr x)]) xs.
Proof. exact expand_varlist. Qed.
Print Assumptions C02for_varlist.

Theorem C02for_files :
  forall (mo : map_order) xs a c,
    expand mo [For (LFiles xs) a c] = map (fun x => inst c [(as_name a, VStr x)]) xs.
Proof. exact expand_files. Qed.
Print Assumptions C02for_files.

(* ---- (c) matrix loops ---- *)

(* the fold of product (variables.go) is the lexicographic enumeration of the rows in declaration
   order, first key slowest *)
Theorem C02for_matrix_lex : forall rows : list row, rows <> [] -> product rows = lex_enum rows.
Proof. exact product_lex_enum. Qed.
Print Assumptions C02for_matrix_lex.

Theorem C02for_matrix_length :
  forall rows : list row, rows <> [] -> List.length (product rows) = rows_size rows.
Proof. exact product_length. Qed.
Print Assumptions C02for_matrix_length.

(* exactly the tuples of the cartesian product: one item of each row, keys in row order *)
Theorem C02for_matrix_in :
  forall (rows : list row) (c : comb), rows <> [] -> (In c (product rows) <-> picks c rows).
Proof. exact product_in. Qed.
Print Assumptions C02for_matrix_in.

Theorem C02for_matrix_nodup :
  forall rows : list row, (forall r, In r rows -> NoDup (snd r)) -> NoDup (product rows).
Proof. exact product_nodup. Qed.
Print Assumptions C02for_matrix_nodup.

(* first key slowest: item i of the first row combined with the j-th combination of the remaining
   rows is at position i * (number of combinations of the remaining rows) + j *)
Theorem C02for_matrix_nth :
  forall k items rest i j it c,
    nth_error items i = Some it -> nth_error (lex_enum rest) j = Some c ->
    nth_error (lex_enum ((k, items) :: rest)) (i * List.length (lex_enum rest) + j) = Some ((k, it) :: c).
Proof. exact lex_enum_nth. Qed.
Print Assumptions C02for_matrix_nth.

Theorem C02for_matrix :
  forall (mo : map_order) rows a c, rows <> [] ->
    expand mo [For (LMatrix rows) a c] = map (fun cmb => inst c [(as_name a, VComb cmb)]) (lex_enum rows).
Proof. exact expand_matrix. Qed.
Print Assumptions C02for_matrix.

(* ---- (d) for: {var: X, split: S} ---- *)

Theorem C02for_split :
  forall (mo : map_order) v sep a c, sep <> "" ->
    expand mo [For (LSplit v sep) a c] = map (fun x => inst c [(as_name a, VStr x)]) (split sep v).
Proof. exact expand_split. Qed.
Print Assumptions C02for_split.

(* the items are the stretches between the separators, in order: joined by the separator they give
   the value back *)
Theorem C02for_split_join : forall sep s, sep <> "" -> String.concat sep (split sep s) = s.
Proof. exact split_join. Qed.
Print Assumptions C02for_split_join.

Theorem C02for_split_char_items :
  forall (c : ascii) (s : string), Forall (fun it => count_char c it = 0) (split (String c "") s).
Proof. exact split_char_items. Qed.
Print Assumptions C02for_split_char_items.

Theorem C02for_split_char_length :
  forall (c : ascii) (s : string), List.length (split (String c "") s) = S (count_char c s).
Proof. exact split_char_length. Qed.
Print Assumptions C02for_split_char_length.

(* no split: white-space separated fields *)
Theorem C02for_fields :
  forall (mo : map_order) v a c,
    expand mo [For (LSplit v "") a c] = map (fun x => inst c [(as_name a, VStr x)]) (fields v).
Proof. exact expand_fields. Qed.
Print Assumptions C02for_fields.

Theorem C02for_fields_words : forall s, Forall word (fields s).
Proof. exact fields_words. Qed.
Print Assumptions C02for_fields_words.

Theorem C02for_fields_concat : forall s, String.concat "" (fields s) = strip_spaces s.
Proof. exact fields_concat. Qed.
Print Assumptions C02for_fields_concat.

Theorem C02for_fields_join : forall ws, Forall word ws -> fields (String.concat " " ws) = ws.
Proof. exact fields_join. Qed.
Print Assumptions C02for_fields_join.

(* ---- the monitor evaluated on the implementation's expanded list ---- *)

(* it accepts every expansion of the model, for every order of map iteration *)
Theorem C02for_monitor :
  forall mo : map_order, (forall kvs, Permutation (mo kvs) kvs) ->
    forall es : list entry, mon_for es (expand mo es) = true.
Proof. exact mon_for_expand. Qed.
Print Assumptions C02for_monitor.

(* without map loops it accepts one list only, and the model produces it *)
Theorem C02for_monitor_exact :
  forall es obs, deterministic es = true -> mon_for es obs = true -> obs = spec_expand es.
Proof. exact mon_for_sound. Qed.
Print Assumptions C02for_monitor_exact.

Theorem C02for_deterministic :
  forall (mo : map_order) es, deterministic es = true -> expand mo es = spec_expand es.
Proof. exact expand_deterministic. Qed.
Print Assumptions C02for_deterministic.

(* ---- attributes (ignore_error, silent, set, shopt, platforms, defer; deps: silent) ---- *)

(* every command produced from entry e carries exactly e's attributes — whatever the loop form
   (list, list variable, sources / generates, matrix, split / fields, map) and the map order *)
Theorem C02for_attrs_preserved :
  forall (mo : map_order) (e : entry) (x : xcmd),
    In x (expand mo [e]) -> entry_attrs e = Some (attrs_of x).
Proof. exact expand_attrs_preserved. Qed.
Print Assumptions C02for_attrs_preserved.

Theorem C02for_attrs_for :
  forall (mo : map_order) (l : loop) (a : string) (c : cmdt) (x : xcmd),
    In x (expand mo [For l a c]) -> attrs_of x = cattrs_of c.
Proof. exact expand_for_attrs. Qed.
Print Assumptions C02for_attrs_for.

(* in the expansion of a whole cmds / deps list, every command has the attributes of one of the entries *)
Theorem C02for_attrs_from_entry :
  forall (mo : map_order) (es : list entry) (x : xcmd),
    In x (expand mo es) -> exists e, In e es /\ entry_attrs e = Some (attrs_of x).
Proof. exact expand_attrs_from_entry. Qed.
Print Assumptions C02for_attrs_from_entry.

(* the attribute monitor evaluated on the implementation's list accepts every expansion of the model *)
Theorem C02for_attrs_monitor :
  forall mo : map_order, (forall kvs, Permutation (mo kvs) kvs) ->
    forall es : list entry, mon_attrs es (expand mo es) = true.
Proof. exact mon_attrs_expand. Qed.
Print Assumptions C02for_attrs_monitor.

(* ------------------------------------------------------------------ *)
(* Non-vacuity *)

Definition echo (t : tmpl) : cmdt := TShell no_attrs (PLit "echo " :: t).
Notation sh := (XShell no_attrs).
Notation cl := (XCall no_attrs).

(* the matrix example of the documentation (usage: "Looping over a matrix") *)
Example C02for_example_matrix :
  expand id_order
    [Plain (sh "first");
     For (LMatrix [("OS", ["windows"; "linux"; "darwin"]); ("ARCH", ["amd64"; "arm64"])]) ""
         (echo [PField "ITEM" "OS"; PLit "/"; PField "ITEM" "ARCH"]);
     Plain (sh "last")]
  = [sh "first";
     sh "echo windows/amd64"; sh "echo windows/arm64";
     sh "echo linux/amd64"; sh "echo linux/arm64";
     sh "echo darwin/amd64"; sh "echo darwin/arm64";
     sh "last"].
Proof. vm_compute. reflexivity. Qed.

(* an empty row: no combination at all *)
Example C02for_example_empty_row :
  expand id_order [For (LMatrix [("A", ["x"; "y"]); ("B", [])]) "" (echo [PField "ITEM" "A"])] = [].
Proof. vm_compute. reflexivity. Qed.

(* list with a duplicate and an item with a blank; `as:`; a task call with vars *)
Example C02for_example_list :
  expand id_order
    [For (LList ["a"; "b c"; "a"]) "FILE" (TCall no_attrs [PLit "sub-"; PVar "FILE"] [("V", [PVar "FILE"; PVar "ITEM"])])]
  = [cl "sub-a" [("V", "a")]; cl "sub-b c" [("V", "b c")]; cl "sub-a" [("V", "a")]].
Proof. vm_compute. reflexivity. Qed.

Example C02for_example_split :
  expand id_order [For (LSplit "a,,b c," ",") "" (echo [PVar "ITEM"])]
  = [sh "echo a"; sh "echo "; sh "echo b c"; sh "echo "].
Proof. vm_compute. reflexivity. Qed.

Example C02for_example_split_multi : split "::" "a::b:::c" = ["a"; "b"; ":c"].
Proof. vm_compute. reflexivity. Qed.

Example C02for_example_fields :
  expand id_order [For (LSplit "  foo.txt	bar.txt
 baz " "") "" (echo [PVar "ITEM"])]
  = [sh "echo foo.txt"; sh "echo bar.txt"; sh "echo baz"].
Proof. vm_compute. reflexivity. Qed.

(* a map loop binds KEY; the monitor accepts both iteration orders and nothing else *)
Definition ex_map : list entry :=
  [Plain (sh "p"); For (LMap [("k1", "v1"); ("k2", "v2")]) "" (echo [PVar "KEY"; PLit "="; PVar "ITEM"]); Plain (sh "q")].
Example C02for_example_map :
  expand id_order ex_map = [sh "p"; sh "echo k1=v1"; sh "echo k2=v2"; sh "q"] /\
  mon_for ex_map [sh "p"; sh "echo k2=v2"; sh "echo k1=v1"; sh "q"] = true /\
  mon_for ex_map [sh "echo k1=v1"; sh "p"; sh "echo k2=v2"; sh "q"] = false /\
  mon_for ex_map [sh "p"; sh "echo k1=v1"; sh "echo k1=v1"; sh "q"] = false.
Proof. vm_compute. repeat split; reflexivity. Qed.

(* the monitor discriminates: last key slowest, a swapped list, a lost item, an extra item and a
   loop hoisted before the plain command in front of it are all rejected *)
Definition ex_es : list entry :=
  [Plain (sh "p");
   For (LMatrix [("A", ["1"; "2"]); ("B", ["x"; "y"])]) "" (echo [PField "ITEM" "A"; PField "ITEM" "B"]);
   For (LList ["u"; "v"]) "" (echo [PVar "ITEM"])].
Example C02for_example_monitor :
  mon_for ex_es [sh "p"; sh "echo 1x"; sh "echo 1y"; sh "echo 2x"; sh "echo 2y"; sh "echo u"; sh "echo v"] = true /\
  mon_for ex_es [sh "p"; sh "echo 1x"; sh "echo 2x"; sh "echo 1y"; sh "echo 2y"; sh "echo u"; sh "echo v"] = false /\
  mon_for ex_es [sh "p"; sh "echo 1x"; sh "echo 1y"; sh "echo 2x"; sh "echo 2y"; sh "echo v"; sh "echo u"] = false /\
  mon_for ex_es [sh "p"; sh "echo 1x"; sh "echo 1y"; sh "echo 2x"; sh "echo 2y"; sh "echo u"] = false /\
  mon_for ex_es [sh "p"; sh "echo 1x"; sh "echo 1y"; sh "echo 2x"; sh "echo 2y"; sh "echo u"; sh "echo v"; sh "echo v"] = false /\
  mon_for ex_es [sh "echo 1x"; sh "p"; sh "echo 1y"; sh "echo 2x"; sh "echo 2y"; sh "echo u"; sh "echo v"] = false.
Proof. vm_compute. repeat split; reflexivity. Qed.

(* the instance of the theorem *)
Example C02for_example_by_theorem : mon_for ex_es (expand id_order ex_es) = true.
Proof. apply C02for_monitor. intros kvs. apply Permutation_refl. Qed.

(* attributes: a looped command with ignore_error / silent / set / shopt / platforms keeps them in every
   iteration; the monitors reject an expansion that lost ignore_error on the loop's commands; run
   end to end, the iteration that fails is suppressed and everything after it still runs, whereas
   without ignore_error the task stops there *)
Definition ex_attrs : attrs :=
  {| a_ignore_error := true; a_silent := true; a_set := ["e"]; a_shopt := ["globstar"];
     a_platforms := ["linux"; "darwin/arm64"]; a_defer := false |}.
Definition ex_loop (a : attrs) : list entry :=
  [For (LList ["0"; "7"; "0"]) "" (TShell a [PLit "echo ""L:"; PVar "ITEM"; PLit """; (exit "; PVar "ITEM"; PLit ")"]);
   Plain (sh "echo ""after""")].
Definition ign : attrs :=
  {| a_ignore_error := true; a_silent := false; a_set := []; a_shopt := []; a_platforms := []; a_defer := false |}.
Example C02for_example_attrs :
  expand id_order (ex_loop ex_attrs)
  = [XShell ex_attrs "echo ""L:0""; (exit 0)"; XShell ex_attrs "echo ""L:7""; (exit 7)";
     XShell ex_attrs "echo ""L:0""; (exit 0)"; sh "echo ""after"""] /\
  mon_for (ex_loop ign) (expand id_order (ex_loop no_attrs)) = false /\
  mon_attrs (ex_loop ign) (expand id_order (ex_loop no_attrs)) = false /\
  mon_attrs (ex_loop ign) (expand id_order (ex_loop ign)) = true /\
  run_spec (spec_expand (ex_loop ign)) = (["L:0"; "L:7"; "L:0"; "after"], true) /\
  run_spec (spec_expand (ex_loop no_attrs)) = (["L:0"; "L:7"], false).
Proof. vm_compute. repeat split; reflexivity. Qed.
