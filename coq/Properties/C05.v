(* C05 - Change detection and idempotence of fingerprinted tasks.
   Statements only; proofs are in Fp/ProofsBase.v, Fp/ProofsC05.v (and Fp/Refute.v).

   mon_C05 (Fp/Model.v) is the monitor cases.v evaluates on the real binary: once a task's most
   recent attempt succeeded, the next normal run is skipped iff the fingerprint of its sources
   (names + contents for checksum, names + mtimes for timestamp) is unchanged, every generates
   pattern matches a file and the status commands succeed; --force never skips. *)
From Coq Require Import List String NArith Bool Sorting.Sorted.
Import ListNotations.
From TV Require Import Fp.Model Fp.ProofsBase Fp.ProofsSafe Fp.ProofsC04 Fp.ProofsC05 Fp.ProofsDetect Fp.ProofsCurrentCs Fp.ProofsCurrentTs Fp.Refute Fp.Examples Fp.Current Extracted.Facts Run.FpCases.

(* READING GUIDE
   [LIVE]       about the tree as it is (variant [current] from Extracted.Facts; the repaired flags are
                discharged by computation in Fp/Current.v, so a regression breaks the obligation; the
                hypotheses carve out exactly the OPEN findings, each with a LIVE _refuted witness).
   [REPAIRED]   about the variant in which every finding is repaired: the full statement.
   [HISTORICAL] about the code before a fix: commit (premise false for [current] today).
   [ANY]        facts about the checkers that hold in every variant (Globs, the stream, mtimes).      *)

Theorem C05_shape_obligation : fp_shape_ok = true.
Proof. vm_compute. reflexivity. Qed.
Print Assumptions C05_shape_obligation.

(* [ANY] Globs: the last pattern that matches a file decides (exclude entries act in order); result sorted, no duplicates *)
Theorem C05_Globs_spec :
  forall (matchb : string -> path -> bool) (f : fsmap) (pats : list glob) (p : path),
    In p (globs matchb f pats) <-> In p (map fst f) /\ decide matchb pats p = Some true.
Proof. exact globs_spec. Qed.
Print Assumptions C05_Globs_spec.

Theorem C05_Globs_sorted :
  forall (matchb : string -> path -> bool) (f : fsmap) (pats : list glob),
    Sorted le_str (globs matchb f pats) /\ NoDup (globs matchb f pats).
Proof. exact (fun m f pats => conj (globs_sorted m f pats) (globs_nodup m f pats)). Qed.
Print Assumptions C05_Globs_sorted.

Theorem C05_exclude_order :
  forall (matchb : string -> path -> bool) (f : fsmap) (pats : list glob) (neg : bool) (pat : string) (p : path),
    In p (map fst f) -> matchb pat p = true ->
    (In p (globs matchb f (pats ++ [(neg, pat)])) <-> neg = false).
Proof. exact globs_last_wins. Qed.
Print Assumptions C05_exclude_order.

(* [REPAIRED] Full statement (idempotence and detection in one monitor), for the repaired protocol, over
   every history, every outcome, both methods, with and without status and generates. *)
Theorem C05_idempotent_and_detects :
  forall (matchb : string -> path -> bool) (H : string -> string) (Hx : fpr -> string) (v : variant),
    v_safe v = true -> v_fp_exact v = true -> v_ts_exact v = true -> v_listjson_dry v = true ->
    v_dry_fail_guard v = true -> v_force_records v = true ->
    (forall a b, Hx a = Hx b -> a = b) ->
    forall (p : project) (s : state) (h : list event),
      wf_proj p -> empty_store s ->
      mon_C05 matchb p (snap_of s) (observe matchb H Hx v p s h) = true.
Proof. exact c05_holds. Qed.
Print Assumptions C05_idempotent_and_detects.

(* ------------------------------------------------------------------------------------------- *)
(* [LIVE] The tree as it is: after a successful attempt the next normal run is skipped iff fingerprint,
   generates and status are unchanged; --force never skips.  All histories, all outcomes.            *)

(* [LIVE] method checksum; carve-outs: (i) no shared state file [C05/C04 key collision], (ii) nocoll5_run:
   the fingerprint being checked does not share its digest with a DIFFERENT fingerprint of the task's most
   recent attempt [7.8; necessary: C05_detects_refuted, C05_stream_not_injective] *)
Theorem C05_current_checksum :
  forall (matchb : string -> path -> bool) (H : string -> string) (Hx : fpr -> string)
         (p : project) (s : state) (h : list event),
    wf_csc_proj p -> cks s = [] ->
    nocoll5_run matchb H Hx current p (fs s) [] (observe matchb H Hx current p s h) = true ->
    mon_C05 matchb p (snap_of s) (observe matchb H Hx current p s h) = true.
Proof. exact c05_cur_checksum. Qed.
Print Assumptions C05_current_checksum.

(* [LIVE] method timestamp; carve-outs: (i) no shared marker, no generates [7.4 residual / 7.9 territory];
   (iii) K + times_ok + ev_ok: the sources present at the start are older than the first event, logical time
   increases, file operations stamp the current time, and no file matched by a sources pattern is removed,
   renamed or given an explicit mtime [timestamp set-blindness; necessary: C05_timestamp_removal_refuted] *)
Theorem C05_current_timestamp :
  forall (matchb : string -> path -> bool) (H : string -> string) (Hx : fpr -> string)
         (p : project) (s : state) (h : list event) (T : N),
    wf_ts_proj p -> tss s = [] -> K matchb p T (fs s) ->
    times_ok T h = true -> forallb (ev_ok matchb p) h = true ->
    mon_C05 matchb p (snap_of s) (observe matchb H Hx current p s h) = true.
Proof. exact c05_cur_timestamp. Qed.
Print Assumptions C05_current_timestamp.

(* [LIVE] non-vacuity: the 8-step history h_cur (failed attempt, success, skip, edit, killed forced attempt,
   success, dry, skip) meets the hypotheses of both *)
Example C05_current_example :
  (wf_csc_proj [w_task Checksum] /\ cks w_init = [] /\
   nocoll_run gmatch idH hx1 current [w_task Checksum] (fs w_init) []
              (observe gmatch idH hx1 current [w_task Checksum] w_init h_cur) = true /\
   nocoll5_run gmatch idH hx1 current [w_task Checksum] (fs w_init) []
              (observe gmatch idH hx1 current [w_task Checksum] w_init h_cur) = true /\
   map o_res (observe gmatch idH hx1 current [w_task Checksum] w_init h_cur)
   = [RFailed; ROk; RSkipped; RFile; RKilled; ROk; RSkipped; RSkipped]) /\
  (wf_ts_proj [w_task Timestamp] /\ tss w_init = [] /\ K gmatch [w_task Timestamp] 10 (fs w_init) /\
   times_ok 10 h_cur = true /\ forallb (ev_ok gmatch [w_task Timestamp]) h_cur = true /\
   map o_res (observe gmatch idH hx1 current [w_task Timestamp] w_init h_cur)
   = [RFailed; ROk; RSkipped; RFile; RKilled; ROk; RSkipped; RSkipped]).
Proof. exact (conj cur_checksum_example cur_timestamp_example). Qed.

(* ------------------------------------------------------------------------------------------- *)
(* the findings: [LIVE] = open today (their premise holds for [current]); [HISTORICAL] = repaired *)
Theorem C05_detects_refuted :                 (* [LIVE, open] 7.8: rename across directories *)
  exists p h, mon_C05 gmatch p (snap_of w_init) (observe gmatch idH hx1 current p w_init h) = false.
Proof. exact (ex_intro _ _ (ex_intro _ _ (proj1 (rename_collision_refuted current cur_fp_not_exact)))). Qed.
Print Assumptions C05_detects_refuted.

Theorem C05_stream_not_injective :            (* [LIVE, open] 7.8: bytes moved between a content and the next name *)
  exists a b : fpr, a <> b /\ stream a = stream b.
Proof. exact stream_not_injective. Qed.
Print Assumptions C05_stream_not_injective.

Theorem C05_generates_timestamp_refuted :     (* [HISTORICAL] 7.9, repaired in d94b0b8 *)
  v_ts_gen_exist current = false -> v_ts_exact current = false ->
  exists p h, mon_C05 gmatch p (snap_of w_init) (observe gmatch idH hx1 current p w_init h) = false.
Proof. exact (fun a b => ex_intro _ _ (ex_intro _ _ (proj1 (ts_generates_refuted current a b)))). Qed.
Print Assumptions C05_generates_timestamp_refuted.

Theorem C05_timestamp_removal_refuted :       (* [LIVE, open] nothing gets a newer mtime: removal, rename, back-dating *)
  exists p h, mon_C05 gmatch p (snap_of w_init) (observe gmatch idH hx1 current p w_init h) = false.
Proof. exact (ex_intro _ _ (ex_intro _ _ (ts_removal_refuted current cur_ts_not_exact))). Qed.
Print Assumptions C05_timestamp_removal_refuted.

Theorem C05_force_not_recorded_refuted :      (* [HISTORICAL] repaired in 641799f: a successful --force run was followed by another full run *)
  v_force_records current = false ->
  exists p h, mon_C05 gmatch p (snap_of w_init) (observe gmatch idH hx1 current p w_init h) = false.
Proof. exact (fun a => ex_intro _ _ (ex_intro _ _ (force_not_recorded_refuted current Checksum a method_cs_ne))). Qed.
Print Assumptions C05_force_not_recorded_refuted.

(* ---- [ANY] what the checkers detect / ignore (every variant that still hashes the stream / compares mtimes) ---- *)

(* any edit of one matched file, any addition and any removal of a matched file changes the
   basename++content stream; with an injective hash the checksum checker then answers "not up to date" *)
Theorem C05_detects_partial :
  forall (matchb : string -> path -> bool) (f f' : fsmap) (pats : list glob) (p : path),
    (same_paths f f' /\ In p (globs matchb f pats) /\ content_of f' p <> content_of f p        (* edit *)
     \/ ~ In p (map fst f) /\ (forall x, In x (map fst f') <-> x = p \/ In x (map fst f))    (* addition *)
        /\ decide matchb pats p = Some true /\ basename p <> ""%string
     \/ ~ In p (map fst f') /\ (forall x, In x (map fst f) <-> x = p \/ In x (map fst f'))   (* removal *)
        /\ decide matchb pats p = Some true /\ basename p <> ""%string) ->
    (forall q, q <> p -> content_of f' q = content_of f q) ->
    stream (fp_cs matchb f' pats) <> stream (fp_cs matchb f pats).
Proof.
  exact (fun matchb f f' pats p Hc Hoth =>
    match Hc with
    | or_introl (conj a (conj b c)) => edit_changes_stream matchb f f' pats p a b c Hoth
    | or_intror (or_introl (conj a (conj b (conj c d)))) => add_changes_stream matchb f f' pats p a b c d Hoth
    | or_intror (or_intror (conj a (conj b (conj c d)))) => remove_changes_stream matchb f f' pats p a b c d Hoth
    end).
Qed.
Print Assumptions C05_detects_partial.

Theorem C05_checksum_acts_on_it :
  forall (matchb : string -> path -> bool) (H : string -> string) (Hx : fpr -> string),
    (forall a b, H a = H b -> a = b) ->
    forall (v : variant) (dry : bool) (s : state) (t : task) (f0 : fsmap),
      v_fp_exact v = false ->
      lookup (cs_key t) (cks s) = Some (dg H Hx v (fp_cs matchb f0 (t_sources t))) ->
      stream (fp_cs matchb (fs s) (t_sources t)) <> stream (fp_cs matchb f0 (t_sources t)) ->
      fst (check_checksum matchb H Hx v dry s t) = false.
Proof. exact checksum_detects. Qed.
Print Assumptions C05_checksum_acts_on_it.

(* method checksum: a pure modification-time change (touch, explicit mtime) leaves the fingerprint as it was ... *)
Theorem C05_mtime_only_checksum :
  forall (matchb : string -> path -> bool) (now : N) (f : fsmap) (pats : list glob) (o : op),
    (exists p, o = Touch p) \/ (exists p t, o = SetMtime p t) ->
    fp_cs matchb (file_op now f o) pats = fp_cs matchb f pats.
Proof. exact mtime_ops_keep_checksum. Qed.
Print Assumptions C05_mtime_only_checksum.

(* ... method timestamp: a matched source newer than marker and generates makes the task out of date *)
Theorem C05_mtime_only_timestamp :
  forall (matchb : string -> path -> bool) (v : variant) (dry : bool) (now : N) (s : state) (t : task) (mt : N) (p : path),
    lookup (ts_key t) (tss s) = Some mt ->
    In p (globs matchb (fs s) (t_sources t)) ->
    (N.max (max_mtime (fs s) (globs matchb (fs s) (t_generates t))) mt < mtime_of (fs s) p)%N ->
    fst (check_timestamp matchb v dry now s t) = false.
Proof. exact timestamp_detects_newer. Qed.
Print Assumptions C05_mtime_only_timestamp.

(* the writing check followed by a check on the unchanged tree: "same", so only generates/status decide *)
Theorem C05_idempotent_partial :
  forall (matchb : string -> path -> bool) (H : string -> string) (Hx : fpr -> string) (v : variant) (dry : bool) (s : state) (t : task),
    let s1 := snd (check_checksum matchb H Hx v false s t) in
    fs s1 = fs s /\ check_checksum matchb H Hx v dry s1 t = (gens_exist matchb (fs s) t, s1).
Proof. exact checksum_check_idempotent. Qed.
Print Assumptions C05_idempotent_partial.

(* [REPAIRED] non-vacuity: the repaired variant on a history with an edit, an addition, a removal and a rename *)
Example C05_example :
  wf_proj p_example /\ empty_store w_init /\
  map o_res (observe gmatch idH hx1 repaired p_example w_init h_c05_example)
  = [ROk; RSkipped; RFile; ROk; RFile; ROk; RFile; ROk; RFile; ROk; RSkipped].
Proof. exact c05_example. Qed.
