(* C20 — Remote Taskfiles: nothing unapproved runs, and the cache keeps tasks runnable.
   Statements only; the proofs are in Remote/Proofs.v and Remote/ProofsTie.v.

   [run digest V http st h] is the list of observable steps (cache before, server
   state, flags, exit status, probes that ran, cache after) of the history [h] of
   (server state, invocation) pairs, for the variant [V] of the decision table;
   [digest] stands for sha256 and is arbitrary; the four monitors are the functions
   the harness evaluates on what the real binary did (Run/RemoteCases.v).
   There is no bound on the length of a history or on the values in it. *)
From Coq Require Import List NArith Bool String.
Import ListNotations.
From TV Require Import Remote.Model Remote.Proofs Extracted.Facts Run.RemoteCases Remote.ProofsTie.
Local Open Scope N_scope.

(* (a) What runs has the checksum that is on record as approved, and the record
   only changes to the digest of what the server offered while the user approved
   (--yes, or y on a terminal), over every history from an empty cache, for
   every variant of the table. *)
Theorem C20_only_approved :
  forall digest V http h,
    forallb (mon_only_approved digest) (run digest V http empty_cache h) = true.
Proof. exact (fun digest V http h => run_only_approved digest V http h empty_cache (Inv_empty digest)). Qed.
Print Assumptions C20_only_approved.

(* the same about outcomes: after any history, Ran v means v is cached, digest v is the
   recorded approval, and either nothing was written or v was offered and approved/unchanged *)
Theorem C20_only_approved_outcome :
  forall digest V http h s i v st',
    invoke digest V http (final digest V http empty_cache h) s i = (Ran v, st') ->
    c_content st' = Some v /\ c_sum st' = Some (digest v) /\
    (st' = final digest V http empty_cache h \/
     (approves i = true \/ c_sum (final digest V http empty_cache h) = Some (digest v)) /\
     served s (i_timeout i) = Some v).
Proof.
  exact (fun digest V http h s i v st' =>
    ran_is_approved digest V http _ s i v st' (final_Inv digest V http h empty_cache (Inv_empty digest))).
Qed.
Print Assumptions C20_only_approved_outcome.

(* (a') The cache itself is guarded: over every history, for every variant, the
   cached bytes only change to what the server offered, together with their
   checksum, after the user approved (or when that checksum already was the
   approved one), and a consistent cache stays consistent.  In particular a
   declined run (104) leaves nothing behind that --offline, a still valid
   --expiry or a fallback could execute later. *)
Theorem C20_content_guarded :
  forall digest V http h st,
    forallb (mon_content_guarded digest) (run digest V http st h) = true.
Proof. exact (fun digest V http => run_forall digest (mon_content_guarded digest) V http (step_content_guarded digest V http)). Qed.
Print Assumptions C20_content_guarded.

(* (a'') What ran, judged against what the user approved: after any history, the
   version an invocation runs has a digest among those the user approved (--yes or
   y on a terminal while that version was on offer) in that history or in this
   invocation.  The approvals are computed from the inputs alone. *)
Theorem C20_ran_was_approved :
  forall digest V http h s i,
    mon_ever_approved digest
      (step_obs digest V http (final digest V http empty_cache h) s i,
       approvals_after digest [] (h ++ [(s, i)])) = true.
Proof. exact ran_was_approved. Qed.
Print Assumptions C20_ran_was_approved.

(* Kills.  The three cache files are written one after the other (checksum,
   timestamp, content; C20_tie_read_shape); a process killed in between leaves a
   cache in which (a) as stated above fails: an older approved version runs while
   the record names the newer one ... *)
Theorem C20_only_approved_kill_refuted :
  exists h, forallb (mon_only_approved_k id_digest) (run_k id_digest (mkVariant true) true empty_cache [] h) = false.
Proof. exact (ex_intro _ witness_kill only_approved_kill_refuted_witness). Qed.
Print Assumptions C20_only_approved_kill_refuted.

(* ... but, because the prompt precedes every write, what runs was approved at some
   point: over every history with kills after any number of writes, each version
   that runs has a digest the user approved (--yes or y while it was on offer). *)
Theorem C20_ever_approved_with_kills :
  forall digest V http h,
    forallb (mon_ever_approved digest) (run_k digest V http empty_cache [] h) = true.
Proof. exact (fun digest V http h => run_k_ever_approved digest V http h empty_cache [] (KInv_empty digest [])). Qed.
Print Assumptions C20_ever_approved_with_kills.

(* (b) New or changed contents offered and no approval: exit 104, nothing ran, the
   cache is untouched; for every cache state (reachable or not), server state and
   flag set, for every variant. *)
Theorem C20_unapproved_104 :
  forall digest V http h st,
    forallb (mon_unapproved digest http) (run digest V http st h) = true.
Proof. exact (fun digest V http => run_forall digest (mon_unapproved digest http) V http (step_unapproved digest V http)). Qed.
Print Assumptions C20_unapproved_104.

(* in terms of contents (this is where the digest has to be injective): after any
   history, if the server offers a version different from the cached one (or
   there is none) and the user does not approve, the invocation ends with 104 *)
Theorem C20_unapproved_104_contents :
  forall digest, (forall a b, digest a = digest b -> a = b) ->
  forall V http h s i w,
    let st := final digest V http empty_cache h in
    flags_ok i = true -> secure_ok http i = true -> contacts st i = true ->
    served s (i_timeout i) = Some w ->
    (forall c, c_content st = Some c -> w <> c) ->
    (c_content st = None -> c_sum st = None) ->
    approves i = false ->
    invoke digest V http st s i = (Exit code_not_trusted, st).
Proof.
  exact (fun digest inj V http h s i w =>
    changed_content_104 digest inj V http _ s i w (final_Inv digest V http h empty_cache (Inv_empty digest))).
Qed.
Print Assumptions C20_unapproved_104_contents.

(* (c) An approved copy in the cache and (--offline, or the server is down,
   refusing or slower than --timeout): the cached version runs.  Full statement,
   for the table in which a failed connection falls back like a timeout does. *)
Theorem C20_cache_keeps_running :
  forall digest V http h st,
    v_fetch_fallback V = true ->
    forallb (mon_keeps_running digest http) (run digest V http st h) = true.
Proof. exact (fun digest V http h st HV => run_keeps_running_repaired digest V http h st HV). Qed.
Print Assumptions C20_cache_keeps_running.

(* the pinned tree (only a context timeout falls back): refuted by "approve v1, server down" *)
Theorem C20_cache_keeps_running_refuted :
  exists h, forallb (mon_keeps_running id_digest true) (run id_digest (mkVariant false) true empty_cache h) = false.
Proof. exact (ex_intro _ witness_733 keeps_running_refuted_witness). Qed.
Print Assumptions C20_cache_keeps_running_refuted.

(* what does hold for every variant: --offline, a timeout, or a fresh copy without --download *)
Theorem C20_cache_keeps_running_partial :
  forall digest V http st s i,
    falls_back V st s i = true ->
    mon_keeps_running digest http (step_obs digest V http st s i) = true.
Proof. exact step_keeps_running_if. Qed.
Print Assumptions C20_cache_keeps_running_partial.

(* the variant selected by the facts extracted from the tree as it is now
   (current_variant, Run/RemoteCases.v): the full statement, or the counterexample *)
Theorem C20_cache_keeps_running_current :
  (v_fetch_fallback current_variant = true /\
   forall digest http h st,
     forallb (mon_keeps_running digest http) (run digest current_variant http st h) = true)
  \/
  (v_fetch_fallback current_variant = false /\
   forallb (mon_keeps_running id_digest true) (run id_digest current_variant true empty_cache witness_733) = false).
Proof. exact current_tree_keeps_running. Qed.
Print Assumptions C20_cache_keeps_running_current.

(* once something ran, it runs again under --offline, whatever the server does *)
Theorem C20_ran_then_offline :
  forall digest V http h s i v st' s2 i2,
    invoke digest V http (final digest V http empty_cache h) s i = (Ran v, st') ->
    flags_ok i2 = true -> i_clear i2 = false -> secure_ok http i2 = true -> i_offline i2 = true ->
    invoke digest V http st' s2 i2 = (Ran v, st').
Proof.
  exact (fun digest V http h s i v st' s2 i2 =>
    ran_then_offline digest V http _ s i v st' s2 i2 (final_Inv digest V http h empty_cache (Inv_empty digest))).
Qed.
Print Assumptions C20_ran_then_offline.

(* (d) plain http without --insecure: exit 105, nothing ran, cache untouched *)
Theorem C20_http_refused :
  forall digest V h st,
    forallb (mon_http_refused true) (run digest V true st h) = true.
Proof. exact (fun digest V => run_forall digest (mon_http_refused true) V true (step_http_refused digest V true)). Qed.
Print Assumptions C20_http_refused.

Theorem C20_http_refused_outcome :
  forall digest V st s i,
    flags_ok i = true -> i_insecure i = false ->
    invoke digest V true st s i = (Exit code_not_secure, st).
Proof. exact http_refused_outcome. Qed.
Print Assumptions C20_http_refused_outcome.

(* ---- the tie to the source (facts regenerated from /repo by every check) ---- *)

Theorem C20_tie_exit_codes :
  [ lookup "CodeUnknown"%string remote_code_consts;
    exit_code_of "TaskfileNotFoundError";
    exit_code_of "TaskfileFetchFailedError";
    exit_code_of "TaskfileNotTrustedError";
    exit_code_of "TaskfileNotSecureError";
    exit_code_of "TaskfileCacheNotFoundError";
    exit_code_of "TaskfileNetworkTimeoutError" ]
  = map Some [code_unknown; code_not_found; code_fetch_failed; code_not_trusted;
              code_not_secure; code_cache_not_found; code_network_timeout].
Proof. exact tie_exit_codes. Qed.
Print Assumptions C20_tie_exit_codes.

Theorem C20_tie_read_shape :
  remote_cache_switch = ["errors.Is()"; "!cacheValid"; "err!=nil"; "default"]%string /\
  remote_cache_conds = ["r.offline"; "r.offline"; "!r.download"]%string /\
  remote_cache_valid_expr = ["timestamp.Add()"; "now.Before()"]%string /\
  remote_write_order = map wr_name (store_writes 0 0 0) /\
  remote_prompt_before_writes = true /\
  remote_prompt_error_is_not_trusted = true /\
  remote_deadline_is_network_timeout = true.
Proof. exact tie_read_shape. Qed.
Print Assumptions C20_tie_read_shape.

Theorem C20_tie_fallback_known : remote_fallback_kind = 0%nat \/ remote_fallback_kind = 1%nat.
Proof. exact tie_fallback_known. Qed.
Print Assumptions C20_tie_fallback_known.

Theorem C20_tie_prompt_and_flags :
  remote_checksum_prompt = ["cachedChecksum=="""" => taskfileUntrustedPrompt";
                            "cachedChecksum!=checksum => taskfileChangedPrompt";
                            "default => """""]%string /\
  firstn 2 remote_prompt_conds = ["l.AssumeYes => nil"; "!l.AssumeTerm&&!term.IsTerminal() => ErrNoTerminal"]%string /\
  remote_http_cond = "url.Scheme==""http""&&!insecure"%string /\
  remote_flag_conflicts = ["Download&&Offline"; "Download&&ClearCache"]%string /\
  remote_cli_order = ["flags.Validate"; "Setup"; "ClearCache"]%string.
Proof. exact tie_prompt_and_flags. Qed.
Print Assumptions C20_tie_prompt_and_flags.

(* ---- non-vacuity: histories in which things do run, prompts are declined, the cache is used ---- *)

Example C20_example_history :
  map (fun o => (o_exit o, o_ran o))
      (run id_digest (mkVariant true) true empty_cache
           [ (Serve 1, mkInv false false false false 0 true 10000 NoTerm 10);    (* no approval: 104 *)
             (Serve 1, mkInv false false false false 0 true 10000 TtyYes 20);    (* y on the terminal *)
             (Serve 2, mkInv false false false false 0 true 10000 TtyNo 30);     (* changed, declined: 104 *)
             (Down,    mkInv false false false false 0 true 10000 NoTerm 40);    (* server gone: cached v1 *)
             (Serve 2, mkInv true  true  false false 3600 true 10000 NoTerm 50); (* --download --yes: v2 *)
             (Slow 1500 3, mkInv false false false false 0 true 400 NoTerm 60);  (* too slow: cached v2 *)
             (Serve 3, mkInv false false true  false 0 false 10000 NoTerm 70) ]) (* no --insecure: 105 *)
  = [(104, []); (0, [1]); (104, []); (0, [1]); (0, [2]); (0, [2]); (105, [])].
Proof. vm_compute. reflexivity. Qed.

(* the hypotheses of (b) and (c) are met by steps of that history *)
Example C20_example_hypotheses :
  let st1 := mkCache (Some 1) (Some 1) (Some 20) in
  let i := mkInv false false false false 0 true 10000 NoTerm 40 in
  contacts st1 i = true /\ approved_cache id_digest st1 = true /\ unavailable Down (i_timeout i) = true /\
  needs_prompt (c_sum st1) (id_digest 2) = true /\ falls_back (mkVariant false) st1 (Slow 1500 3) (mkInv false false false false 0 true 400 NoTerm 60) = true.
Proof. vm_compute. repeat split; reflexivity. Qed.
