(* C03 — A failing command fails the invocation with the right status: mon_C03_status
   (Exec/Monitors.v) for all programs, configurations and schedules.
   Statements only; proofs are in Exec/InvStatus.v (and Exec/InvFail.v). *)
From Coq Require Import List Arith Bool.
Import ListNotations.
From TV Require Import Exec.Model Exec.Monitors Exec.InvFail Exec.InvStatus.

(* the whole status monitor, for every completed run *)
Theorem C03_status :
  forall p c sched r, run_result p c (run p c sched) = Some r ->
    mon_C03_status p c (trace (run p c sched)) r = true.
Proof. exact status_all_schedules. Qed.
Print Assumptions C03_status.

(* its single-failure clause, spelled out: exactly one non-ignored failing command ended, commands
   are the only source of errors (no guard can fail, the call counter cannot trip) and no caller was
   skipped in favour of a shared execution.  If the failure reaches a root (through dep links and
   callers without ignore_error) Run reports exactly the task-run error carrying its exit status;
   if an ignore_error caller or a deferred call drops it, Run succeeds *)
Theorem C03_single_failure :
  forall p c sched r a i,
    run_result p c (run p c sched) = Some r ->
    failing_ends p c (trace (run p c sched)) = [(a, i)] ->
    only_cmd_errors p c = true -> noskip (trace (run p c sched)) = true ->
    if reaches_root p c a then r = RErr (ETaskRun (Some (exit_of p c a i))) else r = ROk.
Proof. exact single_failure_status. Qed.
Print Assumptions C03_single_failure.

(* ... and the exit status of the CLI: 201, or the command's own exit status with --exit-code *)
Theorem C03_single_failure_exit_status :
  forall p c sched r a i,
    run_result p c (run p c sched) = Some r ->
    failing_ends p c (trace (run p c sched)) = [(a, i)] -> reaches_root p c a = true ->
    only_cmd_errors p c = true -> noskip (trace (run p c sched)) = true ->
    exit_status false r = 201 /\ exit_status true r = exit_of p c a i.
Proof. exact single_failure_exit_status. Qed.
Print Assumptions C03_single_failure_exit_status.

(* noskip is the monitor's guard *)
Theorem C03_noskip_is_guard :
  forall tr, noskip tr = negb (existsb (fun e => match e with EvSkipping _ _ => true | _ => false end) tr).
Proof. reflexivity. Qed.
Print Assumptions C03_noskip_is_guard.

(* state-level facts the proof rests on, for every reachable state:
   contexts only cover the call subtree of the activation that created them ... *)
Theorem C03_context_scoping :
  forall p c sched, ctxinv p (run p c sched).
Proof. exact run_ctxinv. Qed.
Print Assumptions C03_context_scoping.

(* ... Run's error is the error of a root activation that returned ... *)
Theorem C03_run_error_witness :
  forall p c sched e, rungerr (run p c sched) = Some e ->
    exists j y, get_act (run p c sched) j = Some y /\ a_pc y = PDone (RErr e).
Proof. exact run_rung_witness. Qed.
Print Assumptions C03_run_error_witness.

(* ... and the phases of a run in which commands are the only source of errors and nobody is
   skipped: error free; one failure with a frontier activation holding the real error while
   everything outside its call subtree is error free and uncancelled; Run's error set to the
   task-run error of that failure; or more than one failure *)
Theorem C03_phases :
  forall p c sched, only_cmd_errors p c = true -> noskip (trace (run p c sched)) = true ->
    status_phase p c (run p c sched).
Proof. exact run_phase. Qed.
Print Assumptions C03_phases.

(* the guard "nobody was skipped" of the single-failure clause is needed (in the model and in the
   real executor: a skipped caller reports the outcome of the one real execution): task 3 fails;
   its sibling 4 (run: once) is cancelled; task 2, whose call of 4 was skipped, gets "context
   canceled" and hands it to the root's errgroup before the real error arrives.  Clause 1 and the
   guarded monitor hold of this run; the unguarded clause does not *)
Example C03_single_failure_guard_needed :
  failing_ends exs_prog exs_cfg exs_trace = [([0; 0; 0], 0)] /\
  reaches_root exs_prog exs_cfg [0; 0; 0] = true /\
  only_cmd_errors exs_prog exs_cfg = true /\
  noskip exs_trace = false /\
  run_result exs_prog exs_cfg (run exs_prog exs_cfg exs_sched) = Some (RErr ECancel) /\
  unguarded_clause_a exs_prog exs_cfg exs_trace (RErr ECancel) = false /\
  mon_C03_status exs_prog exs_cfg exs_trace (RErr ECancel) = true.
Proof. exact status_single_reaching_refuted. Qed.
Print Assumptions C03_single_failure_guard_needed.

(* non-vacuity of the exact clause: the run of Properties/C03fail.v (root -> dep -> call -> exit 3)
   has one failing command reaching the root, no skipped caller, and Run reports exactly 3 *)
From TV Require Import Properties.C03fail.
Example C03_single_failure_example :
  failing_ends exf_prog exf_cfg exf_trace = [([0; 0; 0], 1)] /\
  reaches_root exf_prog exf_cfg [0; 0; 0] = true /\
  only_cmd_errors exf_prog exf_cfg = true /\ noskip exf_trace = true /\
  exit_of exf_prog exf_cfg [0; 0; 0] 1 = 3 /\
  run_result exf_prog exf_cfg (run exf_prog exf_cfg exf_sched) = Some (RErr (ETaskRun (Some 3))) /\
  mon_C03_status exf_prog exf_cfg exf_trace (RErr (ETaskRun (Some 3))) = true /\
  mon_C03_status exf_prog exf_cfg exf_trace (RErr (ETaskRun (Some 4))) = false /\
  mon_C03_status exf_prog exf_cfg exf_trace (RErr ECancel) = false.
Proof. vm_compute. repeat split; reflexivity. Qed.
Print Assumptions C03_single_failure_example.
