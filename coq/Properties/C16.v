(* C16 — No input makes Task crash.  PARTIAL: the theorems cover go-task's own
   decode / compile / snippet / include-location logic over abstract node trees
   (model I, Decode/Model.v); yaml.v3's parser, text/template, regexp, chroma and
   giturls are oracles here and are covered by the differential fuzz only.
   Statements only; proofs are in Decode/Proofs*.v. *)
From Coq Require Import List String NArith ZArith Bool.
Import ListNotations.
From TV Require Import Decode.Model Decode.Proofs Decode.ProofsCodes Decode.ProofsRun Decode.ProofsMain
                       Extracted.Facts Run.DecodeCases Decode.ProofsCurrent.
Local Open Scope string_scope.

(* ---- tie to the source ---- *)
(* every guard fact extracted from /repo has a shape the extractor recognised;
   [current] (Run/DecodeCases.v) is the variant these facts describe *)
Theorem C16_facts_recognised : facts_recognised = true.
Proof. reflexivity. Qed.
Print Assumptions C16_facts_recognised.

(* the exit codes the model emits are the constants of errors/errors.go *)
Theorem C16_code_table :
  code_named "CodeUnknown" = Some code_unknown /\ code_named "CodeTaskfileNotFound" = Some code_not_found /\
  code_named "CodeTaskfileDecode" = Some code_decode /\ code_named "CodeTaskfileVersionCheckError" = Some code_version /\
  code_named "CodeTaskfileInvalid" = Some code_invalid /\ code_named "CodeTaskfileCycle" = Some code_cycle /\
  code_named "CodeTaskNotFound" = Some code_task_not_found /\ forallb documented model_codes = true.
Proof. repeat split; reflexivity. Qed.
Print Assumptions C16_code_table.

(* ---- decoding: for every node tree and every verdict of the oracles ---- *)
Theorem C16_no_panic_decode :
  forall (v : variant) (o : oracles) (n : ynode), g_var_len v = true -> forall s, decode_taskfile v o n <> Panic s.
Proof. exact no_panic_decode. Qed.
Print Assumptions C16_no_panic_decode.

(* the only panic of the decoders, in any variant: the empty mapping as a variable *)
Theorem C16_decode_panic_characterised :
  forall v o n s, decode_taskfile v o n = Panic s -> s = SVarEmptyMap /\ g_var_len v = false /\ hem n = true.
Proof. exact decode_panic_inv. Qed.
Print Assumptions C16_decode_panic_characterised.

Theorem C16_no_panic_decode_refuted :
  forall v o, g_var_len v = false -> exists n, decode_taskfile v o n = Panic SVarEmptyMap.
Proof. exact (fun v o H => ex_intro _ wit_var (refuted_var_empty_map v o H)). Qed.
Print Assumptions C16_no_panic_decode_refuted.

Theorem C16_no_panic_decode_partial :
  forall v o n, hem n = false -> forall s, decode_taskfile v o n <> Panic s.
Proof. exact no_panic_decode_partial. Qed.
Print Assumptions C16_no_panic_decode_partial.

(* ---- compiling, listing, looking up names, dry-running: for every table of tasks ---- *)
Theorem C16_no_panic_compile :
  forall v o goos goarch gvt (tbl : list task) (requested : list string) certain,
    all_guards v o -> table_events v o goos goarch gvt tbl requested certain = [].
Proof. exact no_panic_compile. Qed.
Print Assumptions C16_no_panic_compile.

(* in any variant a panic needs a missing guard *)
Theorem C16_panic_needs_open_site :
  forall v o e s, In s (pr_must (predict v o e) ++ pr_may (predict v o e)) -> site_open v o s.
Proof. exact predict_sites_open. Qed.
Print Assumptions C16_panic_needs_open_site.

Theorem C16_no_panic_compile_refuted :
  (forall v, g_glob_nil v = false -> replace_globs v [None] = Panic SGlobNil) /\
  (forall v goos goarch, g_platform_nil v = false -> should_run v goos goarch [None] = Panic SPlatformNil) /\
  (forall v, g_requires_nil v = false -> requires_loop v [None] = Panic SRequiresNil) /\
  (forall v o name, g_wc_must v = true -> g_wc_quote v = false -> o_wc_raw o name = false ->
                    wildcard_compile v o name = Panic SWildcard) /\
  (forall v, g_traverse_struct v = false -> traverse v true = Panic STraverseStruct) /\
  (forall v, g_omap_nil v = false -> for_deepcopy v (Some true) = Panic SMatrixNilMap) /\
  (forall v, g_deepcopy_nil v = false -> slice_deepcopy v (set_sources task0 [None]) = Panic SDeepCopyNil).
Proof.
  exact (conj refuted_glob_nil (conj refuted_platform_nil (conj refuted_requires_nil
        (conj refuted_wildcard (conj refuted_traverse (conj refuted_matrix_nil_map refuted_deepcopy_nil)))))).
Qed.
Print Assumptions C16_no_panic_compile_refuted.

(* ---- execext.ExpandLiteral (task dir, include location and dir): total with the length check ---- *)
Theorem C16_expand_literal_total :
  forall v o str, g_expand_literal_len v = true -> forall s, expand_literal v o str <> Panic s.
Proof. exact expand_literal_total. Qed.
Print Assumptions C16_expand_literal_total.

Theorem C16_expand_literal_refuted :
  forall v o str, g_expand_literal_len v = false -> is_empty str = false -> o_words o str = Some 0 ->
    expand_literal v o str = Panic SExpandLiteral.
Proof. exact refuted_expand_literal. Qed.
Print Assumptions C16_expand_literal_refuted.

(* ---- the snippet of a decode error ---- *)
Theorem C16_snippet_in_bounds :
  forall line pad n_raw n_hl, exists lo hi,
    snippet_bounds true line pad n_raw n_hl = Ok (lo, hi) /\
    (0 <= lo <= hi)%Z /\ (hi <= Z.of_N n_raw)%Z /\ (hi <= Z.of_N n_hl)%Z.
Proof. exact snippet_clamped_in_bounds. Qed.
Print Assumptions C16_snippet_in_bounds.

Theorem C16_snippet_refuted : exists line pad n_raw n_hl, snippet_bounds false line pad n_raw n_hl = Panic SSnippet.
Proof. exact (ex_intro _ 4%Z (ex_intro _ 2%Z (ex_intro _ 1%N (ex_intro _ 5%N refuted_snippet)))). Qed.
Print Assumptions C16_snippet_refuted.

Theorem C16_snippet_partial :
  forall line pad n_raw n_hl,
    (1 <= line)%Z -> (0 <= pad)%Z -> (line - pad <= Z.of_N n_raw)%Z -> (1 <= Z.of_N n_raw)%Z ->
    (Z.of_N n_raw <= Z.of_N n_hl + 1)%Z ->
    forall s, snippet_bounds false line pad n_raw n_hl <> Panic s.
Proof. exact snippet_unclamped_partial. Qed.
Print Assumptions C16_snippet_partial.

(* ---- include locations ---- *)
Theorem C16_git_split :
  (forall path s, git_split true path <> Panic s) /\
  git_split false "/foo/bar.git" = Panic SGitSplit /\
  (forall guard path, str_contains "//" path = true -> forall s, git_split guard path <> Panic s).
Proof.
  exact (conj (fun path s H => match git_split_open true path s H with conj _ E => Bool.diff_true_false E end)
        (conj refuted_git_split git_split_partial)).
Qed.
Print Assumptions C16_git_split.

(* ---- reading terminates: fuel = number of files + 1 is enough, whatever the include graph ---- *)
Theorem C16_reader_terminates :
  forall v o (fs : list (string * ynode)) fuel, List.length fs < fuel -> read v o fs fuel <> ROutOfFuel.
Proof. exact reader_terminates. Qed.
Print Assumptions C16_reader_terminates.

(* no hypothesis on the shape of the include graph: depth and width are irrelevant, only the
   number of files counts.  Instances: a chain of depth 12 and a wide-and-nested tree are read
   completely with exactly that fuel. *)
Example C16_reader_depth_12 :
  let fs := chain_files 12 root_name in
  List.length fs = 13 /\
  match read repaired ex_oracles fs (S (List.length fs)) with RDone vis _ => List.length vis = 13 | _ => False end.
Proof. exact reader_deep_chain. Qed.

Example C16_reader_wide_nested :
  let fs := wide_files 10 in
  List.length fs = 21 /\
  match read repaired ex_oracles fs (S (List.length fs)) with RDone vis _ => List.length vis = 21 | _ => False end.
Proof. exact reader_wide_nested. Qed.

Theorem C16_no_panic_read :
  forall v o fs fuel, all_guards v o -> forall s, read v o fs fuel <> RPanic s.
Proof. exact no_panic_read. Qed.
Print Assumptions C16_no_panic_read.

(* ---- every diagnosed error carries a documented exit code ---- *)
Theorem C16_codes :
  (forall v o n c, decode_taskfile v o n = Err c -> documented c = true) /\
  (forall v o fs fuel c, read v o fs fuel = RErr c -> documented c = true) /\
  (forall v o e c, pr_exact (predict v o e) = Some (OErr c) -> documented c = true).
Proof.
  assert (H : forall c, In c model_codes -> documented c = true).
  { intros c Hc. exact (proj1 (forallb_forall documented model_codes) (proj2 (proj2 (proj2 (proj2 (proj2 (proj2 (proj2 C16_code_table))))))) c Hc). }
  exact (conj (fun v o n c E => H c (decode_codes v o n c E))
        (conj (fun v o fs fuel c E => H c (read_codes v o fs fuel c E))
              (fun v o e c E => H c (predict_exact_codes v o e c E)))).
Qed.
Print Assumptions C16_codes.

(* ---- the monitor: whatever agrees with a fully guarded variant, with documented codes, satisfies C16 ---- *)
Theorem C16_monitor :
  forall v o e x, all_guards v o -> agrees (predict v o e) x = true ->
    (forall c, x = OErr c -> documented c = true) -> mon_case x = true.
Proof. exact (fun v o e x => monitor_of_agreement v o e documented x). Qed.
Print Assumptions C16_monitor.

Theorem C16_repaired_never_panics :
  forall o e, pr_must (predict repaired o e) = [] /\ pr_may (predict repaired o e) = [].
Proof. exact (fun o e => predict_no_panic repaired o e (repaired_all_guards o)). Qed.
Print Assumptions C16_repaired_never_panics.

(* ---- the tree as it is now: all ten fixes are in /repo, the extracted facts say every guard is present ---- *)
Theorem C16_current_tree :
  forall o e, (forall n, o_wc_quoted o n = true) ->
    pr_must (predict current o e) = [] /\ pr_may (predict current o e) = [].
Proof. exact current_never_panics. Qed.
Print Assumptions C16_current_tree.

Theorem C16_current_decode : forall o n s, decode_taskfile current o n <> Panic s.
Proof. exact current_decode_never_panics. Qed.
Print Assumptions C16_current_decode.

Theorem C16_current_snippet : forall line pad n_raw n_hl s,
  snippet_bounds (g_snippet_clamp current) line pad n_raw n_hl <> Panic s.
Proof. exact current_snippet_in_bounds. Qed.
Print Assumptions C16_current_snippet.

(* ---- non-vacuity: concrete Taskfiles, one per site, panic in the unguarded tree and not in the repaired one ---- *)
Example C16_examples :
  musts (doc [(k "vars", YMap [(k "A", YMap [])])]) = [SVarEmptyMap] /\
  musts (doc (one_task [(k "sources", YSeq [YNull]); (k "cmds", YSeq [k "echo hi"])])) = [SGlobNil] /\
  musts (doc [(k "includes", YMap [(k "g", k "https://example.com/foo/bar.git")])]) = [SGitSplit] /\
  all_guards repaired ex_oracles.
Proof. exact (conj doc_var_empty_map (conj doc_sources_null (conj doc_include_git (repaired_all_guards ex_oracles)))). Qed.
