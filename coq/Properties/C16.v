(* C16 — No input makes Task crash (PARTIAL: see lib/props_decode.py).  Statements only. *)
From Coq Require Import List String NArith ZArith Bool.
Import ListNotations.
From TV Require Import Decode.Model Extracted.Facts Run.DecodeCases.

(* every guard fact extracted from the source has a recognised shape *)
Theorem C16_facts_recognised : facts_recognised = true.
Proof. reflexivity. Qed.
Print Assumptions C16_facts_recognised.
