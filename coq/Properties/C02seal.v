(* C02 (brackets) and shared-execution waits — Quiescence: the machine of Exec/Model.v against
   mon_C02seal and mon_waits (Exec/Monitors.v), for all programs, configurations and schedules.
   Statements only; proofs are in Exec/InvQuiet.v. *)
From Coq Require Import List Arith Bool.
Import ListNotations.
From TV Require Import Exec.Model Exec.Monitors Exec.InvTree Exec.InvQuiet.

(* brackets: whenever an activation emits an event other than its own "started" / probe arrival,
   every strict descendant of it seen so far never emits again: a caller moves on only after the
   callee and everything below it went quiet *)
Theorem C02_seal :
  forall p c sched, mon_C02seal (trace (run p c sched)) = true.
Proof. exact seal_all_schedules. Qed.
Print Assumptions C02_seal.

(* the harness only sees the observable part of the trace; mon_C02seal looks at nothing else *)
Theorem C02_seal_observable :
  forall p c sched, mon_C02seal (filter observable (trace (run p c sched))) = true.
Proof. exact seal_observable. Qed.
Print Assumptions C02_seal_observable.

(* both halves of C02 (the per-activation sequence is Exec/InvPhase.v) *)
Theorem C02_sequence_and_seal :
  forall p c sched, mon_C02 p c (trace (run p c sched)) = true.
Proof. exact C02_all_schedules. Qed.
Print Assumptions C02_sequence_and_seal.

(* shared executions: after "skipping execution of task K" on behalf of activation h, no activation
   at or above h emits before the one real execution of K (the activation that printed "started"
   for that key) went quiet for good, together with everything below it *)
Theorem waits_shared_execution :
  forall p c sched, mon_waits p c (trace (run p c sched)) = true.
Proof. exact waits_all_schedules. Qed.
Print Assumptions waits_shared_execution.

Theorem waits_shared_execution_observable :
  forall p c sched, mon_waits p c (filter observable (trace (run p c sched))) = true.
Proof. exact waits_observable. Qed.
Print Assumptions waits_shared_execution_observable.

(* state-level core: in every reachable state, everything strictly below (call path) an activation
   that is not waiting for a child (join of the deps, PCallWait, PDCallWait) has returned *)
Theorem quiet_descendants_returned :
  forall p c sched i x j y,
    get_act (run p c sched) i = Some x -> waiting (a_pc x) = false ->
    get_act (run p c sched) j = Some y -> strict_prefix (a_path x) (a_path y) = true ->
    is_done (a_pc y) = true.
Proof. exact descendants_returned. Qed.
Print Assumptions quiet_descendants_returned.

(* ... and every owner on the monitor's w_sealed list is the path of an activation whose execution
   closure has returned (PRelease / PDone: only its ghost EvEnd may be left), with everything
   strictly below it returned *)
Theorem quiet_sealed_owner_closed :
  forall p c sched,
    exists st, mfold (stepW p c) stW_0 (trace (run p c sched)) = Some st /\
      forall o, In o (w_sealed st) ->
        exists i x, get_act (run p c sched) i = Some x /\ a_path x = o /\
          exec_result (run p c sched) i <> None /\
          forall j y, get_act (run p c sched) j = Some y -> strict_prefix o (a_path y) = true ->
                      is_done (a_pc y) = true.
Proof. exact sealed_owner_closed. Qed.
Print Assumptions quiet_sealed_owner_closed.

(* ------------------------------------------------------------------ *)
(* Non-vacuity (i): nested calls.  Task 0 runs a command, calls task 1, runs another command;
   task 1 calls task 2 and then runs a command; task 2 runs one command.  The callee of the
   callee is activation [0;1;0].  The seal monitor accepts the trace of the machine, and rejects
   a trace in which [0;1;0] still prints (its probe ends) after the caller [0] moved on to its
   next command. *)
Module Nested.
  Definition tk (cmds : list cmd) : task :=
    {| t_deps := []; t_cmds := cmds; t_run := Always; t_ignore := false; t_internal := false; t_g := dummy_guards |}.
  Definition cl (t : nat) : cmd := CallC {| c_task := t; c_var := VInherit |}.
  Definition ex_prog : prog :=
    [tk [Shell 0 false; cl 1; Shell 0 false]; tk [cl 2; Shell 0 false]; tk [Shell 0 false]].
  Definition ex_cfg : cfg :=
    {| cf_N := Some 1; cf_parallel := false; cf_force := false; cf_forceall := false; cf_yes := true;
       cf_roots := [{| c_task := 0; c_var := VConst 0 |}]; cf_maxcall := 1000 |}.
  Definition round : list choice := [ChRoot 0; ChStep 0; ChStep 1; ChStep 2].
  Fixpoint rounds (n : nat) : list choice := match n with O => [] | S m => round ++ rounds m end.
  Definition ex_sched : list choice := rounds 100.

  Definition ex_observed : list event :=
    [EvStarted [0] 0; EvAnnounce [0] 0; EvProbeBegin [0] 0 0; EvProbeEnd [0] 0;
     EvStarted [0; 1] 1; EvStarted [0; 1; 0] 2;
     EvAnnounce [0; 1; 0] 0; EvProbeBegin [0; 1; 0] 0 0; EvProbeEnd [0; 1; 0] 0; EvFinished [0; 1; 0];
     EvAnnounce [0; 1] 1; EvProbeBegin [0; 1] 1 0; EvProbeEnd [0; 1] 1; EvFinished [0; 1];
     EvAnnounce [0] 2; EvProbeBegin [0] 2 0; EvProbeEnd [0] 2; EvFinished [0]].

  Example ex_trace : filter observable (trace (run ex_prog ex_cfg ex_sched)) = ex_observed.
  Proof. vm_compute. reflexivity. Qed.

  Example ex_completes : run_result ex_prog ex_cfg (run ex_prog ex_cfg ex_sched) = Some ROk.
  Proof. vm_compute. reflexivity. Qed.

  Example ex_accepted : mon_C02seal (trace (run ex_prog ex_cfg ex_sched)) = true.
  Proof. vm_compute. reflexivity. Qed.

  (* the instance of the theorem *)
  Example ex_accepted_by_theorem : mon_C02seal (trace (run ex_prog ex_cfg ex_sched)) = true.
  Proof. apply C02_seal. Qed.

  (* the monitor discriminates: the probe of [0;1;0] ends after [0] announced its next command *)
  Definition ex_bad : list event :=
    [EvStarted [0] 0; EvAnnounce [0] 0; EvProbeBegin [0] 0 0; EvProbeEnd [0] 0;
     EvStarted [0; 1] 1; EvStarted [0; 1; 0] 2;
     EvAnnounce [0; 1; 0] 0; EvProbeBegin [0; 1; 0] 0 0;
     EvAnnounce [0] 2; EvProbeEnd [0; 1; 0] 0].
  Example ex_bad_rejected : mon_C02seal ex_bad = false.
  Proof. vm_compute. reflexivity. Qed.
  (* ... and it is that late event of the descendant which is rejected *)
  Example ex_bad_prefix_accepted : mon_C02seal (removelast ex_bad) = true.
  Proof. vm_compute. reflexivity. Qed.
End Nested.

(* ------------------------------------------------------------------ *)
(* Non-vacuity (ii): task 0 has deps 1 and 2, both of which have the dep 3, a run: once task.
   Under a round-robin schedule the dep activation [0;0;0] (below task 1) executes task 3 and the
   dep activation [0;1;0] (below task 2) is skipped in its favour.  mon_waits accepts the trace of
   the machine, and rejects a trace in which the parent [0;1] of the skipped activation announces
   its command before the owner [0;0;0] printed "finished". *)
Module Shared.
  Definition tk (deps : list nat) (r : runmode) : task :=
    {| t_deps := map (fun t => {| c_task := t; c_var := VInherit |}) deps; t_cmds := [Shell 0 false];
       t_run := r; t_ignore := false; t_internal := false; t_g := dummy_guards |}.
  Definition ex_prog : prog := [tk [1; 2] Always; tk [3] Always; tk [3] Always; tk [] Once].
  Definition ex_cfg : cfg :=
    {| cf_N := None; cf_parallel := false; cf_force := false; cf_forceall := false; cf_yes := true;
       cf_roots := [{| c_task := 0; c_var := VConst 0 |}]; cf_maxcall := 1000 |}.
  Definition round : list choice := [ChRoot 0; ChStep 0; ChStep 1; ChStep 2; ChStep 3; ChStep 4].
  Fixpoint rounds (n : nat) : list choice := match n with O => [] | S m => round ++ rounds m end.
  Definition ex_sched : list choice := rounds 50.

  Definition ex_observed : list event :=
    [EvStarted [0] 0; EvStarted [0; 0] 1; EvStarted [0; 1] 2;
     EvStarted [0; 0; 0] 3; EvSkipping (KOnce 3) [0; 1; 0];
     EvAnnounce [0; 0; 0] 0; EvProbeBegin [0; 0; 0] 0 0; EvProbeEnd [0; 0; 0] 0; EvFinished [0; 0; 0];
     EvAnnounce [0; 0] 0; EvAnnounce [0; 1] 0;
     EvProbeBegin [0; 0] 0 0; EvProbeBegin [0; 1] 0 0; EvProbeEnd [0; 0] 0; EvProbeEnd [0; 1] 0;
     EvFinished [0; 0]; EvFinished [0; 1];
     EvAnnounce [0] 0; EvProbeBegin [0] 0 0; EvProbeEnd [0] 0; EvFinished [0]].

  Example ex_trace : filter observable (trace (run ex_prog ex_cfg ex_sched)) = ex_observed.
  Proof. vm_compute. reflexivity. Qed.

  Example ex_completes : run_result ex_prog ex_cfg (run ex_prog ex_cfg ex_sched) = Some ROk.
  Proof. vm_compute. reflexivity. Qed.

  (* one dep is skipped in this schedule *)
  Example ex_skipped : skipped_keys (trace (run ex_prog ex_cfg ex_sched)) = [KOnce 3].
  Proof. vm_compute. reflexivity. Qed.

  Example ex_accepted : mon_waits ex_prog ex_cfg (trace (run ex_prog ex_cfg ex_sched)) = true.
  Proof. vm_compute. reflexivity. Qed.

  (* the instance of the theorem *)
  Example ex_accepted_by_theorem : mon_waits ex_prog ex_cfg (trace (run ex_prog ex_cfg ex_sched)) = true.
  Proof. apply waits_shared_execution. Qed.

  (* when [0;1] announces, the wait of [0;1;0] is over and the owner [0;0;0] has been sealed *)
  Example ex_owner_sealed :
    match mfold (stepW ex_prog ex_cfg) stW_0 (trace (run ex_prog ex_cfg ex_sched)) with
    | Some st => (w_sealed st, w_pending st)
    | None => ([], [])
    end = ([[0; 0; 0]], []).
  Proof. vm_compute. reflexivity. Qed.

  (* the monitor discriminates: the parent of the skipped activation announces its command while
     the one execution of the shared task is still running *)
  Definition ex_bad : list event :=
    [EvStarted [0] 0; EvStarted [0; 0] 1; EvStarted [0; 1] 2;
     EvStarted [0; 0; 0] 3; EvSkipping (KOnce 3) [0; 1; 0];
     EvAnnounce [0; 0; 0] 0; EvProbeBegin [0; 0; 0] 0 0; EvProbeEnd [0; 0; 0] 0;
     EvAnnounce [0; 1] 0; EvFinished [0; 0; 0]].
  Example ex_bad_rejected : mon_waits ex_prog ex_cfg ex_bad = false.
  Proof. vm_compute. reflexivity. Qed.
  (* ... rejected at the owner's late "finished" *)
  Example ex_bad_prefix_accepted : mon_waits ex_prog ex_cfg (removelast ex_bad) = true.
  Proof. vm_compute. reflexivity. Qed.
End Shared.
