(* C12 - Up-to-date soundness: never skip a task whose last attempt did not succeed.
   Statements only; proofs are in Fp/Proofs*.v and Fp/Refute.v. *)
From Coq Require Import List String NArith Bool.
Import ListNotations.
From TV Require Import Fp.Model Fp.Refute Extracted.Facts Run.FpCases.

(* the shapes of the code the model hard-wires (dry wiring, call sites, rollback on a failing command ...) *)
Theorem C12_shape_obligation : fp_shape_ok = true.
Proof. vm_compute. reflexivity. Qed.
Print Assumptions C12_shape_obligation.
