(* C12 - Query and dry-run modes have no side effects.
   Statements only; proofs are in Fp/ProofsC12.v (and Fp/Refute.v for the witnesses).

   mon_C12 / mon_C12_commute (Fp/Model.v) are the monitors cases.v evaluates on the real
   binary: a read-only invocation (--dry, --status, --list-all, --list-all --json, --summary)
   leaves the snapshot (files with mtimes, directories, .task state, trace of executed
   commands) as it was; and H;R;K shows the same results and snapshots as H;K. *)
From Coq Require Import List String NArith Bool.
Import ListNotations.
From TV Require Import Fp.Model Fp.ProofsC12 Fp.Refute Extracted.Facts Run.FpCases.

(* --status implies dry (flags.go), every IsTaskUpToDate call site of RunTask/Status passes e.Dry,
   the checkers gate their writes on dry: the shapes the model hard-wires *)
Theorem C12_shape_obligation : fp_shape_ok = true.
Proof. vm_compute. reflexivity. Qed.
Print Assumptions C12_shape_obligation.

(* one read-only invocation changes nothing - state, hence files, .task and trace (no command ran) -
   whenever pure_cond holds: always for --status/--list/--summary; for --dry when the task has no
   dir: or mkdir is guarded; for --list --json when its check is dry (or nothing is written by checks) *)
Theorem C12_pure :
  forall matchb H Hx (v : variant) (p : project) (now : N) (s : state) (m : mode) (tid : nat) (o : outcome),
    read_only m = true -> pure_cond v p m tid = true ->
    fst (invoke matchb H Hx v p now s m tid o) = s.
Proof. exact invoke_pure. Qed.
Print Assumptions C12_pure.

(* full statement for the repaired variant, over all histories *)
Theorem C12_no_side_effects :
  forall matchb H Hx (v : variant) (p : project) (h : list event) (s : state),
    pure_variant v = true ->
    mon_C12 (snap_of s) (observe matchb H Hx v p s h) = true.
Proof. exact mon_C12_repaired. Qed.
Print Assumptions C12_no_side_effects.

Theorem C12_commutes :
  forall matchb H Hx (v : variant) (p : project) (s : state) (Hh : list event) (t : N) m tid o (K : list event),
    read_only m = true -> pure_cond v p m tid = true ->
    run_hist matchb H Hx v p s (Hh ++ (t, Invoke m tid o) :: K) = run_hist matchb H Hx v p s (Hh ++ K) /\
    mon_C12_commute (observe matchb H Hx v p s (Hh ++ (t, Invoke m tid o) :: K))
                    (observe matchb H Hx v p s (Hh ++ K)) (List.length Hh) = true.
Proof.
  exact (fun matchb H Hx v p s Hh t m tid o K a b =>
    conj (run_hist_commutes matchb H Hx v p s Hh t m tid o K a b)
         (commute_holds matchb H Hx v p s Hh t m tid o K a b)).
Qed.
Print Assumptions C12_commutes.

(* the code as it is: what holds (every history whose read-only invocations satisfy pure_cond
   in the current variant) ... *)
Theorem C12_partial :
  forall (p : project) (h : list event) (s : state),
    forallb (ev_pure current p) h = true ->
    mon_C12 (snap_of s) (observe gmatch idH hx1 current p s h) = true.
Proof. exact (mon_C12_holds gmatch idH hx1 current). Qed.
Print Assumptions C12_partial.

(* ... and what does not *)
Theorem C12_listjson_refuted :        (* 7.6 *)
  v_listjson_dry current = false ->
  exists p h, mon_C12 (snap_of w_init) (observe gmatch idH hx1 current p w_init h) = false.
Proof. exact (fun a => ex_intro _ _ (ex_intro _ _ (proj2 (listjson_refuted current Checksum a method_cs_ne)))). Qed.
Print Assumptions C12_listjson_refuted.

Theorem C12_dry_mkdir_refuted :       (* 7.18 *)
  v_dry_mkdir_guard current = false ->
  exists p h, mon_C12 (snap_of w_init) (observe gmatch idH hx1 current p w_init h) = false.
Proof. exact (fun a => ex_intro _ _ (ex_intro _ _ (dry_mkdir_refuted current a))). Qed.
Print Assumptions C12_dry_mkdir_refuted.

(* non-vacuity: the repaired variant meets pure_variant; a history mixing queries and runs *)
Example C12_example :
  pure_variant repaired = true /\
  forallb (ev_pure current [w_task Checksum]) [(10, Invoke Status 0 AllOk); (12, Invoke Dry 0 AllOk); (14, Invoke Run 0 AllOk)]%N = true.
Proof. split; vm_compute; reflexivity. Qed.
