(* C12 - Query and dry-run modes have no side effects.
   Statements only; proofs are in Fp/ProofsC12.v (and Fp/Refute.v for the witnesses).

   mon_C12 / mon_C12_commute (Fp/Model.v) are the monitors cases.v evaluates on the real
   binary: a read-only invocation (--dry, --status, --list-all, --list-all --json, --summary)
   leaves the snapshot (files with mtimes, directories, .task state, trace of executed
   commands) as it was; and H;R;K shows the same results and snapshots as H;K. *)
From Coq Require Import List String NArith Bool.
Import ListNotations.
From TV Require Import Fp.Model Fp.ProofsC12 Fp.Refute Fp.Current Extracted.Facts Run.FpCases.

(* READING GUIDE
   [LIVE]       about the tree as it is (variant [current] from Extracted.Facts); pure_variant current = true
                is discharged by computation (Fp/Current.v: cur_pure), so a regression of the --list --json,
                the --dry/mkdir or the --dry/failing-sub-call repair breaks the obligation.  No carve-outs: C12 has no open finding.
   [ANY]        for every variant, under the explicit side condition pure_cond / pure_variant.
   [HISTORICAL] the three findings, repaired in 2f7088d, 904692b and 41513bc (premises false for [current] today).   *)

(* --status implies dry (flags.go), every IsTaskUpToDate call site of RunTask/Status passes e.Dry,
   the checkers gate their writes on dry: the shapes the model hard-wires *)
Theorem C12_shape_obligation : fp_shape_ok = true.
Proof. vm_compute. reflexivity. Qed.
Print Assumptions C12_shape_obligation.

(* [ANY] one read-only invocation changes nothing - state, hence files, .task and trace (no command ran) -
   whenever pure_cond holds: always for --status/--list/--summary; for --dry when the task has no
   dir: or mkdir is guarded; for --list --json when its check is dry (or nothing is written by checks) *)
Theorem C12_pure :
  forall matchb H Hx (v : variant) (p : project) (now : N) (s : state) (m : mode) (tid : nat) (o : outcome),
    read_only m = true -> pure_cond v p m tid = true ->
    fst (invoke matchb H Hx v p now s m tid o) = s.
Proof. exact invoke_pure. Qed.
Print Assumptions C12_pure.

(* [ANY variant with pure_variant] full statement over all histories *)
Theorem C12_no_side_effects :
  forall matchb H Hx (v : variant) (p : project) (h : list event) (s : state),
    pure_variant v = true ->
    mon_C12 (snap_of s) (observe matchb H Hx v p s h) = true.
Proof. exact mon_C12_repaired. Qed.
Print Assumptions C12_no_side_effects.

Theorem C12_commutes :
  forall matchb H Hx (v : variant) (p : project) (s : state) (Hh : list event) (t : N) m tid o (K : list event),
    read_only m = true -> pure_cond v p m tid = true ->
    run_hist matchb H Hx v p s (Hh ++ (t, Invoke m tid o) :: K) = run_hist matchb H Hx v p s (Hh ++ K) /\
    mon_C12_commute (observe matchb H Hx v p s (Hh ++ (t, Invoke m tid o) :: K))
                    (observe matchb H Hx v p s (Hh ++ K)) (List.length Hh) = true.
Proof.
  exact (fun matchb H Hx v p s Hh t m tid o K a b =>
    conj (run_hist_commutes matchb H Hx v p s Hh t m tid o K a b)
         (commute_holds matchb H Hx v p s Hh t m tid o K a b)).
Qed.
Print Assumptions C12_commutes.

(* ------------------------------------------------------------------------------------------- *)
(* [LIVE] The tree as it is: no hypothesis at all.  Every read-only invocation (--dry, --status,
   --list-all, --list-all --json, --summary) in every history leaves files, mtimes, directories, .task
   state and the trace of executed commands untouched; H;R;K is H;K.                               *)
Theorem C12_current_tree :
  forall (matchb : string -> path -> bool) (H : string -> string) (Hx : fpr -> string)
         (p : project) (h : list event) (s : state),
    mon_C12 (snap_of s) (observe matchb H Hx current p s h) = true.
Proof. exact c12_cur. Qed.
Print Assumptions C12_current_tree.

Theorem C12_current_tree_commutes :
  forall (matchb : string -> path -> bool) (H : string -> string) (Hx : fpr -> string)
         (p : project) (s : state) (Hh : list event) (t : N) (m : mode) (tid : nat) (o : outcome) (K : list event),
    read_only m = true ->
    run_hist matchb H Hx current p s (Hh ++ (t, Invoke m tid o) :: K) = run_hist matchb H Hx current p s (Hh ++ K) /\
    mon_C12_commute (observe matchb H Hx current p s (Hh ++ (t, Invoke m tid o) :: K))
                    (observe matchb H Hx current p s (Hh ++ K)) (List.length Hh) = true.
Proof. exact c12_cur_commutes. Qed.
Print Assumptions C12_current_tree_commutes.

(* [LIVE] the fact it rests on *)
Theorem C12_current_flags : pure_variant current = true.
Proof. exact cur_pure. Qed.
Print Assumptions C12_current_flags.

(* ------------------------------------------------------------------------------------------- *)
(* [ANY, superseded for today's tree by C12_current_tree] every history whose read-only invocations
   satisfy pure_cond in the current variant (the premise is always true today) ... *)
Theorem C12_partial :
  forall (p : project) (h : list event) (s : state),
    forallb (ev_pure current p) h = true ->
    mon_C12 (snap_of s) (observe gmatch idH hx1 current p s h) = true.
Proof. exact (mon_C12_holds gmatch idH hx1 current). Qed.
Print Assumptions C12_partial.

(* [HISTORICAL] ... and what did not hold before the fixes *)
Theorem C12_listjson_refuted :        (* 7.6 *)
  v_listjson_dry current = false ->
  exists p h, mon_C12 (snap_of w_init) (observe gmatch idH hx1 current p w_init h) = false.
Proof. exact (fun a => ex_intro _ _ (ex_intro _ _ (proj2 (listjson_refuted current Checksum a method_cs_ne)))). Qed.
Print Assumptions C12_listjson_refuted.

Theorem C12_dry_failing_subcall_refuted :   (* [HISTORICAL] repaired in 41513bc: --dry, a `task:` sub-call whose
                                               callee's precondition fails, statusOnError not guarded by !e.Dry *)
  v_dry_fail_guard current = false ->
  exists p s h, mon_C12 (snap_of s) (observe gmatch idH hx1 current p s h) = false.
Proof. exact (fun a => ex_intro _ _ (ex_intro _ _ (ex_intro _ _ (dry_fail_refuted current a)))). Qed.
Print Assumptions C12_dry_failing_subcall_refuted.

Theorem C12_dry_mkdir_refuted :       (* 7.18 *)
  v_dry_mkdir_guard current = false ->
  exists p h, mon_C12 (snap_of w_init) (observe gmatch idH hx1 current p w_init h) = false.
Proof. exact (fun a => ex_intro _ _ (ex_intro _ _ (dry_mkdir_refuted current a))). Qed.
Print Assumptions C12_dry_mkdir_refuted.

(* non-vacuity: the repaired variant meets pure_variant; a history mixing queries and runs; and the LIVE
   instance on a concrete 8-step history with every read-only mode *)
Example C12_example :
  pure_variant repaired = true /\
  forallb (ev_pure current [w_task Checksum]) [(10, Invoke Status 0 AllOk); (12, Invoke Dry 0 AllOk); (14, Invoke Run 0 AllOk)]%N = true.
Proof. split; vm_compute; reflexivity. Qed.

(* [LIVE] the sub-call shape: with the guard file absent (w_init has no guard.flag) a --dry of an out-of-date
   caller follows the sub-call, fails (exit 201) and leaves everything as it was *)
Example C12_current_subcall_example :
  map o_res (observe gmatch idH hx1 current [w_sub] w_init_flag h_dryfail) = [ROk; RFile; RFile; RFailed] /\
  mon_C12 (snap_of w_init_flag) (observe gmatch idH hx1 current [w_sub] w_init_flag h_dryfail) = true.
Proof. split; vm_compute; reflexivity. Qed.

Example C12_current_example :
  mon_C12 (snap_of w_init)
    (observe gmatch idH hx1 current [w_task Checksum; w_dir] w_init
       [(10, Invoke Run 0 (FailAt 1)); (12, Invoke Dry 1 AllOk); (14, Invoke ListJson 0 AllOk);
        (16, Invoke Status 0 AllOk); (18, Invoke Run 0 (KilledAt 1)); (20, Invoke Summary 0 AllOk);
        (22, Invoke ListM 0 AllOk); (24, Invoke Run 0 AllOk)]%N) = true.
Proof. vm_compute. reflexivity. Qed.
