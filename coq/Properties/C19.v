(* C19 — Command-line arguments reach their destination verbatim.
   Statements only; proofs are in Quote/ProofsCodec.v and Quote/ProofsMisc.v.

   Vocabulary (Quote/Model.v): an argument is a [ustr], Go's decoding of its
   bytes [sbytes s] into runes (with unicode.IsPrint per rune) and undecodable
   bytes; [wf_ustr] = every rune is in 1..U+10FFFF and every such byte in
   1..255, i.e. the string has no NUL.  [quote_raw] is syntax.Quote(_, LangBash);
   [fields_g g] is the shell reading a command's argument text ([g]: glob
   characters literal or rejected); [deliver_cli] / [deliver_sq] compose
   args.Get, the variable/template pass, the rendering of helper {{.CLI_ARGS}} /
   helper {{shellQuote .X}}, and the shell; [mon_argv], [mon_quote_one],
   [mon_split], [mon_inert], [mon_init] are the monitors cases.v evaluates on
   what the real binary did. *)
From Coq Require Import List NArith Bool String.
Import ListNotations.
From TV Require Import Quote.Model Quote.ProofsCodec Quote.ProofsMisc Extracted.Facts Run.QuoteCases Quote.ProofsCurrent.
Local Open Scope N_scope.

(* ---- the codec: every argument vector, of any length and count ---- *)

Theorem C19_roundtrip :
  forall g args, Forall wf_ustr args ->
    fields_g g (join [sp] (map quote_raw args)) = Some (map sbytes args).
Proof. exact fields_join_quote. Qed.
Print Assumptions C19_roundtrip.

(* every byte string without NUL is covered (the theorems hold for every decoding of it) *)
Theorem C19_roundtrip_covers_all_bytes :
  forall b : bytes, Forall (fun x => 0 < x /\ x < 256) b -> exists s, wf_ustr s /\ sbytes s = b.
Proof. exact decoding_exists. Qed.
Print Assumptions C19_roundtrip_covers_all_bytes.

Theorem C19_shellquote_one :
  forall g s, wf_ustr s -> fields_g g (quote_raw s) = Some [sbytes s].
Proof. exact fields_quote_one. Qed.
Print Assumptions C19_shellquote_one.

(* the monitor form evaluated on the real syntax.Quote's output *)
Theorem C19_shellquote_one_mon :
  forall s, wf_ustr s -> mon_quote_one (sbytes s) (quote s) = true.
Proof. exact mon_quote_one_holds. Qed.
Print Assumptions C19_shellquote_one_mon.

(* behind the command word: helper q1 q2 ... is read as helper followed by the arguments *)
Theorem C19_roundtrip_in_command :
  forall g helper args,
    helper <> [] -> Forall (plain_bare g) helper -> Forall wf_ustr args ->
    fields_g g (helper ++ [sp] ++ join [sp] (map quote_raw args)) = Some (helper :: map sbytes args).
Proof. exact fields_command. Qed.
Print Assumptions C19_roundtrip_in_command.

(* ---- end to end: CLI_ARGS and shellQuote, repaired variant ---- *)

Theorem C19_cli_args_delivered :
  forall g t args, inert t -> Forall wf_ustr args ->
    mon_argv (map sbytes args) (deliver_cli g (mkvariant Joined t) args) = true.
Proof. exact mon_cli_joined. Qed.
Print Assumptions C19_cli_args_delivered.

Theorem C19_shellquote_delivered :
  forall g t x, inert t -> wf_ustr x -> mon_argv [sbytes x] (deliver_sq g t x) = true.
Proof. exact mon_sq_inert. Qed.
Print Assumptions C19_shellquote_delivered.

(* the tree under test: the full statement holds for it as soon as the extracted
   facts say CLI_ARGS is the joined string and values bypass the template engine *)
Theorem C19_cli_args_current :
  forall g args, current_cli_ok = true -> Forall wf_ustr args ->
    mon_argv (map sbytes args) (deliver_cli g current_variant args) = true.
Proof. exact current_cli_sound. Qed.
Print Assumptions C19_cli_args_current.

Theorem C19_shellquote_current :
  forall g x, current_var_ok = true -> wf_ustr x ->
    mon_argv [sbytes x] (deliver_sq g current_var_t x) = true.
Proof. exact current_sq_sound. Qed.
Print Assumptions C19_shellquote_current.

(* ---- nothing is interpreted by the template engine ---- *)

Theorem C19_template_inert :
  forall t s, inert t -> mon_inert s (maybe_strip t s) = true.
Proof. exact render_inert. Qed.
Print Assumptions C19_template_inert.

(* with the "<no value>" deletion the statement fails … *)
Theorem C19_template_inert_refuted :
  exists s, mon_inert s (maybe_strip (mktcfg false true) s) = false.
Proof. exact render_strip_refuted. Qed.
Print Assumptions C19_template_inert_refuted.

Theorem C19_cli_args_strip_refuted :
  exists args, Forall wf_ustr args /\
    mon_argv (map sbytes args) (deliver_cli true (mkvariant Joined (mktcfg true true)) args) = false.
Proof. exact deliver_cli_strip_refuted. Qed.
Print Assumptions C19_cli_args_strip_refuted.

Theorem C19_shellquote_strip_refuted :
  exists x, wf_ustr x /\ mon_argv [sbytes x] (deliver_sq true (mktcfg true true) x) = false.
Proof. exact deliver_sq_strip_refuted. Qed.
Print Assumptions C19_shellquote_strip_refuted.

(* … and a value containing {{ is handed to the template engine (outside the model) *)
Theorem C19_cli_value_templated_unmodelled :
  exists args, Forall wf_ustr args /\
    deliver_cli true (mkvariant Joined (mktcfg true false)) args = Unmodelled.
Proof. exact deliver_cli_templated_unmodelled. Qed.
Print Assumptions C19_cli_value_templated_unmodelled.

(* … while for text free of template syntax every configuration delivers *)
Theorem C19_cli_args_partial :
  forall g t args, Forall wf_ustr args ->
    contains tmpl_open (join [sp] (map quote_raw args)) = false ->
    contains no_value (join [sp] (map quote_raw args)) = false ->
    deliver_cli g (mkvariant Joined t) args = Argv (map sbytes args).
Proof. exact deliver_cli_joined_partial. Qed.
Print Assumptions C19_cli_args_partial.

Theorem C19_shellquote_partial :
  forall g t x, wf_ustr x ->
    contains tmpl_open (sbytes x) = false -> u_contains_nv x = false ->
    contains no_value (quote_raw x) = false ->
    deliver_sq g t x = Argv [sbytes x].
Proof. exact deliver_sq_partial. Qed.
Print Assumptions C19_shellquote_partial.

(* CLI_ARGS kept as a []string: rendered [a b c] *)
Theorem C19_cli_args_slice_refuted :
  exists args, Forall wf_ustr args /\
    mon_argv (map sbytes args) (deliver_cli true (mkvariant Slice repaired_t) args) = false.
Proof. exact deliver_cli_slice_refuted. Qed.
Print Assumptions C19_cli_args_slice_refuted.

(* ---- NAME=value is cut at the first '=' only (limit from args.splitVar's SplitN) ---- *)

Theorem C19_splitvar :
  forall n v, existsb (N.eqb eq_sign) n = false ->
    split_var current_split_limit (n ++ eq_sign :: v) = Some (n, v).
Proof. exact (fun n v => split_var_first current_split_limit n v eq_refl). Qed.
Print Assumptions C19_splitvar.

Theorem C19_splitvar_mon :
  forall arg, mon_split arg (parse_one current_split_limit arg) = true.
Proof. exact (fun arg => parse_one_mon current_split_limit arg eq_refl). Qed.
Print Assumptions C19_splitvar_mon.

Theorem C19_splitvar_all_refuted :
  exists n v, existsb (N.eqb eq_sign) n = false /\ split_var 3 (n ++ eq_sign :: v) <> Some (n, v).
Proof. exact split_all_refuted. Qed.
Print Assumptions C19_splitvar_all_refuted.

(* ---- --init [path] ---- *)

(* the positional path decides the destination; exactly that file is created with the
   default content when the destination is free, otherwise the run refuses; nothing else changes *)
Theorem C19_init :
  forall c default wd f pos after, icfg_ok c ->
    let '(f', r) := init_cmd c default wd f pos after in
    mon_init default wd f pos (created_of r) f' = true.
Proof. exact init_cmd_mon. Qed.
Print Assumptions C19_init.

Theorem C19_init_never_overwrites :
  forall c default wd f pos after q n,
    lookup f q = Some n -> lookup (fst (init_cmd c default wd f pos after)) q = Some n.
Proof. exact init_never_overwrites. Qed.
Print Assumptions C19_init_never_overwrites.

Theorem C19_init_ignores_after_dash :
  forall c default wd f pos after after', i_result c = 0%nat ->
    init_cmd c default wd f pos after = init_cmd c default wd f pos after'.
Proof. exact init_cmd_ignores_after. Qed.
Print Assumptions C19_init_ignores_after_dash.

Theorem C19_init_current :
  forall default wd f pos after, current_init_ok = true ->
    let '(f', r) := init_cmd current_icfg default wd f pos after in
    mon_init default wd f pos (created_of r) f' = true.
Proof. exact current_init_sound. Qed.
Print Assumptions C19_init_current.

(* path read from the arguments after "--" *)
Theorem C19_init_after_dash_refuted :
  exists default wd f pos after,
    let '(f', r) := init_cmd (mkicfg 1 true) default wd f pos after in
    mon_init default wd f pos (created_of r) f' = false.
Proof. exact init_after_dash_refuted. Qed.
Print Assumptions C19_init_after_dash_refuted.

(* "." taken for an extension *)
Theorem C19_init_dot_refuted :
  exists default wd f pos after,
    let '(f', r) := init_cmd (mkicfg 0 false) default wd f pos after in
    mon_init default wd f pos (created_of r) f' = false.
Proof. exact init_dot_refuted. Qed.
Print Assumptions C19_init_dot_refuted.

(* ---- the tie to the source: every extracted shape was recognised ---- *)

Example C19_facts_recognised : facts_recognised = true.
Proof. vm_compute. reflexivity. Qed.

(* ---- non-vacuity ---- *)

(* a hostile vector: the six characters a, single quote, dollar, blank, backslash, double quote;
   the empty string; invalid UTF-8 + newline + U+1F600; a blank and a star.  All are well
   formed, and the quoted text uses double quotes, single quotes and the ANSI-C form. *)
Example C19_example_wf :
  Forall wf_ustr
    [ [Rune 97 true; Rune 39 true; Rune 36 true; Rune 32 true; Rune 92 true; Rune 34 true];
      [];
      [BadByte 255; Rune 10 false; Rune 128512 true];
      [Rune 97 true; Rune 32 true; Rune 42 true] ].
Proof. repeat constructor. Qed.

Example C19_example_text :
  join [sp] (map quote_raw
    [ [Rune 97 true; Rune 39 true; Rune 36 true; Rune 32 true; Rune 92 true; Rune 34 true];
      [];
      [BadByte 255; Rune 10 false; Rune 128512 true];
      [Rune 97 true; Rune 32 true; Rune 42 true] ])
  = [34; 97; 39; 92; 36; 32; 92; 92; 92; 34; 34;   32;   39; 39;   32;
     36; 39; 92; 120; 102; 102; 92; 110; 240; 159; 152; 128; 39;   32;   39; 97; 32; 42; 39].
Proof. vm_compute. reflexivity. Qed.

Example C19_example_inert : inert repaired_t.
Proof. split; reflexivity. Qed.

Example C19_example_icfg : icfg_ok (mkicfg 0 true).
Proof. split; reflexivity. Qed.
