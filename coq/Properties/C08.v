(* C08 — Included tasks behave as namespaced copies of their definitions.
   Statements only; proofs are in Merge/Proofs*.v.

   merge_all v g pi s : the root Taskfile after graph.Merge, for the code variant v, the
   include graph g (what Reader.include built), the topological order pi that
   graph.TopologicalSort returned and the order s of the edge data;  f_err = None: the load succeeded.
   valid_load: v's DeepCopy assigns the fields the merge itself touches, g is well formed
   (names / namespaces / aliases non-empty and not ':'-prefixed, task keys distinct per file),
   pi is a topological order of g starting at the root, s permutes each edge's include list.
   all_origins g : every (namespace path, task definition) not excluded on the way.
   The mon_* functions are the monitors cases.v evaluates on the table the real Executor built. *)
From Coq Require Import List String Bool Permutation.
Import ListNotations.
From TV Require Import Merge.Model Merge.Spec Merge.ProofsRun Merge.ProofsC08 Merge.ProofsC08Mon Merge.ProofsC08Refs
     Merge.ProofsKeys Merge.ProofsErrors Merge.ProofsReader Merge.ProofsC09 Extracted.Facts Run.MergeCases Merge.ProofsCurrent.

(* the shape of Tasks.Merge / graph.Merge is one the model has a variant for *)
Theorem C08_variant_known : variant_known = true.
Proof. exact (eq_refl true). Qed.
Print Assumptions C08_variant_known.

(* every task of every included file that is not excluded is in the table under <ns1>:...:<nsk>:<task> *)
Theorem C08_present :
  forall v g pi s, valid_load v g pi s -> f_err (merge_all v g pi s) = None ->
    mon_present g (f_tasks (merge_all v g pi s)) = true.
Proof. exact present_holds. Qed.
Print Assumptions C08_present.

(* ... with the directory given by the includes, the include vars, internal = own || any include's, Task = the key *)
Theorem C08_place :
  forall v g pi s, valid_load v g pi s -> f_err (merge_all v g pi s) = None ->
    mon_place g (f_tasks (merge_all v g pi s)) = true.
Proof. exact place_holds. Qed.
Print Assumptions C08_place.

(* ... answering to every combination of namespace / namespace alias with task name / task alias *)
Theorem C08_aliases :
  forall v g pi s, valid_load v g pi s -> f_err (merge_all v g pi s) = None ->
    mon_aliases g (f_tasks (merge_all v g pi s)) = true.
Proof. exact aliases_hold. Qed.
Print Assumptions C08_aliases.

(* ... keeping every attribute, and every field of every command and dep, PROVIDED DeepCopy assigns every field:
   dc_complete is a finite check over the extracted field lists *)
Theorem C08_attrs :
  forall v g pi s tf cf df, valid_load v g pi s -> dc_complete v tf cf df = true ->
    f_err (merge_all v g pi s) = None ->
    mon_attrs tf cf df g (f_tasks (merge_all v g pi s)) = true.
Proof. exact attrs_hold. Qed.
Print Assumptions C08_attrs.

(* the current tree: Task.DeepCopy does not assign Watch (finding 7.12); guarded by the extracted fact *)
Theorem C08_attrs_refuted :
  dc_complete current_variant task_fields cmd_fields dep_fields = false ->
  exists g pi, valid_load current_variant g pi sigma_id
    /\ f_err (merge_all current_variant g pi sigma_id) = None
    /\ mon_attrs task_fields cmd_fields dep_fields g (f_tasks (merge_all current_variant g pi sigma_id)) = false.
Proof. exact attrs_refuted. Qed.
Print Assumptions C08_attrs_refuted.

(* deps and task: references: own file, ':'-prefixed ones the root Taskfile — for the variant that keeps
   the ':' through the merges and strips it once at the root *)
Theorem C08_refs :
  forall v g pi s, valid_load v g pi s -> v_keep_rootref v = true ->
    f_err (merge_all v g pi s) = None -> mon_refs g (f_tasks (merge_all v g pi s)) = true.
Proof. exact refs_hold_keep. Qed.
Print Assumptions C08_refs.

(* the current renaming (taskNameWithNamespace at every level) is right for every reference that is not
   ':'-prefixed, and for ':'-prefixed ones crossing exactly one non-flattened include *)
Theorem C08_refs_partial :
  forall v g pi s, valid_load v g pi s -> v_keep_rootref v = false ->
    f_err (merge_all v g pi s) = None ->
    forallb (fun o => negb (refs_safe o) || chk_refs (f_tasks (merge_all v g pi s)) o) (all_origins g) = true.
Proof. exact refs_hold_partial. Qed.
Print Assumptions C08_refs_partial.

(* finding 7.13: two includes deep, `:root` is bound to `b:root`; under flatten the ':' stays *)
Theorem C08_rootref_nested_refuted :
  v_keep_rootref current_variant = false ->
  exists g pi, valid_load current_variant g pi sigma_id
    /\ f_err (merge_all current_variant g pi sigma_id) = None
    /\ mon_refs g (f_tasks (merge_all current_variant g pi sigma_id)) = false
    /\ option_map (fun t => map c_task (t_cmds t)) (lookup "b:c:callroot" (f_tasks (merge_all current_variant g pi sigma_id))) = Some ["b:root"%string].
Proof. exact rootref_nested_refuted. Qed.
Print Assumptions C08_rootref_nested_refuted.

Theorem C08_rootref_flatten_refuted :
  v_keep_rootref current_variant = false ->
  exists g pi, valid_load current_variant g pi sigma_id
    /\ f_err (merge_all current_variant g pi sigma_id) = None
    /\ mon_refs g (f_tasks (merge_all current_variant g pi sigma_id)) = false
    /\ option_map (fun t => map c_task (t_cmds t)) (lookup "callroot" (f_tasks (merge_all current_variant g pi sigma_id))) = Some [":root"%string].
Proof. exact rootref_flatten_refuted. Qed.
Print Assumptions C08_rootref_flatten_refuted.

(* nothing is silently dropped, invented or overwritten: the keys of the table are a permutation of the
   qualified names of the origins (so: as many entries as origins, keys distinct, every origin present) *)
Theorem C08_nothing_dropped :
  forall v g pi s, valid_load v g pi s -> wf_outb g = true -> f_err (merge_all v g pi s) = None ->
    Permutation (map fst (f_tasks (merge_all v g pi s))) (map okey (all_origins g))
    /\ mon_dropped g (f_tasks (merge_all v g pi s)) = true.
Proof. exact (fun v g pi s Hl Ho He => conj (keys_permutation v g pi s Hl Ho He) (dropped_holds v g pi s Hl Ho He)). Qed.
Print Assumptions C08_nothing_dropped.

(* errors: two origins with the same qualified name; a schema version below the root that differs from
   the root's; dotenv in an included file — each makes the load fail *)
Theorem C08_errors_collision :
  forall v g pi s, valid_load v g pi s -> wf_outb g = true ->
    nodupb (map okey (all_origins g)) = false -> f_err (merge_all v g pi s) <> None.
Proof. exact collision_fails. Qed.
Print Assumptions C08_errors_collision.

Theorem C08_errors_version :
  forall v g pi s c, valid_load v g pi s -> reach g (root_of g) c ->
    f_version (file_of g c) <> f_version (file_of g (root_of g)) -> f_err (merge_all v g pi s) <> None.
Proof. exact version_mismatch_fails. Qed.
Print Assumptions C08_errors_version.

Theorem C08_errors_dotenv :
  forall v g pi s p e, valid_load v g pi s -> reach g (root_of g) p -> In e (out_of g p) ->
    f_dotenv (file_of g (snd e)) = true -> f_err (merge_all v g pi s) <> None.
Proof. exact dotenv_fails. Qed.
Print Assumptions C08_errors_dotenv.

(* errors in the reader: when read succeeds, every vertex has a schema version and every include of it
   that does not resolve to a file is optional (a missing non-optional file / a missing version is an error) *)
Theorem C08_errors_reader :
  forall fs root g, read fs root = Ok g -> forall n, In n g -> closed fs n.
Proof. exact read_closed. Qed.
Print Assumptions C08_errors_reader.

(* include cycles: the graph of a successful read has no cycle, every include statement of every vertex that
   resolves to a file is an edge, hence no include statement of a visited file leads back to that file *)
Theorem C08_errors_cycle :
  forall fs root g, read fs root = Ok g ->
    ~ cyc g /\
    forall p f inc c, has_node p g = true -> lookup p fs = Some f -> In inc (f_includes f) ->
      resolve fs p inc = Some c -> ~ fs_reach fs c p.
Proof. exact read_rejects_cycles. Qed.
Print Assumptions C08_errors_cycle.

(* the reader's graph is non-empty, starts at the root and every vertex is reachable from the root
   (the side conditions of C08_abort_iff_flag, C08_errors_version and C08_errors_dotenv) *)
Theorem C08_reader_reachable :
  forall fs root g, read fs root = Ok g -> g <> [] /\ root_of g = root /\ all_reachable g.
Proof. exact read_reachable. Qed.
Print Assumptions C08_reader_reachable.

(* graph.Merge returns at the first failing Taskfile.Merge (merge_err); the theorems above speak about the
   sticky failure flag of the merged root.  On a non-empty graph whose vertices are all reachable from the
   root (what the reader builds) "some merge failed" and "the root carries the flag" are the same event *)
Theorem C08_abort_iff_flag :
  forall v g pi s, valid_load v g pi s -> g <> [] -> all_reachable g ->
    (merge_err v g pi s = None <-> f_err (merge_all v g pi s) = None).
Proof. exact abort_iff_flag. Qed.
Print Assumptions C08_abort_iff_flag.

(* the copies are independent: what reaches the including Taskfiles and the root (tasks, vars with the directory
   stamped on them, env) does not depend on the order in which sibling Taskfiles are processed, provided the
   includes are merged in declared order and Vars.Merge stamps include.Dir on a copy of the variable *)
Theorem C08_copies_independent_of_sibling_order :
  forall v g pi pi' s s', v_declared v = true -> v_inplace v = false -> valid_pi g pi -> valid_pi g pi' ->
    merge_all v g pi s = merge_all v g pi' s'.
Proof. exact det_declared. Qed.
Print Assumptions C08_copies_independent_of_sibling_order.

(* [HISTORICAL, repaired by 9941da6] with the in-place write into the included Taskfile's variables, a diamond with
   one long-form (dir:) and one short-form include of the same file gives the short-form branch and the root the
   long-form dir or not, depending on which sibling is processed first (in the code: on the file names) *)
Theorem C08_vardir_inplace_refuted :
  let g := graph_of fs_dirleak in
  topob g pi_app_first = true /\ topob g pi_lib_first = true /\
  f_err (merge_all inplace_variant g pi_app_first sigma_id) = None /\
  f_err (merge_all inplace_variant g pi_lib_first sigma_id) = None /\
  f_vars (merge_all inplace_variant g pi_app_first sigma_id) = [("WHERE", "|sh=basename $PWD")]%string /\
  f_vars (merge_all inplace_variant g pi_lib_first sigma_id) = [("WHERE", "/R/appdir|sh=basename $PWD")]%string /\
  f_vars (merge_all copy_variant g pi_app_first sigma_id) = [("WHERE", "|sh=basename $PWD")]%string /\
  f_vars (merge_all copy_variant g pi_lib_first sigma_id) = [("WHERE", "|sh=basename $PWD")]%string.
Proof. exact vardir_inplace_refuted. Qed.
Print Assumptions C08_vardir_inplace_refuted.

(* non-vacuity: a diamond of four files (b and d include c, d flattened) meets valid_load and loads without error *)
Example C08_example :
  valid_load current_variant (graph_of fs_diamond) pi_diamond sigma_id
  /\ f_err (merge_all current_variant (graph_of fs_diamond) pi_diamond sigma_id) = None
  /\ map fst (f_tasks (merge_all current_variant (graph_of fs_diamond) pi_diamond sigma_id)) <> [].
Proof. exact diamond_valid. Qed.
