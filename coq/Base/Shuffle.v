(* Interleavings of several sequences of atomic items.  [Shuffle ls w] says that
   [w] is obtained by repeatedly taking the head of one of the lists in [ls]:
   every list keeps its own order, nothing is lost or duplicated. *)
From Coq Require Import List Permutation.
Import ListNotations.

Section Shuffle.
  Context {A : Type}.

  Inductive Shuffle : list (list A) -> list A -> Prop :=
  | Sh_done : forall ls, Forall (fun l => l = []) ls -> Shuffle ls []
  | Sh_take : forall ls1 x l ls2 w,
      Shuffle (ls1 ++ l :: ls2) w ->
      Shuffle (ls1 ++ (x :: l) :: ls2) (x :: w).

  (* Executable enumeration of all shuffles (used by tests and by the
     harness-side exhaustive tier). *)
  Fixpoint heads (pre : list (list A)) (ls : list (list A)) : list (A * list (list A)) :=
    match ls with
    | [] => []
    | [] :: rest => heads (pre ++ [[]]) rest
    | (x :: l) :: rest => (x, pre ++ l :: rest) :: heads (pre ++ [x :: l]) rest
    end.

  Fixpoint shuffles (fuel : nat) (ls : list (list A)) : list (list A) :=
    match fuel with
    | O => [[]]
    | S f =>
        match heads [] ls with
        | [] => [[]]
        | hs => flat_map (fun '(x, ls') => map (cons x) (shuffles f ls')) hs
        end
    end.
End Shuffle.
