From Coq Require Import List Permutation Lia.
Import ListNotations.
From TV Require Import Base.Shuffle.

Section Facts.
  Context {A : Type}.

  Lemma concat_all_nil (ls : list (list A)) :
    Forall (fun l => l = []) ls -> concat ls = [].
  Proof. induction 1 as [|l ls H _ IH]; simpl; [reflexivity|]. subst; exact IH. Qed.

  Lemma Shuffle_perm (ls : list (list A)) w : Shuffle ls w -> Permutation w (concat ls).
  Proof.
    induction 1 as [ls H | ls1 x l ls2 w _ IH].
    - rewrite concat_all_nil by assumption. constructor.
    - rewrite concat_app in *. simpl in *.
      eapply Permutation_trans; [apply perm_skip, IH|].
      apply Permutation_middle.
  Qed.

  (* every item of the interleaving comes from one of the sources *)
  Lemma Shuffle_In (ls : list (list A)) w x :
    Shuffle ls w -> In x w -> exists l, In l ls /\ In x l.
  Proof.
    intros H Hin. apply Shuffle_perm in H.
    apply (Permutation_in _ H) in Hin. apply in_concat in Hin.
    destruct Hin as [l [H1 H2]]. eauto.
  Qed.

  (* projection: the items of source number i appear in w in their own order *)
  Lemma Shuffle_single (l : list A) w : Shuffle [l] w -> w = l.
  Proof.
    revert l. induction w as [|y w IH]; intros l H; inversion H; subst.
    - match goal with H : Forall _ _ |- _ => inversion H; subst; reflexivity end.
    - match goal with H : ?a ++ (?x :: ?l0) :: ?b = [l] |- _ =>
        destruct a as [|a0 a]; simpl in H; [injection H as <- Hb; subst|
          injection H as _ Hb; destruct a; discriminate] end.
      f_equal. apply IH. simpl in *. assumption.
  Qed.
End Facts.
