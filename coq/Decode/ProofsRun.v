(* Proofs about the consumers of the decoded tree, the snippet arithmetic, the
   include-location logic, the reader, and the prediction of a whole document:
   a panic can only happen at a site whose guard the variant lacks. *)
From Coq Require Import List String NArith ZArith Bool Arith Lia.
Import ListNotations.
From TV Require Import Decode.Model Decode.Proofs Decode.ProofsCodes.
Local Open Scope string_scope.
Local Open Scope list_scope.

(* the site can fire in this variant *)
Definition site_open (v : variant) (o : oracles) (s : site) : Prop :=
  match s with
  | SVarEmptyMap => g_var_len v = false
  | SGlobNil => g_glob_nil v = false
  | SPlatformNil => g_platform_nil v = false
  | SRequiresNil => g_requires_nil v = false
  | SSnippet => g_snippet_clamp v = false
  | SGitSplit => g_git_len v = false
  | SWildcard => g_wc_must v = true /\ (g_wc_quote v = false \/ exists n, o_wc_quoted o n = false)
  | STraverseStruct => g_traverse_struct v = false
  | SMatrixNilMap => g_omap_nil v = false
  | SDeepCopyNil => g_deepcopy_nil v = false
  | SExpandLiteral => g_expand_literal_len v = false
  | SOther => False
  end.

(* all guards present; for the wildcard either Compile with error handling, or
   QuoteMeta under the law of regexp that a quoted literal always compiles *)
Definition all_guards (v : variant) (o : oracles) : Prop :=
  g_var_len v = true /\ g_glob_nil v = true /\ g_platform_nil v = true /\ g_requires_nil v = true /\
  g_snippet_clamp v = true /\ g_git_len v = true /\ g_traverse_struct v = true /\ g_omap_nil v = true /\ g_deepcopy_nil v = true /\ g_expand_literal_len v = true /\
  (g_wc_must v = false \/ (g_wc_quote v = true /\ forall n, o_wc_quoted o n = true)).

Lemma all_guards_closed : forall v o s, all_guards v o -> ~ site_open v o s.
Proof.
  intros v o s (H1 & H2 & H3 & H4 & H5 & H6 & H7 & H8 & H8' & H8'' & H9) Ho.
  destruct s; cbn in Ho; try congruence.
  destruct Ho as (Hm & Hq). destruct H9 as [H9 | (H9 & H10)]; [ congruence | ].
  destruct Hq as [Hq | (n & Hn)]; [ congruence | ]. rewrite H10 in Hn. discriminate.
Qed.

Lemma repaired_all_guards : forall o, all_guards repaired o.
Proof. intros o. repeat split; try reflexivity. left; reflexivity. Qed.

Section Run.
Variable v : variant.
Variable o : oracles.
Variables goos goarch : string.

Notation open := (site_open v o).

Lemma replace_globs_open : forall l s, replace_globs v l = Panic s -> s = SGlobNil /\ g_glob_nil v = false.
Proof.
  induction l as [ | [g | ] r IH ]; intros s H; cbn in H.
  - discriminate.
  - destruct (replace_globs v r) eqn:E; try discriminate. inversion H; subst. apply IH; reflexivity.
  - destruct (g_glob_nil v) eqn:Eg; [ apply IH; assumption | ]. inversion H; auto.
Qed.

Lemma platform_loop_open : forall l s, platform_loop v goos goarch l = Panic s -> s = SPlatformNil /\ g_platform_nil v = false.
Proof.
  induction l as [ | [p | ] r IH ]; intros s H; cbn in H.
  - discriminate.
  - destruct (platform_matches goos goarch p); [ discriminate | apply IH; assumption ].
  - destruct (g_platform_nil v) eqn:Eg; [ apply IH; assumption | ]. inversion H; auto.
Qed.

Lemma should_run_open : forall l s, should_run v goos goarch l = Panic s -> open s.
Proof.
  intros l s H. unfold should_run in H. destruct l; [ discriminate | ].
  apply platform_loop_open in H as (-> & Hg). exact Hg.
Qed.

Lemma requires_loop_open : forall l s, requires_loop v l = Panic s -> open s.
Proof.
  induction l as [ | [p | ] r IH ]; intros s H; cbn in H.
  - discriminate.
  - apply IH; assumption.
  - destruct (g_requires_nil v) eqn:Eg; [ apply IH; assumption | ]. inversion H; subst. exact Eg.
Qed.

Lemma wildcard_compile_open : forall name s, wildcard_compile v o name = Panic s -> open s.
Proof.
  intros name s H. unfold wildcard_compile in H.
  destruct (g_wc_quote v) eqn:Eq.
  - destruct (o_wc_quoted o name) eqn:Ev; [ discriminate | ].
    destruct (g_wc_must v) eqn:Em; [ | discriminate ]. inversion H; subst. cbn. split; auto. right; eauto.
  - destruct (o_wc_raw o name); [ discriminate | ].
    destruct (g_wc_must v) eqn:Em; [ | discriminate ]. inversion H; subst. cbn. split; auto.
Qed.

Lemma wildcard_scan_open : forall tbl s, wildcard_scan v o tbl = Panic s -> open s.
Proof.
  induction tbl as [ | t r IH ]; intros s H; cbn in H; [ discriminate | ].
  destruct (wildcard_compile v o (t_name t)) eqn:E; [ apply IH; assumption | discriminate | ].
  inversion H; subst. eapply wildcard_compile_open; eauto.
Qed.

Lemma get_task_open : forall tbl name s, get_task v o tbl name = Panic s -> open s.
Proof.
  intros tbl name s H. unfold get_task in H. destruct (find_task tbl name); [ discriminate | ].
  destruct (wildcard_scan v o tbl) eqn:E; try discriminate. inversion H; subst. eapply wildcard_scan_open; eauto.
Qed.

Lemma traverse_open : forall b s, traverse v b = Panic s -> open s.
Proof.
  intros b s H. unfold traverse in H. destruct b; cbn in H; [ | discriminate ].
  destruct (g_traverse_struct v) eqn:E; cbn in H; [ discriminate | ]. inversion H; subst. exact E.
Qed.

Lemma for_deepcopy_open : forall f s, for_deepcopy v f = Panic s -> open s.
Proof.
  intros f s H. unfold for_deepcopy in H. destruct f as [[ | ] | ]; try discriminate.
  destruct (g_omap_nil v) eqn:E; [ discriminate | ]. inversion H; subst. exact E.
Qed.

Lemma expand_literal_open : forall str s, expand_literal v o str = Panic s -> open s.
Proof.
  intros str s H. unfold expand_literal in H. destruct (is_empty str); [ discriminate | ].
  destruct (o_words o str) as [[ | n] | ]; try discriminate.
  destruct (g_expand_literal_len v) eqn:E; [ discriminate | ]. inversion H; subst. exact E.
Qed.

Lemma compile_task_open : forall gvt t s, compile_task v o gvt t = Panic s -> open s.
Proof.
  intros gvt t s H. unfold compile_task in H.
  destruct (traverse v (gvt || t_vars_time t)) eqn:E1.
  - destruct (replace_globs v (t_sources t)) eqn:E2.
    + destruct (replace_globs v (t_generates t)) eqn:E3.
      * destruct (expand_literal v o (t_dir t)) eqn:E4.
        -- eapply traverse_open; eauto.
        -- discriminate.
        -- inversion H; subst. eapply expand_literal_open; eauto.
      * discriminate.
      * inversion H; subst. apply replace_globs_open in E3 as (-> & Hg). exact Hg.
    + discriminate.
    + inversion H; subst. apply replace_globs_open in E2 as (-> & Hg). exact Hg.
  - discriminate.
  - inversion H; subst. eapply traverse_open; eauto.
Qed.

(* ---- event lists ---- *)
Definition evs_open (l : list ev) : Prop := forall s c, In (s, c) l -> open s.

Lemma evs_open_nil : evs_open []. Proof. intros s c []. Qed.

Lemma evs_open_app : forall a b, evs_open a -> evs_open b -> evs_open (a ++ b).
Proof. intros a b Ha Hb s c H. apply in_app_or in H as [H | H]; [ eapply Ha | eapply Hb ]; eauto. Qed.

Lemma evs_open_one : forall s c, open s -> evs_open [(s, c)].
Proof. intros s c H s' c' [E | []]. inversion E; subst; assumption. Qed.

Lemma evs_open_flat_map : forall A (f : A -> list ev) l, (forall a, evs_open (f a)) -> evs_open (flat_map f l).
Proof.
  intros A f l Hf. induction l as [ | a r IH ]; cbn; [ apply evs_open_nil | ].
  apply evs_open_app; [ apply Hf | apply IH ].
Qed.

Lemma ev_of_open : forall A (r : res A) c, (forall s, r = Panic s -> open s) -> evs_open (ev_of r c).
Proof.
  intros A r c Hr. destruct r; cbn; try apply evs_open_nil. apply evs_open_one, Hr; reflexivity.
Qed.

Lemma cmd_loop_events_open : forall l c, evs_open (fst (cmd_loop_events v l c)).
Proof.
  induction l as [ | [x | ] r IH ]; intros c; cbn; [ apply evs_open_nil | | apply IH ].
  destruct (has_some (c_for x)).
  - specialize (IH false). destruct (cmd_loop_events v r false) as [evs c'] eqn:E. cbn in *.
    apply evs_open_app; [ apply ev_of_open, for_deepcopy_open | ].
    apply evs_open_app; [ apply ev_of_open, traverse_open | exact IH ].
  - destruct (c_defer x); [ apply IH | ].
    destruct (traverse v (c_vars_time x)) eqn:E; try apply IH.
    cbn. apply evs_open_one. eapply traverse_open; eauto.
Qed.

Lemma dep_loop_events_open : forall l c, evs_open (fst (dep_loop_events v l c)).
Proof.
  induction l as [ | [x | ] r IH ]; intros c; cbn; [ apply evs_open_nil | | apply IH ].
  destruct (has_some (dp_for x)).
  - specialize (IH false). destruct (dep_loop_events v r false) as [evs c'] eqn:E. cbn in *.
    apply evs_open_app; [ apply ev_of_open, for_deepcopy_open | ].
    apply evs_open_app; [ apply ev_of_open, traverse_open | exact IH ].
  - destruct (traverse v (dp_vars_time x)) eqn:E; try apply IH.
    cbn. apply evs_open_one. eapply traverse_open; eauto.
Qed.

Lemma compile_events_open : forall gvt t c, evs_open (compile_events v o gvt t c).
Proof.
  intros gvt t c. unfold compile_events.
  destruct (compile_task v o gvt t) eqn:E.
  3: { apply evs_open_one. eapply compile_task_open; eauto. }
  2: { apply evs_open_nil. }
  all: pose proof (cmd_loop_events_open (t_cmds t) c) as H1;
       destruct (cmd_loop_events v (t_cmds t) c) as [e1 c1];
       pose proof (dep_loop_events_open (t_deps t) c1) as H2;
       destruct (dep_loop_events v (t_deps t) c1) as [e2 c2];
       apply evs_open_app; assumption.
Qed.

Lemma run_cmds_open : forall callee, (forall n b, evs_open (callee n b)) ->
  forall l c, evs_open (run_cmds v goos goarch callee l c).
Proof.
  intros callee Hc. induction l as [ | [x | ] r IH ]; intros c; cbn; [ apply evs_open_nil | | apply IH ].
  destruct (c_defer x).
  - apply evs_open_app; [ | apply IH ].
    destruct (is_empty (c_task x)); [ apply ev_of_open, should_run_open | apply Hc ].
  - destruct (negb (is_empty (c_task x))); [ apply evs_open_app; [ apply Hc | apply IH ] | ].
    destruct (negb (is_empty (c_cmd x))); [ | apply IH ].
    destruct (should_run v goos goarch (c_platforms x)) eqn:E; try apply IH.
    apply evs_open_one. eapply should_run_open; eauto.
Qed.

Lemma run_events_open : forall fuel tbl t c, evs_open (run_events v o goos goarch fuel tbl t c).
Proof.
  induction fuel as [ | f IH ]; intros tbl t c; [ apply evs_open_nil | ].
  cbn [run_events].
  destruct (expand_literal v o (t_dir t)) eqn:E0; try apply evs_open_nil.
  destruct (should_run v goos goarch (t_platforms t)) as [[ | ] | | ] eqn:E1; try apply evs_open_nil.
  2: { apply evs_open_one. eapply should_run_open; eauto. }
  assert (Hcallee : forall n b, evs_open (ev_of (traverse v b) false ++
             match find_task tbl n with
             | Some t' => run_events v o goos goarch f tbl t' false
             | None => ev_of (wildcard_scan v o tbl) false
             end)).
  { intros n b. apply evs_open_app; [ apply ev_of_open, traverse_open | ].
    destruct (find_task tbl n); [ apply IH | apply ev_of_open, wildcard_scan_open ]. }
  destruct (requires_loop v (t_requires t)) eqn:E2.
  3: { apply evs_open_one. eapply requires_loop_open; eauto. }
  all: apply evs_open_app;
       [ apply evs_open_flat_map; intros [d | ]; [ apply Hcallee | apply evs_open_nil ]
       | apply run_cmds_open; exact Hcallee ].
Qed.

Lemma table_events_open : forall gvt tbl req c, evs_open (table_events v o goos goarch gvt tbl req c).
Proof.
  intros gvt tbl req c. unfold table_events.
  apply evs_open_app; [ apply evs_open_flat_map; intros; apply compile_events_open | ].
  apply evs_open_app.
  - apply evs_open_flat_map; intros r. apply ev_of_open. intros s. apply get_task_open.
  - apply evs_open_flat_map; intros t. destruct (t_internal t); [ apply evs_open_nil | apply run_events_open ].
Qed.

Lemma slice_deepcopy_open : forall t s, slice_deepcopy v t = Panic s -> open s.
Proof.
  intros t s H. unfold slice_deepcopy in H.
  destruct (task_has_nil_elem t); cbn in H; [ | discriminate ].
  destruct (g_deepcopy_nil v) eqn:E; cbn in H; [ discriminate | ]. inversion H; subst. exact E.
Qed.

Lemma merge_events_open : forall t, evs_open (merge_events v t).
Proof.
  intros t. unfold merge_events. apply evs_open_app; [ apply ev_of_open, slice_deepcopy_open | ].
  apply evs_open_app; apply evs_open_flat_map; intros [x | ];
    try apply evs_open_nil; apply ev_of_open, for_deepcopy_open.
Qed.

(* ---- NewSnippet ---- *)
Local Open Scope Z_scope.

Theorem snippet_clamped_in_bounds : forall line pad n_raw n_hl,
  exists lo hi, snippet_bounds true line pad n_raw n_hl = Ok (lo, hi) /\
                0 <= lo <= hi /\ hi <= Z.of_N n_raw /\ hi <= Z.of_N n_hl.
Proof.
  intros line pad n_raw n_hl. unfold snippet_bounds.
  set (nr := Z.of_N n_raw). set (nh := Z.of_N n_hl).
  assert (Hr : 0 <= nr) by (unfold nr; lia). assert (Hh : 0 <= nh) by (unfold nh; lia).
  set (e := Z.max (Z.min (Z.min (line + pad) (nr - 1)) nh) 0).
  set (s := Z.min (Z.max (line - pad) 1) (e + 1)).
  assert (H1 : 0 <= s - 1) by (unfold s, e; lia).
  assert (H2 : s - 1 <= e) by (unfold s; lia).
  assert (H3 : e <= nr) by (unfold e; lia).
  assert (H4 : e <= nh) by (unfold e; lia).
  exists (s - 1), e.
  apply Z.leb_le in H1 as B1. apply Z.leb_le in H2 as B2. apply Z.leb_le in H3 as B3. apply Z.leb_le in H4 as B4.
  rewrite B1, B2, B3, B4. cbn. repeat split; assumption.
Qed.

Theorem snippet_open : forall clamp line pad n_raw n_hl s,
  snippet_bounds clamp line pad n_raw n_hl = Panic s -> s = SSnippet /\ clamp = false.
Proof.
  intros clamp line pad n_raw n_hl s H. destruct clamp.
  - destruct (snippet_clamped_in_bounds line pad n_raw n_hl) as (lo & hi & E & _). rewrite E in H. discriminate.
  - unfold snippet_bounds in H.
    match type of H with (if ?b then _ else _) = _ => destruct b end; [ discriminate | ].
    inversion H; auto.
Qed.

(* the unclamped arithmetic is fine as long as yaml and strings.Split agree on the lines *)
Theorem snippet_unclamped_partial : forall line pad n_raw n_hl,
  1 <= line -> 0 <= pad -> line - pad <= Z.of_N n_raw -> 1 <= Z.of_N n_raw -> Z.of_N n_raw <= Z.of_N n_hl + 1 ->
  forall s, snippet_bounds false line pad n_raw n_hl <> Panic s.
Proof.
  intros line pad n_raw n_hl H1 H2 H3 H4 H5 s H. unfold snippet_bounds in H.
  match type of H with (if ?b then _ else _) = _ => destruct b eqn:E end; [ discriminate | ].
  repeat rewrite andb_false_iff in E. repeat rewrite Z.leb_gt in E. lia.
Qed.

Local Close Scope Z_scope.

(* ---- include locations ---- *)
Lemma git_split_open : forall guard path s, git_split guard path = Panic s -> s = SGitSplit /\ guard = false.
Proof.
  intros guard path s H. unfold git_split in H. destruct (str_cut "//" path) as [[x0 rest] | ].
  - destruct (str_cut "//" rest) as [[x1 r] | ]; discriminate.
  - destruct guard; [ discriminate | ]. inversion H; auto.
Qed.

Lemma git_split_partial : forall guard path, str_contains "//" path = true -> forall s, git_split guard path <> Panic s.
Proof.
  intros guard path Hc s H. unfold str_contains in Hc. unfold git_split in H.
  destruct (str_cut "//" path) as [[x0 rest] | ]; [ | discriminate ].
  destruct (str_cut "//" rest) as [[x1 r] | ]; discriminate.
Qed.

Lemma new_node_open : forall loc s, new_node v o loc = NNPanic s -> open s.
Proof.
  intros loc s H. unfold new_node in H. destruct (is_remote_looking loc); [ | discriminate ].
  destruct (get_scheme o loc); try discriminate.
  destruct (o_giturl o loc) as [[sch path] | ]; [ | discriminate ].
  destruct (git_split (g_git_len v) path) eqn:E; try discriminate.
  inversion H; subst. apply git_split_open in E as (-> & Hg). exact Hg.
Qed.

(* ---- the reader ---- *)
Section Reader.
Variable fs : list (string * ynode).

Lemma resolve_include_open : forall i s, resolve_include v o i = Panic s -> open s.
Proof.
  intros i s H. unfold resolve_include in H.
  destruct (is_remote_looking (i_taskfile i)).
  - destruct (expand_literal v o (i_dir i)) eqn:E; try discriminate. inversion H; subst. eapply expand_literal_open; eauto.
  - destruct (expand_literal v o (i_taskfile i)) eqn:E1; try discriminate.
    + destruct (expand_literal v o (i_dir i)) eqn:E; try discriminate. inversion H; subst. eapply expand_literal_open; eauto.
    + inversion H; subst. eapply expand_literal_open; eauto.
Qed.

Lemma include_panic_open : forall i s, include_panic v o i = Some s -> open s.
Proof.
  intros i s H. unfold include_panic in H.
  destruct (i_vars_time i && negb (g_traverse_struct v)) eqn:E.
  - inversion H; subst. apply andb_true_iff in E as (_ & E). apply negb_true_iff in E. exact E.
  - destruct (resolve_include v o i) as [ep | c | p] eqn:Er; try discriminate.
    + destruct (new_node v o ep) eqn:En; try discriminate. inversion H; subst. eapply new_node_open; eauto.
    + inversion H; subst. eapply resolve_include_open; eauto.
Qed.

Lemma first_panic_open : forall l s, first_panic v o l = Some s -> open s.
Proof.
  induction l as [ | i r IH ]; intros s H; cbn in H; [ discriminate | ].
  destruct (include_panic v o i) eqn:E; [ inversion H; subst; eapply include_panic_open; eauto | apply IH; assumption ].
Qed.

Lemma read_includes_open : forall rec,
  (forall stack vis tfs loc s, rec stack vis tfs loc = RPanic s -> open s) ->
  forall incs stack vis tfs s, read_includes v o fs rec stack vis tfs incs = RPanic s -> open s.
Proof.
  intros rec Hrec. induction incs as [ | i r IH ]; intros stack vis tfs s H; cbn in H; [ discriminate | ].
  destruct (i_vars_time i && negb (g_traverse_struct v)) eqn:Et.
  { inversion H; subst. apply andb_true_iff in Et as (_ & E). apply negb_true_iff in E. exact E. }
  destruct (resolve_include v o i) as [ep | c | p0] eqn:Eri; [ | discriminate | inversion H; subst; eapply resolve_include_open; eauto ].
  destruct (new_node v o ep) as [loc | | p] eqn:En.
  - destruct (lookup loc fs).
    + destruct (mem loc stack); [ discriminate | ].
      destruct (rec stack vis tfs loc) eqn:Er; try discriminate.
      * eapply IH; eauto.
      * inversion H; subst. eapply Hrec; eauto.
    + destruct (i_optional i); [ eapply IH; eauto | discriminate ].
  - destruct (i_optional i); [ eapply IH; eauto | discriminate ].
  - inversion H; subst. eapply new_node_open; eauto.
Qed.

Lemma read_file_open : forall fuel stack vis tfs loc s, read_file v o fs fuel stack vis tfs loc = RPanic s -> open s.
Proof.
  induction fuel as [ | f IH ]; intros stack vis tfs loc s H; cbn in H; [ discriminate | ].
  destruct (mem loc vis); [ discriminate | ].
  destruct (lookup loc fs) as [n | ]; [ | discriminate ].
  destruct (decode_taskfile v o n) as [tf | c | p] eqn:Ed.
  - destruct (first_panic v o (tf_includes tf)) eqn:Ef.
    + inversion H; subst. eapply first_panic_open; eauto.
    + eapply read_includes_open; [ | exact H ]. intros; eapply IH; eauto.
  - discriminate.
  - inversion H; subst. apply decode_panic_inv in Ed as (-> & Hg & _). exact Hg.
Qed.

(* termination: the walk needs at most one level of recursion per unvisited file *)
Definition unvisited (vis : list string) : nat :=
  List.length (filter (fun f => negb (mem (fst f) vis)) fs).

Definition incl_vis (a b : list string) : Prop := forall x, mem x a = true -> mem x b = true.

Lemma mem_cons : forall x y l, mem x (y :: l) = String.eqb x y || mem x l.
Proof. reflexivity. Qed.

Lemma unvisited_mono : forall a b, incl_vis a b -> unvisited b <= unvisited a.
Proof.
  intros a b Hab. unfold unvisited. induction fs as [ | f r IH ]; cbn; [ lia | ].
  destruct (mem (fst f) a) eqn:Ea; cbn.
  - rewrite (Hab _ Ea). cbn. exact IH.
  - destruct (mem (fst f) b); cbn; lia.
Qed.

Lemma lookup_in_fs : forall loc (n : ynode) (l : list (string * ynode)), lookup loc l = Some n -> exists f, In f l /\ fst f = loc.
Proof.
  intros loc n l. induction l as [ | [k x] r IH ]; cbn; intros H; [ discriminate | ].
  destruct (String.eqb loc k) eqn:E.
  - apply String.eqb_eq in E. subst. exists (k, x). split; [ left; reflexivity | reflexivity ].
  - apply IH in H as (f & Hin & Hf). exists f. split; [ right | ]; assumption.
Qed.

Lemma unvisited_visit : forall vis loc n, mem loc vis = false -> lookup loc fs = Some n ->
  unvisited (loc :: vis) < unvisited vis.
Proof.
  intros vis loc n Hm Hl. apply lookup_in_fs in Hl as (f & Hin & Hf). unfold unvisited.
  clear n. induction fs as [ | g r IH ]; [ destruct Hin | ].
  cbn [filter]. rewrite mem_cons.
  destruct Hin as [-> | Hin].
  - rewrite Hf, String.eqb_refl, Hm. cbn [negb orb List.length].
    assert (Hle : List.length (filter (fun f0 => negb (mem (fst f0) (loc :: vis))) r)
                  <= List.length (filter (fun f0 => negb (mem (fst f0) vis)) r)).
    { clear. induction r as [ | h r IH ]; cbn [filter]; [ lia | ]. rewrite mem_cons.
      destruct (mem (fst h) vis); [ rewrite orb_true_r; cbn; exact IH | ].
      rewrite orb_false_r. destruct (String.eqb (fst h) loc); cbn [negb filter List.length]; lia. }
    apply Nat.lt_succ_r. exact Hle.
  - specialize (IH Hin).
    destruct (mem (fst g) vis); [ rewrite orb_true_r; cbn [negb]; exact IH | ].
    rewrite orb_false_r. destruct (String.eqb (fst g) loc); cbn [negb List.length].
    + apply Nat.lt_lt_succ_r. exact IH.
    + apply -> Nat.succ_lt_mono. exact IH.
Qed.

(* a completed walk only grows the visited set *)
Lemma read_includes_mono : forall rec,
  (forall stack vis tfs loc vis' tfs', rec stack vis tfs loc = RDone vis' tfs' -> incl_vis vis vis') ->
  forall incs stack vis tfs vis' tfs', read_includes v o fs rec stack vis tfs incs = RDone vis' tfs' -> incl_vis vis vis'.
Proof.
  intros rec Hrec. induction incs as [ | i r IH ]; intros stack vis tfs vis' tfs' H; cbn in H.
  - inversion H; subst. intros x Hx; exact Hx.
  - destruct (i_vars_time i && negb (g_traverse_struct v)); [ discriminate | ].
    destruct (resolve_include v o i) as [ep | c | p0]; try discriminate.
    destruct (new_node v o ep) as [loc | | p].
    + destruct (lookup loc fs).
      * destruct (mem loc stack); [ discriminate | ].
        destruct (rec stack vis tfs loc) as [ | vis1 tfs1 | | ] eqn:Er; try discriminate.
        apply Hrec in Er. apply IH in H. intros x Hx. apply H, Er, Hx.
      * destruct (i_optional i); [ eapply IH; eauto | discriminate ].
    + destruct (i_optional i); [ eapply IH; eauto | discriminate ].
    + discriminate.
Qed.

Lemma read_file_mono : forall fuel stack vis tfs loc vis' tfs',
  read_file v o fs fuel stack vis tfs loc = RDone vis' tfs' -> incl_vis vis vis'.
Proof.
  induction fuel as [ | f IH ]; intros stack vis tfs loc vis' tfs' H; cbn in H; [ discriminate | ].
  destruct (mem loc vis) eqn:Em.
  - inversion H; subst. intros x Hx; exact Hx.
  - destruct (lookup loc fs) as [n | ]; [ | discriminate ].
    destruct (decode_taskfile v o n) as [tf | c | p]; try discriminate.
    destruct (first_panic v o (tf_includes tf)); [ discriminate | ].
    apply read_includes_mono in H; [ | intros; eapply IH; eauto ].
    intros x Hx. apply H. rewrite mem_cons, Hx. apply orb_true_r.
Qed.

Lemma read_includes_fuel : forall rec,
  (forall stack vis tfs loc vis' tfs', rec stack vis tfs loc = RDone vis' tfs' -> incl_vis vis vis') ->
  forall bound,
  (forall stack vis tfs loc, unvisited vis <= bound -> rec stack vis tfs loc <> ROutOfFuel) ->
  forall incs stack vis tfs, unvisited vis <= bound ->
    read_includes v o fs rec stack vis tfs incs <> ROutOfFuel.
Proof.
  intros rec Hmono bound Hrec. induction incs as [ | i r IH ]; intros stack vis tfs Hb H; cbn in H; [ discriminate | ].
  destruct (i_vars_time i && negb (g_traverse_struct v)); [ discriminate | ].
  destruct (resolve_include v o i) as [ep | c | p0]; try discriminate.
  destruct (new_node v o ep) as [loc | | p].
  - destruct (lookup loc fs).
    + destruct (mem loc stack); [ discriminate | ].
      destruct (rec stack vis tfs loc) as [ | vis1 tfs1 | | ] eqn:Er; try discriminate.
      * eapply Hrec; eauto.
      * apply Hmono in Er. eapply IH; [ | exact H ]. pose proof (unvisited_mono _ _ Er). lia.
    + destruct (i_optional i); [ eapply IH; eauto | discriminate ].
  - destruct (i_optional i); [ eapply IH; eauto | discriminate ].
  - discriminate.
Qed.

Lemma read_file_fuel : forall fuel stack vis tfs loc,
  unvisited vis < fuel -> read_file v o fs fuel stack vis tfs loc <> ROutOfFuel.
Proof.
  induction fuel as [ | f IH ]; intros stack vis tfs loc Hf H; [ lia | ].
  cbn in H. destruct (mem loc vis) eqn:Em; [ discriminate | ].
  destruct (lookup loc fs) as [n | ] eqn:El; [ | discriminate ].
  destruct (decode_taskfile v o n) as [tf | c | p]; try discriminate.
  destruct (first_panic v o (tf_includes tf)); [ discriminate | ].
  pose proof (unvisited_visit vis loc n Em El) as Hlt.
  eapply (read_includes_fuel (read_file v o fs f)) with (bound := unvisited (loc :: vis)); [ | | | exact H ].
  - intros; eapply read_file_mono; eauto.
  - intros stack' vis' tfs' loc' Hb. apply IH. lia.
  - lia.
Qed.

Theorem reader_terminates : forall fuel, List.length fs < fuel -> read v o fs fuel <> ROutOfFuel.
Proof.
  intros fuel Hf. unfold read. apply read_file_fuel.
  assert (unvisited [] <= List.length fs); [ | lia ].
  unfold unvisited. clear. induction fs as [ | a r IH ]; cbn [filter List.length]; [ lia | ].
  destruct (negb (mem (fst a) [])); cbn [List.length]; lia.
Qed.

Theorem reader_panic_open : forall fuel s, read v o fs fuel = RPanic s -> open s.
Proof. intros fuel s H. unfold read in H. eapply read_file_open; eauto. Qed.

End Reader.

End Run.

(* ---- a whole document ---- *)
Lemma sites_of_open : forall v o (E : list ev) s,
  evs_open v o E -> In s (certain_sites E ++ possible_sites E) -> site_open v o s.
Proof.
  intros v o E s HE H.
  apply in_app_or in H as [H | H]; unfold certain_sites, possible_sites in H;
    apply in_map_iff in H as ([s0 c0] & Hs & Hin); cbn in Hs; subst;
    apply filter_In in Hin as (Hin & _); eapply HE; eauto.
Qed.

Theorem predict_sites_open : forall v o e s,
  In s (pr_must (predict v o e) ++ pr_may (predict v o e)) -> site_open v o s.
Proof.
  intros v o e s H. unfold predict in H. cbv zeta in H.
  destruct (lookup root_name (de_files e)) as [root | ]; [ | destruct H ].
  destruct (decode_taskfile v o root) as [tf | c | p] eqn:Ed.
  - destruct (read v o (de_files e) (S (List.length (de_files e)))) as [ | vis tfs | c | p] eqn:Er; try (destruct H; fail).
    + cbn [pr_must pr_may] in H.
      eapply (sites_of_open v o); [ | exact H ].
      apply evs_open_app; [ apply table_events_open | ].
      destruct (plain_setup tf); [ apply evs_open_nil | ].
      apply evs_open_app.
      * apply evs_open_flat_map. apply merge_events_open.
      * apply evs_open_flat_map. intros n. apply ev_of_open. intros s0. apply wildcard_compile_open.
    + cbn [pr_must pr_may app] in H. destruct H as [<- | []]. eapply reader_panic_open; eauto.
  - destruct (de_snip e) as [[line nr] nh].
    destruct (N.eqb c code_decode).
    + destruct (snippet_bounds (g_snippet_clamp v) line 2 nr nh) eqn:Es; try (destruct H; fail).
      cbn in H. destruct H as [<- | []]. apply snippet_open in Es as (-> & Hc). exact Hc.
    + destruct H.
  - cbn in H. destruct H as [<- | []]. apply decode_panic_inv in Ed as (-> & Hg & _). exact Hg.
Qed.
