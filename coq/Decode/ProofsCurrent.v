(* The tree as it is now (variant [current], built from the extracted guard facts):
   every guard is present, so the full statements apply to it.  This file breaks
   when a guard disappears from /repo. *)
From Coq Require Import List String NArith ZArith Bool.
Import ListNotations.
From TV Require Import Decode.Model Decode.Proofs Decode.ProofsCodes Decode.ProofsRun Decode.ProofsMain
                       Extracted.Facts Run.DecodeCases.

(* WildcardMatch keeps regexp.MustCompile but quotes the literal parts: the law of
   regexp "a QuoteMeta'd literal always compiles" is the hypothesis on the oracle *)
Lemma current_all_guards : forall o, (forall n, o_wc_quoted o n = true) -> all_guards current o.
Proof.
  intros o H. repeat split; try reflexivity.
  right. split; [ reflexivity | exact H ].
Qed.

Theorem current_never_panics : forall o e, (forall n, o_wc_quoted o n = true) ->
  pr_must (predict current o e) = [] /\ pr_may (predict current o e) = [].
Proof. intros o e H. apply predict_no_panic, current_all_guards, H. Qed.

Theorem current_decode_never_panics : forall o n s, decode_taskfile current o n <> Panic s.
Proof. intros o n s. apply no_panic_decode. reflexivity. Qed.

Theorem current_snippet_in_bounds : forall line pad n_raw n_hl s,
  snippet_bounds (g_snippet_clamp current) line pad n_raw n_hl <> Panic s.
Proof.
  intros line pad n_raw n_hl s H. change (g_snippet_clamp current) with true in H.
  destruct (snippet_clamped_in_bounds line pad n_raw n_hl) as (lo & hi & E & _). rewrite E in H. discriminate.
Qed.
