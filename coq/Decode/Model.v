(* Model I "Decode": what go-task does with the node tree of a Taskfile.

   Covered Go code: every UnmarshalYAML of taskfile/ast/*.go, the part of
   taskfile/reader.go that reads one file and walks the includes, the slice
   arithmetic of taskfile/snippet.go:NewSnippet, taskfile/node.go:getScheme and
   node_git.go:NewGitNode (URL split), ast.Task.WildcardMatch (regexp compile),
   and the consumers that dereference elements of pointer slices
   (templater.ReplaceGlobs, shouldRunOnCurrentPlatform, areTaskRequiredVarsSet).

   Only executable definitions live here (no proofs).  Third-party behaviour
   is not modelled: yaml.v3's *parser* (bytes -> nodes), text/template, regexp,
   chroma, giturls, time.ParseDuration, semver.  Where their verdict matters it
   enters through the [oracles] record; theorems quantify over all oracles. *)
From Coq Require Import List String Ascii NArith ZArith Bool Arith.
Import ListNotations.
Local Open Scope string_scope.
Local Open Scope list_scope.

(* ------------------------------------------------------------------ *)
(** * Node trees (what yaml.v3 hands to UnmarshalYAML)                  *)

(* resolved short tag of a non-null scalar *)
(* TTime: an untagged scalar yaml.v3 resolves to !!timestamp (a time.Time in an `any`) *)
Inductive stag := TStr | TInt | TFloat | TBool | TTime | TOther.

Inductive ynode :=
| YNull
| YScalar (t : stag) (v : string)
| YSeq (l : list ynode)
| YMap (l : list (ynode * ynode)).

(* ------------------------------------------------------------------ *)
(** * Results                                                           *)

(* one constructor per place in go-task's own code that can panic *)
Inductive site :=
| SVarEmptyMap      (* ast/var.go: node.Content[0] of an empty mapping *)
| SGlobNil          (* templater.ReplaceGlobs: g.Glob of a nil *ast.Glob *)
| SPlatformNil      (* task.go: shouldRunOnCurrentPlatform, p.OS of a nil *ast.Platform *)
| SRequiresNil      (* requires.go: requiredVar.Name of a nil *ast.VarsWithValidation *)
| SSnippet          (* taskfile/snippet.go: NewSnippet slice bounds *)
| SGitSplit         (* taskfile/node_git.go: x[1] of the split of u.Path at the double slash *)
| SWildcard         (* ast/task.go: regexp.MustCompile on a task name *)
| STraverseStruct   (* deepcopy.TraverseStringsFunc: Set on an unexported field (time.Time in a variable) *)
| SMatrixNilMap     (* deepcopy.OrderedMap: Len of the nil map of an empty `matrix: {}` *)
| SExpandLiteral    (* execext.ExpandLiteral: words[0] of a string that parses to no shell word (a comment, blanks only) *)
| SDeepCopyNil      (* deepcopy.Slice calls DeepCopy on a nil element whose method does not check its receiver *)
| SOther.           (* a panic the model has no site for (never produced by the model) *)

Definition site_eqb (a b : site) : bool :=
  match a, b with
  | SVarEmptyMap, SVarEmptyMap | SGlobNil, SGlobNil | SPlatformNil, SPlatformNil
  | SRequiresNil, SRequiresNil | SSnippet, SSnippet | SGitSplit, SGitSplit
  | SWildcard, SWildcard | SOther, SOther
  | STraverseStruct, STraverseStruct | SMatrixNilMap, SMatrixNilMap | SDeepCopyNil, SDeepCopyNil | SExpandLiteral, SExpandLiteral => true
  | _, _ => false
  end.

Inductive res (A : Type) :=
| Ok (a : A)
| Err (code : N)        (* a diagnosed error; the code is the process exit code *)
| Panic (s : site).
Arguments Ok {A} a.
Arguments Err {A} code.
Arguments Panic {A} s.

(* result of decoding inside ONE yaml.v3 decoder: type errors ("cannot
   unmarshal !!seq into string") are recorded and decoding continues ([soft]);
   an error returned by a custom UnmarshalYAML aborts at once (yaml's fail()). *)
Inductive dres (A : Type) :=
| DOk (a : A) (soft : bool)
| DErr (code : N)
| DPanic (s : site).
Arguments DOk {A} a soft.
Arguments DErr {A} code.
Arguments DPanic {A} s.

(* exit codes (errors/errors.go); tied to the source by Properties/C16.v *)
Definition code_unknown : N := 1.
Definition code_not_found : N := 100.
Definition code_decode : N := 102.
Definition code_version : N := 107.
Definition code_invalid : N := 109.
Definition code_cycle : N := 110.
Definition code_task_not_found : N := 200.

Definition model_codes : list N :=
  [code_unknown; code_not_found; code_decode; code_version; code_invalid; code_cycle; code_task_not_found].

(* node.Decode(&x) returning: recorded type errors become a *yaml.TypeError,
   which every UnmarshalYAML wraps into a TaskfileDecodeError *)
Definition finish {A} (r : dres A) : res A :=
  match r with
  | DOk a false => Ok a
  | DOk _ true => Err code_decode
  | DErr c => Err c
  | DPanic s => Panic s
  end.

Definition lift {A} (r : res A) : dres A :=
  match r with Ok a => DOk a false | Err c => DErr c | Panic s => DPanic s end.

Definition dbind {A B} (r : dres A) (f : A -> dres B) : dres B :=
  match r with
  | DOk a s => match f a with DOk b s' => DOk b (s || s') | e => e end
  | DErr c => DErr c
  | DPanic p => DPanic p
  end.

Definition dmap {A B} (f : A -> B) (r : dres A) : dres B :=
  match r with DOk a s => DOk (f a) s | DErr c => DErr c | DPanic p => DPanic p end.

(* ------------------------------------------------------------------ *)
(** * Variants: which guards the code has (from extracted facts)        *)

Record variant := {
  g_var_len : bool;        (* Var.UnmarshalYAML checks len(node.Content) before Content[0] *)
  g_glob_nil : bool;       (* ReplaceGlobs skips nil globs *)
  g_platform_nil : bool;   (* shouldRunOnCurrentPlatform skips nil platforms *)
  g_requires_nil : bool;   (* areTaskRequiredVars*Set skip nil entries *)
  g_snippet_clamp : bool;  (* NewSnippet clamps start/end to both line slices *)
  g_git_len : bool;        (* NewGitNode checks the result of the "//" split *)
  g_wc_quote : bool;       (* WildcardMatch quotes the literal parts of the name *)
  g_wc_must : bool;        (* WildcardMatch uses regexp.MustCompile *)
  g_traverse_struct : bool;(* TraverseStringsFunc copies structs with unexported fields as a whole *)
  g_omap_nil : bool;       (* deepcopy.OrderedMap accepts a nil map *)
  g_expand_literal_len : bool;  (* ExpandLiteral checks len(words) before words[0] *)
  g_deepcopy_nil : bool    (* every DeepCopy method of a pointer-slice element type returns nil for a nil receiver *)
}.

Definition repaired : variant :=
  {| g_var_len := true; g_glob_nil := true; g_platform_nil := true; g_requires_nil := true;
     g_snippet_clamp := true; g_git_len := true; g_wc_quote := true; g_wc_must := false;
     g_traverse_struct := true; g_omap_nil := true; g_expand_literal_len := true; g_deepcopy_nil := true |}.

(* the tree as pinned (no guard anywhere) *)
Definition unguarded : variant :=
  {| g_var_len := false; g_glob_nil := false; g_platform_nil := false; g_requires_nil := false;
     g_snippet_clamp := false; g_git_len := false; g_wc_quote := false; g_wc_must := true;
     g_traverse_struct := false; g_omap_nil := false; g_expand_literal_len := false; g_deepcopy_nil := false |}.

(* ------------------------------------------------------------------ *)
(** * Oracles: verdicts of third-party code on strings                  *)

Record oracles := {
  o_dur : string -> bool;         (* time.ParseDuration succeeds *)
  o_ver : string -> bool;         (* semver.NewVersion succeeds *)
  o_os : string -> bool;          (* goext.IsKnownOS *)
  o_arch : string -> bool;        (* goext.IsKnownArch *)
  o_wc_raw : string -> bool;      (* the pattern WildcardMatch builds from the raw name compiles *)
  o_wc_quoted : string -> bool;   (* same with every literal part passed through regexp.QuoteMeta *)
  o_giturl : string -> option (string * string); (* giturls.Parse: Some (scheme, path) *)
  o_words : string -> option nat   (* mvdan.cc/sh syntax.Parser.Words on the escaped string: number of words, None = parse error *)
}.

(* ------------------------------------------------------------------ *)
(** * Small string functions                                            *)

Definition mem (s : string) (l : list string) : bool := existsb (String.eqb s) l.

Fixpoint str_prefix (p s : string) : bool :=
  match p, s with
  | EmptyString, _ => true
  | String a p', String b s' => Ascii.eqb a b && str_prefix p' s'
  | _, _ => false
  end.

(* strings.Cut(s, sep) for a non-empty sep: Some (before, after) at the first occurrence *)
Fixpoint str_cut (sep s : string) : option (string * string) :=
  match s with
  | EmptyString => None
  | String a s' =>
      if str_prefix sep s then Some (EmptyString, substring (String.length sep) (String.length s) s)
      else match str_cut sep s' with
           | Some (b, r) => Some (String a b, r)
           | None => None
           end
  end.

Definition str_contains (sep s : string) : bool :=
  match str_cut sep s with Some _ => true | None => false end.

Definition str_suffix (suf s : string) : bool :=
  let ls := String.length s in let lf := String.length suf in
  Nat.leb lf ls && String.eqb (substring (ls - lf) lf s) suf.

(* strings.Split(s, "/") *)
Fixpoint split_slash (acc s : string) : list string :=
  match s with
  | EmptyString => [acc]
  | String a s' =>
      if Ascii.eqb a "/"%char then acc :: split_slash EmptyString s'
      else split_slash (acc ++ String a EmptyString)%string s'
  end.

Definition is_empty (s : string) : bool := match s with EmptyString => true | _ => false end.

(* ------------------------------------------------------------------ *)
(** * yaml.v3 generic decoding of the field types go-task uses          *)

(* node.Value as Go sees it *)
Definition node_value (n : ynode) : string :=
  match n with YScalar _ v => v | YNull => "~" | _ => "" end.

(* the Go string a string-typed field holds after decoding [n] into it (zero value "") *)
Definition sval (n : ynode) : string :=
  match n with YScalar _ v => v | _ => "" end.

Definition legacy_bool (s : string) : bool :=
  mem s ["y";"Y";"yes";"Yes";"YES";"on";"On";"ON";"n";"N";"no";"No";"NO";"off";"Off";"OFF"].

(* each returns the "type error recorded" flag *)
Definition soft_str (n : ynode) : bool :=
  match n with YNull | YScalar _ _ => false | _ => true end.

Definition soft_bool (n : ynode) : bool :=
  match n with
  | YNull | YScalar TBool _ => false
  | YScalar TStr v => negb (legacy_bool v)
  | _ => true
  end.

Definition soft_strlist (n : ynode) : bool :=
  match n with
  | YNull => false
  | YSeq l => existsb soft_str l
  | _ => true
  end.

Definition soft_dur (o : oracles) (n : ynode) : bool :=
  match n with
  | YNull => false
  | YScalar TStr v => negb (o_dur o v)
  | _ => true
  end.

(* d.mapping's duplicate-key check: same Kind and same Value *)
Definition key_same (a b : ynode) : bool :=
  match a, b with
  | YSeq _, YSeq _ | YMap _, YMap _ => true
  | YSeq _, _ | YMap _, _ | _, YSeq _ | _, YMap _ => false
  | _, _ => String.eqb (node_value a) (node_value b)
  end.

Fixpoint dup_keys (kvs : list (ynode * ynode)) : bool :=
  match kvs with
  | [] => false
  | (k, _) :: r => existsb (fun kv => key_same k (fst kv)) r || dup_keys r
  end.

(* decoding into `any`: hard = yaml's fail() ("invalid map key"), soft = duplicate
   keys (that mapping is then skipped), time = the value holds a time.Time *)
Inductive anyres := AGood (soft time : bool) | AHard.

Definition acomb (a b : anyres) : anyres :=
  match a, b with
  | AGood s t, AGood s' t' => AGood (s || s') (t || t')
  | _, _ => AHard
  end.

Fixpoint dec_any (n : ynode) : anyres :=
  match n with
  | YScalar TTime _ => AGood false true
  | YNull | YScalar _ _ => AGood false false
  | YSeq l => fold_right (fun x acc => acomb (dec_any x) acc) (AGood false false) l
  | YMap kvs =>
      if dup_keys kvs then AGood true false
      else fold_right
             (fun kv acc =>
                match fst kv with
                | YSeq _ | YMap _ => AHard
                | _ => acomb (dec_any (snd kv)) acc
                end)
             (AGood false false) kvs
  end.

(* the bool is "holds a time.Time" *)
Definition d_any (n : ynode) : dres bool :=
  match dec_any n with AGood s t => DOk t s | AHard => DErr code_decode end.

(* a struct schema: key -> handler updating the accumulator *)
Definition handler (A : Type) := A -> ynode -> dres A.
Definition schema (A : Type) := list (string * handler A).

Fixpoint lookup {A} (k : string) (l : list (string * A)) : option A :=
  match l with
  | [] => None
  | (k', a) :: r => if String.eqb k k' then Some a else lookup k r
  end.

(* d.mappingStruct: keys in document order; null keys are skipped, sequence /
   mapping keys record a type error, unknown keys are ignored *)
Fixpoint fields {A} (sch : schema A) (kvs : list (ynode * ynode)) (acc : A) (soft : bool) : dres A :=
  match kvs with
  | [] => DOk acc soft
  | (k, v) :: r =>
      match k with
      | YNull => fields sch r acc soft
      | YSeq _ | YMap _ => fields sch r acc true
      | YScalar _ name =>
          match lookup name sch with
          | None => fields sch r acc soft
          | Some h =>
              match h acc v with
              | DOk acc' s' => fields sch r acc' (soft || s')
              | DErr c => DErr c
              | DPanic p => DPanic p
              end
          end
      end
  end.

(* decoding a node into a struct value inside the current decoder *)
Definition d_struct {A} (sch : schema A) (init : A) (n : ynode) : dres A :=
  match n with
  | YNull => DOk init false
  | YMap kvs => if dup_keys kvs then DOk init true else fields sch kvs init false
  | _ => DOk init true
  end.

(* a handler for a field whose content the consumers never look at *)
Definition ign {A} (soft : ynode -> bool) : handler A := fun acc v => DOk acc (soft v).

(* pointer to a type with a custom UnmarshalYAML: null leaves nil *)
Definition d_ptr {A} (d : ynode -> res A) (n : ynode) : dres (option A) :=
  match n with
  | YNull => DOk None false
  | _ => dmap Some (lift (d n))
  end.

(* []*T with a custom UnmarshalYAML on T: null elements stay nil pointers *)
Fixpoint d_ptr_elems {A} (d : ynode -> res A) (l : list ynode) : dres (list (option A)) :=
  match l with
  | [] => DOk [] false
  | x :: r =>
      match x with
      | YNull => dmap (cons None) (d_ptr_elems d r)
      | _ =>
          match d x with
          | Ok a => dmap (cons (Some a)) (d_ptr_elems d r)
          | Err c => DErr c
          | Panic s => DPanic s
          end
      end
  end.

(* None = nil slice *)
Definition d_ptrlist {A} (d : ynode -> res A) (n : ynode) : dres (option (list (option A))) :=
  match n with
  | YNull => DOk None false
  | YSeq l => dmap Some (d_ptr_elems d l)
  | _ => DOk None true
  end.

Definition olist {A} (o : option (list A)) : list A := match o with Some l => l | None => [] end.

(* ------------------------------------------------------------------ *)
(** * The AST, reduced to what later stages look at                     *)

Record glob := { gl_glob : string; gl_neg : bool }.
Record platform := { p_os : string; p_arch : string }.
Record reqvar := { rv_name : string; rv_has_enum : bool }.

(* for: None = no loop; Some b: a loop, b = it carries a Matrix whose ordered map is nil *)
Definition forinfo := option bool.

Record cmd := {
  c_cmd : string; c_task : string; c_for : forinfo; c_defer : bool;
  c_platforms : list (option platform);
  c_vars_time : bool            (* vars: of a task call hold a time.Time *)
}.
Record dep := { dp_task : string; dp_for : forinfo; dp_vars_time : bool }.

Record task := {
  t_name : string;
  t_cmds : list (option cmd);
  t_deps : list (option dep);
  t_sources : list (option glob);
  t_generates : list (option glob);
  t_platforms : list (option platform);
  t_requires : list (option reqvar);
  t_preconds : list (option unit);
  t_status : bool;           (* status: given *)
  t_internal : bool;
  t_aliases : list string;
  t_vars_time : bool;        (* vars: hold a time.Time *)
  t_env_time : bool;         (* env: hold a time.Time *)
  t_dir : string             (* dir: as written *)
}.

Record include := {
  i_ns : string; i_taskfile : string; i_optional : bool; i_advanced : bool; i_flatten : bool;
  i_vars_time : bool;
  i_dir : string
}.

Record taskfile := {
  tf_has_version : bool;
  tf_version : string;        (* the scalar given as version, "" otherwise *)
  tf_includes : list include;
  tf_tasks : list task;       (* ordered map: first position of a name, last value *)
  tf_output_set : bool;
  tf_dotenv : bool;
  tf_vars_time : bool
}.

(* ------------------------------------------------------------------ *)
(** * The custom UnmarshalYAML methods                                  *)

Section Decoders.
Variable v : variant.
Variable o : oracles.

Definition type_err {A} : res A := Err code_decode.

Definition rbind {A B} (r : res A) (f : A -> res B) : res B :=
  match r with Ok a => f a | Err c => Err c | Panic s => Panic s end.

(* --- ast/var.go --- *)
Record var_m := { vm_ref : string; vm_map_time : bool }.

Definition var_m_schema : schema var_m :=
  [("sh", ign soft_str);
   ("ref", fun a x => DOk {| vm_ref := sval x; vm_map_time := vm_map_time a |} (soft_str x));
   ("map", fun a x => dmap (fun t => {| vm_ref := vm_ref a; vm_map_time := t |}) (d_any x))].

(* the bool: templater.ReplaceVar will traverse a value holding a time.Time *)
Definition d_var (n : ynode) : res bool :=
  match n with
  | YMap kvs =>
      match kvs with
      | [] => if g_var_len v then type_err else Panic SVarEmptyMap
      | (k, _) :: _ =>
          if mem (node_value k) ["sh"; "ref"; "map"]
          then rbind (finish (d_struct var_m_schema {| vm_ref := ""; vm_map_time := false |} n))
                     (fun m => Ok (is_empty (vm_ref m) && vm_map_time m))
          else type_err
      end
  | _ => finish (d_any n)
  end.

(* --- ast/vars.go: manual loop over the pairs; a null value leaves a zero Var;
       Set replaces the value of a key that is already there --- *)
Fixpoint kv_set (k : string) (b : bool) (l : list (string * bool)) : list (string * bool) :=
  match l with
  | [] => [(k, b)]
  | (k', b') :: r => if String.eqb k k' then (k, b) :: r else (k', b') :: kv_set k b r
  end.

Fixpoint d_var_pairs (kvs : list (ynode * ynode)) (acc : list (string * bool)) : res (list (string * bool)) :=
  match kvs with
  | [] => Ok acc
  | (k, YNull) :: r => d_var_pairs r (kv_set (node_value k) false acc)
  | (k, x) :: r =>
      match d_var x with
      | Ok t => d_var_pairs r (kv_set (node_value k) t acc)
      | Err c => Err c
      | Panic s => Panic s
      end
  end.

Definition d_vars (n : ynode) : res bool :=
  match n with
  | YMap kvs => rbind (d_var_pairs kvs []) (fun l => Ok (existsb snd l))
  | _ => type_err
  end.

(* a *Vars field: the flag "holds a time.Time" (false for nil) *)
Definition d_pvars (n : ynode) : dres bool :=
  dmap (fun x => match x with Some b => b | None => false end) (d_ptr d_vars n).

(* --- ast/platforms.go --- *)
Definition parse_os_or_arch (s : string) : option platform :=
  if is_empty s then None
  else if o_os o s then Some {| p_os := s; p_arch := "" |}
  else if o_arch o s then Some {| p_os := ""; p_arch := s |}
  else None.

Definition parse_platform (s : string) : option platform :=
  match split_slash "" s with
  | [a] => parse_os_or_arch a
  | [a; b] =>
      match parse_os_or_arch a with
      | None => None
      | Some p =>
          if is_empty b then None
          else if negb (is_empty (p_arch p)) then None
          else if o_arch o b then Some {| p_os := p_os p; p_arch := b |}
          else None
      end
  | _ => None
  end.

Definition d_platform (n : ynode) : res platform :=
  match n with
  | YScalar _ _ | YNull =>
      match parse_platform (sval n) with
      | Some p => Ok p
      | None => type_err
      end
  | _ => type_err
  end.

(* --- ast/glob.go --- *)
Definition d_glob (n : ynode) : res glob :=
  match n with
  | YScalar _ s => Ok {| gl_glob := s; gl_neg := false |}
  | YNull => Ok {| gl_glob := "~"; gl_neg := false |}
  | YMap _ =>
      rbind (finish (d_struct [("exclude", fun (acc : string) x => DOk (sval x) (soft_str x))] "" n))
            (fun s => Ok {| gl_glob := s; gl_neg := true |})
  | YSeq _ => type_err
  end.

(* --- ast/precondition.go --- *)
Definition d_precond (n : ynode) : res unit :=
  match n with
  | YScalar _ _ | YNull => Ok tt
  | YMap _ => finish (d_struct [("sh", ign soft_str); ("msg", ign soft_str)] tt n)
  | YSeq _ => type_err
  end.

(* --- ast/requires.go --- *)
Definition d_reqvar (n : ynode) : res reqvar :=
  match n with
  | YScalar _ _ | YNull => Ok {| rv_name := sval n; rv_has_enum := false |}
  | YMap _ =>
      finish (d_struct
        [("name", fun acc x => DOk {| rv_name := sval x; rv_has_enum := rv_has_enum acc |} (soft_str x));
         ("enum", fun acc x => DOk {| rv_name := rv_name acc;
                                      rv_has_enum := match x with YSeq _ => true | _ => false end |}
                                   (soft_strlist x))]
        {| rv_name := ""; rv_has_enum := false |} n)
  | YSeq _ => type_err
  end.

(* *Requires is a plain struct: decoded by yaml.v3 itself inside the enclosing decoder *)
Definition d_requires (n : ynode) : dres (list (option reqvar)) :=
  d_struct [("vars", fun _ x => dmap olist (d_ptrlist d_reqvar x))] [] n.

(* --- ast/matrix.go --- *)
Fixpoint d_matrix_rows (kvs : list (ynode * ynode)) (keys : list string) : res (list string) :=
  match kvs with
  | [] => Ok keys
  | (k, x) :: r =>
      let keys' := if mem (node_value k) keys then keys else node_value k :: keys in
      match x with
      | YSeq _ => rbind (finish (d_any x)) (fun _ => d_matrix_rows r keys')
      | YMap _ => rbind (finish (d_struct [("ref", ign soft_str)] tt x)) (fun _ => d_matrix_rows r keys')
      | _ => type_err
      end
  end.

(* returns Matrix.Len(); the ordered map stays nil exactly when no row was set *)
Definition d_matrix (n : ynode) : res nat :=
  match n with
  | YMap kvs => rbind (d_matrix_rows kvs []) (fun keys => Ok (List.length keys))
  | _ => type_err
  end.

(* --- ast/for.go --- *)
Record for_raw := { fr_matrix : option nat; fr_var : string }.

(* the bool: For.Matrix is a non-nil *Matrix with a nil ordered map *)
Definition d_for (n : ynode) : res bool :=
  match n with
  | YScalar _ _ | YNull => Ok false
  | YSeq _ => rbind (finish (d_any n)) (fun _ => Ok false)
  | YMap _ =>
      rbind (finish (d_struct
              [("matrix", fun acc x => dmap (fun m => {| fr_matrix := m; fr_var := fr_var acc |}) (d_ptr d_matrix x));
               ("var", fun acc x => DOk {| fr_matrix := fr_matrix acc; fr_var := sval x |} (soft_str x));
               ("split", ign soft_str); ("as", ign soft_str)]
              {| fr_matrix := None; fr_var := "" |} n))
        (fun f =>
          let len := match fr_matrix f with Some k => k | None => 0 end in
          if is_empty (fr_var f) && Nat.eqb len 0 then type_err
          else if negb (is_empty (fr_var f)) && negb (Nat.eqb len 0) then type_err
          else Ok (match fr_matrix f with Some 0 => true | _ => false end))
  end.

Definition has_some {A} (x : option A) : bool := match x with Some _ => true | None => false end.

(* --- ast/defer.go --- *)
Record defer_ := { df_cmd : string; df_task : string; df_vars_time : bool }.

Definition d_defer (n : ynode) : res defer_ :=
  match n with
  | YScalar _ _ | YNull => Ok {| df_cmd := sval n; df_task := ""; df_vars_time := false |}
  | YMap _ =>
      finish (d_struct
        [("defer", fun acc x => DOk {| df_cmd := sval x; df_task := df_task acc; df_vars_time := df_vars_time acc |} (soft_str x));
         ("task", fun acc x => DOk {| df_cmd := df_cmd acc; df_task := sval x; df_vars_time := df_vars_time acc |} (soft_str x));
         ("vars", fun acc x => dmap (fun t => {| df_cmd := df_cmd acc; df_task := df_task acc; df_vars_time := t |}) (d_pvars x));
         ("silent", ign soft_bool)]
        {| df_cmd := ""; df_task := ""; df_vars_time := false |} n)
  | YSeq _ => type_err
  end.

(* --- ast/cmd.go --- *)
Record cmd_raw := {
  cr_cmd : string; cr_task : string; cr_for : forinfo; cr_defer : option defer_;
  cr_platforms : list (option platform); cr_vars_time : bool
}.
Definition cmd_raw0 : cmd_raw :=
  {| cr_cmd := ""; cr_task := ""; cr_for := None; cr_defer := None; cr_platforms := []; cr_vars_time := false |}.

Definition cmd_schema : schema cmd_raw :=
  [("cmd", fun a x => DOk {| cr_cmd := sval x; cr_task := cr_task a; cr_for := cr_for a;
                             cr_defer := cr_defer a; cr_platforms := cr_platforms a; cr_vars_time := cr_vars_time a |} (soft_str x));
   ("task", fun a x => DOk {| cr_cmd := cr_cmd a; cr_task := sval x; cr_for := cr_for a;
                              cr_defer := cr_defer a; cr_platforms := cr_platforms a; cr_vars_time := cr_vars_time a |} (soft_str x));
   ("for", fun a x => dmap (fun f => {| cr_cmd := cr_cmd a; cr_task := cr_task a; cr_for := f;
                                        cr_defer := cr_defer a; cr_platforms := cr_platforms a; cr_vars_time := cr_vars_time a |})
                           (d_ptr d_for x));
   ("silent", ign soft_bool); ("set", ign soft_strlist); ("shopt", ign soft_strlist);
   ("vars", fun a x => dmap (fun t => {| cr_cmd := cr_cmd a; cr_task := cr_task a; cr_for := cr_for a;
                                         cr_defer := cr_defer a; cr_platforms := cr_platforms a; cr_vars_time := t |})
                            (d_pvars x));
   ("ignore_error", ign soft_bool);
   ("defer", fun a x => dmap (fun d => {| cr_cmd := cr_cmd a; cr_task := cr_task a; cr_for := cr_for a;
                                          cr_defer := d; cr_platforms := cr_platforms a; cr_vars_time := cr_vars_time a |})
                             (d_ptr d_defer x));
   ("platforms", fun a x => dmap (fun p => {| cr_cmd := cr_cmd a; cr_task := cr_task a; cr_for := cr_for a;
                                              cr_defer := cr_defer a; cr_platforms := olist p; cr_vars_time := cr_vars_time a |})
                                 (d_ptrlist d_platform x))].

Definition mk_cmd (c t : string) (f : forinfo) (d : bool) (p : list (option platform)) (vt : bool) : cmd :=
  {| c_cmd := c; c_task := t; c_for := f; c_defer := d; c_platforms := p; c_vars_time := vt |}.

Definition d_cmd (n : ynode) : res cmd :=
  match n with
  | YScalar _ _ | YNull => Ok (mk_cmd (sval n) "" None false [] false)
  | YMap _ =>
      rbind (finish (d_struct cmd_schema cmd_raw0 n))
        (fun r =>
          match cr_defer r with
          | Some d =>
              if negb (is_empty (df_cmd d)) then Ok (mk_cmd (df_cmd d) "" None true [] false)
              else if negb (is_empty (df_task d)) then Ok (mk_cmd "" (df_task d) None true [] (df_vars_time d))
              else Ok (mk_cmd "" "" None false [] false)
          | None =>
              if negb (is_empty (cr_task r)) then Ok (mk_cmd "" (cr_task r) (cr_for r) false [] (cr_vars_time r))
              else if negb (is_empty (cr_cmd r)) then Ok (mk_cmd (cr_cmd r) "" (cr_for r) false (cr_platforms r) false)
              else type_err
          end)
  | YSeq _ => type_err
  end.

(* --- ast/dep.go --- *)
Definition d_dep (n : ynode) : res dep :=
  match n with
  | YScalar _ _ | YNull => Ok {| dp_task := sval n; dp_for := None; dp_vars_time := false |}
  | YMap _ =>
      finish (d_struct
        [("task", fun a x => DOk {| dp_task := sval x; dp_for := dp_for a; dp_vars_time := dp_vars_time a |} (soft_str x));
         ("for", fun a x => dmap (fun f => {| dp_task := dp_task a; dp_for := f; dp_vars_time := dp_vars_time a |}) (d_ptr d_for x));
         ("vars", fun a x => dmap (fun t => {| dp_task := dp_task a; dp_for := dp_for a; dp_vars_time := t |}) (d_pvars x));
         ("silent", ign soft_bool)]
        {| dp_task := ""; dp_for := None; dp_vars_time := false |} n)
  | YSeq _ => type_err
  end.

(* --- ast/prompt.go --- *)
Definition d_prompt (n : ynode) : res unit :=
  match n with
  | YScalar _ _ | YNull => Ok tt
  | YSeq _ => if soft_strlist n then type_err else Ok tt
  | YMap _ => type_err
  end.

(* --- ast/output.go --- *)
Definition d_output (n : ynode) : res bool (* IsSet *) :=
  match n with
  | YScalar _ s => Ok (negb (is_empty s))
  | YNull => Ok false
  | YMap _ =>
      match finish (d_struct
              [("group", fun (acc : bool) x =>
                  match x with
                  | YNull => DOk false false
                  | _ => dmap (fun _ => true)
                           (d_struct [("begin", ign soft_str); ("end", ign soft_str);
                                      ("error_only", ign soft_bool)] tt x)
                  end)] false n) with
      | Ok true => Ok true
      | Ok false => type_err      (* output style must have the "group" key *)
      | Err c => Err c
      | Panic s => Panic s
      end
  | YSeq _ => type_err
  end.

(* --- ast/include.go --- *)
Definition inc_set_tf (i : include) (s : string) : include :=
  {| i_ns := i_ns i; i_taskfile := s; i_optional := i_optional i; i_advanced := i_advanced i; i_flatten := i_flatten i; i_vars_time := i_vars_time i; i_dir := i_dir i |}.
Definition inc_set_opt (i : include) (b : bool) : include :=
  {| i_ns := i_ns i; i_taskfile := i_taskfile i; i_optional := b; i_advanced := i_advanced i; i_flatten := i_flatten i; i_vars_time := i_vars_time i; i_dir := i_dir i |}.
Definition inc_set_flat (i : include) (b : bool) : include :=
  {| i_ns := i_ns i; i_taskfile := i_taskfile i; i_optional := i_optional i; i_advanced := i_advanced i; i_flatten := b; i_vars_time := i_vars_time i; i_dir := i_dir i |}.
Definition inc_set_ns (i : include) (s : string) : include :=
  {| i_ns := s; i_taskfile := i_taskfile i; i_optional := i_optional i; i_advanced := i_advanced i; i_flatten := i_flatten i; i_vars_time := i_vars_time i; i_dir := i_dir i |}.
Definition inc_set_vt (i : include) (b : bool) : include :=
  {| i_ns := i_ns i; i_taskfile := i_taskfile i; i_optional := i_optional i; i_advanced := i_advanced i; i_flatten := i_flatten i; i_vars_time := b; i_dir := i_dir i |}.
Definition inc_set_dir (i : include) (s : string) : include :=
  {| i_ns := i_ns i; i_taskfile := i_taskfile i; i_optional := i_optional i; i_advanced := i_advanced i; i_flatten := i_flatten i; i_vars_time := i_vars_time i; i_dir := s |}.
Definition include0 (adv : bool) : include :=
  {| i_ns := ""; i_taskfile := ""; i_optional := false; i_advanced := adv; i_flatten := false; i_vars_time := false; i_dir := "" |}.

(* the Go bool a bool-typed field holds after decoding *)
Definition bval (n : ynode) : bool :=
  match n with
  | YScalar TBool s => String.eqb s "true" || String.eqb s "True" || String.eqb s "TRUE"
  | YScalar TStr s => mem s ["y";"Y";"yes";"Yes";"YES";"on";"On";"ON"]
  | _ => false
  end.

Definition d_include (n : ynode) : res include :=
  match n with
  | YScalar _ _ | YNull => Ok (inc_set_tf (include0 false) (sval n))
  | YMap _ =>
      finish (d_struct
        [("taskfile", fun a x => DOk (inc_set_tf a (sval x)) (soft_str x));
         ("dir", fun a x => DOk (inc_set_dir a (sval x)) (soft_str x));
         ("optional", fun a x => DOk (inc_set_opt a (bval x)) (soft_bool x));
         ("internal", ign soft_bool);
         ("flatten", fun a x => DOk (inc_set_flat a (bval x)) (soft_bool x));
         ("aliases", ign soft_strlist); ("excludes", ign soft_strlist);
         ("vars", fun a x => dmap (inc_set_vt a) (d_pvars x))]
        (include0 true) n)
  | YSeq _ => type_err
  end.

Fixpoint d_include_pairs (kvs : list (ynode * ynode)) : res (list include) :=
  match kvs with
  | [] => Ok []
  | (k, x) :: r =>
      let one := match x with YNull => Ok (include0 false) | _ => d_include x end in
      rbind one (fun i => rbind (d_include_pairs r) (fun l => Ok (inc_set_ns i (node_value k) :: l)))
  end.

(* orderedmap.Set: a repeated namespace keeps its first position and takes the last value *)
Fixpoint inc_set (i : include) (l : list include) : list include :=
  match l with
  | [] => [i]
  | x :: r => if String.eqb (i_ns x) (i_ns i) then i :: r else x :: inc_set i r
  end.

Definition d_includes (n : ynode) : res (list include) :=
  match n with
  | YMap kvs => rbind (d_include_pairs kvs) (fun l => Ok (fold_left (fun acc i => inc_set i acc) l []))
  | _ => type_err
  end.

(* --- ast/task.go --- *)
Record task_raw := {
  tr_cmds : option (list (option cmd));
  tr_cmd : option cmd;
  tr_vt : bool; tr_et : bool;       (* vars: / env: hold a time.Time *)
  tr_task : task
}.

Definition task0 : task :=
  {| t_name := ""; t_cmds := []; t_deps := []; t_sources := []; t_generates := []; t_platforms := [];
     t_requires := []; t_preconds := []; t_status := false; t_internal := false; t_aliases := []; t_vars_time := false; t_env_time := false; t_dir := "" |}.

Definition upd (r : task_raw) (t : task) : task_raw :=
  {| tr_cmds := tr_cmds r; tr_cmd := tr_cmd r; tr_vt := tr_vt r; tr_et := tr_et r; tr_task := t |}.

Definition set_cmds (t : task) (x : list (option cmd)) : task :=
  {| t_name := t_name t; t_cmds := x; t_deps := t_deps t; t_sources := t_sources t; t_generates := t_generates t;
     t_platforms := t_platforms t; t_requires := t_requires t; t_preconds := t_preconds t; t_status := t_status t;
     t_internal := t_internal t; t_aliases := t_aliases t; t_vars_time := t_vars_time t; t_env_time := t_env_time t; t_dir := t_dir t |}.
Definition set_deps (t : task) (x : list (option dep)) : task :=
  {| t_name := t_name t; t_cmds := t_cmds t; t_deps := x; t_sources := t_sources t; t_generates := t_generates t;
     t_platforms := t_platforms t; t_requires := t_requires t; t_preconds := t_preconds t; t_status := t_status t;
     t_internal := t_internal t; t_aliases := t_aliases t; t_vars_time := t_vars_time t; t_env_time := t_env_time t; t_dir := t_dir t |}.
Definition set_sources (t : task) (x : list (option glob)) : task :=
  {| t_name := t_name t; t_cmds := t_cmds t; t_deps := t_deps t; t_sources := x; t_generates := t_generates t;
     t_platforms := t_platforms t; t_requires := t_requires t; t_preconds := t_preconds t; t_status := t_status t;
     t_internal := t_internal t; t_aliases := t_aliases t; t_vars_time := t_vars_time t; t_env_time := t_env_time t; t_dir := t_dir t |}.
Definition set_generates (t : task) (x : list (option glob)) : task :=
  {| t_name := t_name t; t_cmds := t_cmds t; t_deps := t_deps t; t_sources := t_sources t; t_generates := x;
     t_platforms := t_platforms t; t_requires := t_requires t; t_preconds := t_preconds t; t_status := t_status t;
     t_internal := t_internal t; t_aliases := t_aliases t; t_vars_time := t_vars_time t; t_env_time := t_env_time t; t_dir := t_dir t |}.
Definition set_platforms (t : task) (x : list (option platform)) : task :=
  {| t_name := t_name t; t_cmds := t_cmds t; t_deps := t_deps t; t_sources := t_sources t; t_generates := t_generates t;
     t_platforms := x; t_requires := t_requires t; t_preconds := t_preconds t; t_status := t_status t;
     t_internal := t_internal t; t_aliases := t_aliases t; t_vars_time := t_vars_time t; t_env_time := t_env_time t; t_dir := t_dir t |}.
Definition set_requires (t : task) (x : list (option reqvar)) : task :=
  {| t_name := t_name t; t_cmds := t_cmds t; t_deps := t_deps t; t_sources := t_sources t; t_generates := t_generates t;
     t_platforms := t_platforms t; t_requires := x; t_preconds := t_preconds t; t_status := t_status t;
     t_internal := t_internal t; t_aliases := t_aliases t; t_vars_time := t_vars_time t; t_env_time := t_env_time t; t_dir := t_dir t |}.
Definition set_preconds (t : task) (x : list (option unit)) : task :=
  {| t_name := t_name t; t_cmds := t_cmds t; t_deps := t_deps t; t_sources := t_sources t; t_generates := t_generates t;
     t_platforms := t_platforms t; t_requires := t_requires t; t_preconds := x; t_status := t_status t;
     t_internal := t_internal t; t_aliases := t_aliases t; t_vars_time := t_vars_time t; t_env_time := t_env_time t; t_dir := t_dir t |}.
Definition set_status (t : task) (x : bool) : task :=
  {| t_name := t_name t; t_cmds := t_cmds t; t_deps := t_deps t; t_sources := t_sources t; t_generates := t_generates t;
     t_platforms := t_platforms t; t_requires := t_requires t; t_preconds := t_preconds t; t_status := x;
     t_internal := t_internal t; t_aliases := t_aliases t; t_vars_time := t_vars_time t; t_env_time := t_env_time t; t_dir := t_dir t |}.
Definition set_internal (t : task) (x : bool) : task :=
  {| t_name := t_name t; t_cmds := t_cmds t; t_deps := t_deps t; t_sources := t_sources t; t_generates := t_generates t;
     t_platforms := t_platforms t; t_requires := t_requires t; t_preconds := t_preconds t; t_status := t_status t;
     t_internal := x; t_aliases := t_aliases t; t_vars_time := t_vars_time t; t_env_time := t_env_time t; t_dir := t_dir t |}.
Definition set_aliases (t : task) (x : list string) : task :=
  {| t_name := t_name t; t_cmds := t_cmds t; t_deps := t_deps t; t_sources := t_sources t; t_generates := t_generates t;
     t_platforms := t_platforms t; t_requires := t_requires t; t_preconds := t_preconds t; t_status := t_status t;
     t_internal := t_internal t; t_aliases := x; t_vars_time := t_vars_time t; t_env_time := t_env_time t; t_dir := t_dir t |}.
Definition set_name (t : task) (x : string) : task :=
  {| t_name := x; t_cmds := t_cmds t; t_deps := t_deps t; t_sources := t_sources t; t_generates := t_generates t;
     t_platforms := t_platforms t; t_requires := t_requires t; t_preconds := t_preconds t; t_status := t_status t;
     t_internal := t_internal t; t_aliases := t_aliases t; t_vars_time := t_vars_time t; t_env_time := t_env_time t; t_dir := t_dir t |}.
Definition set_vars_time (t : task) (x : bool) : task :=
  {| t_name := t_name t; t_cmds := t_cmds t; t_deps := t_deps t; t_sources := t_sources t; t_generates := t_generates t;
     t_platforms := t_platforms t; t_requires := t_requires t; t_preconds := t_preconds t; t_status := t_status t;
     t_internal := t_internal t; t_aliases := t_aliases t; t_vars_time := x; t_env_time := t_env_time t; t_dir := t_dir t |}.
Definition set_dir (t : task) (x : string) : task :=
  {| t_name := t_name t; t_cmds := t_cmds t; t_deps := t_deps t; t_sources := t_sources t; t_generates := t_generates t;
     t_platforms := t_platforms t; t_requires := t_requires t; t_preconds := t_preconds t; t_status := t_status t;
     t_internal := t_internal t; t_aliases := t_aliases t; t_vars_time := t_vars_time t; t_env_time := t_env_time t; t_dir := x |}.
Definition set_env_time (t : task) (x : bool) : task :=
  {| t_name := t_name t; t_cmds := t_cmds t; t_deps := t_deps t; t_sources := t_sources t; t_generates := t_generates t;
     t_platforms := t_platforms t; t_requires := t_requires t; t_preconds := t_preconds t; t_status := t_status t;
     t_internal := t_internal t; t_aliases := t_aliases t; t_vars_time := t_vars_time t; t_env_time := x; t_dir := t_dir t |}.

(* the Go []string a []string-typed field holds (null elements are dropped) *)
Definition slval (n : ynode) : list string :=
  match n with
  | YSeq l => flat_map (fun x => match x with YScalar _ s => [s] | _ => [] end) l
  | _ => []
  end.

Definition task_schema : schema task_raw :=
  [("cmds", fun r x => dmap (fun c => {| tr_cmds := c; tr_cmd := tr_cmd r; tr_vt := tr_vt r; tr_et := tr_et r; tr_task := tr_task r |}) (d_ptrlist d_cmd x));
   ("cmd", fun r x => dmap (fun c => {| tr_cmds := tr_cmds r; tr_cmd := c; tr_vt := tr_vt r; tr_et := tr_et r; tr_task := tr_task r |}) (d_ptr d_cmd x));
   ("deps", fun r x => dmap (fun l => upd r (set_deps (tr_task r) (olist l))) (d_ptrlist d_dep x));
   ("label", ign soft_str); ("desc", ign soft_str);
   ("prompt", fun r x => match x with YNull => DOk r false | _ => dmap (fun _ => r) (lift (d_prompt x)) end);
   ("summary", ign soft_str);
   ("aliases", fun r x => DOk (upd r (set_aliases (tr_task r) (slval x))) (soft_strlist x));
   ("sources", fun r x => dmap (fun l => upd r (set_sources (tr_task r) (olist l))) (d_ptrlist d_glob x));
   ("generates", fun r x => dmap (fun l => upd r (set_generates (tr_task r) (olist l))) (d_ptrlist d_glob x));
   ("status", fun r x => DOk (upd r (set_status (tr_task r) (match slval x with [] => false | _ => true end))) (soft_strlist x));
   ("preconditions", fun r x => dmap (fun l => upd r (set_preconds (tr_task r) (olist l))) (d_ptrlist d_precond x));
   ("dir", fun r x => DOk (upd r (set_dir (tr_task r) (sval x))) (soft_str x));
   ("set", ign soft_strlist); ("shopt", ign soft_strlist);
   ("vars", fun r x => dmap (fun t => {| tr_cmds := tr_cmds r; tr_cmd := tr_cmd r; tr_vt := t; tr_et := tr_et r; tr_task := tr_task r |}) (d_pvars x));
   ("env", fun r x => dmap (fun t => {| tr_cmds := tr_cmds r; tr_cmd := tr_cmd r; tr_vt := tr_vt r; tr_et := t; tr_task := tr_task r |}) (d_pvars x));
   ("dotenv", ign soft_strlist); ("silent", ign soft_bool); ("interactive", ign soft_bool);
   ("internal", fun r x => DOk (upd r (set_internal (tr_task r) (bval x))) (soft_bool x));
   ("method", ign soft_str); ("prefix", ign soft_str); ("ignore_error", ign soft_bool);
   ("run", ign soft_str);
   ("platforms", fun r x => dmap (fun l => upd r (set_platforms (tr_task r) (olist l))) (d_ptrlist d_platform x));
   ("requires", fun r x => dmap (fun l => upd r (set_requires (tr_task r) l)) (d_requires x));
   ("watch", ign soft_bool)].

Definition d_task (n : ynode) : res task :=
  match n with
  | YScalar _ _ | YNull => rbind (d_cmd n) (fun c => Ok (set_cmds task0 [Some c]))
  | YSeq l => rbind (finish (d_ptr_elems d_cmd l)) (fun cs => Ok (set_cmds task0 cs))
  | YMap _ =>
      rbind (finish (d_struct task_schema {| tr_cmds := None; tr_cmd := None; tr_vt := false; tr_et := false; tr_task := task0 |} n))
        (fun r =>
          let t := set_env_time (set_vars_time (tr_task r) (tr_vt r)) (tr_et r) in
          match tr_cmd r with
          | Some c =>
              if has_some (tr_cmds r) then type_err     (* task cannot have both cmd and cmds *)
              else Ok (set_cmds t [Some c])
          | None => Ok (set_cmds t (olist (tr_cmds r)))
          end)
  end.

(* --- ast/tasks.go: orderedmap.Set keeps the first position of a key --- *)
Fixpoint om_set (name : string) (t : task) (l : list task) : list task :=
  match l with
  | [] => [t]
  | x :: r => if String.eqb (t_name x) name then t :: r else x :: om_set name t r
  end.

Fixpoint d_task_pairs (kvs : list (ynode * ynode)) (acc : list task) : res (list task) :=
  match kvs with
  | [] => Ok acc
  | (k, x) :: r =>
      let one := match x with YNull => Ok task0 | _ => d_task x end in
      rbind one (fun t => d_task_pairs r (om_set (node_value k) (set_name t (node_value k)) acc))
  end.

Definition d_tasks (n : ynode) : res (list task) :=
  match n with
  | YMap kvs => d_task_pairs kvs []
  | _ => type_err
  end.

(* --- ast/taskfile.go --- *)
Record tf_raw := { tfr_vt : bool; tfr_et : bool; tfr_tf : taskfile }.

Definition tf0 : taskfile :=
  {| tf_has_version := false; tf_version := ""; tf_includes := []; tf_tasks := []; tf_output_set := false; tf_dotenv := false; tf_vars_time := false |}.

Definition soft_ver (n : ynode) : dres bool :=
  match n with
  | YNull => DOk false false
  | YScalar _ s => if o_ver o s then DOk true false else DErr code_decode  (* UnmarshalText error: fail() *)
  | YMap kvs => if dup_keys kvs then DOk true true else DOk true false     (* a struct without yaml fields *)
  | YSeq _ => DOk true true
  end.

Definition tfu (r : tf_raw) (t : taskfile) : tf_raw := {| tfr_vt := tfr_vt r; tfr_et := tfr_et r; tfr_tf := t |}.

Definition taskfile_schema : schema tf_raw :=
  [("version", fun r x => let a := tfr_tf r in
      dmap (fun b => tfu r {| tf_has_version := b; tf_version := sval x; tf_includes := tf_includes a; tf_tasks := tf_tasks a;
                             tf_output_set := tf_output_set a; tf_dotenv := tf_dotenv a; tf_vars_time := false |}) (soft_ver x));
   ("output", fun r x => let a := tfr_tf r in
      match x with
      | YNull => DOk r false
      | _ => dmap (fun b => tfu r {| tf_has_version := tf_has_version a; tf_version := tf_version a; tf_includes := tf_includes a;
                                    tf_tasks := tf_tasks a; tf_output_set := b; tf_dotenv := tf_dotenv a; tf_vars_time := false |})
                  (lift (d_output x))
      end);
   ("method", ign soft_str);
   ("includes", fun r x => let a := tfr_tf r in
      dmap (fun l => tfu r {| tf_has_version := tf_has_version a; tf_version := tf_version a;
                             tf_includes := match l with Some l => l | None => [] end;
                             tf_tasks := tf_tasks a; tf_output_set := tf_output_set a; tf_dotenv := tf_dotenv a; tf_vars_time := false |})
           (d_ptr d_includes x));
   ("set", ign soft_strlist); ("shopt", ign soft_strlist);
   ("vars", fun r x => dmap (fun t => {| tfr_vt := t; tfr_et := tfr_et r; tfr_tf := tfr_tf r |}) (d_pvars x));
   ("env", fun r x => dmap (fun t => {| tfr_vt := tfr_vt r; tfr_et := t; tfr_tf := tfr_tf r |}) (d_pvars x));
   ("tasks", fun r x => let a := tfr_tf r in
      dmap (fun l => tfu r {| tf_has_version := tf_has_version a; tf_version := tf_version a; tf_includes := tf_includes a;
                             tf_tasks := match l with Some l => l | None => [] end;
                             tf_output_set := tf_output_set a; tf_dotenv := tf_dotenv a; tf_vars_time := false |})
           (d_ptr d_tasks x));
   ("silent", ign soft_bool);
   ("dotenv", fun r x => let a := tfr_tf r in
      DOk (tfu r {| tf_has_version := tf_has_version a; tf_version := tf_version a; tf_includes := tf_includes a; tf_tasks := tf_tasks a;
                   tf_output_set := tf_output_set a;
                   tf_dotenv := match slval x with [] => false | _ => true end; tf_vars_time := false |}) (soft_strlist x));
   ("run", ign soft_str);
   ("interval", ign (soft_dur o))].

(* yaml.Unmarshal(b, &tf) followed by reader.go's version check *)
Definition decode_taskfile (n : ynode) : res taskfile :=
  match n with
  | YNull => Err code_version
  | YMap _ =>
      rbind (finish (d_struct taskfile_schema {| tfr_vt := false; tfr_et := false; tfr_tf := tf0 |} n))
        (fun r =>
          let a := tfr_tf r in
          if tf_has_version a
          then Ok {| tf_has_version := true; tf_version := tf_version a; tf_includes := tf_includes a; tf_tasks := tf_tasks a;
                     tf_output_set := tf_output_set a; tf_dotenv := tf_dotenv a; tf_vars_time := tfr_vt r || tfr_et r |}
          else Err code_version)
  | _ => type_err
  end.

End Decoders.

(* ------------------------------------------------------------------ *)
(** * Consumers of the decoded tree (compile / run-time guards)         *)

Section Consumers.
Variable v : variant.
Variable o : oracles.
Variables goos goarch : string.

(* templater.ReplaceGlobs: range over the slice, dereference each element *)
Fixpoint replace_globs (l : list (option glob)) : res (list glob) :=
  match l with
  | [] => Ok []
  | None :: r => if g_glob_nil v then replace_globs r else Panic SGlobNil
  | Some g :: r =>
      match replace_globs r with
      | Ok gs => Ok (g :: gs)
      | e => e
      end
  end.

Definition platform_matches (p : platform) : bool :=
  (is_empty (p_os p) || String.eqb (p_os p) goos) && (is_empty (p_arch p) || String.eqb (p_arch p) goarch).

(* task.go: shouldRunOnCurrentPlatform *)
Fixpoint platform_loop (l : list (option platform)) : res bool :=
  match l with
  | [] => Ok false
  | None :: r => if g_platform_nil v then platform_loop r else Panic SPlatformNil
  | Some p :: r => if platform_matches p then Ok true else platform_loop r
  end.

Definition should_run (l : list (option platform)) : res bool :=
  match l with [] => Ok true | _ => platform_loop l end.

(* requires.go: areTaskRequiredVarsSet / areTaskRequiredVarsAllowedValuesSet *)
Fixpoint requires_loop (l : list (option reqvar)) : res unit :=
  match l with
  | [] => Ok tt
  | None :: r => if g_requires_nil v then requires_loop r else Panic SRequiresNil
  | Some _ :: r => requires_loop r
  end.

(* ast/task.go: WildcardMatch compiles a pattern built from the task's own name *)
Definition wildcard_compile (name : string) : res bool (* compiled? *) :=
  let valid := if g_wc_quote v then o_wc_quoted o name else o_wc_raw o name in
  if valid then Ok true
  else if g_wc_must v then Panic SWildcard
  else Ok false.

(* task.go: FindMatchingTasks for a name without an exact match: every task is tried *)
Fixpoint wildcard_scan (tbl : list task) : res unit :=
  match tbl with
  | [] => Ok tt
  | t :: r =>
      match wildcard_compile (t_name t) with
      | Ok _ => wildcard_scan r
      | Err c => Err c
      | Panic s => Panic s
      end
  end.

Definition find_task (tbl : list task) (name : string) : option task :=
  find (fun t => String.eqb (t_name t) name) tbl.

Definition get_task (tbl : list task) (name : string) : res (option task) :=
  match find_task tbl name with
  | Some t => Ok (Some t)
  | None =>
      match wildcard_scan tbl with
      | Ok _ => Ok None        (* a wildcard match, an alias, or TaskNotFoundError: no panic either way *)
      | Err c => Err c
      | Panic s => Panic s
      end
  end.

(* variables.go: compiledTask up to the command loop: getVariables walks every
   variable through templater.ReplaceVar (deepcopy.TraverseStringsFunc), then
   ReplaceGlobs on sources and generates.  [gvt]: the Taskfile's vars/env hold a time.Time *)
(* execext.ExpandLiteral: "" is returned as it is; otherwise the escaped string is parsed
   into shell words (third party: oracle) and the FIRST word is expanded.  A string that is
   only a comment or only blanks has no word at all. *)
Definition expand_literal (s : string) : res string :=
  if is_empty s then Ok ""
  else match o_words o s with
       | None => Err code_unknown
       | Some 0 => if g_expand_literal_len v then Ok "" else Panic SExpandLiteral
       | Some _ => Ok s
       end.

Definition traverse (holds_time : bool) : res unit :=
  if holds_time && negb (g_traverse_struct v) then Panic STraverseStruct else Ok tt.

(* Cmd/Dep.DeepCopy -> For.DeepCopy -> Matrix.DeepCopy -> deepcopy.OrderedMap(matrix.om) *)
Definition for_deepcopy (f : forinfo) : res unit :=
  match f with
  | Some true => if g_omap_nil v then Ok tt else Panic SMatrixNilMap
  | _ => Ok tt
  end.

Definition compile_task (gvt : bool) (t : task) : res unit :=
  match traverse (gvt || t_vars_time t) with
  | Ok _ =>
      match replace_globs (t_sources t) with
      | Ok _ =>
          match replace_globs (t_generates t) with
          | Ok _ =>
              match expand_literal (t_dir t) with      (* new.Dir, err = execext.ExpandLiteral(new.Dir) *)
              | Ok _ => traverse (t_env_time t)        (* new.Env: templater.ReplaceVars(origTask.Env) *)
              | Err c => Err c
              | Panic s => Panic s
              end
          | Err c => Err c
          | Panic s => Panic s
          end
      | Err c => Err c
      | Panic s => Panic s
      end
  | e => e
  end.

(* --- what can panic, in the order the probes of the harness reach it ---
   An event is (site, certain): certain = no diagnosed error can come first. *)
Definition ev := (site * bool)%type.

Definition ev_of {A} (r : res A) (certain : bool) : list ev :=
  match r with Panic s => [(s, certain)] | _ => [] end.

Definition is_panic {A} (r : res A) : bool := match r with Panic _ => true | _ => false end.

Definition has_for (t : task) : bool :=
  existsb (fun c => match c with Some c => has_some (c_for c) | None => false end) (t_cmds t)
  || existsb (fun d => match d with Some d => has_some (dp_for d) | None => false end) (t_deps t).

Definition is_nil {A} (l : list A) : bool := match l with [] => true | _ => false end.

(* the command and dependency loops of compiledTask: a loop (for:) expands to a
   number of copies that depends on variables, and can fail: everything it does,
   and everything after it, is only possible *)
Fixpoint cmd_loop_events (l : list (option cmd)) (c : bool) : list ev * bool :=
  match l with
  | [] => ([], c)
  | None :: r => cmd_loop_events r c
  | Some x :: r =>
      if has_some (c_for x) then
        let '(evs, c') := cmd_loop_events r false in
        (ev_of (for_deepcopy (c_for x)) false ++ ev_of (traverse (c_vars_time x)) false ++ evs, c')
      else if c_defer x then cmd_loop_events r c
      else
        match traverse (c_vars_time x) with
        | Panic s => ([(s, c)], c)
        | _ => cmd_loop_events r c
        end
  end.

Fixpoint dep_loop_events (l : list (option dep)) (c : bool) : list ev * bool :=
  match l with
  | [] => ([], c)
  | None :: r => dep_loop_events r c
  | Some x :: r =>
      if has_some (dp_for x) then
        let '(evs, c') := dep_loop_events r false in
        (ev_of (for_deepcopy (dp_for x)) false ++ ev_of (traverse (dp_vars_time x)) false ++ evs, c')
      else
        match traverse (dp_vars_time x) with
        | Panic s => ([(s, c)], c)
        | _ => dep_loop_events r c
        end
  end.

Definition compile_events (gvt : bool) (t : task) (certain : bool) : list ev :=
  match compile_task gvt t with
  | Panic s => [(s, certain)]
  | Err _ => []
  | Ok _ =>
      let '(e1, c1) := cmd_loop_events (t_cmds t) certain in
      let '(e2, _) := dep_loop_events (t_deps t) c1 in
      e1 ++ e2
  end.

(* the command loop of RunTask under --dry; [callee name vars_hold_time] = what running that task can do *)
Fixpoint run_cmds (callee : string -> bool -> list ev) (l : list (option cmd)) (c : bool) : list ev :=
  match l with
  | [] => []
  | None :: r => run_cmds callee r c
  | Some x :: r =>
      if c_defer x then
        (if is_empty (c_task x) then ev_of (should_run (c_platforms x)) false else callee (c_task x) (c_vars_time x))
        ++ run_cmds callee r c
      else if negb (is_empty (c_task x)) then callee (c_task x) false ++ run_cmds callee r false
      else if negb (is_empty (c_cmd x)) then
        match should_run (c_platforms x) with
        | Panic s => [(s, c)]
        | _ => run_cmds callee r c
        end
      else run_cmds callee r c
  end.

(* Executor.RunTask under --dry *)
Fixpoint run_events (fuel : nat) (tbl : list task) (t : task) (certain : bool) : list ev :=
  match fuel with
  | 0 => []
  | S f =>
      match expand_literal (t_dir t), should_run (t_platforms t) with
      | Err _, _ | Panic _, _ => []        (* FastCompiledTask does not return a task (the compile probe reports the panic) *)
      | _, Panic s => [(s, certain)]
      | _, Err _ | _, Ok false => []
      | _, Ok true =>
          match requires_loop (t_requires t) with
          | Panic s => [(s, certain)]
          | _ =>
              let c1 := certain && is_nil (t_requires t) && negb (has_for t) in
              let callee name (vt : bool) :=
                ev_of (traverse vt) false ++
                match find_task tbl name with
                | Some t' => run_events f tbl t' false
                | None => ev_of (wildcard_scan tbl) false     (* FindMatchingTasks tries every task as a pattern *)
                end in
              let dep_evs := flat_map (fun d => match d with Some d => callee (dp_task d) false | None => [] end) (t_deps t) in
              let c2 := c1 && is_nil (t_deps t) && is_nil (t_preconds t) && negb (t_status t)
                        && is_nil (t_sources t) && is_nil (t_generates t) in
              dep_evs ++ run_cmds callee (t_cmds t) c2
          end
      end
  end.

(* all probes on one merged table: compile every task, look up the extra
   names, then run every non-internal task *)
Definition table_events (gvt : bool) (tbl : list task) (requested : list string) (certain : bool) : list ev :=
  flat_map (fun t => compile_events gvt t certain) tbl
  ++ flat_map (fun r => ev_of (get_task tbl r) certain) requested
  ++ flat_map (fun t => if t_internal t then [] else run_events (S (List.length tbl)) tbl t certain) tbl.

(* Task.DeepCopy: deepcopy.Slice calls DeepCopy on every element of cmds, deps, sources,
   generates, preconditions, platforms (and Requires.DeepCopy on vars), nil ones included *)
Definition has_nil_elem {A} (l : list (option A)) : bool := existsb (fun x => negb (has_some x)) l.

Definition task_has_nil_elem (t : task) : bool :=
  has_nil_elem (t_cmds t) || has_nil_elem (t_deps t) || has_nil_elem (t_sources t) || has_nil_elem (t_generates t)
  || has_nil_elem (t_preconds t) || has_nil_elem (t_platforms t) || has_nil_elem (t_requires t)
  || existsb (fun c => match c with Some c => has_nil_elem (c_platforms c) | None => false end) (t_cmds t).

Definition slice_deepcopy (t : task) : res unit :=
  if task_has_nil_elem t && negb (g_deepcopy_nil v) then Panic SDeepCopyNil else Ok tt.

(* Tasks.Merge deep-copies every task of an included file *)
Definition merge_events (t : task) : list ev :=
  ev_of (slice_deepcopy t) false ++
  flat_map (fun c => match c with Some c => ev_of (for_deepcopy (c_for c)) false | None => [] end) (t_cmds t)
  ++ flat_map (fun d => match d with Some d => ev_of (for_deepcopy (dp_for d)) false | None => [] end) (t_deps t).

End Consumers.

(* ------------------------------------------------------------------ *)
(** * NewSnippet: the two slice expressions                             *)

Local Open Scope Z_scope.

(* returns (lo, hi) of lines[lo:hi], applied to both linesRaw (n_raw elements)
   and linesHighlighted (n_hl elements) *)
Definition snippet_bounds (clamp : bool) (line pad : Z) (n_raw n_hl : N) : res (Z * Z) :=
  let nr := Z.of_N n_raw in let nh := Z.of_N n_hl in
  if clamp then
    let e := Z.max (Z.min (Z.min (line + pad) (nr - 1)) nh) 0 in
    let s := Z.min (Z.max (line - pad) 1) (e + 1) in
    if (0 <=? s - 1) && (s - 1 <=? e) && (e <=? nr) && (e <=? nh) then Ok (s - 1, e) else Panic SSnippet
  else
    let s := Z.max (line - pad) 1 in
    let e := Z.min (line + pad) (nr - 1) in
    if (0 <=? s - 1) && (s - 1 <=? e) && (e <=? nr) && (e <=? nh) then Ok (s - 1, e) else Panic SSnippet.

Local Close Scope Z_scope.

(* ------------------------------------------------------------------ *)
(** * Include locations: node.go getScheme / NewNode, node_git.go       *)

(* strings.Split(path, "//"): x[0], x[1] *)
Definition git_split (guard : bool) (path : string) : res (string * string) :=
  match str_cut "//" path with
  | None => if guard then Err code_unknown else Panic SGitSplit
  | Some (x0, rest) =>
      match str_cut "//" rest with
      | Some (x1, _) => Ok (x0, x1)
      | None => Ok (x0, rest)
      end
  end.

Inductive nodekind := NGit | NHttp | NFile | NBad.

Definition get_scheme (o : oracles) (loc : string) : nodekind :=
  match o_giturl o loc with
  | None => NBad
  | Some (sch, path) =>
      let x0 := match str_cut "//" path with Some (b, _) => b | None => path end in
      if str_suffix ".git" x0 && mem sch ["git"; "ssh"; "https"; "http"] then NGit
      else match str_cut "://" loc with
           | Some (b, _) => if mem b ["http"; "https"] then NHttp else NFile
           | None => NFile
           end
  end.

(* FileNode.ResolveEntrypoint leaves these untouched; everything else is a path in the Taskfile's directory *)
Definition is_remote_looking (loc : string) : bool := str_contains "://" loc || str_prefix "git" loc.

Inductive nnode := NNLocal (name : string) | NNErr | NNPanic (s : site).

Definition root_name : string := "Taskfile.yml".

(* NewNode on an include's (already templated) taskfile string; remote taskfiles
   are an experiment that is off, so a well-formed remote location is an error *)
Definition new_node (v : variant) (o : oracles) (loc : string) : nnode :=
  if is_remote_looking loc then
    match get_scheme o loc with
    | NGit =>
        match o_giturl o loc with
        | Some (_, path) =>
            match git_split (g_git_len v) path with
            | Panic s => NNPanic s
            | _ => NNErr
            end
        | None => NNErr
        end
    | _ => NNErr
    end
  else NNLocal (if is_empty loc then root_name else loc).

(* ------------------------------------------------------------------ *)
(** * Reader.include: depth-first walk over the include graph           *)

Inductive rres :=
| ROutOfFuel
| RDone (vis : list string) (tfs : list taskfile)
| RErr (c : N)
| RPanic (s : site).

Section Reader.
Variable v : variant.
Variable o : oracles.
Variable fs : list (string * ynode).     (* location -> node tree of that file *)

(* the includes of one file are processed on one goroutine each: a panic on any
   of them ends the process whatever the others return *)
(* node.ResolveEntrypoint(include.Taskfile) then node.ResolveDir(include.Dir): a local
   location and the dir go through execext.ExpandLiteral; an error is returned whatever
   optional: says *)
Definition resolve_include (i : include) : res string :=
  match (if is_remote_looking (i_taskfile i) then Ok (i_taskfile i) else expand_literal v o (i_taskfile i)) with
  | Ok ep =>
      match expand_literal v o (i_dir i) with
      | Ok _ => Ok ep
      | Err c => Err c
      | Panic s => Panic s
      end
  | Err c => Err c
  | Panic s => Panic s
  end.

Definition include_panic (i : include) : option site :=
  if i_vars_time i && negb (g_traverse_struct v) then Some STraverseStruct   (* templater.ReplaceVars(include.Vars) *)
  else match resolve_include i with
       | Panic s => Some s
       | Err _ => None
       | Ok ep => match new_node v o ep with NNPanic s => Some s | _ => None end
       end.

Fixpoint first_panic (l : list include) : option site :=
  match l with
  | [] => None
  | i :: r => match include_panic i with Some s => Some s | None => first_panic r end
  end.

Fixpoint read_includes (rec : list string -> list string -> list taskfile -> string -> rres)
         (stack vis : list string) (tfs : list taskfile) (incs : list include) : rres :=
  match incs with
  | [] => RDone vis tfs
  | i :: r =>
      if i_vars_time i && negb (g_traverse_struct v) then RPanic STraverseStruct   (* templater.ReplaceVars(include.Vars) *)
      else
      match resolve_include i with
      | Panic s => RPanic s
      | Err c => RErr c
      | Ok ep =>
      match new_node v o ep with
      | NNPanic s => RPanic s
      | NNErr => if i_optional i then read_includes rec stack vis tfs r else RErr code_unknown
      | NNLocal loc =>
          match lookup loc fs with
          | None => if i_optional i then read_includes rec stack vis tfs r else RErr code_not_found
          | Some _ =>
              if mem loc stack then RErr code_cycle
              else match rec stack vis tfs loc with
                   | RDone vis' tfs' => read_includes rec stack vis' tfs' r
                   | e => e
                   end
          end
      end
      end
  end.

Fixpoint read_file (fuel : nat) (stack vis : list string) (tfs : list taskfile) (loc : string) : rres :=
  match fuel with
  | 0 => ROutOfFuel
  | S f =>
      if mem loc vis then RDone vis tfs       (* AddVertex: ErrVertexAlreadyExists *)
      else
        match lookup loc fs with
        | None => RErr code_not_found
        | Some n =>
            match decode_taskfile v o n with
            | Panic s => RPanic s
            | Err c => RErr c
            | Ok tf =>
                match first_panic (tf_includes tf) with
                | Some s => RPanic s
                | None => read_includes (read_file f) (loc :: stack) (loc :: vis) (tf :: tfs) (tf_includes tf)
                end
            end
        end
  end.

Definition read (fuel : nat) : rres := read_file fuel [] [] [] root_name.

End Reader.

(* ------------------------------------------------------------------ *)
(** * Outcome of one document, and the monitor of C16                    *)

Inductive outcome := OOk | OErr (c : N) | OPanic (s : site) | OTimeout.

(* the property: no panic, no hang, and a documented exit code *)
Definition mon_C16 (documented : N -> bool) (x : outcome) : bool :=
  match x with
  | OOk => true
  | OErr c => documented c
  | OPanic _ => false
  | OTimeout => false
  end.

Record prediction := {
  pr_must : list site;           (* non-empty: a panic at one of must ++ may is certain *)
  pr_may : list site;            (* panics that are possible, depending on unmodelled verdicts *)
  pr_exact : option outcome      (* the outcome, when there is no panic and the model determines it *)
}.

Definition certain_sites (l : list (site * bool)) : list site := map fst (filter snd l).
Definition possible_sites (l : list (site * bool)) : list site := map fst (filter (fun e => negb (snd e)) l).

Record docenv := {
  de_goos : string; de_goarch : string;
  de_files : list (string * ynode);       (* the files next to the root Taskfile, root included *)
  de_requested : list string;             (* extra task names looked up *)
  de_snip : (Z * N * N)%type              (* line of the root file's decode error, len(linesRaw), len(linesHighlighted) *)
}.

Definition plain_setup (tf : taskfile) : bool :=
  String.eqb (tf_version tf) "3" && is_nil (tf_includes tf) && negb (tf_output_set tf) && negb (tf_dotenv tf).

(* what Setup + compile + list + dry-run of every task do with this document *)
Definition predict (v : variant) (o : oracles) (e : docenv) : prediction :=
  let none := {| pr_must := []; pr_may := []; pr_exact := None |} in
  match lookup root_name (de_files e) with
  | None => none
  | Some root =>
      match decode_taskfile v o root with
      | Panic s => {| pr_must := [s]; pr_may := []; pr_exact := None |}
      | Err c =>
          let '(line, nr, nh) := de_snip e in
          if N.eqb c code_decode then
            match snippet_bounds (g_snippet_clamp v) line 2 nr nh with
            | Panic s => {| pr_must := [s]; pr_may := []; pr_exact := None |}
            | _ => {| pr_must := []; pr_may := []; pr_exact := Some (OErr c) |}
            end
          else {| pr_must := []; pr_may := []; pr_exact := Some (OErr c) |}
      | Ok tf =>
          match read v o (de_files e) (S (List.length (de_files e))) with
          | RPanic s => {| pr_must := [s]; pr_may := []; pr_exact := None |}
          | RErr _ | ROutOfFuel => none
          | RDone _ tfs =>
              let certain := plain_setup tf in
              let tbl := if certain then tf_tasks tf else flat_map tf_tasks tfs in
              let gvt := existsb tf_vars_time tfs in
              (* names that exist only after merging: namespace:task (over-approximated) *)
              let nss := flat_map (fun f => map i_ns (tf_includes f)) tfs in
              let merged := flat_map (fun ns => map (fun t => (ns ++ ":" ++ t_name t)%string) tbl) nss in
              let evs := table_events v o (de_goos e) (de_goarch e) gvt tbl (de_requested e) certain
                         ++ (if certain then []
                             else flat_map (merge_events v) tbl
                                  ++ flat_map (fun n => ev_of (wildcard_compile v o n) false) merged) in
              {| pr_must := certain_sites evs; pr_may := possible_sites evs;
                 pr_exact := if certain && is_nil evs then Some OOk else None |}
          end
      end
  end.

Definition outcome_eqb (a b : outcome) : bool :=
  match a, b with
  | OOk, OOk | OTimeout, OTimeout => true
  | OErr c, OErr d => N.eqb c d
  | OPanic s, OPanic t => site_eqb s t
  | _, _ => false
  end.

(* does the implementation's observed outcome fit the prediction *)
Definition agrees (p : prediction) (x : outcome) : bool :=
  match x with
  | OPanic s => existsb (site_eqb s) (pr_must p ++ pr_may p)
  | OTimeout => false
  | _ => is_nil (pr_must p)
         && match pr_exact p with Some y => outcome_eqb x y | None => true end
  end.
