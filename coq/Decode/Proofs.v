(* Proofs about the decoders of model I: a panic while decoding can only be the
   empty-mapping variable of ast/var.go, only when the length check is missing,
   and only when the document holds an empty mapping. *)
From Coq Require Import List String NArith ZArith Bool Arith Lia.
Import ListNotations.
From TV Require Import Decode.Model.
Local Open Scope string_scope.
Local Open Scope list_scope.

(* ---------- an induction principle for node trees (children via Forall) ---------- *)
Section YInd.
  Variable P : ynode -> Prop.
  Hypothesis Hnull : P YNull.
  Hypothesis Hscalar : forall t s, P (YScalar t s).
  Hypothesis Hseq : forall l, Forall P l -> P (YSeq l).
  Hypothesis Hmap : forall kvs, Forall (fun kv => P (fst kv) /\ P (snd kv)) kvs -> P (YMap kvs).

  Fixpoint ynode_ind' (n : ynode) : P n :=
    match n with
    | YNull => Hnull
    | YScalar t s => Hscalar t s
    | YSeq l =>
        Hseq l ((fix go (l : list ynode) : Forall P l :=
                   match l with
                   | [] => Forall_nil _
                   | x :: r => Forall_cons x (ynode_ind' x) (go r)
                   end) l)
    | YMap kvs =>
        Hmap kvs ((fix go (l : list (ynode * ynode)) : Forall (fun kv => P (fst kv) /\ P (snd kv)) l :=
                     match l with
                     | [] => Forall_nil _
                     | kv :: r => Forall_cons kv (conj (ynode_ind' (fst kv)) (ynode_ind' (snd kv))) (go r)
                     end) kvs)
    end.
End YInd.

(* does the tree hold a timestamp scalar / an empty mapping *)
Fixpoint has_time (n : ynode) : bool :=
  match n with
  | YScalar TTime _ => true
  | YSeq l => existsb has_time l
  | YMap kvs => existsb (fun kv => has_time (fst kv) || has_time (snd kv)) kvs
  | _ => false
  end.

Fixpoint hem (n : ynode) : bool :=
  match n with
  | YMap [] => true
  | YMap kvs => existsb (fun kv => hem (fst kv) || hem (snd kv)) kvs
  | YSeq l => existsb hem l
  | _ => false
  end.

(* a value without a timestamp scalar never decodes to something holding a time.Time *)
Lemma dec_any_no_time : forall n, has_time n = false -> forall s t, dec_any n = AGood s t -> t = false.
Proof.
  induction n as [ | tg sv | l IH | kvs IH ] using ynode_ind'; intros Hn s t Hd.
  - cbn in Hd. inversion Hd; reflexivity.
  - destruct tg; cbn in Hn, Hd; try discriminate; inversion Hd; reflexivity.
  - cbn in Hn, Hd. revert s t Hd. induction l as [ | x r IHr ]; intros s t Hd.
    + cbn in Hd. inversion Hd; reflexivity.
    + cbn in Hn, Hd. apply orb_false_iff in Hn as [Hx Hr].
      inversion IH as [ | ? ? IHx IHrest ]; subst.
      destruct (dec_any x) as [sx tx | ] eqn:Ex; [ | discriminate ].
      destruct (fold_right (fun x0 acc => acomb (dec_any x0) acc) (AGood false false) r) as [sr tr | ] eqn:Er; [ | discriminate ].
      cbn in Hd. inversion Hd; subst.
      rewrite (IHx Hx _ _ eq_refl), (IHr IHrest Hr _ _ eq_refl). reflexivity.
  - cbn in Hn, Hd. destruct (dup_keys kvs); [ inversion Hd; reflexivity | ].
    revert s t Hd. induction kvs as [ | [k x] r IHr ]; intros s t Hd.
    + cbn in Hd. inversion Hd; reflexivity.
    + cbn in Hn, Hd. apply orb_false_iff in Hn as [Hkx Hr]. apply orb_false_iff in Hkx as [Hk Hx].
      inversion IH as [ | ? ? [IHk IHx] IHrest ]; subst. cbn in IHk, IHx.
      destruct k; try discriminate.
      * destruct (dec_any x) as [sx tx | ] eqn:Ex; [ | discriminate ].
        destruct (fold_right _ (AGood false false) r) as [sr tr | ] eqn:Er; [ | discriminate ].
        cbn in Hd. inversion Hd; subst.
        rewrite (IHx Hx _ _ eq_refl), (IHr IHrest Hr _ _ eq_refl). reflexivity.
      * destruct (dec_any x) as [sx tx | ] eqn:Ex; [ | discriminate ].
        destruct (fold_right _ (AGood false false) r) as [sr tr | ] eqn:Er; [ | discriminate ].
        cbn in Hd. inversion Hd; subst.
        rewrite (IHx Hx _ _ eq_refl), (IHr IHrest Hr _ _ eq_refl). reflexivity.
Qed.

(* ---------- the monad-ish combinators ---------- *)
Lemma dmap_panic : forall A B (f : A -> B) r s, dmap f r = DPanic s -> r = DPanic s.
Proof. intros A B f [a sf | c | p] s H; cbn in H; congruence. Qed.

Lemma lift_panic : forall A (r : res A) s, lift r = DPanic s -> r = Panic s.
Proof. intros A [a | c | p] s H; cbn in H; congruence. Qed.

Lemma finish_panic : forall A (r : dres A) s, finish r = Panic s -> r = DPanic s.
Proof. intros A [a [ | ] | c | p] s H; cbn in H; congruence. Qed.

Lemma rbind_panic : forall A B (r : res A) (f : A -> res B) s,
  rbind r f = Panic s -> r = Panic s \/ exists a, r = Ok a /\ f a = Panic s.
Proof. intros A B [a | c | p] f s H; cbn in H; [ right; eauto | discriminate | left; congruence ]. Qed.

Lemma d_any_no_panic : forall n s, d_any n <> DPanic s.
Proof. intros n s. unfold d_any. destruct (dec_any n); discriminate. Qed.


(* ---------- generic facts about the decoding combinators, for any predicate Q
   "a panic below node x at site s is explained" that is inherited by parents ---------- *)
Section Generic.
Variable Q : ynode -> site -> Prop.
Hypothesis Q_map_in : forall kvs k x s, In (k, x) kvs -> Q x s -> Q (YMap kvs) s.
Hypothesis Q_seq_in : forall l x s, In x l -> Q x s -> Q (YSeq l) s.

Definition hsafe {A} (h : handler A) : Prop := forall acc x s, h acc x = DPanic s -> Q x s.
Definition ssafe {A} (sch : schema A) : Prop := forall name h, lookup name sch = Some h -> hsafe h.
Definition dsafe {A} (d : ynode -> res A) : Prop := forall x s, d x = Panic s -> Q x s.

Lemma ssafe_nil : forall A, @ssafe A [].
Proof. intros A name h H. discriminate. Qed.

Lemma ssafe_cons : forall A name (h : handler A) r, hsafe h -> ssafe r -> ssafe ((name, h) :: r).
Proof.
  intros A name h r Hh Hr n h' H. cbn in H. destruct (String.eqb n name).
  - inversion H; subst; exact Hh.
  - eapply Hr; eauto.
Qed.

Lemma hsafe_ign : forall A f, hsafe (@ign A f).
Proof. intros A f acc x s H. discriminate. Qed.

Lemma fields_Q : forall A (sch : schema A), ssafe sch ->
  forall kvs acc soft s, fields sch kvs acc soft = DPanic s -> exists k x, In (k, x) kvs /\ Q x s.
Proof.
  intros A sch Hs. induction kvs as [ | [k x] r IH ]; intros acc soft s H.
  - discriminate.
  - cbn in H. destruct k as [ | tg name | l | m ].
    + apply IH in H as (k' & x' & Hin & HQ). exists k', x'. split; [ right | ]; assumption.
    + destruct (lookup name sch) as [h | ] eqn:El.
      * destruct (h acc x) as [acc' s' | c | p] eqn:Eh.
        -- apply IH in H as (k' & x' & Hin & HQ). exists k', x'. split; [ right | ]; assumption.
        -- discriminate.
        -- inversion H; subst. exists (YScalar tg name), x. split; [ left; reflexivity | ].
           eapply Hs; eauto.
      * apply IH in H as (k' & x' & Hin & HQ). exists k', x'. split; [ right | ]; assumption.
    + apply IH in H as (k' & x' & Hin & HQ). exists k', x'. split; [ right | ]; assumption.
    + apply IH in H as (k' & x' & Hin & HQ). exists k', x'. split; [ right | ]; assumption.
Qed.

Lemma d_struct_Q : forall A (sch : schema A) init n s, ssafe sch -> d_struct sch init n = DPanic s -> Q n s.
Proof.
  intros A sch init n s Hs H. destruct n as [ | tg sv | l | kvs ]; cbn in H; try discriminate.
  destruct (dup_keys kvs); [ discriminate | ].
  apply fields_Q in H as (k & x & Hin & HQ); [ | assumption ]. eapply Q_map_in; eauto.
Qed.

Lemma d_ptr_Q : forall A (d : ynode -> res A) n s, dsafe d -> d_ptr d n = DPanic s -> Q n s.
Proof.
  intros A d n s Hd H. destruct n; cbn in H; try discriminate;
    apply dmap_panic, lift_panic in H; apply Hd in H; exact H.
Qed.

Lemma d_ptr_elems_Q : forall A (d : ynode -> res A), dsafe d ->
  forall l s, d_ptr_elems d l = DPanic s -> exists x, In x l /\ Q x s.
Proof.
  intros A d Hd. induction l as [ | x r IH ]; intros s H; [ discriminate | ].
  assert (Hrest : forall f : list (option A) -> list (option A), dmap f (d_ptr_elems d r) = DPanic s -> exists y, In y (x :: r) /\ Q y s).
  { intros f Hf. apply dmap_panic, IH in Hf as (y & Hin & HQ). exists y. split; [ right | ]; assumption. }
  assert (Hone : match d x with
                 | Ok a => dmap (cons (Some a)) (d_ptr_elems d r)
                 | Err c => DErr c
                 | Panic s0 => DPanic s0
                 end = DPanic s -> exists y, In y (x :: r) /\ Q y s).
  { destruct (d x) as [a | c | p] eqn:Ed; intro H'.
    - eapply Hrest; eauto.
    - discriminate.
    - inversion H'; subst. exists x. split; [ left; reflexivity | apply Hd; assumption ]. }
  destruct x; cbn in H; [ eapply Hrest; eauto | apply Hone, H | apply Hone, H | apply Hone, H ].
Qed.

Lemma d_ptrlist_Q : forall A (d : ynode -> res A) n s, dsafe d -> d_ptrlist d n = DPanic s -> Q n s.
Proof.
  intros A d n s Hd H. destruct n as [ | tg sv | l | kvs ]; cbn in H; try discriminate.
  apply dmap_panic, d_ptr_elems_Q in H as (x & Hin & HQ); [ | assumption ]. eapply Q_seq_in; eauto.
Qed.

Lemma hsafe_ptr : forall A B (d : ynode -> res B) (f : A -> option B -> A),
  dsafe d -> hsafe (fun a x => dmap (f a) (d_ptr d x)).
Proof. intros A B d f Hd acc x s H. apply dmap_panic in H. eapply d_ptr_Q; eauto. Qed.

Lemma hsafe_ptrlist : forall A B (d : ynode -> res B) (f : A -> option (list (option B)) -> A),
  dsafe d -> hsafe (fun a x => dmap (f a) (d_ptrlist d x)).
Proof. intros A B d f Hd acc x s H. apply dmap_panic in H. eapply d_ptrlist_Q; eauto. Qed.

Lemma hsafe_pure : forall A (f : A -> ynode -> A) (g : ynode -> bool), hsafe (fun a x => DOk (f a x) (g x)).
Proof. intros A f g acc x s H. discriminate. Qed.

End Generic.

Arguments d_struct : simpl never.
Arguments fields : simpl never.
Arguments d_any : simpl never.
Arguments d_ptr : simpl never.
Arguments d_ptrlist : simpl never.
Arguments d_ptr_elems : simpl never.
Arguments finish : simpl never.
Arguments rbind : simpl never.
Arguments dmap : simpl never.
Arguments lift : simpl never.

Ltac schema_tac Q :=
  repeat apply ssafe_cons; try apply ssafe_nil;
  try apply hsafe_ign; try apply hsafe_pure;
  try (intros ? ? ? ?; discriminate).

(* ---------- decoders that never panic: Q = False ---------- *)
Definition QF : ynode -> site -> Prop := fun _ _ => False.
Lemma QF_map : forall kvs k x s, In (k, x) kvs -> QF x s -> QF (YMap kvs) s. Proof. intros; assumption. Qed.
Lemma QF_seq : forall l x s, In x l -> QF x s -> QF (YSeq l) s. Proof. intros; assumption. Qed.

Definition never {A} (d : ynode -> res A) : Prop := forall x s, d x <> Panic s.

Lemma never_dsafe : forall A (d : ynode -> res A), never d -> forall Q, dsafe Q d.
Proof. intros A d Hn Q x s H. exfalso; eapply Hn; eauto. Qed.

Lemma struct_never : forall A (sch : schema A) init n s, ssafe QF sch -> finish (d_struct sch init n) <> Panic s.
Proof. intros A sch init n s Hs H. apply finish_panic in H. eapply (d_struct_Q QF QF_map) in H; eauto. Qed.

Lemma d_platform_never : forall o, never (d_platform o).
Proof.
  intros o n s H. unfold d_platform in H.
  destruct n; try discriminate; destruct (parse_platform o _); discriminate.
Qed.

Lemma d_glob_never : never d_glob.
Proof.
  intros n s H. destruct n as [ | tg sv | l | kvs ]; cbn in H; try discriminate.
  apply rbind_panic in H as [H | (a & _ & H)]; [ | discriminate ].
  eapply struct_never; [ | exact H ]. schema_tac QF.
Qed.

Lemma d_precond_never : never d_precond.
Proof.
  intros n s H. destruct n as [ | tg sv | l | kvs ]; cbn in H; try discriminate.
  eapply struct_never; [ | exact H ]. schema_tac QF.
Qed.

Lemma d_reqvar_never : never d_reqvar.
Proof.
  intros n s H. destruct n as [ | tg sv | l | kvs ]; cbn in H; try discriminate.
  eapply struct_never; [ | exact H ]. schema_tac QF.
Qed.

Lemma d_requires_never : forall n s, d_requires n <> DPanic s.
Proof.
  intros n s H. eapply (d_struct_Q QF QF_map) in H; [ exact H | ].
  repeat apply ssafe_cons; try apply ssafe_nil.
  intros acc x s' Hx. apply dmap_panic in Hx.
  eapply (d_ptrlist_Q QF QF_seq) in Hx; [ exact Hx | ]. apply never_dsafe, d_reqvar_never.
Qed.

Lemma d_matrix_rows_never : forall kvs keys s, d_matrix_rows kvs keys <> Panic s.
Proof.
  induction kvs as [ | [k x] r IH ]; intros keys s H; [ discriminate | ].
  cbn in H. destruct x as [ | tg sv | l | m ]; try discriminate.
  - apply rbind_panic in H as [H | (a & _ & H)]; [ | eapply IH; eauto ].
    apply finish_panic in H. eapply d_any_no_panic; eauto.
  - apply rbind_panic in H as [H | (a & _ & H)]; [ | eapply IH; eauto ].
    eapply struct_never; [ | exact H ]. schema_tac QF.
Qed.

Lemma d_matrix_never : never d_matrix.
Proof.
  intros n s H. destruct n as [ | tg sv | l | kvs ]; cbn in H; try discriminate.
  apply rbind_panic in H as [H | (a & _ & H)]; [ | discriminate ].
  eapply d_matrix_rows_never; eauto.
Qed.

Lemma d_for_never : never d_for.
Proof.
  intros n s H. destruct n as [ | tg sv | l | kvs ]; cbn in H; try discriminate.
  - apply rbind_panic in H as [H | (a & _ & H)]; [ | discriminate ].
    apply finish_panic in H. eapply d_any_no_panic; eauto.
  - apply rbind_panic in H as [H | (a & _ & H)].
    + eapply struct_never; [ | exact H ].
      repeat apply ssafe_cons; try apply ssafe_nil; try apply hsafe_ign; try apply hsafe_pure.
      apply hsafe_ptr. apply never_dsafe, d_matrix_never.
    + revert H. destruct (is_empty (fr_var a) && _); [ discriminate | ].
      destruct (negb (is_empty (fr_var a)) && _); discriminate.
Qed.

Lemma d_prompt_never : never d_prompt.
Proof. intros n s H. destruct n; cbn in H; try discriminate. destruct (existsb soft_str l); discriminate. Qed.

Lemma d_output_never : never d_output.
Proof.
  intros n s H. destruct n as [ | tg sv | l | kvs ]; cbn in H; try discriminate.
  match type of H with match ?r with _ => _ end = _ => destruct r as [[ | ] | c | p] eqn:Er end; try discriminate.
  inversion H; subst. eapply struct_never; [ | exact Er ].
  repeat apply ssafe_cons; try apply ssafe_nil.
  intros acc x s' Hx. destruct x; try discriminate;
    apply dmap_panic in Hx; eapply (d_struct_Q QF QF_map) in Hx; try exact Hx; schema_tac QF.
Qed.

Section DecodeInv.
Variable v : variant.
Variable o : oracles.

(* what a panic below node x means *)
Definition Q (x : ynode) (s : site) : Prop :=
  s = SVarEmptyMap /\ g_var_len v = false /\ hem x = true.

Lemma hem_map_in : forall kvs k x, In (k, x) kvs -> hem x = true -> hem (YMap kvs) = true.
Proof.
  intros kvs k x Hin Hx. destruct kvs as [ | kv r ]; [ destruct Hin | ].
  cbn [hem]. apply existsb_exists. exists (k, x). split; [ exact Hin | cbn; rewrite Hx; apply orb_true_r ].
Qed.

Lemma hem_seq_in : forall l x, In x l -> hem x = true -> hem (YSeq l) = true.
Proof. intros l x Hin Hx. cbn. apply existsb_exists. exists x; auto. Qed.

Lemma Q_map_in : forall kvs k x s, In (k, x) kvs -> Q x s -> Q (YMap kvs) s.
Proof. intros kvs k x s Hin (H1 & H2 & H3). repeat split; auto. eapply hem_map_in; eauto. Qed.

Lemma Q_seq_in : forall l x s, In x l -> Q x s -> Q (YSeq l) s.
Proof. intros l x s Hin (H1 & H2 & H3). repeat split; auto. eapply hem_seq_in; eauto. Qed.

Notation qsafe := (dsafe Q).

Ltac qschema :=
  repeat apply ssafe_cons; try apply ssafe_nil;
  try apply hsafe_ign; try apply hsafe_pure;
  try (intros ? ? ? ?; discriminate).

Lemma d_var_safe : qsafe (d_var v).
Proof.
  intros n s H. unfold d_var in H. destruct n as [ | tg sv | l | kvs ].
  - apply finish_panic in H. exfalso; eapply d_any_no_panic; eauto.
  - apply finish_panic in H. exfalso; eapply d_any_no_panic; eauto.
  - apply finish_panic in H. exfalso; eapply d_any_no_panic; eauto.
  - destruct kvs as [ | [k x] r ].
    + destruct (g_var_len v) eqn:Eg; [ discriminate | ]. inversion H; subst. repeat split; auto.
    + destruct (mem (node_value k) ["sh"; "ref"; "map"]); [ | discriminate ].
      apply rbind_panic in H as [H | (a & _ & H)]; [ | discriminate ].
      exfalso. eapply struct_never; [ | exact H ].
      unfold var_m_schema. repeat apply ssafe_cons; try apply ssafe_nil.
      * apply hsafe_ign.
      * intros acc y s' Hy. discriminate.
      * intros acc y s' Hy. apply dmap_panic in Hy. eapply d_any_no_panic; eauto.
Qed.

Lemma d_var_pairs_Q : forall kvs acc s, d_var_pairs v kvs acc = Panic s -> exists k x, In (k, x) kvs /\ Q x s.
Proof.
  induction kvs as [ | [k x] r IH ]; intros acc s H; [ discriminate | ].
  assert (Hrest : forall acc', d_var_pairs v r acc' = Panic s -> exists k' x', In (k', x') ((k, x) :: r) /\ Q x' s).
  { intros acc' Hr. apply IH in Hr as (k' & x' & Hin & HQ). exists k', x'. split; [ right | ]; assumption. }
  assert (Hone : match d_var v x with
                 | Ok t => d_var_pairs v r (kv_set (node_value k) t acc)
                 | Err c => Err c
                 | Panic s0 => Panic s0
                 end = Panic s -> exists k' x', In (k', x') ((k, x) :: r) /\ Q x' s).
  { destruct (d_var v x) as [a | c | p] eqn:Ed; intro H'.
    - eapply Hrest; eauto.
    - discriminate.
    - inversion H'; subst. exists k, x. split; [ left; reflexivity | apply d_var_safe; assumption ]. }
  destruct x; cbn in H; [ eapply Hrest; eauto | apply Hone, H | apply Hone, H | apply Hone, H ].
Qed.

Lemma d_vars_safe : qsafe (d_vars v).
Proof.
  intros n s H. destruct n as [ | tg sv | l | kvs ]; cbn in H; try discriminate.
  apply rbind_panic in H as [H | (a & _ & H)]; [ | discriminate ].
  apply d_var_pairs_Q in H as (k & x & Hin & HQ). eapply Q_map_in; eauto.
Qed.

Lemma d_pvars_Q : forall n s, d_pvars v n = DPanic s -> Q n s.
Proof.
  intros n s H. unfold d_pvars in H. apply dmap_panic in H.
  eapply (d_ptr_Q Q); eauto. apply d_vars_safe.
Qed.

Lemma hsafe_pvars : forall A (f : A -> bool -> A), hsafe Q (fun a x => dmap (f a) (d_pvars v x)).
Proof. intros A f acc x s H. apply dmap_panic in H. apply d_pvars_Q; assumption. Qed.

Lemma struct_Q : forall A (sch : schema A) init n s, ssafe Q sch -> finish (d_struct sch init n) = Panic s -> Q n s.
Proof. intros A sch init n s Hs H. apply finish_panic in H. eapply (d_struct_Q Q Q_map_in); eauto. Qed.

Lemma d_defer_safe : qsafe (d_defer v).
Proof.
  intros n s H. destruct n as [ | tg sv | l | kvs ]; cbn in H; try discriminate.
  eapply struct_Q; [ | exact H ]. qschema. apply hsafe_pvars.
Qed.

Lemma cmd_schema_safe : ssafe Q (cmd_schema v o).
Proof.
  unfold cmd_schema. qschema.
  - apply (hsafe_ptr Q). apply never_dsafe, d_for_never.
  - apply hsafe_pvars.
  - apply (hsafe_ptr Q). apply d_defer_safe.
  - apply (hsafe_ptrlist Q Q_seq_in). apply never_dsafe, d_platform_never.
Qed.

Lemma d_cmd_safe : qsafe (d_cmd v o).
Proof.
  intros n s H. destruct n as [ | tg sv | l | kvs ]; cbn in H; try discriminate.
  apply rbind_panic in H as [H | (r & _ & H)].
  - eapply struct_Q; [ apply cmd_schema_safe | exact H ].
  - exfalso. revert H. destruct (cr_defer r) as [d | ].
    + destruct (negb (is_empty (df_cmd d))); [ discriminate | ].
      destruct (negb (is_empty (df_task d))); discriminate.
    + destruct (negb (is_empty (cr_task r))); [ discriminate | ].
      destruct (negb (is_empty (cr_cmd r))); discriminate.
Qed.

Lemma d_dep_safe : qsafe (d_dep v).
Proof.
  intros n s H. destruct n as [ | tg sv | l | kvs ]; cbn in H; try discriminate.
  eapply struct_Q; [ | exact H ]. qschema.
  - apply (hsafe_ptr Q). apply never_dsafe, d_for_never.
  - apply hsafe_pvars.
Qed.

Lemma d_include_safe : qsafe (d_include v).
Proof.
  intros n s H. destruct n as [ | tg sv | l | kvs ]; cbn in H; try discriminate.
  eapply struct_Q; [ | exact H ]. qschema. apply hsafe_pvars.
Qed.

Lemma d_include_pairs_Q : forall kvs s, d_include_pairs v kvs = Panic s -> exists k x, In (k, x) kvs /\ Q x s.
Proof.
  induction kvs as [ | [k x] r IH ]; intros s H; [ discriminate | ].
  cbn in H. apply rbind_panic in H as [H | (i & _ & H)].
  - destruct x; try discriminate; exists k; eexists; (split; [ left; reflexivity | apply d_include_safe; exact H ]).
  - apply rbind_panic in H as [H | (l & _ & H)]; [ | discriminate ].
    apply IH in H as (k' & x' & Hin & HQ). exists k', x'. split; [ right | ]; assumption.
Qed.

Lemma d_includes_safe : qsafe (d_includes v).
Proof.
  intros n s H. destruct n as [ | tg sv | l | kvs ]; cbn in H; try discriminate.
  apply rbind_panic in H as [H | (a & _ & H)]; [ | discriminate ].
  apply d_include_pairs_Q in H as (k & x & Hin & HQ). eapply Q_map_in; eauto.
Qed.

Lemma task_schema_safe : ssafe Q (task_schema v o).
Proof.
  unfold task_schema. qschema.
  - apply (hsafe_ptrlist Q Q_seq_in). apply d_cmd_safe.
  - apply (hsafe_ptr Q). apply d_cmd_safe.
  - apply (hsafe_ptrlist Q Q_seq_in). apply d_dep_safe.
  - intros acc x s H. destruct x; try discriminate;
      apply dmap_panic, lift_panic in H; exfalso; eapply d_prompt_never; eauto.
  - apply (hsafe_ptrlist Q Q_seq_in). apply never_dsafe, d_glob_never.
  - apply (hsafe_ptrlist Q Q_seq_in). apply never_dsafe, d_glob_never.
  - apply (hsafe_ptrlist Q Q_seq_in). apply never_dsafe, d_precond_never.
  - apply hsafe_pvars.
  - apply hsafe_pvars.
  - apply (hsafe_ptrlist Q Q_seq_in). apply never_dsafe, d_platform_never.
  - intros acc x s H. apply dmap_panic in H. exfalso; eapply d_requires_never; eauto.
Qed.

Lemma d_task_safe : qsafe (d_task v o).
Proof.
  intros n s H. destruct n as [ | tg sv | l | kvs ]; cbn in H.
  - apply rbind_panic in H as [H | (a & _ & H)]; discriminate.
  - apply rbind_panic in H as [H | (a & _ & H)]; discriminate.
  - apply rbind_panic in H as [H | (a & _ & H)]; [ | discriminate ].
    apply finish_panic in H. apply (d_ptr_elems_Q Q) in H as (x & Hin & HQ); [ | apply d_cmd_safe ].
    eapply Q_seq_in; eauto.
  - apply rbind_panic in H as [H | (r & _ & H)].
    + eapply struct_Q; [ apply task_schema_safe | exact H ].
    + exfalso. revert H. destruct (tr_cmd r); [ destruct (has_some (tr_cmds r)) | ]; discriminate.
Qed.

Lemma d_task_pairs_Q : forall kvs acc s, d_task_pairs v o kvs acc = Panic s -> exists k x, In (k, x) kvs /\ Q x s.
Proof.
  induction kvs as [ | [k x] r IH ]; intros acc s H; [ discriminate | ].
  cbn in H. apply rbind_panic in H as [H | (t & _ & H)].
  - destruct x; try discriminate; exists k; eexists; (split; [ left; reflexivity | apply d_task_safe; exact H ]).
  - apply IH in H as (k' & x' & Hin & HQ). exists k', x'. split; [ right | ]; assumption.
Qed.

Lemma d_tasks_safe : qsafe (d_tasks v o).
Proof.
  intros n s H. destruct n as [ | tg sv | l | kvs ]; cbn in H; try discriminate.
  apply d_task_pairs_Q in H as (k & x & Hin & HQ). eapply Q_map_in; eauto.
Qed.

Lemma taskfile_schema_safe : ssafe Q (taskfile_schema v o).
Proof.
  unfold taskfile_schema. qschema.
  - intros acc x s H. apply dmap_panic in H. unfold soft_ver in H.
    destruct x; try discriminate; [ destruct (o_ver o v0); discriminate | destruct (dup_keys l); discriminate ].
  - intros acc x s H. destruct x; try discriminate;
      apply dmap_panic, lift_panic in H; exfalso; eapply d_output_never; eauto.
  - apply (hsafe_ptr Q). apply d_includes_safe.
  - apply hsafe_pvars.
  - apply hsafe_pvars.
  - apply (hsafe_ptr Q). apply d_tasks_safe.
Qed.

(* the only way decoding panics *)
Theorem decode_panic_inv : forall n s,
  decode_taskfile v o n = Panic s -> s = SVarEmptyMap /\ g_var_len v = false /\ hem n = true.
Proof.
  intros n s H. destruct n as [ | tg sv | l | kvs ]; cbn in H; try discriminate.
  apply rbind_panic in H as [H | (r & _ & H)].
  - eapply struct_Q; [ apply taskfile_schema_safe | exact H ].
  - exfalso. destruct (tf_has_version (tfr_tf r)); discriminate.
Qed.

End DecodeInv.
