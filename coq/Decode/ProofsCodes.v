(* Every diagnosed error of the decoders carries the TaskfileDecode code; reading
   adds the version-check code. *)
From Coq Require Import List String NArith ZArith Bool Arith Lia.
Import ListNotations.
From TV Require Import Decode.Model Decode.Proofs.
Local Open Scope string_scope.
Local Open Scope list_scope.

Arguments fields : simpl nomatch.
Arguments d_ptr_elems : simpl nomatch.
Arguments rbind : simpl nomatch.
Arguments finish : simpl nomatch.
Arguments lift : simpl nomatch.
Arguments dmap : simpl nomatch.

Definition eok {A} (r : res A) : Prop := forall c, r = Err c -> c = code_decode.
Definition deok {A} (r : dres A) : Prop := forall c, r = DErr c -> c = code_decode.

Lemma eok_ok : forall A (a : A), eok (Ok a). Proof. intros A a c H; discriminate. Qed.
Lemma eok_panic : forall A s, eok (@Panic A s). Proof. intros A s c H; discriminate. Qed.
Lemma eok_type_err : forall A, eok (@type_err A). Proof. intros A c H. inversion H; reflexivity. Qed.
Lemma deok_ok : forall A (a : A) s, deok (DOk a s). Proof. intros A a s c H; discriminate. Qed.

Lemma finish_eok : forall A (r : dres A), deok r -> eok (finish r).
Proof. intros A [a [ | ] | c' | p] Hr c H; cbn in H; inversion H; subst; auto. Qed.

Lemma lift_deok : forall A (r : res A), eok r -> deok (lift r).
Proof. intros A [a | c' | p] Hr c H; cbn in H; inversion H; subst; auto. Qed.

Lemma dmap_deok : forall A B (f : A -> B) r, deok r -> deok (dmap f r).
Proof. intros A B f [a s | c' | p] Hr c H; cbn in H; inversion H; subst; auto. Qed.

Lemma rbind_eok : forall A B (r : res A) (f : A -> res B), eok r -> (forall a, eok (f a)) -> eok (rbind r f).
Proof. intros A B [a | c' | p] f Hr Hf c H; cbn in H; [ eapply Hf; eauto | inversion H; subst; auto | discriminate ]. Qed.

Lemma d_any_deok : forall n, deok (d_any n).
Proof. intros n c H. unfold d_any in H. destruct (dec_any n); inversion H; reflexivity. Qed.

Definition hok {A} (h : handler A) : Prop := forall acc x, deok (h acc x).
Definition sok {A} (sch : schema A) : Prop := forall name h, lookup name sch = Some h -> hok h.

Lemma sok_nil : forall A, @sok A []. Proof. intros A n h H; discriminate. Qed.
Lemma sok_cons : forall A name (h : handler A) r, hok h -> sok r -> sok ((name, h) :: r).
Proof.
  intros A name h r Hh Hr n h' H. cbn in H. destruct (String.eqb n name).
  - inversion H; subst; exact Hh.
  - eapply Hr; eauto.
Qed.
Lemma hok_ign : forall A f, hok (@ign A f). Proof. intros A f acc x c H; discriminate. Qed.
Lemma hok_pure : forall A (f : A -> ynode -> A) (g : ynode -> bool), hok (fun a x => DOk (f a x) (g x)).
Proof. intros A f g acc x c H; discriminate. Qed.

Lemma fields_cons : forall A (sch : schema A) k x r acc soft,
  fields sch ((k, x) :: r) acc soft =
  match k with
  | YNull => fields sch r acc soft
  | YSeq _ | YMap _ => fields sch r acc true
  | YScalar _ name =>
      match lookup name sch with
      | None => fields sch r acc soft
      | Some h =>
          match h acc x with
          | DOk acc' s' => fields sch r acc' (soft || s')
          | DErr c => DErr c
          | DPanic p => DPanic p
          end
      end
  end.
Proof. reflexivity. Qed.

Lemma fields_deok : forall A (sch : schema A), sok sch -> forall kvs acc soft, deok (fields sch kvs acc soft).
Proof.
  intros A sch Hs. induction kvs as [ | [k x] r IH ]; intros acc soft c H; [ discriminate | ].
  rewrite fields_cons in H. destruct k as [ | tg name | l | m ]; try (eapply IH; eauto; fail).
  destruct (lookup name sch) as [h | ] eqn:El; [ | eapply IH; eauto ].
  destruct (h acc x) as [acc' s' | c' | p] eqn:Eh; [ eapply IH; eauto | | discriminate ].
  inversion H; subst. eapply Hs; eauto.
Qed.

Lemma d_struct_deok : forall A (sch : schema A) init n, sok sch -> deok (d_struct sch init n).
Proof.
  intros A sch init n Hs c H. unfold d_struct in H. destruct n; try discriminate.
  destruct (dup_keys l); [ discriminate | ]. eapply fields_deok; eauto.
Qed.

Lemma struct_eok : forall A (sch : schema A) init n, sok sch -> eok (finish (d_struct sch init n)).
Proof. intros. apply finish_eok, d_struct_deok; assumption. Qed.

Lemma d_ptr_deok : forall A (d : ynode -> res A) n, (forall x, eok (d x)) -> deok (d_ptr d n).
Proof. intros A d n Hd. unfold d_ptr. destruct n; try apply deok_ok; apply dmap_deok, lift_deok, Hd. Qed.

Lemma d_ptr_elems_deok : forall A (d : ynode -> res A), (forall x, eok (d x)) -> forall l, deok (d_ptr_elems d l).
Proof.
  intros A d Hd. induction l as [ | x r IH ]; [ apply deok_ok | ].
  assert (Hone : deok (match d x with
                       | Ok a => dmap (cons (Some a)) (d_ptr_elems d r)
                       | Err c => DErr c
                       | Panic s0 => DPanic s0
                       end)).
  { destruct (d x) as [a | c' | p] eqn:Ed.
    - apply dmap_deok, IH.
    - intros c H. inversion H; subst. eapply Hd; eauto.
    - intros c H; discriminate. }
  destruct x; cbn [d_ptr_elems]; [ apply dmap_deok, IH | exact Hone | exact Hone | exact Hone ].
Qed.

Lemma d_ptrlist_deok : forall A (d : ynode -> res A) n, (forall x, eok (d x)) -> deok (d_ptrlist d n).
Proof.
  intros A d n Hd. unfold d_ptrlist. destruct n; try apply deok_ok. apply dmap_deok, d_ptr_elems_deok, Hd.
Qed.

Lemma hok_ptr : forall A B (d : ynode -> res B) (f : A -> option B -> A),
  (forall x, eok (d x)) -> hok (fun a x => dmap (f a) (d_ptr d x)).
Proof. intros A B d f Hd acc x. apply dmap_deok, d_ptr_deok, Hd. Qed.

Lemma hok_ptrlist : forall A B (d : ynode -> res B) (f : A -> option (list (option B)) -> A),
  (forall x, eok (d x)) -> hok (fun a x => dmap (f a) (d_ptrlist d x)).
Proof. intros A B d f Hd acc x. apply dmap_deok, d_ptrlist_deok, Hd. Qed.

Ltac cschema :=
  repeat apply sok_cons; try apply sok_nil; try apply hok_ign; try apply hok_pure.

Section Codes.
Variable v : variant.
Variable o : oracles.

Lemma d_var_eok : forall n, eok (d_var v n).
Proof.
  intros n. unfold d_var. destruct n as [ | tg sv | l | kvs ]; try (apply finish_eok, d_any_deok).
  destruct kvs as [ | [k x] r ].
  - destruct (g_var_len v); [ apply eok_type_err | apply eok_panic ].
  - destruct (mem _ _); [ | apply eok_type_err ].
    apply rbind_eok; [ | intros; apply eok_ok ].
    apply struct_eok. unfold var_m_schema. cschema.
    intros acc y. apply dmap_deok, d_any_deok.
Qed.

Lemma d_var_pairs_eok : forall kvs acc, eok (d_var_pairs v kvs acc).
Proof.
  induction kvs as [ | [k x] r IH ]; intros acc; [ apply eok_ok | ].
  assert (Hone : eok (match d_var v x with
                      | Ok t => d_var_pairs v r (kv_set (node_value k) t acc)
                      | Err c => Err c
                      | Panic s0 => Panic s0
                      end)).
  { destruct (d_var v x) as [a | c' | p] eqn:Ed; [ apply IH | | apply eok_panic ].
    intros c H; inversion H; subst. eapply d_var_eok; eauto. }
  destruct x; cbn [d_var_pairs]; [ apply IH | exact Hone | exact Hone | exact Hone ].
Qed.

Lemma d_vars_eok : forall n, eok (d_vars v n).
Proof.
  intros n. unfold d_vars. destruct n; try apply eok_type_err.
  apply rbind_eok; [ apply d_var_pairs_eok | intros; apply eok_ok ].
Qed.

Lemma hok_pvars : forall A (f : A -> bool -> A), hok (fun a x => dmap (f a) (d_pvars v x)).
Proof. intros A f acc x. apply dmap_deok. unfold d_pvars. apply dmap_deok, d_ptr_deok, d_vars_eok. Qed.

Lemma d_platform_eok : forall n, eok (d_platform o n).
Proof. intros n. unfold d_platform. destruct n; try apply eok_type_err; destruct (parse_platform o _); (apply eok_ok || apply eok_type_err). Qed.

Lemma d_glob_eok : forall n, eok (d_glob n).
Proof.
  intros n. unfold d_glob. destruct n; try apply eok_ok; try apply eok_type_err.
  apply rbind_eok; [ | intros; apply eok_ok ]. apply struct_eok. cschema.
Qed.

Lemma d_precond_eok : forall n, eok (d_precond n).
Proof. intros n. unfold d_precond. destruct n; try apply eok_ok; try apply eok_type_err. apply struct_eok. cschema. Qed.

Lemma d_reqvar_eok : forall n, eok (d_reqvar n).
Proof. intros n. unfold d_reqvar. destruct n; try apply eok_ok; try apply eok_type_err. apply struct_eok. cschema. Qed.

Lemma d_requires_deok : forall n, deok (d_requires n).
Proof.
  intros n. unfold d_requires. apply d_struct_deok. cschema.
  intros acc x. apply dmap_deok, d_ptrlist_deok, d_reqvar_eok.
Qed.

Lemma d_matrix_rows_eok : forall kvs keys, eok (d_matrix_rows kvs keys).
Proof.
  induction kvs as [ | [k x] r IH ]; intros keys; [ apply eok_ok | ].
  cbn [d_matrix_rows]. destruct x; try apply eok_type_err.
  - apply rbind_eok; [ apply finish_eok, d_any_deok | intros; apply IH ].
  - apply rbind_eok; [ apply struct_eok; cschema | intros; apply IH ].
Qed.

Lemma d_matrix_eok : forall n, eok (d_matrix n).
Proof.
  intros n. unfold d_matrix. destruct n; try apply eok_type_err.
  apply rbind_eok; [ apply d_matrix_rows_eok | intros; apply eok_ok ].
Qed.

Lemma d_for_eok : forall n, eok (d_for n).
Proof.
  intros n. unfold d_for. destruct n; try apply eok_ok.
  - apply rbind_eok; [ apply finish_eok, d_any_deok | intros; apply eok_ok ].
  - apply rbind_eok.
    + apply struct_eok. cschema. apply hok_ptr, d_matrix_eok.
    + intros f. destruct (is_empty (fr_var f) && _); [ apply eok_type_err | ].
      destruct (negb (is_empty (fr_var f)) && _); [ apply eok_type_err | apply eok_ok ].
Qed.

Lemma d_defer_eok : forall n, eok (d_defer v n).
Proof.
  intros n. unfold d_defer. destruct n; try apply eok_ok; try apply eok_type_err.
  apply struct_eok. cschema. apply hok_pvars.
Qed.

Lemma d_cmd_eok : forall n, eok (d_cmd v o n).
Proof.
  intros n. unfold d_cmd. destruct n; try apply eok_ok; try apply eok_type_err.
  apply rbind_eok.
  - apply struct_eok. unfold cmd_schema. cschema.
    + apply hok_ptr, d_for_eok.
    + apply hok_pvars.
    + apply hok_ptr, d_defer_eok.
    + apply hok_ptrlist, d_platform_eok.
  - intros r. destruct (cr_defer r) as [d | ].
    + destruct (negb (is_empty (df_cmd d))); [ apply eok_ok | ].
      destruct (negb (is_empty (df_task d))); apply eok_ok.
    + destruct (negb (is_empty (cr_task r))); [ apply eok_ok | ].
      destruct (negb (is_empty (cr_cmd r))); [ apply eok_ok | apply eok_type_err ].
Qed.

Lemma d_dep_eok : forall n, eok (d_dep v n).
Proof.
  intros n. unfold d_dep. destruct n; try apply eok_ok; try apply eok_type_err.
  apply struct_eok. cschema; [ apply hok_ptr, d_for_eok | apply hok_pvars ].
Qed.

Lemma d_prompt_eok : forall n, eok (d_prompt n).
Proof. intros n. unfold d_prompt. destruct n; try apply eok_ok; try apply eok_type_err. destruct (soft_strlist _); [ apply eok_type_err | apply eok_ok ]. Qed.

Lemma d_output_eok : forall n, eok (d_output n).
Proof.
  intros n. unfold d_output. destruct n; try apply eok_ok; try apply eok_type_err.
  match goal with |- eok (match ?r with _ => _ end) => assert (Hr : eok r) end.
  { apply struct_eok. cschema. intros acc x. destruct x; try apply deok_ok; apply dmap_deok, d_struct_deok; cschema. }
  match goal with |- eok (match ?r with _ => _ end) => destruct r as [[ | ] | c' | p] end;
    [ apply eok_ok | apply eok_type_err | | apply eok_panic ].
  intros c H. inversion H; subst. apply Hr; reflexivity.
Qed.

Lemma d_include_eok : forall n, eok (d_include v n).
Proof.
  intros n. unfold d_include. destruct n; try apply eok_ok; try apply eok_type_err.
  apply struct_eok. cschema. apply hok_pvars.
Qed.

Lemma d_include_pairs_eok : forall kvs, eok (d_include_pairs v kvs).
Proof.
  induction kvs as [ | [k x] r IH ]; [ apply eok_ok | ].
  cbn [d_include_pairs]. apply rbind_eok.
  - destruct x; try apply eok_ok; apply d_include_eok.
  - intros i. apply rbind_eok; [ apply IH | intros; apply eok_ok ].
Qed.

Lemma d_includes_eok : forall n, eok (d_includes v n).
Proof.
  intros n. unfold d_includes. destruct n; try apply eok_type_err.
  apply rbind_eok; [ apply d_include_pairs_eok | intros; apply eok_ok ].
Qed.

Lemma d_task_eok : forall n, eok (d_task v o n).
Proof.
  intros n. unfold d_task. destruct n.
  - apply rbind_eok; [ apply d_cmd_eok | intros; apply eok_ok ].
  - apply rbind_eok; [ apply d_cmd_eok | intros; apply eok_ok ].
  - apply rbind_eok; [ apply finish_eok, d_ptr_elems_deok, d_cmd_eok | intros; apply eok_ok ].
  - apply rbind_eok.
    + apply struct_eok. unfold task_schema. cschema.
      * apply hok_ptrlist, d_cmd_eok.
      * apply hok_ptr, d_cmd_eok.
      * apply hok_ptrlist, d_dep_eok.
      * intros acc x. destruct x; try apply deok_ok; apply dmap_deok, lift_deok, d_prompt_eok.
      * apply hok_ptrlist, d_glob_eok.
      * apply hok_ptrlist, d_glob_eok.
      * apply hok_ptrlist, d_precond_eok.
      * apply hok_pvars.
      * apply hok_pvars.
      * apply hok_ptrlist, d_platform_eok.
      * intros acc x. apply dmap_deok, d_requires_deok.
    + intros r. destruct (tr_cmd r); [ destruct (has_some (tr_cmds r)); [ apply eok_type_err | apply eok_ok ] | apply eok_ok ].
Qed.

Lemma d_task_pairs_eok : forall kvs acc, eok (d_task_pairs v o kvs acc).
Proof.
  induction kvs as [ | [k x] r IH ]; intros acc; [ apply eok_ok | ].
  cbn [d_task_pairs]. apply rbind_eok; [ | intros; apply IH ].
  destruct x; try apply eok_ok; apply d_task_eok.
Qed.

Lemma d_tasks_eok : forall n, eok (d_tasks v o n).
Proof. intros n. unfold d_tasks. destruct n; try apply eok_type_err. apply d_task_pairs_eok. Qed.

Lemma taskfile_schema_sok : sok (taskfile_schema v o).
Proof.
  unfold taskfile_schema. cschema.
  - intros acc x. apply dmap_deok. unfold soft_ver. destruct x; try apply deok_ok.
    + destruct (o_ver o v0); [ apply deok_ok | intros c H; inversion H; reflexivity ].
    + destruct (dup_keys l); apply deok_ok.
  - intros acc x. destruct x; try apply deok_ok; apply dmap_deok, lift_deok, d_output_eok.
  - apply hok_ptr, d_includes_eok.
  - apply hok_pvars.
  - apply hok_pvars.
  - apply hok_ptr, d_tasks_eok.
Qed.

Theorem decode_err_codes : forall n c,
  decode_taskfile v o n = Err c -> c = code_decode \/ c = code_version.
Proof.
  intros n c H. unfold decode_taskfile in H. destruct n.
  - inversion H; auto.
  - inversion H; auto.
  - inversion H; auto.
  - destruct (finish (d_struct (taskfile_schema v o) _ (YMap l))) as [r | c' | p] eqn:E; cbn [rbind] in H.
    + unfold rbind in H. destruct (tf_has_version (tfr_tf r)); inversion H; auto.
    + unfold rbind in H. inversion H; subst. left.
      eapply struct_eok; [ apply taskfile_schema_sok | exact E ].
    + unfold rbind in H. discriminate.
Qed.

End Codes.
