(* Model I "Decode": helper lemma for Properties/C16Current.v - which panic sites of the
   variant [current] (built from the extracted guard facts) can be open at all.  Breaks when
   a guard disappears from /repo. *)
From Coq Require Import List String NArith ZArith Bool.
Import ListNotations.
From TV Require Import Decode.Model Decode.Proofs Decode.ProofsCodes Decode.ProofsRun Decode.ProofsMain
                       Extracted.Facts Run.DecodeCases Decode.ProofsCurrent.

(* without any assumption on the oracles: the only site of the current tree that is not closed
   by a guard in go-task's own code is the regexp.MustCompile of WildcardMatch, and it is open
   only if regexp rejects a QuoteMeta'd literal *)
Lemma current_open_site_is_wildcard :
  forall o s, site_open current o s -> s = SWildcard /\ exists n, o_wc_quoted o n = false.
Proof.
  intros o s H. destruct s; cbn in H; try discriminate H; try contradiction.
  destruct H as (_ & [Hq | Hn]); [ discriminate Hq | split; [ reflexivity | exact Hn ] ].
Qed.
