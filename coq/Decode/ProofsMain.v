(* Top-level statements of model I: no panic for a variant with all guards, a
   witness for every missing guard, reader error codes, the monitor. *)
From Coq Require Import List String NArith ZArith Bool Arith Lia.
Import ListNotations.
From TV Require Import Decode.Model Decode.Proofs Decode.ProofsCodes Decode.ProofsRun.
Local Open Scope string_scope.
Local Open Scope list_scope.

(* ---------- full statements ---------- *)
Theorem no_panic_decode : forall v o n, g_var_len v = true -> forall s, decode_taskfile v o n <> Panic s.
Proof. intros v o n Hg s H. apply decode_panic_inv in H as (_ & Hf & _). congruence. Qed.

Theorem no_panic_decode_partial : forall v o n, hem n = false -> forall s, decode_taskfile v o n <> Panic s.
Proof. intros v o n Hn s H. apply decode_panic_inv in H as (_ & _ & Hh). congruence. Qed.

Lemma closed_nil : forall v o (l : list ev), all_guards v o -> evs_open v o l -> l = [].
Proof.
  intros v o l Hg Hl. destruct l as [ | [s c] r ]; [ reflexivity | ].
  exfalso. eapply all_guards_closed; [ exact Hg | ]. eapply Hl. left; reflexivity.
Qed.

Theorem no_panic_compile : forall v o goos goarch gvt tbl requested certain,
  all_guards v o -> table_events v o goos goarch gvt tbl requested certain = [].
Proof. intros. eapply closed_nil; eauto. apply table_events_open. Qed.

Theorem no_panic_compile_task : forall v o gvt t, all_guards v o -> forall s, compile_task v o gvt t <> Panic s.
Proof. intros v o gvt t Hg s H. eapply all_guards_closed; [ exact Hg | ]. eapply compile_task_open; eauto. Qed.

Theorem no_panic_read : forall v o fs fuel, all_guards v o -> forall s, read v o fs fuel <> RPanic s.
Proof. intros v o fs fuel Hg s H. eapply all_guards_closed; [ exact Hg | ]. eapply reader_panic_open; eauto. Qed.

Theorem predict_no_panic : forall v o e, all_guards v o ->
  pr_must (predict v o e) = [] /\ pr_may (predict v o e) = [].
Proof.
  intros v o e Hg.
  assert (H : pr_must (predict v o e) ++ pr_may (predict v o e) = []).
  { destruct (pr_must (predict v o e) ++ pr_may (predict v o e)) as [ | s r ] eqn:E; [ reflexivity | ].
    exfalso. eapply all_guards_closed; [ exact Hg | ]. eapply predict_sites_open. rewrite E. left; reflexivity. }
  apply app_eq_nil in H. exact H.
Qed.

(* ---------- error codes ---------- *)
Lemma resolve_include_codes : forall v o i c, resolve_include v o i = Err c -> In c model_codes.
Proof.
  intros v o i c H. unfold resolve_include, expand_literal in H.
  destruct (is_remote_looking (i_taskfile i)).
  - destruct (is_empty (i_dir i)); [ discriminate | ].
    destruct (o_words o (i_dir i)) as [[ | n] | ]; try discriminate;
      try (destruct (g_expand_literal_len v); discriminate).
    inversion H; subst. cbn; tauto.
  - destruct (is_empty (i_taskfile i)).
    + destruct (is_empty (i_dir i)); [ discriminate | ].
      destruct (o_words o (i_dir i)) as [[ | n] | ]; try discriminate;
        try (destruct (g_expand_literal_len v); discriminate).
      inversion H; subst. cbn; tauto.
    + destruct (o_words o (i_taskfile i)) as [[ | n] | ].
      * destruct (g_expand_literal_len v); [ | discriminate ].
        destruct (is_empty (i_dir i)); [ discriminate | ].
        destruct (o_words o (i_dir i)) as [[ | n] | ]; try discriminate;
          try (destruct (g_expand_literal_len v); discriminate).
        inversion H; subst. cbn; tauto.
      * destruct (is_empty (i_dir i)); [ discriminate | ].
        destruct (o_words o (i_dir i)) as [[ | n'] | ]; try discriminate;
          try (destruct (g_expand_literal_len v); discriminate).
        inversion H; subst. cbn; tauto.
      * inversion H; subst. cbn; tauto.
Qed.

Lemma read_includes_codes : forall v o fs rec,
  (forall stack vis tfs loc c, rec stack vis tfs loc = RErr c -> In c model_codes) ->
  forall incs stack vis tfs c, read_includes v o fs rec stack vis tfs incs = RErr c -> In c model_codes.
Proof.
  intros v o fs rec Hrec. induction incs as [ | i r IH ]; intros stack vis tfs c H; cbn in H; [ discriminate | ].
  destruct (i_vars_time i && negb (g_traverse_struct v)); [ discriminate | ].
  destruct (resolve_include v o i) as [ep | c0 | p0] eqn:Eri; [ | | discriminate ].
  2: { inversion H; subst. eapply resolve_include_codes; eauto. }
  destruct (new_node v o ep) as [loc | | p].
  - destruct (lookup loc fs).
    + destruct (mem loc stack); [ inversion H; subst; cbn; tauto | ].
      destruct (rec stack vis tfs loc) eqn:Er; try discriminate.
      * eapply IH; eauto.
      * inversion H; subst. eapply Hrec; eauto.
    + destruct (i_optional i); [ eapply IH; eauto | inversion H; subst; cbn; tauto ].
  - destruct (i_optional i); [ eapply IH; eauto | inversion H; subst; cbn; tauto ].
  - discriminate.
Qed.

Lemma read_file_codes : forall v o fs fuel stack vis tfs loc c,
  read_file v o fs fuel stack vis tfs loc = RErr c -> In c model_codes.
Proof.
  intros v o fs. induction fuel as [ | f IH ]; intros stack vis tfs loc c H; cbn in H; [ discriminate | ].
  destruct (mem loc vis); [ discriminate | ].
  destruct (lookup loc fs) as [n | ]; [ | inversion H; subst; cbn; tauto ].
  destruct (decode_taskfile v o n) as [tf | c' | p] eqn:Ed.
  - destruct (first_panic v o (tf_includes tf)); [ discriminate | ].
    eapply read_includes_codes; [ | exact H ]. intros; eapply IH; eauto.
  - inversion H; subst. apply decode_err_codes in Ed as [-> | ->]; cbn; tauto.
  - discriminate.
Qed.

Theorem read_codes : forall v o fs fuel c, read v o fs fuel = RErr c -> In c model_codes.
Proof. intros v o fs fuel c H. eapply read_file_codes; eauto. Qed.

Theorem decode_codes : forall v o n c, decode_taskfile v o n = Err c -> In c model_codes.
Proof. intros v o n c H. apply decode_err_codes in H as [-> | ->]; cbn; tauto. Qed.

Theorem predict_exact_codes : forall v o e c, pr_exact (predict v o e) = Some (OErr c) -> In c model_codes.
Proof.
  intros v o e c H. unfold predict in H. cbv zeta in H.
  destruct (lookup root_name (de_files e)) as [root | ]; [ | discriminate ].
  destruct (decode_taskfile v o root) as [tf | c' | p] eqn:Ed.
  - destruct (read v o (de_files e) _); try discriminate. cbn in H.
    destruct (plain_setup tf && _); discriminate.
  - destruct (de_snip e) as [[line nr] nh].
    destruct (N.eqb c' code_decode).
    + destruct (snippet_bounds _ line 2 nr nh); try discriminate; cbn in H; inversion H; subst; eapply decode_codes; eauto.
    + cbn in H. inversion H; subst. eapply decode_codes; eauto.
  - discriminate.
Qed.

(* ---------- the monitor ---------- *)
Theorem monitor_of_agreement : forall v o e documented x,
  all_guards v o -> agrees (predict v o e) x = true ->
  (forall c, x = OErr c -> documented c = true) ->
  mon_C16 documented x = true.
Proof.
  intros v o e documented x Hg Ha Hd. destruct (predict_no_panic v o e Hg) as (Hm & Hy).
  unfold agrees in Ha. rewrite Hm, Hy in Ha. destruct x as [ | c | s | ]; cbn in *.
  - reflexivity.
  - apply Hd; reflexivity.
  - discriminate.
  - discriminate.
Qed.

(* a panic or a hang never agrees with a variant that has all guards *)
Theorem guarded_model_rejects_crashes : forall v o e, all_guards v o ->
  (forall s, agrees (predict v o e) (OPanic s) = false) /\ agrees (predict v o e) OTimeout = false.
Proof.
  intros v o e Hg. destruct (predict_no_panic v o e Hg) as (Hm & Hy). split.
  - intros s. unfold agrees. rewrite Hm, Hy. reflexivity.
  - reflexivity.
Qed.

(* ---------- a witness for every missing guard ---------- *)
Definition k (s : string) : ynode := YScalar TStr s.

Definition wit_var : ynode := YMap [(k "vars", YMap [(k "A", YMap [])])].

Theorem refuted_var_empty_map : forall v o, g_var_len v = false -> decode_taskfile v o wit_var = Panic SVarEmptyMap.
Proof.
  intros v o H. unfold wit_var, decode_taskfile, k.
  cbv -[g_var_len]. rewrite H. reflexivity.
Qed.

Theorem refuted_glob_nil : forall v, g_glob_nil v = false -> replace_globs v [None] = Panic SGlobNil.
Proof. intros v H. cbn. rewrite H. reflexivity. Qed.

Theorem refuted_platform_nil : forall v goos goarch, g_platform_nil v = false ->
  should_run v goos goarch [None] = Panic SPlatformNil.
Proof. intros v goos goarch H. cbn. rewrite H. reflexivity. Qed.

Theorem refuted_requires_nil : forall v, g_requires_nil v = false -> requires_loop v [None] = Panic SRequiresNil.
Proof. intros v H. cbn. rewrite H. reflexivity. Qed.

(* a file with CR-only line ends: one "line" for strings.Split, an error on yaml's line 4 *)
Theorem refuted_snippet : snippet_bounds false 4 2 1 5 = Panic SSnippet.
Proof. reflexivity. Qed.

Theorem refuted_git_split : git_split false "/foo/bar.git" = Panic SGitSplit.
Proof. reflexivity. Qed.

Theorem refuted_wildcard : forall v o name, g_wc_must v = true -> g_wc_quote v = false -> o_wc_raw o name = false ->
  wildcard_compile v o name = Panic SWildcard.
Proof. intros v o name Hm Hq Hr. unfold wildcard_compile. rewrite Hq, Hr, Hm. reflexivity. Qed.

Theorem refuted_traverse : forall v, g_traverse_struct v = false -> traverse v true = Panic STraverseStruct.
Proof. intros v H. unfold traverse. rewrite H. reflexivity. Qed.

Theorem refuted_expand_literal : forall v o str, g_expand_literal_len v = false ->
  is_empty str = false -> o_words o str = Some 0 -> expand_literal v o str = Panic SExpandLiteral.
Proof. intros v o str Hg He Hw. unfold expand_literal. rewrite He, Hw, Hg. reflexivity. Qed.

(* ExpandLiteral with the length check never panics, whatever the shell parser says about the string *)
Theorem expand_literal_total : forall v o str, g_expand_literal_len v = true -> forall s, expand_literal v o str <> Panic s.
Proof.
  intros v o str Hg s H. unfold expand_literal in H. destruct (is_empty str); [ discriminate | ].
  destruct (o_words o str) as [[ | n] | ]; try discriminate. rewrite Hg in H. discriminate.
Qed.

Theorem refuted_deepcopy_nil : forall v, g_deepcopy_nil v = false ->
  slice_deepcopy v (set_sources task0 [None]) = Panic SDeepCopyNil.
Proof. intros v H. unfold slice_deepcopy. cbn. rewrite H. reflexivity. Qed.

Theorem refuted_matrix_nil_map : forall v, g_omap_nil v = false -> for_deepcopy v (Some true) = Panic SMatrixNilMap.
Proof. intros v H. unfold for_deepcopy. rewrite H. reflexivity. Qed.

(* the same at document level, for the tree without any guard: each of these
   Taskfiles is predicted to panic at its site *)
Definition ex_oracles : oracles :=
  {| o_dur := fun _ => false; o_ver := fun s => String.eqb s "3";
     o_os := fun s => mem s ["linux"; "windows"]; o_arch := fun s => mem s ["amd64"];
     o_wc_raw := fun s => negb (String.eqb s "a(b"); o_wc_quoted := fun _ => true;
     o_giturl := fun s => if String.eqb s "https://example.com/foo/bar.git" then Some ("https", "/foo/bar.git") else None;
     o_words := fun s => if str_prefix "#" s then Some 0 else Some 1 |}.

Definition ex_env (root : ynode) : docenv :=
  {| de_goos := "linux"; de_goarch := "amd64"; de_files := [(root_name, root)];
     de_requested := ["nonexist"]; de_snip := (0%Z, 1%N, 1%N) |}.

Definition doc (top : list (ynode * ynode)) : ynode := YMap ((k "version", k "3") :: top).
Definition one_task (fields : list (ynode * ynode)) : list (ynode * ynode) :=
  [(k "tasks", YMap [(k "t", YMap fields)])].

Definition musts (root : ynode) : list site := pr_must (predict unguarded ex_oracles (ex_env root)).

Example doc_var_empty_map : musts (doc [(k "vars", YMap [(k "A", YMap [])])]) = [SVarEmptyMap].
Proof. vm_compute. reflexivity. Qed.
Example doc_sources_null : musts (doc (one_task [(k "sources", YSeq [YNull]); (k "cmds", YSeq [k "echo hi"])])) = [SGlobNil].
Proof. vm_compute. reflexivity. Qed.
Example doc_platforms_null : musts (doc (one_task [(k "platforms", YSeq [YNull]); (k "cmds", YSeq [k "echo hi"])])) = [SPlatformNil].
Proof. vm_compute. reflexivity. Qed.
Example doc_cmd_platforms_null :
  musts (doc (one_task [(k "cmds", YSeq [YMap [(k "cmd", k "echo hi"); (k "platforms", YSeq [k "windows"; YNull])]])])) = [SPlatformNil].
Proof. vm_compute. reflexivity. Qed.
Example doc_requires_null : musts (doc (one_task [(k "requires", YMap [(k "vars", YSeq [YNull])]); (k "cmds", YSeq [k "echo hi"])])) = [SRequiresNil].
Proof. vm_compute. reflexivity. Qed.
Example doc_include_git : musts (doc [(k "includes", YMap [(k "g", k "https://example.com/foo/bar.git")])]) = [SGitSplit].
Proof. vm_compute. reflexivity. Qed.
Example doc_regex_name : musts (doc [(k "tasks", YMap [(k "a(b", k "echo hi")])]) = [SWildcard].
Proof. vm_compute. reflexivity. Qed.
Example doc_timestamp_var : musts (doc ((k "vars", YMap [(k "D", YScalar TTime "2024-01-15")]) :: one_task [(k "cmds", YSeq [k "echo hi"])])) = [STraverseStruct].
Proof. vm_compute. reflexivity. Qed.
Example doc_empty_matrix :
  pr_may (predict unguarded ex_oracles (ex_env (doc (one_task [(k "cmds", YSeq [YMap [(k "cmd", k "echo"); (k "for", YMap [(k "var", k "X"); (k "matrix", YMap [])])]])]))))
  = [SMatrixNilMap].
Proof. vm_compute. reflexivity. Qed.
Example doc_dir_comment : musts (doc (one_task [(k "dir", k "#build"); (k "cmds", YSeq [k "echo hi"])])) = [SExpandLiteral].
Proof. vm_compute. reflexivity. Qed.
Example doc_include_comment : musts (doc [(k "includes", YMap [(k "sub", k "#sub")])]) = [SExpandLiteral].
Proof. vm_compute. reflexivity. Qed.
(* a decode error on yaml's line 4 of a file that strings.Split sees as one line *)
Example doc_snippet :
  pr_must (predict unguarded ex_oracles
     {| de_goos := "linux"; de_goarch := "amd64";
        de_files := [(root_name, doc (one_task [(k "cmds", YMap [(k "a", k "b")])]))];
        de_requested := []; de_snip := (4%Z, 1%N, 5%N) |}) = [SSnippet].
Proof. vm_compute. reflexivity. Qed.

(* and the repaired variant predicts no panic for any of them (instances of predict_no_panic) *)
Example doc_repaired_ok :
  predict repaired ex_oracles (ex_env (doc (one_task [(k "sources", YSeq [YNull]); (k "platforms", YSeq [YNull]);
                                                      (k "requires", YMap [(k "vars", YSeq [YNull])]);
                                                      (k "cmds", YSeq [k "echo hi"])])))
  = {| pr_must := []; pr_may := []; pr_exact := Some OOk |}.
Proof. vm_compute. reflexivity. Qed.

(* non-vacuity of the reader theorem: a diamond with a cycle back to the root terminates with the cycle error *)
Example reader_example :
  let inc l := (k "includes", YMap (map (fun p => (k (fst p), k (snd p))) l)) in
  read repaired ex_oracles
    [(root_name, doc [inc [("a", "a.yml"); ("b", "b.yml")]]);
     ("a.yml", doc [inc [("c", "c.yml")]]);
     ("b.yml", doc [inc [("c", "c.yml")]]);
     ("c.yml", doc [inc [("r", "")]])] 5 = RErr code_cycle.
Proof. vm_compute. reflexivity. Qed.

(* depth does not matter: a chain Taskfile.yml -> l1.yml -> ... -> l12.yml (13 files) is read with
   fuel 14 = number of files + 1, the bound of reader_terminates; so is a wide-and-nested tree
   (10 siblings, each including a file of its own) *)
Fixpoint chain_files (n : nat) (name : string) : list (string * ynode) :=
  match n with
  | 0 => [(name, doc [(k "tasks", YMap [(k "leaf", k "echo leaf")])])]
  | S m =>
      let next := ("l" ++ name)%string in
      (name, doc [(k "includes", YMap [(k "n", k next)]); (k "tasks", YMap [(k "t", k "echo level")])])
      :: chain_files m next
  end.

Example reader_deep_chain :
  let fs := chain_files 12 root_name in
  List.length fs = 13 /\
  match read repaired ex_oracles fs (S (List.length fs)) with RDone vis _ => List.length vis = 13 | _ => False end.
Proof. vm_compute. split; reflexivity. Qed.

Definition wide_files (w : nat) : list (string * ynode) :=
  let ids := map (fun i => String (Ascii.ascii_of_nat (97 + i)) EmptyString) (seq 0 w) in
  (root_name, doc [(k "includes", YMap (map (fun i => (k i, k ("s" ++ i)%string)) ids))])
  :: flat_map (fun i => [(("s" ++ i)%string, doc [(k "includes", YMap [(k "c", k ("c" ++ i)%string)])]);
                         (("c" ++ i)%string, doc [(k "tasks", YMap [(k "leaf", k "echo leaf")])])]) ids.

Example reader_wide_nested :
  let fs := wide_files 10 in
  List.length fs = 21 /\
  match read repaired ex_oracles fs (S (List.length fs)) with RDone vis _ => List.length vis = 21 | _ => False end.
Proof. vm_compute. split; reflexivity. Qed.
