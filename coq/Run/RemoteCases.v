(* Executable checkers used by the generated cases.v of the C20 harness (driver remote). *)
From Coq Require Import List NArith Bool String.
Import ListNotations.
From TV Require Import Remote.Model Extracted.Facts.
Local Open Scope N_scope.

(* Tie to the source: the condition under which readRemoteNodeContent falls
   back to the cached bytes after node.ReadContext failed, as classified by the
   extractor (extract/facts_remote.go):
     0  only when the context is done (deadline / cancellation)      [pinned tree]
     1  also when the fetch failed without an HTTP answer            [repaired]
     anything else: shape not recognised (Remote/ProofsTie.v refuses it). *)
Definition current_variant : variant :=
  mkVariant (Nat.eqb remote_fallback_kind 1).

(* In cases.v contents are small version numbers and the digest is this injective map
   (the harness translates sha256 values back to versions; unknown bytes get 900+). *)
Definition tdigest (v : N) : N := 1000 + v.

Definition srv_eqb (a b : server) : bool :=
  match a, b with
  | Serve v, Serve w => v =? w
  | Down, Down => true
  | Refuse, Refuse => true
  | Slow d v, Slow e w => (d =? e) && (v =? w)
  | Status c, Status d => c =? d
  | _, _ => false
  end.

(* one observed CLI invocation: [rs_http] scheme of the URL, [rs_obs] what was seen *)
Record rstep := {
  rs_http : bool;
  rs_before : list (server * inv);   (* the earlier invocations of the same history (inputs only) *)
  rs_obs : obs
}.

(* correspondence: the model, started from the OBSERVED cache state before the
   step, predicts the observed exit status, probes and cache state after it *)
Definition rstep_agree (V : variant) (r : rstep) : bool :=
  let o := rs_obs r in
  let m := step_obs tdigest V (rs_http r) (o_pre o) (o_srv o) (o_inv o) in
  (o_exit m =? o_exit o) && nlist_eqb (o_ran m) (o_ran o) && cache_eqb (o_post m) (o_post o).

Definition rstep_only_approved (r : rstep) : bool := mon_only_approved tdigest (rs_obs r).
Definition rstep_unapproved (r : rstep) : bool := mon_unapproved tdigest (rs_http r) (rs_obs r).
Definition rstep_keeps (r : rstep) : bool := mon_keeps_running tdigest (rs_http r) (rs_obs r).
Definition rstep_http (r : rstep) : bool := mon_http_refused (rs_http r) (rs_obs r).
Definition rstep_guarded (r : rstep) : bool := mon_content_guarded tdigest (rs_obs r).

(* what ran against what the user approved so far in this history, this invocation included *)
Definition rstep_ran_approved (r : rstep) : bool :=
  let o := rs_obs r in
  mon_ever_approved tdigest (o, approvals_after tdigest [] (rs_before r ++ [(o_srv o, o_inv o)])).

Fixpoint number {A} (i : nat) (l : list A) : list (nat * A) :=
  match l with [] => [] | x :: r => (i, x) :: number (S i) r end.

Definition failures {A} (f : A -> bool) (l : list A) : list nat :=
  map fst (filter (fun p => negb (f (snd p))) (number 0 l)).
