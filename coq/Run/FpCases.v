(* Executable checkers used by the generated cases.v of the fp harness
   (properties C04, C05, C12), and the tie of model B to the source. *)
From Coq Require Import List String Ascii NArith Bool Arith.
Import ListNotations.
From TV Require Import Fp.Model Extracted.Facts.
Local Open Scope string_scope.

(* ---- tie to the source: the variant of the model the current tree is ---- *)

Definition strs_eqb (a b : list string) : bool := list_eqb String.eqb a b.

(* the record-after-success protocol: RunTask checks dry, drops the record when an attempt starts
   and records after the last command succeeded *)
Definition safe_protocol : bool :=
  strs_eqb fp_runtask_dry_args ["true"] && Nat.eqb fp_success_record_code 2 && fp_invalidate_first.
Definition check_writes_protocol : bool :=
  strs_eqb fp_runtask_dry_args ["e.Dry"] && (Nat.eqb fp_success_record_code 0 || Nat.eqb fp_success_record_code 1)
  && negb fp_invalidate_first && fp_cs_check_writes && fp_ts_check_touches.

Definition current : variant :=
  {| v_ts_rollback := fp_ts_onerror_removes;
     v_prompt_rollback := fp_prompt_rolls_back;
     v_listjson_dry := Nat.eqb fp_editor_dry_code 1;
     v_safe := safe_protocol;
     v_fp_exact := negb fp_cs_stream_basename;
     v_ts_exact := negb fp_ts_compares_mtimes;
     v_ts_gen_exist := fp_ts_checks_generates;
     v_dry_mkdir_guard := Nat.eqb fp_mkdir_dry_code 1;
     v_force_records := negb (Nat.eqb fp_success_record_code 0);
     v_dry_fail_guard := Nat.eqb fp_cmd_error_dry_code 1 |}.

(* shapes the model hard-wires; any other shape of the code breaks this obligation *)
Definition fp_shape_ok : bool :=
  fp_functions_found
  && fp_cs_check_honours_dry && fp_ts_check_honours_dry          (* checkers gate their writes on dry *)
  && fp_cs_onerror_removes && fp_cmd_error_rolls_back            (* failing command -> statusOnError -> Remove *)
  && fp_cs_checks_generates && fp_status_and_sources
  && fp_prompt_loop_found
  && strs_eqb fp_status_dry_args ["e.Dry"]
  && String.eqb fp_dry_wiring "Dry||Status"                       (* --status implies dry *)
  && String.eqb fp_skip_fingerprinting "e.ForceAll||(!call.Indirect&&e.Force)"
  && (Nat.eqb fp_editor_dry_code 0 || Nat.eqb fp_editor_dry_code 1)
  && (Nat.eqb fp_mkdir_dry_code 0 || Nat.eqb fp_mkdir_dry_code 1)
  && (Nat.eqb fp_cmd_error_dry_code 0 || Nat.eqb fp_cmd_error_dry_code 1)
  && (safe_protocol || check_writes_protocol)                     (* one of the two protocols, recognisably *)
  && fp_normalize_plain                                           (* state file name = normalizeFilename(name) *)
  && true.

(* ---- oracles used when replaying real runs ---- *)
Definition idH (s : string) : string := s.
(* exact fingerprints are never produced by the pinned tree; any injective printing will do *)
Definition n_str (n : N) : string := String (ascii_of_N (n mod 256)) (String (ascii_of_N ((n / 256) mod 256)) "").
Definition hx0 (fp : fpr) : string :=
  fold_right (fun e acc => fst (fst e) ++ "|" ++ snd (fst e) ++ "|" ++ n_str (snd e) ++ ";" ++ acc) "" fp.

Definition m_step := step gmatch idH hx0.

(* ---- a case: project, initial tree, what the real binary did ---- *)
Record fcase := { fc_proj : project; fc_init : snapshot; fc_steps : list ostep }.

Definition state_of_snap (sn : snapshot) : state :=
  {| fs := fs_of_snap sn; dirs := sn_dirs sn; cks := sn_cks sn; tss := sn_tss sn; tsx := sn_tsx sn; trace := [] |}.

(* agreement of everything except the digests themselves *)
Definition keys_eqb {A B} (a : list (string * A)) (b : list (string * B)) : bool :=
  strs_eqb (map fst a) (map fst b).

Definition snap_agree (base : nat) (m o : snapshot) : bool :=
  list_eqb fpe_eqb (sn_files m) (sn_files o) && strs_eqb (sn_dirs m) (sn_dirs o)
  && keys_eqb (sn_cks m) (sn_cks o) && kvn_eqb (sn_tss m) (sn_tss o) && keys_eqb (sn_tsx m) (sn_tsx o)
  && Nat.eqb (base + sn_trace m) (sn_trace o).

(* the model's digest (the stream itself, H = id) against the real xxh3 value:
   equal model digests <-> equal real digests, over the whole case *)
Definition dpairs := list (string * string).
Fixpoint bij_ok (l : dpairs) : bool :=
  match l with
  | [] => true
  | (m, r) :: rest =>
      forallb (fun q => Bool.eqb (String.eqb m (fst q)) (String.eqb r (snd q))) rest && bij_ok rest
  end.

(* a silent --dry prints nothing: the observation RDryQ stands for "RDry or RSkipped" *)
Definition res_agree (m o : res) : bool :=
  res_eqb m o || match o, m with RDryQ, RDry | RDryQ, RSkipped => true | _, _ => false end.

Fixpoint agree_run (v : variant) (p : project) (s : state) (l : list ostep) (acc : dpairs) : bool :=
  match l with
  | [] => bij_ok acc
  | e :: r =>
      let '(s', x) := m_step v p s (o_ev e) in
      res_agree x (o_res e) && snap_agree 0 (snap_of s') (o_snap e)
      && agree_run v p s' r (List.app (combine (map snd (sn_cks (snap_of s'))) (map snd (sn_cks (o_snap e)))) acc)
  end.

Definition fcase_agree (c : fcase) : bool :=
  agree_run current (fc_proj c) (state_of_snap (fc_init c)) (fc_steps c) [].

Definition fcase_c04 (c : fcase) : bool := mon_C04 gmatch (fc_proj c) (fc_init c) (fc_steps c).
Definition fcase_c05 (c : fcase) : bool := mon_C05 gmatch (fc_proj c) (fc_init c) (fc_steps c).
Definition fcase_c12 (c : fcase) : bool := mon_C12 (fc_init c) (fc_steps c).

(* H ; R ; K against H ; K on two fresh copies of the same project *)
Record ccase := { cc_with : list ostep; cc_without : list ostep; cc_nh : nat }.
Definition ccase_commute (c : ccase) : bool := mon_C12_commute (cc_with c) (cc_without c) (cc_nh c).

Fixpoint number {A} (i : nat) (l : list A) : list (nat * A) :=
  match l with [] => [] | x :: r => (i, x) :: number (S i) r end.
Definition failures {A} (f : A -> bool) (l : list A) : list nat :=
  map fst (filter (fun p => negb (f (snd p))) (number 0 l)).
