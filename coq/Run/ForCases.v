(* Records and boolean checkers used by the generated cases.v of the for-loop driver (vh-forloop). *)
From Coq Require Import List String Bool Arith.
Import ListNotations.
From TV Require Import Exec.ForLoop.
Local Open Scope string_scope.

(* one compiled task: the cmds / deps entries as written, and the Cmds / Deps of the task the real
   Executor.CompiledTask returned (command text, or callee + rendered call vars), in order *)
Record fcase := { fc_cmds : list entry; fc_deps : list entry; fc_obs_cmds : list xcmd; fc_obs_deps : list xcmd }.

Definition id_order : map_order := fun kvs => kvs.

(* model = implementation (cases without map loops: the expansion is a function of the input) *)
Definition for_agree (c : fcase) : bool :=
  xl_eqb (expand id_order (fc_cmds c)) (fc_obs_cmds c) && xl_eqb (expand id_order (fc_deps c)) (fc_obs_deps c).

(* the property's monitor on the implementation's list: declaration order, list order, matrix
   lexicographic order (first key slowest); a map loop: its iterations in any order *)
Definition for_mon (c : fcase) : bool :=
  mon_for (fc_cmds c) (fc_obs_cmds c) && mon_for (fc_deps c) (fc_obs_deps c).

(* end to end: the task was RUN by the real Executor; every shell command is  echo "<text>"  and
   every callee T prints  T:<value of its first call var> ; fr_lines = the lines on stdout in order *)
Record frun := { fr_cmds : list entry; fr_lines : list string }.

Definition line_of (x : xcmd) : string :=
  match x with
  | XShell s => substring 6 (String.length s - 7) s
  | XCall t ((_, v) :: _) => t ++ ":" ++ v
  | XCall t [] => t ++ ":"
  end.

Definition for_run_mon (r : frun) : bool :=
  list_eqb String.eqb (map line_of (spec_expand (fr_cmds r))) (fr_lines r).

Fixpoint number {A} (i : nat) (l : list A) : list (nat * A) :=
  match l with [] => [] | x :: r => (i, x) :: number (S i) r end.

Definition failures {A} (f : A -> bool) (l : list A) : list nat :=
  map fst (filter (fun p => negb (f (snd p))) (number 0 l)).
