(* Records and boolean checkers used by the generated cases.v of the for-loop driver (vh-forloop). *)
From Coq Require Import List String Ascii Bool Arith.
Import ListNotations.
From TV Require Import Exec.ForLoop.
Local Open Scope string_scope.

(* one compiled task: the cmds / deps entries as written, and the Cmds / Deps of the task the real
   Executor.CompiledTask returned (command text, or callee + rendered call vars), in order *)
Record fcase := { fc_cmds : list entry; fc_deps : list entry; fc_obs_cmds : list xcmd; fc_obs_deps : list xcmd }.

Definition id_order : map_order := fun kvs => kvs.

(* model = implementation (cases without map loops: the expansion is a function of the input) *)
Definition for_agree (c : fcase) : bool :=
  xl_eqb (expand id_order (fc_cmds c)) (fc_obs_cmds c) && xl_eqb (expand id_order (fc_deps c)) (fc_obs_deps c).

(* the property's monitor on the implementation's list: declaration order, list order, matrix
   lexicographic order (first key slowest); a map loop: its iterations in any order *)
Definition for_mon (c : fcase) : bool :=
  mon_for (fc_cmds c) (fc_obs_cmds c) && mon_for (fc_deps c) (fc_obs_deps c).

(* the attribute clause on its own (narrower signature than for_mon): every observed command carries
   the attributes of the entry whose segment it lies in *)
Definition for_attrs (c : fcase) : bool :=
  mon_attrs (fc_cmds c) (fc_obs_cmds c) && mon_attrs (fc_deps c) (fc_obs_deps c).

(* end to end: the task was RUN by the real Executor.  Every shell command is
     echo "<line>"            or     echo "<line>"; (exit <d>)
   (it fails iff d <> 0; <line> holds no double quote) and every callee T prints  T:<value of its
   first call var> .  fr_lines = the lines on stdout in order, fr_ok = Run returned nil. *)
Record frun := { fr_cmds : list entry; fr_lines : list string; fr_ok : bool }.

Fixpoint until_quote (s : string) : string * string :=
  match s with
  | "" => ("", "")
  | String a s' => if Ascii.eqb a """"%char then ("", s')
                   else let (l, t) := until_quote s' in (String a l, t)
  end.
Definition shell_parts (s : string) : string * string :=
  until_quote (substring 6 (String.length s - 6) s).

Definition line_of (x : xcmd) : string :=
  match x with
  | XShell _ s => fst (shell_parts s)
  | XCall _ t ((_, v) :: _) => t ++ ":" ++ v
  | XCall _ t [] => t ++ ":"
  end.

Definition fails (x : xcmd) : bool :=
  match x with
  | XShell _ s => let tl := snd (shell_parts s) in negb (String.eqb tl "") && negb (String.eqb tl "; (exit 0)")
  | XCall _ _ _ => false
  end.

(* the commands run one after the other; a failing command stops the task (Run returns an error)
   unless that command has ignore_error, in which case the failure is suppressed for exactly it *)
Fixpoint run_spec (xs : list xcmd) : list string * bool :=
  match xs with
  | [] => ([], true)
  | x :: r =>
      if fails x && negb (a_ignore_error (attrs_of x)) then ([line_of x], false)
      else let (ls, ok) := run_spec r in (line_of x :: ls, ok)
  end.

Definition for_run_mon (r : frun) : bool :=
  let (ls, ok) := run_spec (spec_expand (fr_cmds r)) in
  list_eqb String.eqb ls (fr_lines r) && Bool.eqb ok (fr_ok r).

Fixpoint number {A} (i : nat) (l : list A) : list (nat * A) :=
  match l with [] => [] | x :: r => (i, x) :: number (S i) r end.

Definition failures {A} (f : A -> bool) (l : list A) : list nat :=
  map fst (filter (fun p => negb (f (snd p))) (number 0 l)).
