(* Executable checkers used by the generated cases.v of the C15 harness, and the
   tie of model D to the current source tree (Extracted.Facts). *)
From Coq Require Import List Ascii String Bool Arith NArith.
Import ListNotations.
From TV Require Import Resolve.Model Extracted.Facts.

(* ---- the variant of the tree under check, from extracted facts ---- *)

Definition current_quotes : bool := String.eqb resolve_wildcard_shape "regex-quoted".
Definition current_fuzzy : bool :=
  (String.eqb resolve_fuzzy_guard "returns-when-taskfile-nil" || String.eqb resolve_fuzzy_guard "none")
  && resolve_fuzzy_after_read && resolve_fuzzy_trains_names_and_aliases.

Definition current_variant : variant :=
  {| v_quote := current_quotes; v_dotall := resolve_wildcard_dotall; v_fuzzy := current_fuzzy |}.

Definition current_codes : codes :=
  {| code_not_found := resolve_code_not_found; code_conflict := resolve_code_conflict |}.

(* every fact has one of the shapes the model knows how to read *)
Definition facts_recognised : bool :=
  (String.eqb resolve_wildcard_shape "regex-raw" || String.eqb resolve_wildcard_shape "regex-quoted")
  && (String.eqb resolve_fuzzy_guard "returns-when-taskfile-set" || String.eqb resolve_fuzzy_guard "returns-when-taskfile-nil"
      || String.eqb resolve_fuzzy_guard "none").

(* the parts of FindMatchingTasks / GetTask / errors / main the model hard-wires *)
Definition shape_as_modelled : bool :=
  resolve_exact_before_wildcard && resolve_wildcard_scan_in_table_order && resolve_alias_after_wildcard
  && resolve_conflict_when_many && resolve_not_found_when_none
  && resolve_error_types_return_their_codes && resolve_main_exits_with_error_code.

(* ---- literals of cases.v ---- *)

Definition s (x : string) : str := list_ascii_of_string x.
Definition chars (l : list nat) : str := map ascii_of_nat l.
Definition mk (n : str) (al : list str) : task := {| t_name := n; t_aliases := al |}.

Record rcase := RC { rc_tbl : table; rc_req : str; rc_obs : obs }.
Record ccase := CC { cc_tbl : table; cc_reqs : list str; cc_exit : nat; cc_ran : list (str * list str); cc_dym : str }.

(* indices in binary: a unary index list of a few thousand failing cases takes minutes to print *)
Fixpoint number {A} (i : N) (l : list A) : list (N * A) :=
  match l with [] => [] | x :: r => (i, x) :: number (N.succ i) r end.

Definition failures {A} (f : A -> bool) (l : list A) : list N :=
  map fst (filter (fun p => negb (f (snd p))) (number 0%N l)).

(* ---- correspondence: the model of the CURRENT tree vs what the implementation did ---- *)

Definition rc_agree (c : rcase) : bool :=
  match find current_variant (rc_tbl c) (rc_req c) with
  | Unmodelled => true          (* regexp syntax outside the modelled subset: no claim (counted by N_unmodelled) *)
  | NotFound (Some wds) =>
      match rc_obs c with
      | ONotFound [] => true
      | ONotFound d => mem d wds
      | _ => false
      end
  | o => obs_eqb (observe (fun _ _ => None) (rc_req c) o) (rc_obs c)
  end.

Definition rc_unmodelled (c : rcase) : bool :=
  match find current_variant (rc_tbl c) (rc_req c) with Unmodelled => true | _ => false end.

(* ---- the C15 monitor on the observed resolution ----
   One monitor (mon_choice), several result lists: a failing case goes to the list of a
   recorded defect only when it is in that defect's class AND the observation is exactly
   what the model of that defect predicts; every other failing case goes to "_other". *)

Definition is_panic (o : obs) : bool := match o with OPanic => true | _ => false end.

Definition same_choice (o : outcome) (req : str) (b : obs) : bool :=
  match o, b with
  | Unmodelled, _ => true
  | NotFound _, ONotFound _ => true
  | _, _ => obs_eqb (observe (fun _ _ => None) req o) b
  end.

Definition nodotall_variant : variant := {| v_quote := true; v_dotall := false; v_fuzzy := false |}.

Definition explained_meta (tbl : table) (req : str) (o : obs) : bool :=
  negb (table_plain tbl) && same_choice (find raw_variant tbl req) req o.
Definition explained_nl (tbl : table) (req : str) (o : obs) : bool :=
  has_nl req && same_choice (find nodotall_variant tbl req) req o.

Definition choice_ok (c : rcase) : bool :=
  is_panic (rc_obs c) || mon_choice (rc_tbl c) (rc_req c) (rc_obs c).

Definition rc_mon_choice_meta (c : rcase) : bool :=
  choice_ok c || negb (explained_meta (rc_tbl c) (rc_req c) (rc_obs c)).
Definition rc_mon_choice_nl (c : rcase) : bool :=
  choice_ok c || negb (explained_nl (rc_tbl c) (rc_req c) (rc_obs c)).
Definition rc_mon_choice_other (c : rcase) : bool :=
  choice_ok c || explained_meta (rc_tbl c) (rc_req c) (rc_obs c) || explained_nl (rc_tbl c) (rc_req c) (rc_obs c).

(* OPanic makes mon_choice false; it is reported on its own lists *)
Definition rc_mon_nopanic_meta (c : rcase) : bool :=
  negb (is_panic (rc_obs c)) || negb (explained_meta (rc_tbl c) (rc_req c) (rc_obs c)).
Definition rc_mon_nopanic_other (c : rcase) : bool :=
  negb (is_panic (rc_obs c)) || explained_meta (rc_tbl c) (rc_req c) (rc_obs c).

(* mon_suggest = "a suggestion is an existing name" && "a close name gets a suggestion" *)
Definition suggest_missing (tbl : table) (req : str) (o : obs) : bool :=
  match o with ONotFound [] => has_close (words tbl) req | _ => false end.
Definition rc_mon_suggest_missing (c : rcase) : bool :=
  mon_suggest (rc_tbl c) (rc_req c) (rc_obs c) || negb (suggest_missing (rc_tbl c) (rc_req c) (rc_obs c)).
Definition rc_mon_suggest_bogus (c : rcase) : bool :=
  mon_suggest (rc_tbl c) (rc_req c) (rc_obs c) || suggest_missing (rc_tbl c) (rc_req c) (rc_obs c).

(* ---- CLI level ---- *)

Definition ran_of (o : outcome) : list (str * list str) :=
  match o with Found _ n ws => [(n, ws)] | _ => [] end.

Definition cc_agree (c : ccase) : bool :=
  match run_calls current_variant current_codes (cc_tbl c) (cc_reqs c) with
  | (_, None) => true
  | (ran, Some code) =>
      Nat.eqb code (cc_exit c) && ran_eqb ran (cc_ran c)
      && (if v_fuzzy current_variant then true else match cc_dym c with [] => true | _ => false end)
  end.

Definition cc_ok (c : ccase) : bool := mon_cli (cc_tbl c) (cc_reqs c) (cc_exit c) (cc_ran c).

Definition cc_explained_by (v : variant) (in_class : bool) (c : ccase) : bool :=
  in_class &&
  match run_calls v spec_codes (cc_tbl c) (cc_reqs c) with
  | (_, None) => true
  | (ran, Some code) => Nat.eqb code (cc_exit c) && ran_eqb ran (cc_ran c)
  end.

Definition cc_meta (c : ccase) : bool := cc_explained_by raw_variant (negb (table_plain (cc_tbl c))) c.
Definition cc_nl (c : ccase) : bool := cc_explained_by nodotall_variant (existsb has_nl (cc_reqs c)) c.
Definition cc_mon_meta (c : ccase) : bool := cc_ok c || negb (cc_meta c).
Definition cc_mon_nl (c : ccase) : bool := cc_ok c || negb (cc_nl c).
Definition cc_mon_other (c : ccase) : bool := cc_ok c || cc_meta c || cc_nl c.

(* the suggestion text of the CLI, for runs of a single unknown name *)
Definition cc_obs (c : ccase) : option (str * obs) :=
  match cc_reqs c with
  | [r] => if Nat.eqb (cc_exit c) 200 then Some (r, ONotFound (cc_dym c)) else None
  | _ => None
  end.
Definition cc_mon_suggest_missing (c : ccase) : bool :=
  match cc_obs c with
  | Some (r, o) => mon_suggest (cc_tbl c) r o || negb (suggest_missing (cc_tbl c) r o)
  | None => true
  end.
Definition cc_mon_suggest_bogus (c : ccase) : bool :=
  match cc_obs c with
  | Some (r, o) => mon_suggest (cc_tbl c) r o || suggest_missing (cc_tbl c) r o
  | None => true
  end.
