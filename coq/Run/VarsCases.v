(* Executable checkers used by the generated cases.v of the vars harness
   (C10, C11), and the "current" variant of model E derived from the facts
   extracted from /repo on every run. *)
From Coq Require Import List String Bool Ascii.
Import ListNotations.
From TV Require Import Vars.Model Extracted.Facts.
Local Open Scope string_scope.

(* ---------- the current tree, as the extractor read it ---------- *)

Definition current_key : keyspec :=
  {| k_sh := smem "Sh" DynCacheKey; k_dir := smem "Dir" DynCacheKey; k_env := smem "Env" DynCacheKey |}.

Definition current_flags : mflags :=
  {| fl_snapshot_parent := String.eqb IncludedTaskfileVarsSource "t1.Vars";
     fl_merge_up := MergeIncludedVarsIntoParent;
     fl_include_eager := IncludeVarsTemplatedAtRead;
     fl_include_os_first := negb (String.eqb IncludeTemplateVarsBase "env.GetEnviron()"
                                  && String.eqb IncludeTemplateVarsTop "vertex.Taskfile.Vars") |}.

Definition current_params : params :=
  {| p_layers := VarLayers; p_taskdir := VarLayersTaskDir; p_dir_after := TaskDirTemplatedAfter;
     p_envorder := EnvMergeOrder;
     p_tdot_first := TaskDotenvFirstWins; p_matrix_shared := MatrixResolveWritesShared;
     p_defer_shared := DeferEntrySharedWithDefinition |}.

(* shapes the model knows how to follow; anything else breaks an obligation *)
Definition vars_facts_known : bool :=
  (String.eqb IncludedTaskfileVarsSource "t1.Vars" || String.eqb IncludedTaskfileVarsSource "t2.Vars")
  && forallb (fun s => smem s ["Sh"; "Dir"; "Env"]) DynCacheKey && k_sh current_key
  && String.eqb CliGlobalsTarget "e.Taskfile.Vars"
  && smem TaskDirTemplatedAfter VarLayers
  && (String.eqb CliValueExpr "value" || String.eqb CliValueExpr "templater.Literal()").

(* NAME=value on the command line: stored as it is (and templated with the
   global layer), or stored as text that renders to itself *)
Definition cli_values_literal : bool := String.eqb CliValueExpr "templater.Literal()".

Definition tmpl_text (ps : list tpart) : string :=
  String.concat "" (map (fun p => match p with TLit s => s | TVar n => "{{." ++ n ++ "}}" end) ps).

Definition cli_entry (e : entry) : entry :=
  if cli_values_literal
  then match e_expr e with
       | Tmpl ps => {| e_name := e_name e; e_expr := Lit (tmpl_text ps); e_dir := e_dir e |}
       | _ => e
       end
  else e.

(* the case as the command line means it for the current tree *)
Definition norm_case (c : vcase) : vcase :=
  {| c_os := c_os c; c_exp := c_exp c; c_name := c_name c; c_special := c_special c;
     c_special_caller := c_special_caller c; c_genv := c_genv c; c_root := c_root c;
     c_cli := map cli_entry (c_cli c); c_chain := c_chain c; c_depth := c_depth c;
     c_via_call := c_via_call c; c_call := c_call c; c_task := c_task c;
     c_root_dir := c_root_dir c; c_task_dir := c_task_dir c; c_caller_dir := c_caller_dir c;
     c_probes := c_probes c |}.

Definition current_world (sh : string -> string -> vars -> string) (os : vars) (exp : bool) : world :=
  {| w_sh := sh; w_os := os; w_exp := exp; w_os_wins := EnvOsWinsUnlessExperiment; w_key := current_key |}.

(* ---------- the shell commands the harness generates ---------- *)

Fixpoint strip_prefix (p s : string) : option string :=
  match p with
  | EmptyString => Some s
  | String a p' =>
      match s with
      | String b s' => if Ascii.eqb a b then strip_prefix p' s' else None
      | EmptyString => None
      end
  end.

Fixpoint split_at (c : ascii) (s : string) : string * option string :=
  match s with
  | EmptyString => (EmptyString, None)
  | String a s' =>
      if Ascii.eqb a c then (EmptyString, Some s')
      else let '(x, y) := split_at c s' in (String a x, y)
  end.

(* "pwd" prints the directory; "echo LIT" and "echo LIT$NAME" print LIT followed
   by NAME's value in the command's environment *)
Definition sh_concrete (text dir : string) (env : vars) : string :=
  if String.eqb text "pwd" then dir else
  match strip_prefix "echo " text with
  | Some rest =>
      let '(lit, v) := split_at "$"%char rest in
      lit ++ match v with Some n => vgetd n env | None => "" end
  | None => "?"
  end.

(* ---------- generic helpers ---------- *)

Fixpoint number {A} (i : nat) (l : list A) : list (nat * A) :=
  match l with [] => [] | x :: r => (i, x) :: number (S i) r end.

Definition failures {A} (f : A -> bool) (l : list A) : list nat :=
  map fst (filter (fun p => negb (f (snd p))) (number 0 l)).

(* ---------- C10: variables ---------- *)

Record vrun := { vr_case : vcase; vr_obs : list string }.

Definition vrun_model (c : vcase) : list string :=
  probe_values c (fst (case_vars (current_world sh_concrete (c_os c) (c_exp c))
                                 VarLayers VarLayersTaskDir current_flags c [])).

Definition vrun_agree (r : vrun) : bool := slist_eqb (vr_obs r) (vrun_model (norm_case (vr_case r))).

Definition vrun_mon (r : vrun) : bool := mon_vars sh_concrete (norm_case (vr_case r)) (vr_obs r).

(* Attribution of a false monitor to properties of the code: which of
   (snapshot of the parent's vars, included vars merged into the parent,
   include vars templated at read time, cache keyed on less than
   text+dir+env) have to be repaired, at least, for the model to print the
   documented values. *)
Record repair := { rp_snapshot : bool; rp_merge_up : bool; rp_eager : bool; rp_key : bool; rp_osfirst : bool }.

Definition rp5 (o a b c d : bool) : repair :=
  {| rp_snapshot := a; rp_merge_up := b; rp_eager := c; rp_key := d; rp_osfirst := o |}.

Definition rp_size (p : repair) : nat :=
  (if rp_snapshot p then 1 else 0) + (if rp_merge_up p then 1 else 0) + (if rp_eager p then 1 else 0)
  + (if rp_key p then 1 else 0) + (if rp_osfirst p then 1 else 0).

(* all sets of repairs, smallest first; among equally small ones those that put the
   file's vars back over the OS environment in include-statement templates come
   first: a read-time template that merely saw the wrong one of (global var, OS
   variable) is not to be explained away by "templated at read time" *)
Definition all_repairs : list repair :=
  flat_map (fun o => flat_map (fun a => flat_map (fun b => flat_map (fun c => map (fun d => rp5 o a b c d)
     [false; true]) [false; true]) [false; true]) [false; true]) [true; false].

Definition repairs_by_size : list repair :=
  flat_map (fun k => filter (fun p => Nat.eqb (rp_size p) k) all_repairs) [0; 1; 2; 3; 4; 5].

Definition variant_values (p : repair) (c : vcase) : list string :=
  let fl := {| fl_snapshot_parent := fl_snapshot_parent current_flags && negb (rp_snapshot p);
               fl_merge_up := fl_merge_up current_flags && negb (rp_merge_up p);
               fl_include_eager := fl_include_eager current_flags && negb (rp_eager p);
               fl_include_os_first := fl_include_os_first current_flags && negb (rp_osfirst p) |} in
  let k := if rp_key p then strong_key else current_key in
  probe_values c (fst (case_vars {| w_sh := sh_concrete; w_os := c_os c; w_exp := c_exp c;
                                    w_os_wins := EnvOsWinsUnlessExperiment; w_key := k |}
                                 VarLayers VarLayersTaskDir fl c [])).

Definition doc_values (c : vcase) : list string :=
  probe_values c (fst (doc_vars (mkw sh_concrete strong_key (c_os c) (c_exp c)) c [])).

Definition blame (c : vcase) : option repair :=
  find (fun p => slist_eqb (variant_values p c) (doc_values c)) repairs_by_size.

(* false iff the monitor is false and the given defect is part of the smallest explanation *)
Definition vrun_blamed (sel : repair -> bool) (r : vrun) : bool :=
  if vrun_mon r then true else match blame (norm_case (vr_case r)) with Some p => negb (sel p) | None => true end.

(* false iff the monitor is false and no combination of the known defects explains it *)
Definition vrun_unexplained (r : vrun) : bool :=
  if vrun_mon r then true
  else match blame (norm_case (vr_case r)) with
       | Some p => negb (Nat.eqb (rp_size p) 0)   (* "nothing to repair" explains nothing: the model itself prints the
                                                    documented values, the implementation does not *)
       | None => false
       end.

(* ---------- C10: environment ---------- *)

Record erun := { er_case : ecase; er_env : list string; er_tmpl : list string }.

Definition erun_mon (r : erun) : bool := mon_env (er_case r) (er_env r).

Definition erun_model (e : ecase) : outputs :=
  fst (compile (current_world sh_concrete (n_os e) (n_exp e)) current_params
               (ectx GlobalEnvBeatsDotenv GlobalDotenvFirstWins e) empty_shared).

Definition erun_agree (r : erun) : bool :=
  let o := erun_model (er_case r) in
  slist_eqb (er_env r) (o_env o) && slist_eqb (er_tmpl r) (o_vars o).

(* ---------- C11 ---------- *)

(* nr_tasks: the compilations of the in-context run, in order; nr_target: the
   index of the task under test; nr_parallel: the tasks ran concurrently (the
   order is then unknown to the harness) *)
Record nrun := {
  nr_os : vars;
  nr_groups : list (list tctx);   (* per started task: its own compilation, then those of the tasks it calls *)
  nr_fixed : nat;                 (* leading groups compiled first in every order (the combining task) *)
  nr_target : nat * nat;          (* group of the task under test, index of its compilation in the group *)
  nr_parallel : bool;
  nr_alone_tasks : list tctx;     (* the compilations of the alone run *)
  nr_alone_target : nat;
  nr_alone : outputs;
  nr_ctx : outputs;
  nr_defs_before : rows;
  nr_defs_after : rows
}.

Definition nrun_mon (r : nrun) : bool := mon_same (nr_alone r) (nr_ctx r).
Definition nrun_defs (r : nrun) : bool := mon_defs (nr_defs_before r) (nr_defs_after r).

Definition dummy_ctx : tctx :=
  {| x_name := ""; x_special := []; x_genv := []; x_gvars := []; x_incvars := []; x_incfile := [];
     x_call := []; x_tvars := []; x_root_dir := ""; x_task_dir := ""; x_dir_tmpl := None; x_tdot := []; x_tenv := [];
     x_matrix := None; x_vprobes := []; x_eprobes := []; x_defers := [] |}.

Definition empty_outputs : outputs := {| o_vars := []; o_env := []; o_items := []; o_defers := [] |}.

(* repairs: cache key gets the dir / the env; matrix refs resolved into a copy;
   the task's dir templated after the global and include vars; the compiled
   task gets copies of the defer: entries *)
Record nvariant := { nv_dir : bool; nv_env : bool; nv_matrix : bool; nv_dirlate : bool; nv_defer : bool }.

Definition nv5 (a b c d e : bool) : nvariant :=
  {| nv_dir := a; nv_env := b; nv_matrix := c; nv_dirlate := d; nv_defer := e |}.
Definition nv4 (a b c d : bool) : nvariant := nv5 a b c d false.
Definition nv (a b c : bool) : nvariant := nv4 a b c false.

Definition nv_size (v : nvariant) : nat :=
  (if nv_dir v then 1 else 0) + (if nv_env v then 1 else 0) + (if nv_matrix v then 1 else 0)
  + (if nv_dirlate v then 1 else 0) + (if nv_defer v then 1 else 0).

Definition bools : list bool := [false; true].

Definition all_nvariants : list nvariant :=
  flat_map (fun e => flat_map (fun d => flat_map (fun c => flat_map (fun b => map (fun a => nv5 a b c d e) bools)
                                                                     bools) bools) bools) bools.

Definition nvariants_by_size : list nvariant :=
  flat_map (fun k => filter (fun v => Nat.eqb (nv_size v) k) all_nvariants) [0; 1; 2; 3; 4; 5].

Definition nworld (v : nvariant) (os : vars) : world :=
  {| w_sh := sh_concrete; w_os := os; w_exp := false; w_os_wins := EnvOsWinsUnlessExperiment;
     w_key := {| k_sh := k_sh current_key; k_dir := k_dir current_key || nv_dir v;
                 k_env := k_env current_key || nv_env v |} |}.

Definition nparams (v : nvariant) : params :=
  {| p_layers := VarLayers; p_taskdir := VarLayersTaskDir;
     p_dir_after := if nv_dirlate v then "IncludeVars" else TaskDirTemplatedAfter;
     p_envorder := EnvMergeOrder;
     p_tdot_first := TaskDotenvFirstWins;
     p_matrix_shared := MatrixResolveWritesShared && negb (nv_matrix v);
     p_defer_shared := DeferEntrySharedWithDefinition && negb (nv_defer v) |}.

(* the target's outputs when the given list is compiled in order *)
Definition target_outputs (v : nvariant) (os : vars) (xs : list tctx) (i : nat) : outputs :=
  nth i (fst (compile_seq (nworld v os) (nparams v) xs empty_shared)) empty_outputs.

Definition alone_outputs_at (v : nvariant) (r_os : vars) (xs : list tctx) (i : nat) : outputs :=
  nth i (fst (compile_seq (nworld v r_os) (nparams v) xs empty_shared)) empty_outputs.

(* all orders of the other tasks before/after the target: each permutation, with the target's new index *)
Fixpoint insert_all {A} (x : A) (l : list A) : list (list A) :=
  match l with
  | [] => [[x]]
  | y :: r => (x :: y :: r) :: map (cons y) (insert_all x r)
  end.

Fixpoint perms {A} (l : list A) : list (list A) :=
  match l with
  | [] => [[]]
  | x :: r => flat_map (insert_all x) (perms r)
  end.

Fixpoint index_of (i : nat) (l : list nat) (k : nat) : nat :=
  match l with
  | [] => 0
  | j :: r => if Nat.eqb i j then k else index_of i r (S k)
  end.

(* orders of the started tasks (a task and what it calls stay together) *)
Definition orders (r : nrun) : list (list nat) :=
  let n := List.length (nr_groups r) in
  if nr_parallel r
  then map (fun p => seq 0 (nr_fixed r) ++ p)%list (perms (seq (nr_fixed r) (n - nr_fixed r)))
  else [seq 0 n].

Fixpoint offset_of (groups : list (list tctx)) (g : nat) (order : list nat) : nat :=
  match order with
  | [] => 0
  | j :: rest => if Nat.eqb j g then 0 else List.length (nth j groups []) + offset_of groups g rest
  end.

Definition ordered_outputs (v : nvariant) (r : nrun) (order : list nat) : outputs :=
  target_outputs v (nr_os r) (flat_map (fun j => nth j (nr_groups r) []) order)
                 (offset_of (nr_groups r) (fst (nr_target r)) order + snd (nr_target r)).

Definition alone_outputs (v : nvariant) (r : nrun) : outputs :=
  alone_outputs_at v (nr_os r) (nr_alone_tasks r) (nr_alone_target r).

Definition no_variant : nvariant := nv false false false.

(* model = implementation: alone exactly; in context for the order that was
   run (sequential) or for some order (parallel) *)
Fixpoint pointwise {A} (f : nat -> A -> bool) (i : nat) (l : list A) : bool :=
  match l with [] => true | x :: rest => f i x && pointwise f (S i) rest end.

(* every printed value is the one some order of the compilations gives *)
Definition some_order_in (cands : list outputs) (proj : outputs -> list string) (obs : outputs) : bool :=
  pointwise (fun i v => existsb (fun o => String.eqb v (nth i (proj o) "!none")) cands) 0 (proj obs)
  && existsb (fun o => Nat.eqb (List.length (proj obs)) (List.length (proj o))) cands.

Definition nrun_agree (r : nrun) : bool :=
  outputs_eqb (nr_alone r) (alone_outputs no_variant r)
  && (let cands := map (ordered_outputs no_variant r) (orders r) in
      if nr_parallel r
      then some_order_in cands o_vars (nr_ctx r) && some_order_in cands o_env (nr_ctx r)
           && some_order_in cands o_items (nr_ctx r) && some_order_in cands o_defers (nr_ctx r)
      else existsb (fun o => outputs_eqb (nr_ctx r) o) cands).

(* the values are those the shell gives in the task's own directory and environment *)
Definition strong_variant : nvariant := nv5 true true true true true.
Definition nrun_own (r : nrun) : bool :=
  outputs_eqb (nr_alone r) (alone_outputs strong_variant r).
Definition nblame_own (r : nrun) : option nvariant :=
  find (fun v => outputs_eqb (alone_outputs v r)
                             (alone_outputs strong_variant r))
       nvariants_by_size.
Definition nrun_own_blamed (sel : nvariant -> bool) (r : nrun) : bool :=
  if nrun_own r then true else match nblame_own r with Some v => negb (sel v) | None => true end.

(* smallest set of repairs under which every order gives the target its alone outputs *)
Definition nblame (r : nrun) : option nvariant :=
  find (fun v => forallb (fun o => outputs_eqb (ordered_outputs v r o)
                                               (alone_outputs v r))
                         (orders r))
       nvariants_by_size.

Definition nrun_blamed (sel : nvariant -> bool) (r : nrun) : bool :=
  if nrun_mon r then true else match nblame r with Some v => negb (sel v) | None => true end.

Definition nrun_unexplained (r : nrun) : bool :=
  if nrun_mon r then true else match nblame r with Some v => nv_dir v || nv_env v || nv_matrix v || nv_dirlate v || nv_defer v | None => false end.

(* all verdicts of one C11 case, computed once: [agree; dir; env; matrix; dirlate; defer; other;
   own_dir; own_env; own_dirlate; defs] (true = fine) *)
Definition nrun_status (r : nrun) : list bool :=
  let b := if nrun_mon r then None else Some (nblame r) in
  let blamed (sel : nvariant -> bool) :=
      match b with None => true | Some (Some v) => negb (sel v) | Some None => true end in
  let other := match b with
               | None => true
               | Some (Some v) => nv_dir v || nv_env v || nv_matrix v || nv_dirlate v || nv_defer v
               | Some None => false
               end in
  let bo := if nrun_own r then None else Some (nblame_own r) in
  let oblamed (sel : nvariant -> bool) :=
      match bo with None => true | Some (Some v) => negb (sel v) | Some None => true end in
  [ nrun_agree r; blamed nv_dir; blamed nv_env; blamed nv_matrix; blamed nv_dirlate; blamed nv_defer; other;
    oblamed nv_dir; oblamed nv_env; oblamed nv_dirlate; nrun_defs r ].

Definition status_at (i : nat) (st : list bool) : bool := nth i st false.
