(* Executable checkers used by the generated cases.v of the exec harness. *)
From Coq Require Import List Arith Bool.
Import ListNotations.
From TV Require Import Exec.Model Exec.Monitors Exec.Replay.

Record ecase := {
  ec_prog : prog; ec_cfg : cfg; ec_obs : list obs; ec_final : option res;
  ec_complete : bool;   (* Run returned *)
  ec_agree : bool       (* replay this run in the model (GOMAXPROCS=1 runs of acyclic programs) *)
}.

Definition ec_trace (c : ecase) : list event := obs_trace (ec_obs c).

Definition ecase_mon_C01 (c : ecase) := mon_C01 (ec_prog c) (ec_cfg c) (ec_trace c).
Definition ecase_mon_calls (c : ecase) := mon_calls (ec_prog c) (ec_cfg c) (ec_trace c).
Definition ecase_mon_waits (c : ecase) := mon_waits (ec_prog c) (ec_cfg c) (ec_trace c).
Definition ecase_mon_C02 (c : ecase) := mon_C02 (ec_prog c) (ec_cfg c) (ec_trace c).
Definition ecase_mon_C03 (c : ecase) := mon_C03 (ec_prog c) (ec_cfg c) (ec_trace c).
Definition ecase_mon_C03s (c : ecase) :=
  match ec_final c with Some r => mon_C03_status (ec_prog c) (ec_cfg c) (ec_trace c) r | None => true end.
Definition ecase_mon_C06 (c : ecase) := mon_C06 (ec_prog c) (ec_cfg c) (ec_trace c).
Definition ecase_mon_C07 (c : ecase) := mon_C07 (ec_cfg c) (ec_trace c).
Definition ecase_mon_C13 (c : ecase) := mon_C13 (ec_prog c) (ec_cfg c) (ec_trace c).
Definition ecase_mon_C13s (c : ecase) :=
  match ec_final c with Some r => mon_C13_status (ec_prog c) (ec_cfg c) (ec_trace c) r | None => true end.
Definition ecase_mon_C14x (c : ecase) := mon_C14x (ec_prog c) (ec_cfg c) (ec_trace c).
Definition ecase_mon_C01d (c : ecase) := mon_C01d (ec_prog c) (ec_cfg c) (ec_trace c).
Definition ecase_mon_C14 (c : ecase) := mon_C14 (ec_prog c) (ec_cfg c) (ec_complete c) (ec_trace c).

(* liveness at quiescent points: where the implementation is stuck the model must be stuck too *)
Definition ecase_mon_eager (c : ecase) : bool :=
  if ec_agree c then negb (Nat.eqb (live_code (ec_prog c) (ec_cfg c) (ec_obs c)) 2) else true.
Definition ecase_live_inconclusive (c : ecase) : bool :=
  if ec_agree c then Nat.eqb (live_code (ec_prog c) (ec_cfg c) (ec_obs c)) 1 else false.

(* agreement: the machine reproduces the observed run and its result.  Code 1 (the eager replay lost
   track and the search ran out of its node budget) is NO verdict: it is counted
   (ecase_agree_inconclusive), never reported as a disagreement. *)
Definition ecase_agree (c : ecase) : bool :=
  if ec_agree c then Nat.leb (agree_code (ec_prog c) (ec_cfg c) (ec_obs c) (ec_final c)) 1 else true.
Definition ecase_agree_inconclusive (c : ecase) : bool :=
  if ec_agree c then Nat.eqb (agree_code (ec_prog c) (ec_cfg c) (ec_obs c) (ec_final c)) 1 else false.

Fixpoint number {A} (i : nat) (l : list A) : list (nat * A) :=
  match l with [] => [] | x :: r => (i, x) :: number (S i) r end.

Definition failures {A} (f : A -> bool) (l : list A) : list nat :=
  map fst (filter (fun p => negb (f (snd p))) (number 0 l)).
