(* Executable glue for C18: the access table decoded from Extracted.Facts, the
   "current tree" definitions, and the checkers cases.v evaluates on what the
   race detector reported. *)
From Coq Require Import List String Bool Arith.
Import ListNotations.
From TV Require Import Race.Model Extracted.Facts.
Local Open Scope string_scope.

(* ---- decoding (fail closed: anything unrecognised becomes the worst value) ---- *)

Definition dec_kind (s : string) : rw := if String.eqb s "R" then Rd else Wr.

Definition dec_lock (x : string * string) : list (string * lmode) :=
  let m := snd x in
  if String.eqb m "X" then [(fst x, Excl)]
  else if String.eqb m "S" then [(fst x, Shared)]
  else if String.eqb m "before-close" then [(fst x, BeforeClose)]
  else if String.eqb m "after-wait" then [(fst x, AfterWait)]
  else [].

Definition raw_entry := (string * (string * (string * (string * (list (string * string) * (bool * (string * string)))))))%type.

Definition dec_entry (x : raw_entry) : entry :=
  match x with
  | (fn, (ex, (cls, (k, (locks, (at_, (phase, scope))))))) =>
      mkEn fn ex cls (dec_kind k) (flat_map dec_lock locks) at_
           (negb (String.eqb phase "main")) (negb (String.eqb scope "fresh"))
  end.

(* the table of the tree being checked *)
Definition current_table : table := map dec_entry race_access_table.

(* Classes of the current tree that do NOT meet the discipline and are recorded as
   open findings.  None is open: the three classes found by this check
   (groupWriter.buff, prefixWriter.buff: /repo 25abf76; MatrixRow.Value: /repo
   3d636e5) were repaired, so Properties/C18.v states [lockset_ok current_table
   = true] outright and any new unprotected access breaks that obligation.  A
   defect that is recorded instead of repaired would be listed here (and in
   KNOWN_FINDINGS.json), and C18_table_ok would then be stated for
   [drop_classes current_known_offenders current_table]. *)
Definition current_known_offenders : list string := [].

(* The offending entries as they were extracted before those repairs: the named
   pre-fix variant used by the _refuted witnesses. *)
Definition prefix_offending_table : table :=
  [ mkEn "internal/output.(*groupWriter).Write" "gw.buff" "internal/output.groupWriter.buff" Wr [] false true true;
    mkEn "internal/output.(*prefixWriter).Write" "pw.buff" "internal/output.prefixWriter.buff" Wr [] false true true;
    mkEn "internal/output.(*prefixWriter).writeOutputLines" "pw.buff (x2)" "internal/output.prefixWriter.buff" Wr [] false true true;
    mkEn "task.resolveMatrixRefs" "row.Value" "taskfile/ast.MatrixRow.Value" Wr [] false true true;
    mkEn "task.product" "row.Value" "taskfile/ast.MatrixRow.Value" Rd [] false true true ].

Definition subset_b (a b : list string) : bool := forallb (fun x => existsb (String.eqb x) b) a.

Definition drop_classes (cs : list string) (T : table) : table :=
  filter (fun en => negb (existsb (String.eqb (en_class en)) cs)) T.

(* ---- what the race detector reported ---- *)

(* one report: the innermost go-task frame of either access (closures folded
   into the enclosing function, named as in the table) and the access kinds *)
Record race_obs := mkObs { ro_f1 : string; ro_k1 : rw; ro_f2 : string; ro_k2 : rw }.

Definition fn_classes (T : table) (f : string) : list string :=
  dedup (map en_class (filter (fun en => String.eqb (en_fn en) f && en_conc en) T)).

(* agreement 1: a reported race is on a class the table does not protect *)
Definition obs_agrees (T : table) (r : race_obs) : bool :=
  existsb (fun c => existsb (String.eqb c) (fn_classes T (ro_f2 r)) && negb (class_ok T c))
          (fn_classes T (ro_f1 r)).

(* per case: among the pairs reported for one run at least one is on a class the
   table does not protect.  (Once a pointer has been published through a racy
   field, the detector also reports accesses to what it points to -- e.g. the
   elements of the per-call slice stored into MatrixRow.Value, written by
   reflection in deepcopy -- and those locations are not struct fields.) *)
Definition case_agrees (T : table) (obs : list race_obs) : bool := existsb (obs_agrees T) obs.

(* agreement 2: a class the table does not protect was seen racing *)
Definition class_observed (T : table) (obs : list race_obs) (c : string) : bool :=
  existsb (fun r => existsb (String.eqb c) (fn_classes T (ro_f1 r)) && existsb (String.eqb c) (fn_classes T (ro_f2 r))) obs.

Fixpoint number {A} (i : nat) (l : list A) : list (nat * A) :=
  match l with [] => [] | x :: r => (i, x) :: number (S i) r end.

Definition failures {A} (f : A -> bool) (l : list A) : list nat :=
  map fst (filter (fun p => negb (f (snd p))) (number 0 l)).
