(* Executable checkers used by the generated cases.v of the C17 harness. *)
From Coq Require Import List NArith Bool.
Import ListNotations.
From TV Require Import Output.Model Extracted.Facts.

(* Tie to the source: how many separate sink writes groupWriter.close issues
   (extracted from internal/output/group.go on every run). *)
Definition current_one_write : bool := Nat.eqb group_close_sink_writes 1.

Fixpoint bll_eqb (a b : list bytes) : bool :=
  match a, b with
  | [], [] => true
  | x :: a', y :: b' => beqb x y && bll_eqb a' b'
  | _, _ => false
  end.

(* unit level: the sink writes of one wrapped command *)
Record gunit := { gu_cfg : gcfg; gu_cmd : gcmd; gu_writes : list bytes }.
Record punit := { pu_prefix : bytes; pu_chunks : list bytes; pu_writes : list bytes }.

Definition gunit_agree (one_write : bool) (u : gunit) : bool :=
  bll_eqb (concat (group_atoms one_write (gu_cfg u) (gu_cmd u))) (gu_writes u).
Definition punit_agree (u : punit) : bool :=
  bll_eqb (concat (prefixed_atoms (pu_prefix u) (pu_chunks u))) (pu_writes u).

(* end to end: what reached the Executor's stdout, in order *)
Record grun := { gr_cfg : gcfg; gr_cmds : list gcmd; gr_sink : list bytes }.
Record prun := { pr_cmds : list (bytes * list bytes); pr_sink : list bytes }.

Definition grun_mon (r : grun) : bool := mon_group (gr_cfg r) (gr_cmds r) (concat (gr_sink r)).
Definition prun_mon (r : prun) : bool := mon_prefixed (pr_cmds r) (concat (pr_sink r)).

Fixpoint number {A} (i : nat) (l : list A) : list (nat * A) :=
  match l with [] => [] | x :: r => (i, x) :: number (S i) r end.

Definition failures {A} (f : A -> bool) (l : list A) : list nat :=
  map fst (filter (fun p => negb (f (snd p))) (number 0 l)).
