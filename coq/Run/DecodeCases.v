(* Executable checkers used by the generated cases.v of the C16 harness, and the
   variant of the model that describes the current tree (from extracted facts). *)
From Coq Require Import List String Ascii NArith ZArith Bool Arith.
Import ListNotations.
From TV Require Import Decode.Model Extracted.Facts.
Local Open Scope string_scope.

(* ---- tie to the source: which guards are present (extract/facts_decode.go) ---- *)
Definition guard_facts : list nat :=
  [decode_var_len_check; decode_glob_nil_check; decode_platform_nil_check; decode_requires_nil_check;
   decode_snippet_clamp; decode_git_len_check; decode_wildcard_quotemeta; decode_wildcard_mustcompile;
   decode_traverse_struct_check; decode_omap_nil_check; decode_deepcopy_nil_check; decode_expand_literal_len_check].

(* every fact has a shape the extractor recognised (0 or 1) *)
Definition facts_recognised : bool := forallb (fun x => Nat.ltb x 2) guard_facts.

Definition on (x : nat) : bool := Nat.eqb x 1.

Definition current : variant :=
  {| g_var_len := on decode_var_len_check;
     g_glob_nil := on decode_glob_nil_check;
     g_platform_nil := on decode_platform_nil_check;
     g_requires_nil := on decode_requires_nil_check;
     g_snippet_clamp := on decode_snippet_clamp;
     g_git_len := on decode_git_len_check;
     g_wc_quote := on decode_wildcard_quotemeta;
     g_wc_must := negb (Nat.eqb decode_wildcard_mustcompile 0);
     g_traverse_struct := on decode_traverse_struct_check;
     g_omap_nil := on decode_omap_nil_check;
     g_expand_literal_len := on decode_expand_literal_len_check;
     g_deepcopy_nil := on decode_deepcopy_nil_check |}.

(* the exit codes the project documents (errors/errors.go) *)
Definition documented (c : N) : bool := existsb (fun p => N.eqb (snd p) c) decode_exit_codes.

Definition code_named (name : string) : option N :=
  match find (fun p => String.eqb (fst p) name) decode_exit_codes with
  | Some p => Some (snd p)
  | None => None
  end.

(* ---- string helpers for generated literals ---- *)
Definition bs (n : nat) : string := String (ascii_of_nat n) EmptyString.
Definition cat (l : list string) : string := fold_right String.append EmptyString l.

(* ---- cases ---- *)
Record tcase := {
  tc_env : docenv;
  tc_dur : list string;            (* strings time.ParseDuration accepts *)
  tc_ver : list string;            (* strings semver.NewVersion accepts *)
  tc_os : list string;             (* goext.IsKnownOS *)
  tc_arch : list string;           (* goext.IsKnownArch *)
  tc_wc_bad : list string;         (* names whose raw wildcard pattern does not compile *)
  tc_wc_qbad : list string;        (* names whose quoted wildcard pattern does not compile *)
  tc_giturl : list (string * (string * string));   (* giturls.Parse: location -> (scheme, path) *)
  tc_words0 : list string;         (* strings that parse to no shell word at all *)
  tc_words_err : list string;      (* strings the shell parser rejects *)
  tc_obs : outcome;                (* what Setup + compile + list + dry run did *)
  tc_decode : outcome              (* what yaml.Unmarshal (+ the version check) did *)
}.

Definition oracles_of (c : tcase) : oracles :=
  {| o_dur := fun s => mem s (tc_dur c);
     o_ver := fun s => mem s (tc_ver c);
     o_os := fun s => mem s (tc_os c);
     o_arch := fun s => mem s (tc_arch c);
     o_wc_raw := fun s => negb (mem s (tc_wc_bad c));
     o_wc_quoted := fun s => negb (mem s (tc_wc_qbad c));
     o_giturl := fun s => lookup s (tc_giturl c);
     o_words := fun s => if mem s (tc_words_err c) then None else if mem s (tc_words0 c) then Some 0 else Some 1 |}.

Definition outcome_of_res {A} (r : res A) : outcome :=
  match r with Ok _ => OOk | Err c => OErr c | Panic s => OPanic s end.

(* the decoder alone: exact agreement *)
Definition decode_agree (v : variant) (c : tcase) : bool :=
  match lookup root_name (de_files (tc_env c)) with
  | Some root => outcome_eqb (outcome_of_res (decode_taskfile v (oracles_of c) root)) (tc_decode c)
  | None => false
  end.

(* the whole pipeline: the observed outcome fits the prediction *)
Definition tree_agree (v : variant) (c : tcase) : bool :=
  agrees (predict v (oracles_of c) (tc_env c)) (tc_obs c).

(* the monitor of C16 on an observed outcome *)
Definition mon_case (x : outcome) : bool := mon_C16 documented x.

Record scase := { sc_line : Z; sc_nraw : N; sc_nhl : N; sc_panicked : bool }.
Definition snip_agree (v : variant) (c : scase) : bool :=
  Bool.eqb (is_panic (snippet_bounds (g_snippet_clamp v) (sc_line c) 2 (sc_nraw c) (sc_nhl c))) (sc_panicked c).

Record lcase := { lc_loc : string; lc_giturl : option (string * string); lc_obs : outcome }.
Definition loc_agree (v : variant) (c : lcase) : bool :=
  let o := {| o_dur := fun _ => false; o_ver := fun _ => false; o_os := fun _ => false; o_arch := fun _ => false;
              o_wc_raw := fun _ => true; o_wc_quoted := fun _ => true;
              o_giturl := fun s => if String.eqb s (lc_loc c) then lc_giturl c else None;
              o_words := fun _ => Some 1 |} in
  if is_remote_looking (lc_loc c) then
    match new_node v o (lc_loc c), lc_obs c with
    | NNPanic s, OPanic s' => site_eqb s s'
    | NNErr, OErr _ => true
    | _, _ => false
    end
  else match lc_obs c with OPanic _ | OTimeout => false | _ => true end.

Record wcase := { wc_name : string; wc_raw_ok : bool; wc_quoted_ok : bool; wc_panicked : bool }.
Definition wild_agree (v : variant) (c : wcase) : bool :=
  let o := {| o_dur := fun _ => false; o_ver := fun _ => false; o_os := fun _ => false; o_arch := fun _ => false;
              o_wc_raw := fun _ => wc_raw_ok c; o_wc_quoted := fun _ => wc_quoted_ok c;
              o_giturl := fun _ => None; o_words := fun _ => Some 1 |} in
  Bool.eqb (is_panic (wildcard_compile v o (wc_name c))) (wc_panicked c).

Fixpoint number {A} (i : nat) (l : list A) : list (nat * A) :=
  match l with [] => [] | x :: r => (i, x) :: number (S i) r end.

Definition failures {A} (f : A -> bool) (l : list A) : list nat :=
  map fst (filter (fun p => negb (f (snd p))) (number 0 l)).
