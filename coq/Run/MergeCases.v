(* Executable checkers used by the generated cases.v of the C08 / C09 harness
   (driver "merge"), and the variant of the model that describes the current tree. *)
From Coq Require Import List String Bool Arith Ascii.
Import ListNotations.
From TV Require Import Merge.Model Merge.Spec Extracted.Facts.
Local Open Scope string_scope.
Local Open Scope list_scope.

(* ---- tie to the source (facts regenerated from /repo on every run) ---- *)

(* reference renaming in Tasks.Merge: the current code calls taskNameWithNamespace,
   which trims the ':' at every level; the repaired code calls taskRefWithNamespace
   (keeps ':'-prefixed names) and graph.Merge strips the prefix once at the end. *)
Definition rootref_shape : option bool :=
  if String.eqb tasks_merge_ref_fn "taskNameWithNamespace" && String.eqb tasks_merge_ref_fn_trims "true" then Some false
  else if String.eqb tasks_merge_ref_fn "taskRefWithNamespace" && String.eqb tasks_merge_ref_fn_trims "false"
          && mem "stripRootRefs" graph_merge_calls then Some true
  else None.

(* graph.Merge: the current code walks PredecessorMap of the included vertex; the repaired
   code walks the Includes of each vertex in declared order (AdjacencyMap, no PredecessorMap) *)
Definition order_shape : option bool :=
  if mem "PredecessorMap" graph_merge_calls && negb (mem "AdjacencyMap" graph_merge_calls) then Some false
  else if mem "AdjacencyMap" graph_merge_calls && negb (mem "PredecessorMap" graph_merge_calls)
          && (mem "Keys" graph_merge_calls || mem "All" graph_merge_calls) then Some true
  else None.

(* graph.Merge processes the vertices in the reverse of a topological order.  The model abstracts
   ast.Var.Dir, which Vars.Merge stamps IN PLACE into the variables of the included Taskfile for a
   long-form include; which copy a short-form include of the same file then receives depends on the
   processing order.  That abstraction preserves determinism only if the order is a function of the
   graph: graph.StableTopologicalSort, not graph.TopologicalSort (which ranges over Go maps). *)
Definition sort_stable : bool :=
  mem "StableTopologicalSort" graph_merge_calls && negb (mem "TopologicalSort" graph_merge_calls).

(* Vars.Merge: the repaired code stamps include.Dir on a local copy of the variable and stores the copy;
   the former code assigned to pair.Value.Dir, i.e. to the variable of the included Taskfile *)
Definition inplace_shape : option bool :=
  if String.eqb vars_merge_dir_inplace "false" then Some false
  else if String.eqb vars_merge_dir_inplace "true" then Some true
  else None.

Definition variant_known : bool :=
  match rootref_shape, order_shape, inplace_shape with Some _, Some _, Some _ => true | _, _, _ => false end
  && (mem "TopologicalSort" graph_merge_calls || mem "StableTopologicalSort" graph_merge_calls).

Definition current_variant : variant :=
  {| v_task_dc := task_deepcopy_fields; v_cmd_dc := cmd_deepcopy_fields; v_dep_dc := dep_deepcopy_fields;
     v_keep_rootref := match rootref_shape with Some b => b | None => false end;
     v_declared := match order_shape with Some b => b | None => false end;
     v_inplace := match inplace_shape with Some b => b | None => true end |}.

(* fields of ast.Task / Cmd / Dep that DeepCopy does not assign, and fields the compiled task does not carry *)
Definition missing (all some : list string) : list string := filter (fun f => negb (mem f some)) all.
Definition deepcopy_missing : list string :=
  missing task_fields task_deepcopy_fields
  ++ map (fun f => ("Cmd." ++ f)%string) (missing cmd_fields cmd_deepcopy_fields)
  ++ map (fun f => ("Dep." ++ f)%string) (missing dep_fields dep_deepcopy_fields)
  ++ map (fun f => ("compiled." ++ f)%string) (missing task_fields compiled_task_fields).

(* ---- observations ---- *)

Inductive robs := RGraph (vs : list string) (es : list (string * string * list string)) | RErr (e : err) | ROther (msg : string).
(* listings: [--list-all --json --no-status; --list-all --json; --list-all; --list --json --no-status] as name lists ([] = not taken) *)
Inductive sobs := STable (f : file) (compiled : list string) (listings : list (list string)) | SErr (e : err) | SOther (msg : string).
Record eobs := { e_name : string; e_ok : bool; e_lines : list (string * string * string * string) }.

Record mcase := { mc_fs : fsys; mc_root : string; mc_read : robs; mc_loads : list sobs; mc_execs : list eobs;
                  mc_twin : list (list string) }.

Fixpoint number {A} (i : nat) (l : list A) : list (nat * A) :=
  match l with [] => [] | x :: r => (i, x) :: number (S i) r end.
Definition failures {A} (f : A -> bool) (l : list A) : list nat :=
  map fst (filter (fun p => negb (f (snd p))) (number 0 l)).

Definition subset (a b : list string) : bool := forallb (fun x => mem x b) a.
Definition seteq (a b : list string) : bool := subset a b && subset b a && Nat.eqb (List.length a) (List.length b).

(* ---- the reader ---- *)

Definition edge_descr (i : include) : string := (i_ns i ++ "@" ++ i_dir i)%string.

Definition agree_read (c : mcase) : bool :=
  match read (mc_fs c) (mc_root c), mc_read c with
  | Err e, RErr e' => err_eqb e e'
  | Ok g, RGraph vs es =>
      seteq (vertices g) vs
      && forallb (fun e => match e with (p, x, d) => seteq (map edge_descr (incs_between g p x)) d end) es
      && forallb (fun n => forallb (fun e => existsb (fun e' => match e' with (p, x, _) => String.eqb p (n_path n) && String.eqb x (snd e) end) es) (n_out n)) g
  | _, _ => false
  end.

(* ---- the merge: the observed table must be one of the model's outcomes ---- *)

Definition cmd_eqb (a b : cmd) : bool := String.eqb (c_task a) (c_task b) && attrs_eqb cmd_fields (c_attrs a) (c_attrs b)
  && subset (map fst (c_attrs b)) cmd_fields.
Definition dep_eqb (a b : dep) : bool := String.eqb (d_task a) (d_task b) && attrs_eqb dep_fields (d_attrs a) (d_attrs b)
  && subset (map fst (d_attrs b)) dep_fields.

Fixpoint list_eqb {A} (eq : A -> A -> bool) (a b : list A) : bool :=
  match a, b with
  | [], [] => true
  | x :: a', y :: b' => eq x y && list_eqb eq a' b'
  | _, _ => false
  end.

Definition task_eqb (a b : task) : bool :=
  String.eqb (t_task a) (t_task b) && list_eqb cmd_eqb (t_cmds a) (t_cmds b) && list_eqb dep_eqb (t_deps a) (t_deps b)
  && list_eqb String.eqb (t_aliases a) (t_aliases b) && String.eqb (t_dir a) (t_dir b) && Bool.eqb (t_internal a) (t_internal b)
  && String.eqb (t_namespace a) (t_namespace b) && vars_eqb (t_incvars a) (t_incvars b) && vars_eqb (t_inctfvars a) (t_inctfvars b)
  && attrs_eqb task_fields (t_attrs a) (t_attrs b) && subset (map fst (t_attrs b)) task_fields.

Definition file_matches (m o : file) : bool :=
  String.eqb (f_output m) (f_output o) && vars_eqb (f_vars m) (f_vars o) && vars_eqb (f_env m) (f_env o)
  && list_eqb (fun x y => String.eqb (fst x) (fst y) && task_eqb (snd x) (snd y)) (f_tasks m) (f_tasks o).

(* every outcome the model allows: first error of graph.Merge (if any) and the merged root *)
Definition outcomes (v : variant) (g : graph) : list (option err * file) :=
  flat_map (fun pi => map (fun s => (merge_err v g pi s, merge_all v g pi s)) (all_sigmas g)) (all_topo g).

Definition load_matches (o : option err * file) (l : sobs) : bool :=
  match l, o with
  | STable f _ _, (None, m) => file_matches m f
  | SErr e, (Some e', _) => err_eqb e e'
  | _, _ => false
  end.

Definition agree_merge (c : mcase) : bool :=
  match read (mc_fs c) (mc_root c) with
  | Err e => forallb (fun l => match l with SErr e' => err_eqb e e' | _ => false end) (mc_loads c)
  | Ok g => let outs := outcomes current_variant g in
            forallb (fun l => existsb (fun o => load_matches o l) outs) (mc_loads c)
  end.

(* ---- C08 monitors on what the real Executor built ---- *)

Definition on_tables (c : mcase) (f : graph -> table -> bool) : bool :=
  match read (mc_fs c) (mc_root c) with
  | Err _ => true
  | Ok g => forallb (fun l => match l with STable t _ _ => f g (f_tasks t) | _ => true end) (mc_loads c)
  end.

Definition mon_c08_present (c : mcase) : bool := on_tables c mon_present.
Definition mon_c08_refs (c : mcase) : bool := on_tables c mon_refs.
Definition mon_c08_attrs (c : mcase) : bool := on_tables c (mon_attrs task_fields cmd_fields dep_fields).
Definition mon_c08_place (c : mcase) : bool := on_tables c mon_place.
Definition mon_c08_aliases (c : mcase) : bool := on_tables c mon_aliases.
Definition mon_c08_default (c : mcase) : bool := on_tables c mon_default.
Definition mon_c08_dropped (c : mcase) : bool := on_tables c mon_dropped.

(* errors are reported exactly when the tree is erroneous *)
Definition mon_c08_errors (c : mcase) : bool :=
  forallb (fun l =>
    match read (mc_fs c) (mc_root c), l with
    | Err e, SErr e' => err_eqb e e'
    | Err _, _ => false
    | Ok g, SErr e => spec_merge_must_fail g && (err_eqb e EDup || err_eqb e EVersion || err_eqb e EDotenv)
    | Ok g, STable _ _ _ => negb (spec_merge_must_fail g)
    | Ok _, SOther _ => false
    end) (mc_loads c).

(* running a callable name: which definition answers, where, with which include vars,
   and which definitions its references reach *)
Definition names_of (g : graph) (o : origin) : list string :=
  expand_names (o_path o) (o_name o :: t_aliases (o_task o))
  ++ (if String.eqb (o_name o) "default"
      then match split_last (o_path o) with
           | Some (outer, (pfile, inc)) =>
               if i_flatten inc then []
               else if existsb (fun o' => String.eqb (qual (o_path o') (o_name o')) (i_ns inc)) (origins (List.length g) g pfile) then []
               else expand_names outer (i_ns inc :: i_aliases inc)
           | None => []
           end
      else []).

Definition marker_id (o : origin) : string := (o_file o ++ "#" ++ o_name o)%string.

Definition ref_target (g : graph) (os : list origin) (o : origin) (r : string) : option origin :=
  if colon r then find (fun o' => match o_path o' with [] => String.eqb (o_name o') (drop1 r) | _ => false end) os
  else find (fun o' => String.eqb (qual (o_path o') (o_name o')) (qual (o_path o) r)
                       && Nat.eqb (List.length (o_path o')) (List.length (o_path o)) && String.eqb (o_file o') (o_file o)) os.

Definition refs_of (t : task) : list string :=
  filter (fun r => negb (String.eqb r "")) (map c_task (t_cmds t) ++ map d_task (t_deps t)).

(* expected markers of the run of o: None when some reference (transitively) has no target *)
Fixpoint expected_ids (fuel : nat) (g : graph) (os : list origin) (o : origin) : option (list string) :=
  match fuel with
  | 0 => None
  | S k =>
      fold_left (fun acc r =>
          match acc, ref_target g os o r with
          | Some l, Some o' => match expected_ids k g os o' with Some l' => Some (l ++ l') | None => None end
          | _, _ => None
          end)
        (refs_of (o_task o)) (Some [marker_id o])
  end.

Definition strip_v (s0 : string) : string :=
  match var_value s0 with String "v"%char (String "="%char r) => r | s => s end.
Definition var_printed (vs : vars) (k : string) : string :=
  match lookup k vs with Some s => strip_v s | None => "" end.

Definition chk_exec (g : graph) (e : eobs) : bool :=
  let os := all_origins g in
  match filter (fun o => mem (e_name e) (names_of g o)) os with
  | [o] =>
      match expected_ids 8 g os o with
      | None => true
      | Some ids =>
          e_ok e
          && subset ids (map (fun l => fst (fst (fst l))) (e_lines e))
          && subset (map (fun l => fst (fst (fst l))) (e_lines e)) ids
          && existsb (fun l => match l with (id, iv0, iv1, pwd) =>
                 String.eqb id (marker_id o)
                 && String.eqb iv0 (var_printed (incvars_spec (o_path o) (t_incvars (o_task o))) "IV0")
                 && String.eqb iv1 (var_printed (incvars_spec (o_path o) (t_incvars (o_task o))) "IV1")
                 && String.eqb pwd (smart_join (dirname (root_of g)) (dir_spec (o_path o) (t_dir (o_task o)))) end)
               (e_lines e)
      end
  | _ => true   (* not a name the specification binds to exactly one definition *)
  end.

Definition mon_c08_exec (c : mcase) : bool :=
  match read (mc_fs c) (mc_root c) with
  | Err _ => true
  | Ok g => forallb (chk_exec g) (mc_execs c)
  end.

(* the generated graph lies in the domain of the theorems (names well formed, keys distinct) *)
Definition wf_case (c : mcase) : bool :=
  match read (mc_fs c) (mc_root c) with
  | Err _ => true
  | Ok g => wf_graphb g && wf_outb g && negb (Nat.eqb (List.length (all_topo g)) 0)
  end.

(* ---- C09: every load of the same tree gives the same result ---- *)
Definition mon_c09_det (c : mcase) : bool := Nat.leb (List.length (mc_loads c)) 1.

(* what all loads agree on even in the current variant (Properties/C09.v: C09_partial) *)
Definition mon_c09_stable (c : mcase) : bool :=
  match read (mc_fs c) (mc_root c) with
  | Err _ => true
  | Ok g =>
      match mc_loads c with
      | STable f0 _ _ :: rest =>
          forallb (fun l => match l with
                            | STable f _ _ => mon_stable (unstructured task_fields) cmd_fields dep_fields g (f_tasks f0) (f_tasks f)
                            | _ => true
                            end) rest
      | _ => true
      end
  end.

(* C08 / C09: what an included task sees does not depend on the NAMES of sibling Taskfiles.  mc_twin holds,
   for the tree and for the same tree with one including file renamed (app.yml <-> zapp.yml, which flips
   the order in which graph.Merge processes the siblings), the digest of the load with that name
   normalised: the directory stamped on every global / IncludedTaskfileVars variable and the value every
   dynamic (sh:) variable evaluates to in every task.  All digests must be equal: the directory given by
   one include path must not reach the variables of another include of the same file. *)
Definition mon_vardir (c : mcase) : bool :=
  match mc_twin c with
  | [] => true
  | d0 :: rest => forallb (fun d => list_eqb String.eqb d0 d) rest
  end.

(* C09: the listings are the function of the merged table stated in Spec.v (listed): same set AND ORDER on every load *)
Definition mon_listing (c : mcase) : bool :=
  forallb (fun l =>
    match l with
    | STable f _ [a; b; p; dsc] =>
        list_eqb String.eqb a (listing_json false (f_tasks f))
        && list_eqb String.eqb b (listing_json false (f_tasks f))
        && list_eqb String.eqb p (listing_plain false (f_tasks f))
        && list_eqb String.eqb dsc (listing_json true (f_tasks f))
    | STable _ _ [] => true
    | STable _ _ _ => false
    | _ => true
    end) (mc_loads c).

(* C09 trees also get the C08 placement monitor (directory given by the includes, include vars, internal) *)
Definition mon_c09_place (c : mcase) : bool := on_tables c mon_place.
