(* Executable checkers used by the generated cases.v of the C19 harness
   (harness/drivers/quote), and the description of the CURRENT tree derived
   from the facts extracted from the Go sources. *)
From Coq Require Import List NArith Bool String.
Import ListNotations.
From TV Require Import Quote.Model Extracted.Facts.
Local Open Scope N_scope.

(* ---------- the current tree, from extract/facts_quote.go ---------- *)

Definition kind_of_code (n : nat) : cli_kind :=
  match n with 0%nat => Joined | 1%nat => Slice | _ => KindUnknown end.

(* value protected from the template engine only when the extractor saw the wrapper *)
Definition templ_of_code (n : nat) : bool := negb (Nat.eqb n 1).

Definition current_kind : cli_kind := kind_of_code cli_args_kind_code.
Definition current_cli_t : tcfg := mktcfg (templ_of_code cli_args_literal_code) templater_strips_no_value.
Definition current_var_t : tcfg := mktcfg (templ_of_code cli_vars_literal_code) templater_strips_no_value.
Definition current_variant : variant := mkvariant current_kind current_cli_t.
Definition current_icfg : icfg := mkicfg init_args_get_result (Nat.eqb isextonly_code 1).
Definition current_split_limit : nat := splitvar_limit.

Definition code01 (n : nat) : bool := Nat.eqb n 0 || Nat.eqb n 1.

(* every extracted shape was recognised (99 = fail closed) *)
Definition facts_recognised : bool :=
  code01 cli_args_kind_code && code01 cli_args_literal_code && code01 cli_vars_literal_code &&
  code01 init_args_get_result && code01 isextonly_code &&
  Nat.eqb splitvar_limit 2 && String.eqb splitvar_sep "=".

(* is the current tree one for which the full statements hold *)
Definition tcfg_inert (t : tcfg) : bool := negb (t_templ t) && negb (t_strip t).
Definition current_cli_ok : bool :=
  match current_kind with Joined => tcfg_inert current_cli_t | _ => false end.
Definition current_var_ok : bool := tcfg_inert current_var_t.
Definition current_init_ok : bool := Nat.eqb (i_result current_icfg) 0 && i_dot_excluded current_icfg.

(* ---------- helpers ---------- *)

(* compact notation for long periodic data *)
Definition nrep {A} (k : N) (c : list A) : list A := N.iter k (fun acc => c ++ acc) [].

Definition obeqb (a b : option bytes) : bool :=
  match a, b with Some x, Some y => beqb x y | None, None => true | _, _ => false end.

Fixpoint number {A} (i : nat) (l : list A) : list (nat * A) :=
  match l with [] => [] | x :: r => (i, x) :: number (S i) r end.

Definition failures {A} (f : A -> bool) (l : list A) : list nat :=
  map fst (filter (fun p => negb (f (snd p))) (number 0 l)).

(* ---------- (a) syntax.Quote vs the model ---------- *)

Record qcase := {
  q_in : ustr;               (* Go's decoding of the input (utf8.DecodeRuneInString + unicode.IsPrint) *)
  q_bytes : bytes;           (* the input's bytes *)
  q_out : option bytes       (* what syntax.Quote(s, LangBash) returned; None = error *)
}.

Definition decoding_ok (u : ustr) (b : bytes) : bool := beqb (sbytes u) b.

Definition q_agree (c : qcase) : bool :=
  decoding_ok (q_in c) (q_bytes c) && obeqb (quote (q_in c)) (q_out c) &&
  (wf_ustrb (q_in c) || existsb u_isnul (q_in c)).

(* the C19_shellquote_one monitor (Model.mon_quote_one) on the real Quote's output *)
Definition q_mon (c : qcase) : bool := mon_quote_one (q_bytes c) (q_out c).

(* ---------- (a') the model's [fields] vs mvdan/sh ---------- *)

Record fcase := {
  f_text : bytes;
  f_real : option (list bytes)     (* shell.Fields: None = error *)
}.
(* where the model determines the result, the real shell agrees *)
Definition f_agree (c : fcase) : bool :=
  match fields_g true (f_text c) with
  | Some l => olbeqb (Some l) (f_real c)
  | None => true
  end.
Definition f_determined (c : fcase) : bool :=
  match fields_g true (f_text c) with Some _ => true | None => false end.

(* ---------- args.Get through a real pflag parse ---------- *)

Record gcase := {
  g_args : list ustr;
  g_kind : cli_kind;          (* type of args.Get's second result as compiled: string or []string *)
  g_text : bytes              (* that result (a slice joined with blanks by the harness) *)
}.
Definition kind_eqb (a b : cli_kind) : bool :=
  match a, b with Joined, Joined => true | Slice, Slice => true | _, _ => false end.
(* (whether cmd/task stores that result joined or as it is, is [current_kind], checked end to end) *)
Definition g_agree (c : gcase) : bool :=
  negb (kind_eqb (g_kind c) KindUnknown || match g_kind c with KindUnknown => true | _ => false end) &&
  beqb (g_text c) (join [sp] (map quote_raw (g_args c))).

(* ---------- templater.Replace on text without actions ---------- *)

Record tcase := { t_in : bytes; t_out : bytes }.
Definition t_agree (c : tcase) : bool := beqb (maybe_strip current_cli_t (t_in c)) (t_out c).
Definition t_mon (c : tcase) : bool := mon_inert (t_in c) (t_out c).

(* ---------- filepathext.IsExtOnly ---------- *)

Record xcase := { x_name : bytes; x_real : bool }.
Definition x_agree (c : xcase) : bool := Bool.eqb (is_ext_only (i_dot_excluded current_icfg) (x_name c)) (x_real c).
Definition x_mon (c : xcase) : bool := Bool.eqb (spec_ext_only (x_name c)) (x_real c).

(* ---------- (b) the real CLI binary with the argv recorder ---------- *)

Definition obs_outcome (o : option (list bytes)) : outcome :=
  match o with Some l => Argv l | None => Rejected end.

(* does the model predict what was observed (no claim where the model is not determined) *)
Definition predicts (m : outcome) (o : option (list bytes)) : bool :=
  match m with
  | Argv l => olbeqb (Some l) o
  | Rejected => true
  | Unmodelled => true
  end.

Fixpoint decodings_ok (us : list ustr) (bs : list bytes) : bool :=
  match us, bs with
  | [], [] => true
  | u :: us', b :: bs' => decoding_ok u b && wf_ustrb u && decodings_ok us' bs'
  | _, _ => false
  end.

Record clicase := {
  c_args : list ustr;                 (* arguments after "--" (decoded) *)
  c_argsb : list bytes;               (* the same as bytes *)
  c_obs : option (list bytes);        (* argv[1:] the helper recorded; None = helper not run *)
  c_crash : bool                      (* the CLI process panicked (inside the third-party shell): outside the model *)
}.
Definition cli_mon (c : clicase) : bool := mon_argv (c_argsb c) (obs_outcome (c_obs c)).
Definition cli_agree (c : clicase) : bool :=
  decodings_ok (c_args c) (c_argsb c) &&
  (c_crash c || predicts (deliver_cli true current_variant (c_args c)) (c_obs c)).

Record sqcase := {
  s_val : ustr;                       (* X=value on the command line; the command is helper {{shellQuote .X}} *)
  s_valb : bytes;
  s_obs : option (list bytes)
}.
Definition sq_mon (c : sqcase) : bool := mon_argv [s_valb c] (obs_outcome (s_obs c)).
Definition sq_agree (c : sqcase) : bool :=
  decoding_ok (s_val c) (s_valb c) && wf_ustrb (s_val c) &&
  predicts (deliver_sq true current_var_t (s_val c)) (s_obs c).

(* ---------- (c) --init ---------- *)

Record icase := {
  i_wd : path;
  i_before : fs;
  i_pos : list bytes;                 (* positional arguments *)
  i_after : list ustr;                (* arguments after "--" *)
  i_created : option path;            (* exit 0: the file that is new (or [] when none is); otherwise None *)
  i_rc : N;
  i_fs_after : fs
}.

Definition init_mon (default : bytes) (c : icase) : bool :=
  mon_init default (i_wd c) (i_before c) (i_pos c) (i_created c) (i_fs_after c).

Definition init_agree (default : bytes) (c : icase) : bool :=
  let '(f', r) := init_cmd current_icfg default (i_wd c) (i_before c) (i_pos c) (map quote_raw (i_after c)) in
  same_on f' (i_fs_after c) (map fst f' ++ map fst (i_fs_after c)) &&
  match r with
  | Created p => match i_created c with Some q => peqb p q | None => false end
  | AlreadyExists => is_nil (match i_created c with Some _ => [tt] | None => [] end) && (i_rc c =? 101)
  | IOError => is_nil (match i_created c with Some _ => [tt] | None => [] end) && negb (i_rc c =? 0)
  | InitUnknown => false
  end.

(* ---------- (d) args.Parse / splitVar ---------- *)

Record pcase := {
  p_args : list bytes;
  p_calls : list bytes;
  p_globals : list (bytes * bytes)
}.

Fixpoint pairs_eqb (a b : list (bytes * bytes)) : bool :=
  match a, b with
  | [], [] => true
  | (k, v) :: a', (k', v') :: b' => beqb k k' && beqb v v' && pairs_eqb a' b'
  | _, _ => false
  end.

Definition p_agree (c : pcase) : bool :=
  match parse_args current_split_limit (p_args c) [] [] with
  | Some (calls, globals) => lbeqb calls (p_calls c) && pairs_eqb globals (p_globals c)
  | None => false
  end.

Fixpoint assoc (k : bytes) (m : list (bytes * bytes)) : option bytes :=
  match m with
  | [] => None
  | (k', v) :: r => if beqb k k' then Some v else assoc k r
  end.

(* single-argument case: Parse(arg) *)
Definition p_mon (c : pcase) : bool :=
  match p_args c with
  | [arg] =>
      match p_globals c with
      | [(n, v)] => mon_split arg (Some (n, v)) && is_nil (p_calls c)
      | [] => mon_split arg None && lbeqb (p_calls c) [arg]
      | _ => false
      end
  | _ => true
  end.
