(* Model C "Merge": included tasks are namespaced copies (C08).
   Invariant: for every origin (namespace path, task) below a vertex, the merged
   table of that vertex holds an entry under the qualified name that is related
   to the definition by [Rel]; proved by induction on the depth of the path,
   from the fixpoint equation of ProofsRun. *)
From Coq Require Import List String Bool Arith Ascii Lia Permutation.
Import ListNotations.
From TV Require Import Merge.Model Merge.Spec Merge.ProofsBase Merge.ProofsRun Merge.ProofsMerge.
Local Open Scope string_scope.
Local Open Scope list_scope.

(* ------------------------------------------------------------------ *)
(* names                                                               *)


Lemma sapp_assoc : forall a b c : string, ((a ++ b) ++ c)%string = (a ++ (b ++ c))%string.
Proof. induction a as [|x a IH]; intros b c; cbn; [reflexivity | rewrite IH; reflexivity]. Qed.

Lemma okname_colon : forall s, okname s = true -> colon s = false.
Proof.
  intros [|c s] H; cbn in *; [discriminate|].
  destruct c as [b0 b1 b2 b3 b4 b5 b6 b7].
  destruct b0, b1, b2, b3, b4, b5, b6, b7; cbn in *; try reflexivity; discriminate.
Qed.

Lemma okname_app : forall a b, okname a = true -> okname (a ++ b)%string = true.
Proof. intros [|c a] b H; cbn in *; [discriminate | exact H]. Qed.

Lemma rename_ok : forall ns n, colon n = false -> rename ns n = (ns ++ ":" ++ n)%string.
Proof. intros ns n H. unfold rename. rewrite H. reflexivity. Qed.

Definition wf_path (p : path) : Prop := forall e, In e p -> wf_inc (snd e) = true.

Lemma qual_cons : forall e p name,
  qual (e :: p) name = if i_flatten (snd e) then qual p name else (i_ns (snd e) ++ ":" ++ qual p name)%string.
Proof.
  intros e p name. unfold qual. cbn [nsprefix fold_right]. destruct (i_flatten (snd e)); [reflexivity|].
  rewrite !sapp_assoc. reflexivity.
Qed.

Lemma okname_qual : forall p name, wf_path p -> okname name = true -> okname (qual p name) = true.
Proof.
  induction p as [|e p IH]; intros name Hp Hn.
  - exact Hn.
  - rewrite qual_cons. assert (Hp' : wf_path p) by (intros e' He'; apply Hp; right; exact He').
    destruct (i_flatten (snd e)); [exact (IH name Hp' Hn)|].
    apply okname_app. specialize (Hp e (or_introl eq_refl)). unfold wf_inc in Hp.
    apply andb_true_iff in Hp. tauto.
Qed.

Lemma expand_names_cons : forall e p names,
  expand_names (e :: p) names =
  if i_flatten (snd e) then expand_names p names
  else map (fun n => (i_ns (snd e) ++ ":" ++ n)%string) (expand_names p names)
       ++ flat_map (fun a => map (fun n => (a ++ ":" ++ n)%string) (expand_names p names)) (i_aliases (snd e)).
Proof. reflexivity. Qed.

Lemma expand_names_ok : forall p names, wf_path p -> (forall n, In n names -> okname n = true) ->
  forall n, In n (expand_names p names) -> okname n = true.
Proof.
  induction p as [|e p IH]; intros names Hp Hn n Hin.
  - exact (Hn n Hin).
  - assert (Hp' : wf_path p) by (intros e' He'; apply Hp; right; exact He').
    pose proof (Hp e (or_introl eq_refl)) as He. unfold wf_inc in He. apply andb_true_iff in He. destruct He as [He1 He2].
    rewrite expand_names_cons in Hin. destruct (i_flatten (snd e)); [exact (IH names Hp' Hn n Hin)|].
    apply in_app_iff in Hin. destruct Hin as [Hin|Hin].
    + apply in_map_iff in Hin. destruct Hin as [m [E _]]. subst n. apply okname_app. exact He1.
    + apply in_flat_map in Hin. destruct Hin as [a [Ha Hin]]. apply in_map_iff in Hin. destruct Hin as [m [E _]]. subst n.
      apply okname_app. rewrite forallb_forall in He2. exact (He2 a Ha).
Qed.

(* ------------------------------------------------------------------ *)
(* the relation between a definition and its entry in a merged table   *)

(* what the code does to a reference along a path (innermost include first) *)
Definition ref_code (v : variant) (p : path) (r : string) : string :=
  fold_right (fun e acc => if i_flatten (snd e) then acc else rename_ref v (i_ns (snd e)) acc) r p.

Lemma ref_code_cons : forall v e p r,
  ref_code v (e :: p) r = if i_flatten (snd e) then ref_code v p r else rename_ref v (i_ns (snd e)) (ref_code v p r).
Proof. reflexivity. Qed.

Definition attrs_rel (dc : list string) (p : path) (a' a : attrs) : Prop :=
  forall f, attr f a' = match p with [] => attr f a | _ => if mem f dc then attr f a else "" end.

Record Rel (v : variant) (p : path) (name : string) (t t' : task) : Prop := {
  r_cmds : map c_task (t_cmds t') = map (fun c => ref_code v p (c_task c)) (t_cmds t);
  r_deps : map d_task (t_deps t') = map (fun d => ref_code v p (d_task d)) (t_deps t);
  r_cattrs : Forall2 (fun c' c => attrs_rel (v_cmd_dc v) p (c_attrs c') (c_attrs c)) (t_cmds t') (t_cmds t);
  r_dattrs : Forall2 (fun d' d => attrs_rel (v_dep_dc v) p (d_attrs d') (d_attrs d)) (t_deps t') (t_deps t);
  r_attrs : attrs_rel (v_task_dc v) p (t_attrs t') (t_attrs t);
  r_dir : t_dir t' = dir_spec p (t_dir t);
  r_internal : t_internal t' = internal_spec p (t_internal t);
  r_incvars : t_incvars t' = incvars_spec p (t_incvars t);
  r_task : t_task t' = qual p name;
  r_aliases : forall n, In n (expand_names p (name :: t_aliases t)) -> In n (qual p name :: t_aliases t')
}.

Lemma Forall2_refl : forall A (P : A -> A -> Prop) l, (forall x, P x x) -> Forall2 P l l.
Proof. intros A P l H. induction l; constructor; auto. Qed.

Lemma rel_nil : forall v name t, t_task t = name -> Rel v [] name t t.
Proof.
  intros v name t H. constructor; cbn.
  - reflexivity.
  - reflexivity.
  - apply Forall2_refl. intros c f. reflexivity.
  - apply Forall2_refl. intros c f. reflexivity.
  - intros f. reflexivity.
  - reflexivity.
  - unfold internal_spec. cbn. rewrite orb_false_r. reflexivity.
  - reflexivity.
  - exact H.
  - intros n Hn. exact Hn.
Qed.

Lemma rel_alias_ext : forall v p name t t' t'', Rel v p name t t' -> alias_ext t' t'' -> Rel v p name t t''.
Proof.
  intros v p name t t' t'' H [extra E]. subst t''. destruct H. constructor; cbn; try assumption.
  intros n Hn. specialize (r_aliases0 n Hn). destruct r_aliases0 as [H|H]; [left; exact H|].
  right. apply in_app_iff. left. exact H.
Qed.

(* one more level: the entry of the included table goes through merge_task *)
Lemma rel_extend : forall v pf inc pv p name t tc,
  dc_struct_ok v = true -> wf_inc inc = true -> wf_path p -> okname name = true ->
  (forall a, In a (t_aliases t) -> okname a = true) ->
  Rel v p name t tc ->
  fst (merge_task v inc pv (qual p name) tc) = qual ((pf, inc) :: p) name /\
  Rel v ((pf, inc) :: p) name t (snd (merge_task v inc pv (qual p name) tc)).
Proof.
  intros v pf inc pv p name t tc Hdc Hinc Hp Hname Hal HR.
  destruct (deepcopy_task_struct v tc Hdc) as (D1&D2&D3&D4&D5&D6&D7&D8&D9&D10).
  pose proof (okname_colon _ (okname_qual p name Hp Hname)) as Hkc.
  unfold wf_inc in Hinc. apply andb_true_iff in Hinc. destruct Hinc as [Hns Hnsa].
  destruct HR as [Rc Rd Rca Rda Ra Rdir Rint Riv Rtask Rali].
  assert (Hkey : fst (merge_task v inc pv (qual p name) tc) = qual ((pf, inc) :: p) name).
  { unfold merge_task. cbn [fst]. rewrite qual_cons. cbn [snd]. destruct (i_flatten inc); [reflexivity|].
    apply rename_ok. exact Hkc. }
  split; [exact Hkey|].
  assert (HE : forall n, In n (expand_names p (name :: t_aliases t)) -> colon n = false).
  { intros n Hn. apply okname_colon. apply (expand_names_ok p (name :: t_aliases t) Hp); [|exact Hn].
    intros m [E|Hm]; [subst; exact Hname | exact (Hal m Hm)]. }
  unfold merge_task. cbn [snd]. constructor; cbn [t_cmds t_deps t_attrs t_dir t_internal t_incvars t_task t_aliases].
  - (* cmds *)
    rewrite D2.
    transitivity (map (fun s => if i_flatten inc then s else rename_ref v (i_ns inc) s) (map c_task (t_cmds tc))).
    + destruct (i_flatten inc).
      * rewrite !map_map. apply map_ext. intro c. rewrite deepcopy_cmd_task by exact Hdc. reflexivity.
      * rewrite !map_map. apply map_ext. intro c. cbn [c_task]. rewrite deepcopy_cmd_task by exact Hdc. reflexivity.
    + rewrite Rc, map_map. apply map_ext. intro c. rewrite ref_code_cons. reflexivity.
  - (* deps *)
    rewrite D3.
    transitivity (map (fun s => if i_flatten inc then s else rename_ref v (i_ns inc) s) (map d_task (t_deps tc))).
    + destruct (i_flatten inc).
      * rewrite !map_map. apply map_ext. intro c. rewrite deepcopy_dep_task by exact Hdc. reflexivity.
      * rewrite !map_map. apply map_ext. intro c. cbn [d_task]. rewrite deepcopy_dep_task by exact Hdc. reflexivity.
    + rewrite Rd, map_map. apply map_ext. intro c. rewrite ref_code_cons. reflexivity.
  - (* cmd attrs *)
    rewrite D2.
    assert (G : Forall2 (fun c' c => attrs_rel (v_cmd_dc v) ((pf, inc) :: p) (c_attrs c') (c_attrs c))
                        (map (deepcopy_cmd v) (t_cmds tc)) (t_cmds t)).
    { clear - Rca. induction Rca as [|c' c l' l H _ IH]; cbn; constructor; [|exact IH].
      intro f. unfold deepcopy_cmd. cbn [c_attrs]. rewrite attr_keep. rewrite (H f).
      destruct p; [reflexivity|]. destruct (mem f (v_cmd_dc v)); reflexivity. }
    destruct (i_flatten inc); [exact G|].
    clear - G. induction G; cbn; constructor; assumption.
  - (* dep attrs *)
    rewrite D3.
    assert (G : Forall2 (fun c' c => attrs_rel (v_dep_dc v) ((pf, inc) :: p) (d_attrs c') (d_attrs c))
                        (map (deepcopy_dep v) (t_deps tc)) (t_deps t)).
    { clear - Rda. induction Rda as [|c' c l' l H _ IH]; cbn; constructor; [|exact IH].
      intro f. unfold deepcopy_dep. cbn [d_attrs]. rewrite attr_keep. rewrite (H f).
      destruct p; [reflexivity|]. destruct (mem f (v_dep_dc v)); reflexivity. }
    destruct (i_flatten inc); [exact G|].
    clear - G. induction G; cbn; constructor; assumption.
  - (* task attrs *)
    rewrite D10. intro f. rewrite attr_keep, (Ra f).
    destruct p; [reflexivity|]. destruct (mem f (v_task_dc v)); reflexivity.
  - (* dir *)
    rewrite D5, Rdir. reflexivity.
  - (* internal *)
    rewrite D6, Rint. unfold internal_spec. cbn [existsb snd].
    destruct (t_internal t), (i_internal inc), (existsb (fun e => i_internal (snd e)) p); reflexivity.
  - (* include vars *)
    rewrite D8, Riv. reflexivity.
  - (* Task *)
    rewrite D1, Rtask. rewrite qual_cons. cbn [snd]. destruct (i_flatten inc); [reflexivity|].
    apply rename_ok. exact Hkc.
  - (* aliases *)
    intros n Hn. rewrite expand_names_cons in Hn. cbn [snd] in Hn. rewrite D1, D4, Rtask.
    rewrite qual_cons. cbn [snd]. destruct (i_flatten inc).
    + exact (Rali n Hn).
    + apply in_app_iff in Hn. destruct Hn as [Hn|Hn].
      * apply in_map_iff in Hn. destruct Hn as [m [E Hm]]. subst n.
        destruct (Rali m Hm) as [Em|Hm'].
        -- left. rewrite Em. reflexivity.
        -- right. apply in_app_iff. left. apply in_map_iff. exists m. split; [|exact Hm'].
           apply rename_ok. exact (HE m Hm).
      * apply in_flat_map in Hn. destruct Hn as [a [Ha Hn]]. apply in_map_iff in Hn. destruct Hn as [m [E Hm]]. subst n.
        right. apply in_app_iff. right. apply in_flat_map. exists a. split; [exact Ha|].
        destruct (Rali m Hm) as [Em|Hm'].
        -- left. rewrite <- Em. apply rename_ok. exact Hkc.
        -- right. apply in_map_iff. exists m. split; [|exact Hm']. apply rename_ok. exact (HE m Hm).
Qed.

(* ------------------------------------------------------------------ *)
(* well-formed graphs                                                  *)

Lemma init_state_file_of : forall g p, init_state g p = file_of g p.
Proof. reflexivity. Qed.

Lemma wf_graph_node : forall g p n, wf_graphb g = true -> find_node p g = Some n ->
  wf_file (n_file n) = true /\ forall e, In e (n_out n) -> wf_inc (fst e) = true.
Proof.
  intros g p n H Hf. unfold wf_graphb in H. apply andb_true_iff in H. destruct H as [_ H].
  rewrite forallb_forall in H. destruct (find_node_some g p n Hf) as [Hin _].
  specialize (H n Hin). apply andb_true_iff in H. destruct H as [H1 H2]. split; [exact H1|].
  rewrite forallb_forall in H2. exact H2.
Qed.

Lemma wf_edge : forall g p e, wf_graphb g = true -> In e (out_of g p) -> wf_inc (fst e) = true.
Proof.
  intros g p e H He. unfold out_of in He. destruct (find_node p g) as [n|] eqn:E; [|contradiction].
  destruct (wf_graph_node g p n H E) as [_ H2]. exact (H2 e He).
Qed.

Lemma wf_init : forall g p, wf_graphb g = true ->
  table_ok (init_state g p) /\
  forall k t, In (k, t) (f_tasks (init_state g p)) ->
    okname k = true /\ t_task t = k /\ forall a, In a (t_aliases t) -> okname a = true.
Proof.
  intros g p H. unfold init_state, table_ok. destruct (find_node p g) as [n|] eqn:E.
  - destruct (wf_graph_node g p n H E) as [H1 _]. unfold wf_file in H1.
    apply andb_true_iff in H1. destruct H1 as [H1 _]. apply andb_true_iff in H1. destruct H1 as [H1 H2].
    split; [apply nodupb_NoDup; exact H2|].
    intros k t Hin. rewrite forallb_forall in H1. specialize (H1 (k, t) Hin). unfold wf_task in H1. cbn in H1.
    apply andb_true_iff in H1. destruct H1 as [H1 H3]. apply andb_true_iff in H1. destruct H1 as [H1 H4].
    split; [exact H1|]. split; [apply String.eqb_eq; exact H4|]. rewrite forallb_forall in H3. exact H3.
  - cbn. split; [constructor | intros k t []].
Qed.

(* ------------------------------------------------------------------ *)
(* the invariant                                                       *)

Section Invariant.
  Variables (v : variant) (g : graph) (ops : list op).
  Hypothesis Hdc : dc_struct_ok v = true.
  Hypothesis Hwf : wf_graphb g = true.
  Hypothesis Hgo : good_ops g ops.

  Let R : state := run_ops v ops (init_state g).

  Lemma R_fix : forall p, R p = fold_sched v R (sched ops p) (init_state g p).
  Proof. intro p. apply run_ops_fix. exact (go_wo g ops Hgo). Qed.

  Lemma R_table_ok : forall p, table_ok (R p).
  Proof. intro p. rewrite R_fix. apply fold_sched_table_ok. apply (wf_init g p Hwf). Qed.

  Definition Entry (tbl : table) (o : origin) : Prop :=
    wf_path (o_path o) /\ okname (o_name o) = true /\
    (forall a, In a (t_aliases (o_task o)) -> okname a = true) /\
    exists t', lookup (qual (o_path o) (o_name o)) tbl = Some t' /\ Rel v (o_path o) (o_name o) (o_task o) t'.

  Theorem entries : forall n p, f_err (R p) = None -> forall o, In o (origins n g p) -> Entry (f_tasks (R p)) o.
  Proof.
    induction n as [|n IH]; intros p Herr o Hin.
    - (* own tasks *)
      cbn [origins] in Hin. rewrite app_nil_r in Hin. apply in_map_iff in Hin. destruct Hin as [[k t] [Eo Hkt]]. subst o. cbn.
      rewrite <- init_state_file_of in Hkt. destruct (wf_init g p Hwf) as [HN Hown].
      destruct (Hown k t Hkt) as (Hk & Ht & Ha).
      unfold Entry. cbn. split; [intros e []|]. split; [exact Hk|]. split; [exact Ha|].
      pose proof (In_nodup_lookup _ k t _ HN Hkt) as Hl.
      rewrite R_fix in Herr |- *. destruct (fold_sched_keeps v R _ _ k t Herr Hl) as [t' [Hl' Hx]].
      exists t'. split; [exact Hl'|]. apply (rel_alias_ext v [] k t t t'); [apply rel_nil; exact Ht | exact Hx].
    - cbn [origins] in Hin. apply in_app_iff in Hin. destruct Hin as [Hin|Hin].
      + (* own tasks, as above *)
        apply (IH p Herr). destruct n; cbn [origins]; [rewrite app_nil_r|apply in_app_iff; left]; exact Hin.
      + apply in_flat_map in Hin. destruct Hin as [e [He Hin]]. apply in_map_iff in Hin.
        destruct Hin as [o' [Eo Ho']]. apply filter_In in Ho'. destruct Ho' as [Ho' Hx]. apply negb_true_iff in Hx.
        pose proof (go_complete g ops Hgo p e He) as Hs. apply in_split in Hs. destruct Hs as [l1 [l2 Hs]].
        pose proof (R_fix p) as HRp. rewrite Hs in HRp. rewrite fold_sched_app in HRp.
        change (fold_sched v R (mkop p e :: l2) ?f) with (fold_sched v R l2 (tf_merge v f (R (snd e)) (fst e))) in HRp.
        set (acc := fold_sched v R l1 (init_state g p)) in *.
        set (acc' := tf_merge v acc (R (snd e)) (fst e)) in *.
        assert (Hacc' : f_err acc' = None) by (apply (fold_sched_ok_head v R l2); rewrite <- HRp; exact Herr).
        destruct (tf_merge_ok v acc (R (snd e)) (fst e) Hacc') as (_ & Hc & _).
        destruct (IH (snd e) Hc o' Ho') as (Hp' & Hn' & Ha' & tc & Hl & HRel).
        pose proof (wf_edge g p e Hwf He) as Hinc.
        assert (Hacc_ok : table_ok acc) by (apply fold_sched_table_ok; apply (wf_init g p Hwf)).
        destruct (tf_merge_brings v acc (R (snd e)) (fst e) _ tc Hacc' Hacc_ok (R_table_ok (snd e)) Hl Hx) as [t1 [Hl1 Hx1]].
        destruct (rel_extend v p (fst e) (vars_merge_inc (fst e) (f_vars acc) (f_vars (R (snd e)))) (o_path o') (o_name o') (o_task o') tc
                             Hdc Hinc Hp' Hn' Ha' HRel) as [Hkey HRel1].
        rewrite Hkey in Hl1.
        assert (Herr2 : f_err (fold_sched v R l2 acc') = None) by (rewrite <- HRp; exact Herr).
        destruct (fold_sched_keeps v R l2 acc' _ t1 Herr2 Hl1) as [t2 [Hl2 Hx2]].
        subst o. unfold Entry. cbn [o_path o_name o_task].
        split; [intros e' [E|He']; [subst e'; exact Hinc | exact (Hp' e' He')]|].
        split; [exact Hn'|]. split; [exact Ha'|].
        exists t2. split; [rewrite HRp; exact Hl2|].
        apply (rel_alias_ext _ _ _ _ t1); [|exact Hx2]. apply (rel_alias_ext _ _ _ _ _ _ HRel1 Hx1).
  Qed.
End Invariant.
