(* Model C "Merge": lemmas about association lists, DeepCopy through field lists,
   merge_task, the loop of Tasks.Merge and Taskfile.Merge. *)
From Coq Require Import List String Bool Arith Ascii Lia Permutation.
Import ListNotations.
From TV Require Import Merge.Model Merge.Spec.
Local Open Scope string_scope.
Local Open Scope list_scope.

(* ------------------------------------------------------------------ *)
(* strings / assoc lists                                               *)

Lemma eqb_refl' : forall s, String.eqb s s = true.
Proof. intro s. apply String.eqb_refl. Qed.

Lemma mem_In : forall x l, mem x l = true <-> In x l.
Proof.
  intros x l. unfold mem. rewrite existsb_exists. split.
  - intros [y [Hy E]]. apply String.eqb_eq in E. subst. exact Hy.
  - intros H. exists x. split; [exact H | apply String.eqb_refl].
Qed.

Lemma mem_false_not_In : forall x l, mem x l = false <-> ~ In x l.
Proof.
  intros x l. split.
  - intros H HI. apply mem_In in HI. congruence.
  - intros H. destruct (mem x l) eqn:E; [apply mem_In in E; contradiction | reflexivity].
Qed.

Lemma lookup_app_none : forall A k (l1 l2 : list (string * A)),
  lookup k l1 = None -> lookup k (l1 ++ l2) = lookup k l2.
Proof.
  intros A k l1 l2. induction l1 as [|[k' v] r IH]; cbn; [reflexivity|].
  destruct (String.eqb k k'); [discriminate | exact IH].
Qed.

Lemma lookup_app_some : forall A k (l1 l2 : list (string * A)) v,
  lookup k l1 = Some v -> lookup k (l1 ++ l2) = Some v.
Proof.
  intros A k l1 l2 v. induction l1 as [|[k' v'] r IH]; cbn; [discriminate|].
  destruct (String.eqb k k'); [trivial | exact IH].
Qed.

Lemma has_false_lookup : forall A k (l : list (string * A)), has k l = false <-> lookup k l = None.
Proof. intros A k l. unfold has. destruct (lookup k l); split; congruence. Qed.

Lemma has_true_lookup : forall A k (l : list (string * A)), has k l = true <-> exists v, lookup k l = Some v.
Proof.
  intros A k l. unfold has. destruct (lookup k l) as [v|]; split; try congruence.
  - intros _. exists v. reflexivity.
  - intros [v H]. discriminate.
Qed.

Lemma lookup_In : forall A k (l : list (string * A)) v, lookup k l = Some v -> In (k, v) l.
Proof.
  intros A k l v. induction l as [|[k' v'] r IH]; cbn; [discriminate|].
  destruct (String.eqb k k') eqn:E.
  - intros H. inversion H; subst. apply String.eqb_eq in E. subst. left. reflexivity.
  - intros H. right. exact (IH H).
Qed.

Lemma lookup_none_not_In : forall A k (l : list (string * A)), lookup k l = None -> ~ In k (map fst l).
Proof.
  intros A k l. induction l as [|[k' v'] r IH]; cbn; [tauto|].
  destruct (String.eqb k k') eqn:E; [discriminate|].
  intros H [H1|H1].
  - subst. rewrite String.eqb_refl in E. discriminate.
  - exact (IH H H1).
Qed.

Lemma not_In_lookup_none : forall A k (l : list (string * A)), ~ In k (map fst l) -> lookup k l = None.
Proof.
  intros A k l. induction l as [|[k' v'] r IH]; cbn; [reflexivity|].
  intros H. destruct (String.eqb k k') eqn:E.
  - apply String.eqb_eq in E. subst. exfalso. apply H. left. reflexivity.
  - apply IH. intro HI. apply H. right. exact HI.
Qed.

Lemma In_nodup_lookup : forall A k v (l : list (string * A)),
  NoDup (map fst l) -> In (k, v) l -> lookup k l = Some v.
Proof.
  intros A k v l. induction l as [|[k' v'] r IH]; cbn; [tauto|].
  intros HN [H|H].
  - inversion H; subst. rewrite String.eqb_refl. reflexivity.
  - inversion HN as [|? ? Hn Hr]; subst.
    destruct (String.eqb k k') eqn:E.
    + apply String.eqb_eq in E. subst. exfalso. apply Hn. apply in_map_iff. exists (k', v). split; [reflexivity | exact H].
    + exact (IH Hr H).
Qed.

Lemma nodupb_NoDup : forall l, nodupb l = true <-> NoDup l.
Proof.
  induction l as [|x r IH]; cbn.
  - split; [constructor | reflexivity].
  - rewrite andb_true_iff, negb_true_iff, IH. split.
    + intros [H1 H2]. constructor; [apply mem_false_not_In; exact H1 | exact H2].
    + intros H. inversion H; subst. split; [apply mem_false_not_In; assumption | assumption].
Qed.

Lemma NoDup_app_snoc : forall (l : list string) x, NoDup l -> ~ In x l -> NoDup (l ++ [x]).
Proof.
  induction l as [|y r IH]; intros x HN Hx; cbn.
  - constructor; [tauto | constructor].
  - inversion HN; subst. constructor.
    + rewrite in_app_iff. intros [H|[H|[]]]; [contradiction | subst; apply Hx; left; reflexivity].
    + apply IH; [assumption | intro; apply Hx; right; assumption].
Qed.

(* ------------------------------------------------------------------ *)
(* DeepCopy through the field list                                     *)

Lemma attr_keep : forall dc f a, attr f (keep_attrs dc a) = if mem f dc then attr f a else "".
Proof.
  intros dc f a. unfold attr, keep_attrs. induction a as [|[k v] r IH]; cbn.
  - destruct (mem f dc); reflexivity.
  - destruct (mem k dc) eqn:Ek; cbn.
    + destruct (String.eqb f k) eqn:E.
      * apply String.eqb_eq in E. subst. rewrite Ek. reflexivity.
      * exact IH.
    + destruct (String.eqb f k) eqn:E.
      * apply String.eqb_eq in E. subst. rewrite Ek in *. exact IH.
      * exact IH.
Qed.

(* the structured fields are all assigned by DeepCopy *)
Definition dc_struct_ok (v : variant) : bool :=
  forallb (fun f => mem f (v_task_dc v)) structured_fields && mem "Task" (v_cmd_dc v) && mem "Task" (v_dep_dc v).

Lemma dc_struct_ok_fields : forall v, dc_struct_ok v = true ->
  mem "Task" (v_task_dc v) = true /\ mem "Cmds" (v_task_dc v) = true /\ mem "Deps" (v_task_dc v) = true /\
  mem "Aliases" (v_task_dc v) = true /\ mem "Dir" (v_task_dc v) = true /\ mem "Internal" (v_task_dc v) = true /\
  mem "Namespace" (v_task_dc v) = true /\ mem "IncludeVars" (v_task_dc v) = true /\
  mem "IncludedTaskfileVars" (v_task_dc v) = true /\ mem "Task" (v_cmd_dc v) = true /\ mem "Task" (v_dep_dc v) = true.
Proof.
  intros v H. unfold dc_struct_ok, structured_fields in H. cbn [forallb] in H.
  rewrite ?andb_true_iff in H. intuition.
Qed.

Lemma deepcopy_task_struct : forall v t, dc_struct_ok v = true ->
  t_task (deepcopy_task v t) = t_task t /\
  t_cmds (deepcopy_task v t) = map (deepcopy_cmd v) (t_cmds t) /\
  t_deps (deepcopy_task v t) = map (deepcopy_dep v) (t_deps t) /\
  t_aliases (deepcopy_task v t) = t_aliases t /\
  t_dir (deepcopy_task v t) = t_dir t /\
  t_internal (deepcopy_task v t) = t_internal t /\
  t_namespace (deepcopy_task v t) = t_namespace t /\
  t_incvars (deepcopy_task v t) = t_incvars t /\
  t_inctfvars (deepcopy_task v t) = t_inctfvars t /\
  t_attrs (deepcopy_task v t) = keep_attrs (v_task_dc v) (t_attrs t).
Proof.
  intros v t H. destruct (dc_struct_ok_fields v H) as (H1&H2&H3&H4&H5&H6&H7&H8&H9&_).
  unfold deepcopy_task; cbn. rewrite H1, H2, H3, H4, H5, H6, H7, H8, H9. repeat split; reflexivity.
Qed.

Lemma deepcopy_cmd_task : forall v c, dc_struct_ok v = true -> c_task (deepcopy_cmd v c) = c_task c.
Proof.
  intros v c H. destruct (dc_struct_ok_fields v H) as (_&_&_&_&_&_&_&_&_&H10&_).
  unfold deepcopy_cmd; cbn. rewrite H10. reflexivity.
Qed.
Lemma deepcopy_dep_task : forall v c, dc_struct_ok v = true -> d_task (deepcopy_dep v c) = d_task c.
Proof.
  intros v c H. destruct (dc_struct_ok_fields v H) as (_&_&_&_&_&_&_&_&_&_&H11).
  unfold deepcopy_dep; cbn. rewrite H11. reflexivity.
Qed.

(* ------------------------------------------------------------------ *)
(* the loop of Tasks.Merge                                             *)

Definition kept (inc : include) (t2 : list (string * task)) : list (string * task) :=
  filter (fun kt => negb (mem (fst kt) (i_excludes inc))) t2.

Definition merged_entries (v : variant) (inc : include) (pv : vars) (t2 : list (string * task)) : list (string * task) :=
  map (fun kt => merge_task v inc pv (fst kt) (snd kt)) (kept inc t2).

Lemma loop_ok : forall v inc pv t2 t1 t1',
  tasks_merge_loop v inc pv t2 t1 = Ok t1' ->
  t1' = t1 ++ merged_entries v inc pv t2.
Proof.
  intros v inc pv t2. induction t2 as [|[name t0] rest IH]; intros t1 t1' H; cbn [tasks_merge_loop] in H.
  - inversion H. unfold merged_entries, kept. cbn. rewrite app_nil_r. reflexivity.
  - unfold merged_entries, kept in *. cbn [filter fst].
    destruct (mem name (i_excludes inc)) eqn:E; cbn [negb].
    + apply IH. exact H.
    + destruct (merge_task v inc pv name t0) as [key t] eqn:EM.
      destruct (has key t1) eqn:EH; [discriminate|].
      apply IH in H. rewrite H. rewrite <- app_assoc. cbn [map fst snd app]. rewrite EM. reflexivity.
Qed.

Lemma loop_ok_fresh : forall v inc pv t2 t1 t1',
  tasks_merge_loop v inc pv t2 t1 = Ok t1' ->
  NoDup (map fst t1) -> NoDup (map fst t1').
Proof.
  intros v inc pv t2. induction t2 as [|[name t0] rest IH]; intros t1 t1' H HN; cbn [tasks_merge_loop] in H.
  - inversion H; subst. exact HN.
  - destruct (mem name (i_excludes inc)).
    + exact (IH _ _ H HN).
    + destruct (merge_task v inc pv name t0) as [key t] eqn:EM.
      destruct (has key t1) eqn:EH; [discriminate|].
      apply (IH _ _ H). rewrite map_app. cbn.
      apply has_false_lookup in EH. apply lookup_none_not_In in EH.
      apply NoDup_app_snoc; assumption.
Qed.
