(* Model C "Merge": include graph -> one task table.
   Go code modelled: taskfile/reader.go (include), taskfile/ast/graph.go (Merge),
   taskfile/ast/taskfile.go (Merge), taskfile/ast/tasks.go (Merge, taskNameWithNamespace),
   taskfile/ast/vars.go (Merge), taskfile/ast/task.go (DeepCopy).
   ONLY executable definitions here (no proofs). *)
From Coq Require Import List String Bool Arith Ascii.
Import ListNotations.
Local Open Scope string_scope.
Local Open Scope list_scope.

(* ------------------------------------------------------------------ *)
(* strings, association lists                                          *)

Definition colon (s : string) : bool :=
  match s with String ":"%char _ => true | _ => false end.
Definition drop1 (s : string) : string :=
  match s with String _ r => r | EmptyString => EmptyString end.
Definition is_abs (s : string) : bool :=
  match s with String "/"%char _ => true | _ => false end.

Definition mem (x : string) (l : list string) : bool := existsb (String.eqb x) l.

Fixpoint lookup {A} (k : string) (l : list (string * A)) : option A :=
  match l with
  | [] => None
  | (k', v) :: r => if String.eqb k k' then Some v else lookup k r
  end.
Definition has {A} (k : string) (l : list (string * A)) : bool :=
  match lookup k l with Some _ => true | None => false end.

(* orderedmap.Set: update in place when the key exists, else append *)
Fixpoint set {A} (k : string) (v : A) (l : list (string * A)) : list (string * A) :=
  match l with
  | [] => [(k, v)]
  | (k', v') :: r => if String.eqb k k' then (k, v) :: r else (k', v') :: set k v r
  end.

(* filepath.Clean / Join / Dir on slash-separated paths *)
Fixpoint split_slash_aux (s : string) (cur : string) : list string :=
  match s with
  | EmptyString => [cur]
  | String c r => if Ascii.eqb c "/"%char then cur :: split_slash_aux r ""
                  else split_slash_aux r (cur ++ String c EmptyString)%string
  end.
Definition segs (s : string) : list string := split_slash_aux s "".

Fixpoint clean_segs (l : list string) (stack : list string) : list string :=
  match l with
  | [] => rev stack
  | x :: r => if String.eqb x "" then clean_segs r stack
              else if String.eqb x "." then clean_segs r stack
              else if String.eqb x ".." then clean_segs r (tl stack)
              else clean_segs r (x :: stack)
  end.
Definition join_slash (l : list string) : string :=
  fold_right (fun x acc => ("/" ++ x ++ acc)%string) "" l.
Definition clean_abs (s : string) : string :=
  match clean_segs (segs s) [] with [] => "/" | l => join_slash l end.

(* filepathext.SmartJoin: an absolute second argument wins; else filepath.Join *)
Definition smart_join (a b : string) : string :=
  if is_abs b then b
  else if is_abs a then clean_abs (a ++ "/" ++ b)%string
  else match b with EmptyString => a | _ => match a with EmptyString => b | _ => (a ++ "/" ++ b)%string end end.

(* filepath.Dir of an absolute path *)
Definition dirname (s : string) : string :=
  match removelast (clean_segs (segs s) []) with [] => "/" | l => join_slash l end.

(* ------------------------------------------------------------------ *)
(* data                                                                *)

Definition attrs := list (string * string).  (* Go field name -> canonical dump of its value; absent = zero value *)
Definition vars := list (string * string).   (* ordered map name -> "<Dir>|<canonical dump of the ast.Var>" (see stamp_dir) *)

Definition attr (f : string) (a : attrs) : string :=
  match lookup f a with Some v => v | None => "" end.

Record cmd := { c_task : string; c_attrs : attrs }.
Record dep := { d_task : string; d_attrs : attrs }.

Record task := {
  t_task : string;            (* Task *)
  t_cmds : list cmd;          (* Cmds *)
  t_deps : list dep;          (* Deps *)
  t_aliases : list string;    (* Aliases *)
  t_dir : string;             (* Dir *)
  t_internal : bool;          (* Internal *)
  t_namespace : string;       (* Namespace *)
  t_incvars : vars;           (* IncludeVars *)
  t_inctfvars : vars;         (* IncludedTaskfileVars *)
  t_attrs : attrs             (* every other field of ast.Task *)
}.

(* the templates of `taskfile:` / `dir:` of an include statement, on the family
   `{{.NAME}}` / `{{.NAME | default "x"}}`: Reader.include expands them before it resolves the path *)
Inductive tseg := TLit (s : string) | TVar (name : string) (default : string).

Record include := {
  i_ns : string; i_taskfile : string; i_dir : string;
  i_optional : bool; i_internal : bool; i_flatten : bool; i_advanced : bool;
  i_aliases : list string; i_excludes : list string; i_vars : vars;
  i_taskfile_t : list tseg;   (* i_taskfile parsed into segments *)
  i_dir_t : list tseg         (* i_dir parsed into segments *)
}.

Inductive err := EVersion | EDotenv | EDup | ENotFound | ECycle | ENoVersion | EFuel | EInternal.

Definition err_eqb (a b : err) : bool :=
  match a, b with
  | EVersion, EVersion | EDotenv, EDotenv | EDup, EDup | ENotFound, ENotFound
  | ECycle, ECycle | ENoVersion, ENoVersion | EFuel, EFuel | EInternal, EInternal => true
  | _, _ => false
  end.

Record file := {
  f_version : string;         (* canonical semver; "" = no version key *)
  f_dotenv : bool;            (* len(Dotenv) > 0 *)
  f_output : string;          (* Output.Name; "" = not set *)
  f_vars : vars; f_env : vars;
  f_includes : list include;
  f_tasks : list (string * task);
  f_err : option err          (* sticky failure of a merge into this file (Go: error return aborts the load) *)
}.

Definition fsys := list (string * file).   (* absolute path -> parsed Taskfile *)

Inductive result (A : Type) := Ok (a : A) | Err (e : err).
Arguments Ok {A} a.
Arguments Err {A} e.

(* Which code the model follows; the value for the current tree is computed from
   the extracted facts (Run/MergeCases.v: current_variant). *)
Record variant := {
  v_task_dc : list string;    (* keys of the composite literal in Task.DeepCopy *)
  v_cmd_dc : list string;     (* ... in Cmd.DeepCopy *)
  v_dep_dc : list string;     (* ... in Dep.DeepCopy *)
  v_keep_rootref : bool;      (* ':'-prefixed deps/cmd targets are kept through every merge and stripped once at the root *)
  v_declared : bool;          (* graph.Merge merges the includes of a file in declared order (else: reverse topological order / edge lists) *)
  v_inplace : bool            (* Vars.Merge writes include.Dir into the variable OF THE INCLUDED Taskfile before copying it (else: into the copy) *)
}.

(* ------------------------------------------------------------------ *)
(* Task.DeepCopy through the extracted field lists: a field that is not
   assigned in the literal comes out as the zero value *)

Definition keep_attrs (dc : list string) (a : attrs) : attrs :=
  filter (fun kv => mem (fst kv) dc) a.

Definition deepcopy_cmd (v : variant) (c : cmd) : cmd :=
  {| c_task := if mem "Task" (v_cmd_dc v) then c_task c else "";
     c_attrs := keep_attrs (v_cmd_dc v) (c_attrs c) |}.
Definition deepcopy_dep (v : variant) (d : dep) : dep :=
  {| d_task := if mem "Task" (v_dep_dc v) then d_task d else "";
     d_attrs := keep_attrs (v_dep_dc v) (d_attrs d) |}.

Definition deepcopy_task (v : variant) (t : task) : task :=
  let dc := v_task_dc v in
  {| t_task := if mem "Task" dc then t_task t else "";
     t_cmds := if mem "Cmds" dc then map (deepcopy_cmd v) (t_cmds t) else [];
     t_deps := if mem "Deps" dc then map (deepcopy_dep v) (t_deps t) else [];
     t_aliases := if mem "Aliases" dc then t_aliases t else [];
     t_dir := if mem "Dir" dc then t_dir t else "";
     t_internal := if mem "Internal" dc then t_internal t else false;
     t_namespace := if mem "Namespace" dc then t_namespace t else "";
     t_incvars := if mem "IncludeVars" dc then t_incvars t else [];
     t_inctfvars := if mem "IncludedTaskfileVars" dc then t_inctfvars t else [];
     t_attrs := keep_attrs dc (t_attrs t) |}.

(* the fields of ast.Task the model treats structurally (not through t_attrs) *)
Definition structured_fields : list string :=
  ["Task"; "Cmds"; "Deps"; "Aliases"; "Dir"; "Internal"; "Namespace"; "IncludeVars"; "IncludedTaskfileVars"].

(* ------------------------------------------------------------------ *)
(* taskNameWithNamespace and the merges                                *)

Definition rename (ns name : string) : string :=
  if colon name then drop1 name else (ns ++ ":" ++ name)%string.

(* renaming of deps / cmd targets: the current code uses taskNameWithNamespace too *)
Definition rename_ref (v : variant) (ns r : string) : string :=
  match r with
  | EmptyString => r                       (* guard `dep.Task != ""` *)
  | _ => if v_keep_rootref v then (if colon r then r else (ns ++ ":" ++ r)%string) else rename ns r
  end.

(* a variable is dumped as "<Dir>|<value>": ast.Var.Dir, the working directory of a dynamic (sh:) variable *)
Fixpoint after_bar (s : string) : string :=
  match s with
  | EmptyString => EmptyString
  | String c r => if Ascii.eqb c "|"%char then r else after_bar r
  end.
Fixpoint has_bar (s : string) : bool :=
  match s with
  | EmptyString => false
  | String c r => Ascii.eqb c "|"%char || has_bar r
  end.
Definition var_value (d : string) : string := if has_bar d then after_bar d else d.
Definition stamp_dir (dir d : string) : string := (dir ++ "|" ++ var_value d)%string.
Definition stamp_vars (dir : string) (vs : vars) : vars := map (fun kv => (fst kv, stamp_dir dir (snd kv))) vs.

(* Vars.Merge with a nil include, or a short-form include: values are copied as they are *)
Definition vars_merge (vs other : vars) : vars :=
  fold_left (fun acc kv => set (fst kv) (snd kv) acc) other vs.

(* Vars.Merge(other, include): a long-form include stamps its Dir on every variable it copies *)
Definition vars_merge_inc (inc : include) (vs other : vars) : vars :=
  vars_merge vs (if i_advanced inc then stamp_vars (i_dir inc) other else other).

Definition merge_task (v : variant) (inc : include) (pvars : vars) (name : string) (t0 : task) : string * task :=
  let t := deepcopy_task v t0 in
  let internal := t_internal t || i_internal inc in
  let ns := i_ns inc in
  let key := if i_flatten inc then name else rename ns name in
  let cmds := if i_flatten inc then t_cmds t
              else map (fun c => {| c_task := rename_ref v ns (c_task c); c_attrs := c_attrs c |}) (t_cmds t) in
  let deps := if i_flatten inc then t_deps t
              else map (fun d => {| d_task := rename_ref v ns (d_task d); d_attrs := d_attrs d |}) (t_deps t) in
  let aliases := if i_flatten inc then t_aliases t
                 else map (fun a => rename ns a) (t_aliases t)
                      ++ flat_map (fun nsa => rename nsa (t_task t) :: map (fun a => rename nsa a) (t_aliases t0))
                                  (i_aliases inc) in
  (key,
   {| t_task := if i_flatten inc then t_task t else key;
      t_cmds := cmds; t_deps := deps; t_aliases := aliases;
      t_dir := if i_advanced inc then smart_join (i_dir inc) (t_dir t) else t_dir t;
      t_internal := internal;
      t_namespace := if i_flatten inc then t_namespace t else ns;
      t_incvars := if i_advanced inc then vars_merge (t_incvars t) (i_vars inc) else t_incvars t;
      t_inctfvars := if i_advanced inc then pvars else t_inctfvars t;
      t_attrs := t_attrs t |}).

(* the loop of Tasks.Merge; [Err EDup] = TaskNameFlattenConflictError *)
Fixpoint tasks_merge_loop (v : variant) (inc : include) (pvars : vars)
         (t2 : list (string * task)) (t1 : list (string * task)) : result (list (string * task)) :=
  match t2 with
  | [] => Ok t1
  | (name, t0) :: rest =>
      if mem name (i_excludes inc) then tasks_merge_loop v inc pvars rest t1
      else
        let (key, t) := merge_task v inc pvars name t0 in
        if has key t1 then Err EDup
        else tasks_merge_loop v inc pvars rest (t1 ++ [(key, t)])
  end.

Fixpoint update {A} (k : string) (f : A -> A) (l : list (string * A)) : list (string * A) :=
  match l with
  | [] => []
  | (k', x) :: r => if String.eqb k k' then (k', f x) :: r else (k', x) :: update k f r
  end.

Definition add_aliases (extra : list string) (t : task) : task :=
  {| t_task := t_task t; t_cmds := t_cmds t; t_deps := t_deps t; t_aliases := t_aliases t ++ extra;
     t_dir := t_dir t; t_internal := t_internal t; t_namespace := t_namespace t;
     t_incvars := t_incvars t; t_inctfvars := t_inctfvars t; t_attrs := t_attrs t |}.

(* default-task alias: `<ns>` (and the namespace aliases) for `<ns>:default` *)
Definition default_alias (inc : include) (t2 : list (string * task)) (t1 : list (string * task)) : list (string * task) :=
  if has "default" t2 && negb (has (i_ns inc) t1) && negb (i_flatten inc)
  then update (i_ns inc ++ ":default")%string (add_aliases (i_ns inc :: i_aliases inc)) t1
  else t1.

Definition tasks_merge (v : variant) (inc : include) (pvars : vars)
           (t2 t1 : list (string * task)) : result (list (string * task)) :=
  match tasks_merge_loop v inc pvars t2 t1 with
  | Err e => Err e
  | Ok t1' => Ok (default_alias inc t2 t1')
  end.

Definition with_err (f : file) (e : err) : file :=
  {| f_version := f_version f; f_dotenv := f_dotenv f; f_output := f_output f; f_vars := f_vars f;
     f_env := f_env f; f_includes := f_includes f; f_tasks := f_tasks f; f_err := Some e |}.

(* Taskfile.Merge, total: a failure is recorded in f_err and is sticky *)
Definition tf_merge (v : variant) (t1 t2 : file) (inc : include) : file :=
  match f_err t1 with Some _ => t1 | None =>
  match f_err t2 with Some e => with_err t1 e | None =>
  if negb (String.eqb (f_version t1) (f_version t2)) then with_err t1 EVersion
  else if f_dotenv t2 then with_err t1 EDotenv
  else
    let vars' := vars_merge_inc inc (f_vars t1) (f_vars t2) in
    let env' := vars_merge_inc inc (f_env t1) (f_env t2) in
    let out' := match f_output t2 with EmptyString => f_output t1 | o => o end in
    match tasks_merge v inc vars' (f_tasks t2) (f_tasks t1) with
    | Err e => with_err t1 e
    | Ok tasks' =>
        {| f_version := f_version t1; f_dotenv := f_dotenv t1; f_output := out'; f_vars := vars';
           f_env := env'; f_includes := f_includes t1; f_tasks := tasks'; f_err := None |}
    end
  end end.

(* ------------------------------------------------------------------ *)
(* the include graph and the reader                                    *)

Record node := { n_path : string; n_file : file; n_out : list (include * string) }.
Definition graph := list node.   (* head = root vertex *)

Fixpoint find_node (p : string) (g : graph) : option node :=
  match g with
  | [] => None
  | n :: r => if String.eqb p (n_path n) then Some n else find_node p r
  end.
Definition has_node (p : string) (g : graph) : bool :=
  match find_node p g with Some _ => true | None => false end.
Definition out_of (g : graph) (p : string) : list (include * string) :=
  match find_node p g with Some n => n_out n | None => [] end.
Definition vertices (g : graph) : list string := map n_path g.
Definition root_of (g : graph) : string := match g with n :: _ => n_path n | [] => "" end.

Fixpoint add_out (p : string) (e : include * string) (g : graph) : graph :=
  match g with
  | [] => []
  | n :: r => if String.eqb p (n_path n)
              then {| n_path := n_path n; n_file := n_file n; n_out := n_out n ++ [e] |} :: r
              else n :: add_out p e r
  end.

(* is [b] reachable from [a] along out-edges (a = b counts) *)
Fixpoint reaches (fuel : nat) (g : graph) (a b : string) : bool :=
  String.eqb a b ||
  match fuel with
  | 0 => false
  | S k => existsb (fun e => reaches k g (snd e) b) (out_of g a)
  end.

(* Templating of an include statement (Reader.include): the variables are the process
   environment overlaid with the STATIC global vars of the including file, nothing else:
   not the vars of the include statement through which the including file was reached,
   not the globals of other files.  The environment is passed to the model as the vars of
   the pseudo file "$ENV" of the file system (no include path resolves to that name). *)
Definition static_val (d : string) : option string :=
  match d with String "v"%char (String "="%char r) => Some r | _ => None end.
Definition env_of (fs : fsys) : vars :=
  match lookup "$ENV" fs with Some f => f_vars f | None => [] end.
Definition tpl_env (fs : fsys) (parent : string) : vars :=
  vars_merge (env_of fs) (match lookup parent fs with Some f => f_vars f | None => [] end).
Definition tpl_var (env : vars) (name default : string) : string :=
  match lookup name env with
  | Some d => match static_val (var_value d) with
              | Some EmptyString => default
              | Some v => v
              | None => default       (* dynamic (sh:) variables are not in the templater's cache *)
              end
  | None => default
  end.
Definition tpl_eval (env : vars) (t : list tseg) : string :=
  fold_right (fun sg acc => match sg with
                            | TLit l => (l ++ acc)%string
                            | TVar n d => (tpl_var env n d ++ acc)%string
                            end) "" t.

(* FileNode.ResolveEntrypoint + fsext.Search: explicit file, or directory holding Taskfile.yml *)
Definition resolve (fs : fsys) (parent : string) (inc : include) : option string :=
  let e := smart_join (dirname parent) (tpl_eval (tpl_env fs parent) (i_taskfile_t inc)) in
  if has e fs then Some e
  else let e' := (e ++ "/Taskfile.yml")%string in if has e' fs then Some e' else None.

(* the Include value stored on the edge: Taskfile / Dir expanded, Dir resolved against the including file *)
Definition resolved (fs : fsys) (parent : string) (inc : include) : include :=
  {| i_ns := i_ns inc; i_taskfile := tpl_eval (tpl_env fs parent) (i_taskfile_t inc);
     i_dir := smart_join (dirname parent) (tpl_eval (tpl_env fs parent) (i_dir_t inc));
     i_optional := i_optional inc; i_internal := i_internal inc; i_flatten := i_flatten inc;
     i_advanced := i_advanced inc; i_aliases := i_aliases inc; i_excludes := i_excludes inc;
     i_vars := i_vars inc; i_taskfile_t := i_taskfile_t inc; i_dir_t := i_dir_t inc |}.

(* Reader.include as a sequential depth-first traversal: a vertex is added once;
   the edge is added after the recursion returns; PreventCycles rejects an edge
   whose target already reaches its source. *)
Fixpoint visit (fuel : nat) (fs : fsys) (path : string) (g : graph) : result graph :=
  match fuel with
  | 0 => Err EFuel
  | S fuel' =>
      if has_node path g then Ok g else
      match lookup path fs with
      | None => Err ENotFound
      | Some f =>
          match f_version f with
          | EmptyString => Err ENoVersion
          | _ =>
            fold_left
              (fun acc inc =>
                 match acc with
                 | Err e => Err e
                 | Ok g1 =>
                     match resolve fs path inc with
                     | None => if i_optional inc then Ok g1 else Err ENotFound
                     | Some child =>
                         match visit fuel' fs child g1 with
                         | Err e => Err e
                         | Ok g2 =>
                             if reaches (List.length g2) g2 child path then Err ECycle
                             else Ok (add_out path (resolved fs path inc, child) g2)
                         end
                     end
                 end)
              (f_includes f)
              (Ok (g ++ [{| n_path := path; n_file := f; n_out := [] |}]))
          end
      end
  end.

Definition read (fs : fsys) (root : string) : result graph :=
  visit (S (List.length fs)) fs root [].

(* ------------------------------------------------------------------ *)
(* graph.Merge                                                         *)

Definition state := string -> file.
Definition upd (st : state) (p : string) (f : file) : state :=
  fun q => if String.eqb q p then f else st q.

Definition empty_file : file :=
  {| f_version := ""; f_dotenv := false; f_output := ""; f_vars := []; f_env := [];
     f_includes := []; f_tasks := []; f_err := Some EInternal |}.

Definition init_state (g : graph) : state :=
  fun p => match find_node p g with Some n => n_file n | None => empty_file end.

(* one call vertex.Taskfile.Merge(includedVertex.Taskfile, include) *)
Record op := { o_parent : string; o_child : string; o_inc : include }.

Definition step (v : variant) (st : state) (o : op) : state :=
  upd st (o_parent o) (tf_merge v (st (o_parent o)) (st (o_child o)) (o_inc o)).

Definition run_ops (v : variant) (ops : list op) (st : state) : state :=
  fold_left (step v) ops st.

(* the in-place variant of Vars.Merge: besides the merge into the parent, the vars and env of the
   INCLUDED Taskfile keep the Dir of a long-form include (when the merge gets as far as Vars.Merge) *)
Definition reaches_vars (t1 t2 : file) : bool :=
  match f_err t1, f_err t2 with
  | None, None => String.eqb (f_version t1) (f_version t2) && negb (f_dotenv t2)
  | _, _ => false
  end.
Definition stamp_file (dir : string) (f : file) : file :=
  {| f_version := f_version f; f_dotenv := f_dotenv f; f_output := f_output f; f_vars := stamp_vars dir (f_vars f);
     f_env := stamp_vars dir (f_env f); f_includes := f_includes f; f_tasks := f_tasks f; f_err := f_err f |}.
Definition step_ip (v : variant) (st : state) (o : op) : state :=
  let st1 := step v st o in
  if i_advanced (o_inc o) && reaches_vars (st (o_parent o)) (st (o_child o))
  then upd st1 (o_child o) (stamp_file (i_dir (o_inc o)) (st (o_child o)))
  else st1.
Definition run_ops_ip (v : variant) (ops : list op) (st : state) : state :=
  fold_left (step_ip v) ops st.

(* edge data between p and x: the include statements of p that resolved to x, in declared order *)
Definition incs_between (g : graph) (p x : string) : list include :=
  map fst (filter (fun e => String.eqb (snd e) x) (out_of g p)).
Definition preds (g : graph) (x : string) : list string :=
  map n_path (filter (fun n => existsb (fun e => String.eqb (snd e) x) (n_out n)) g).

(* sigma: the order of the edge data (goroutine completion order in Reader.include) *)
Definition sigma := string -> string -> list include -> list include.
Definition sigma_id : sigma := fun _ _ l => l.

(* current code: for each included vertex x in reverse topological order, for each
   predecessor p, merge x into p once per include statement on the edge *)
Definition ops_current (g : graph) (pi : list string) (s : sigma) : list op :=
  flat_map (fun x =>
    flat_map (fun p => map (fun inc => {| o_parent := p; o_child := x; o_inc := inc |})
                           (s p x (incs_between g p x)))
             (preds g x))
    (rev (tl pi)).

(* declared-order variant: for each vertex p in reverse topological order (root
   included), merge its includes in the order p declares them *)
Definition ops_declared (g : graph) (pi : list string) : list op :=
  flat_map (fun p => map (fun e => {| o_parent := p; o_child := snd e; o_inc := fst e |}) (out_of g p))
           (rev pi).

Definition ops_of (v : variant) (g : graph) (pi : list string) (s : sigma) : list op :=
  if v_declared v then ops_declared g pi else ops_current g pi s.

(* final pass of the keep-rootref variant: strip the ':' of root references *)
Definition strip_ref (r : string) : string := if colon r then drop1 r else r.
Definition strip_task (t : task) : task :=
  {| t_task := t_task t;
     t_cmds := map (fun c => {| c_task := strip_ref (c_task c); c_attrs := c_attrs c |}) (t_cmds t);
     t_deps := map (fun d => {| d_task := strip_ref (d_task d); d_attrs := d_attrs d |}) (t_deps t);
     t_aliases := t_aliases t; t_dir := t_dir t; t_internal := t_internal t; t_namespace := t_namespace t;
     t_incvars := t_incvars t; t_inctfvars := t_inctfvars t; t_attrs := t_attrs t |}.
Definition finish (v : variant) (f : file) : file :=
  if v_keep_rootref v then
    {| f_version := f_version f; f_dotenv := f_dotenv f; f_output := f_output f; f_vars := f_vars f;
       f_env := f_env f; f_includes := f_includes f;
       f_tasks := map (fun kt => (fst kt, strip_task (snd kt))) (f_tasks f); f_err := f_err f |}
  else f.

(* pi: the result of graph.TopologicalSort (Go map iteration); s: edge-data order *)
Definition merge_all (v : variant) (g : graph) (pi : list string) (s : sigma) : file :=
  finish v ((if v_inplace v then run_ops_ip else run_ops) v (ops_of v g pi s) (init_state g) (hd "" pi)).

(* ------------------------------------------------------------------ *)
(* valid orders (executable)                                           *)

Fixpoint index_of (x : string) (l : list string) : nat :=
  match l with [] => 0 | y :: r => if String.eqb x y then 0 else S (index_of x r) end.

Fixpoint nodupb (l : list string) : bool :=
  match l with [] => true | x :: r => negb (mem x r) && nodupb r end.

Definition topob (g : graph) (pi : list string) : bool :=
  nodupb pi
  && Nat.eqb (List.length pi) (List.length g)
  && forallb (fun p => mem p pi) (vertices g)
  && forallb (fun n => forallb (fun e => mem (snd e) pi && Nat.ltb (index_of (n_path n) pi) (index_of (snd e) pi)) (n_out n)) g.

(* all topological orders, by repeatedly choosing a vertex without unplaced predecessor *)
Fixpoint all_topo_aux (fuel : nat) (g : graph) (placed : list string) : list (list string) :=
  match fuel with
  | 0 => [rev placed]
  | S k =>
      let ready := filter (fun p => negb (mem p placed) && forallb (fun q => mem q placed) (preds g p)) (vertices g) in
      match ready with
      | [] => [rev placed]
      | _ => flat_map (fun p => all_topo_aux k g (p :: placed)) ready
      end
  end.
Definition all_topo (g : graph) : list (list string) :=
  filter (topob g) (all_topo_aux (List.length g) g []).

(* graph.Merge returns the error of the first failing Taskfile.Merge (and stops) *)
Fixpoint first_err_ops (v : variant) (ops : list op) (st : state) : option err :=
  match ops with
  | [] => None
  | o :: r =>
      let f := tf_merge v (st (o_parent o)) (st (o_child o)) (o_inc o) in
      match f_err f with
      | Some e => Some e
      | None => first_err_ops v r (upd st (o_parent o) f)
      end
  end.
Fixpoint first_err_ops_ip (v : variant) (ops : list op) (st : state) : option err :=
  match ops with
  | [] => None
  | o :: r =>
      match f_err (tf_merge v (st (o_parent o)) (st (o_child o)) (o_inc o)) with
      | Some e => Some e
      | None => first_err_ops_ip v r (step_ip v st o)
      end
  end.
Definition merge_err (v : variant) (g : graph) (pi : list string) (s : sigma) : option err :=
  (if v_inplace v then first_err_ops_ip else first_err_ops) v (ops_of v g pi s) (init_state g).

(* all orders of the edge data *)
Fixpoint insert_all {A} (x : A) (l : list A) : list (list A) :=
  match l with
  | [] => [[x]]
  | y :: r => (x :: l) :: map (cons y) (insert_all x r)
  end.
Fixpoint perms {A} (l : list A) : list (list A) :=
  match l with
  | [] => [[]]
  | x :: r => flat_map (insert_all x) (perms r)
  end.

Definition multi_edges (g : graph) : list (string * string * list include) :=
  flat_map (fun n =>
    flat_map (fun x => let l := incs_between g (n_path n) x in
                       match l with _ :: _ :: _ => [(n_path n, x, l)] | _ => [] end)
             (nodup string_dec (map snd (n_out n))))
    g.

Definition sigma_of (choice : list (string * string * list include)) : sigma :=
  fun p x l =>
    match find (fun c => String.eqb (fst (fst c)) p && String.eqb (snd (fst c)) x) choice with
    | Some c => snd c
    | None => l
    end.

Fixpoint sigma_choices (es : list (string * string * list include)) : list (list (string * string * list include)) :=
  match es with
  | [] => [[]]
  | (p, x, l) :: r => flat_map (fun l' => map (cons (p, x, l')) (sigma_choices r)) (perms l)
  end.
Definition all_sigmas (g : graph) : list sigma := map sigma_of (sigma_choices (multi_edges g)).
