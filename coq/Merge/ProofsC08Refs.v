(* Model C "Merge": deps / task: references (C08) — full statement for the
   keep-rootref variant, partial statement for the current renaming, and the
   reflection of valid_pi used by the concrete witnesses. *)
From Coq Require Import List String Bool Arith Ascii Lia Permutation.
Import ListNotations.
From TV Require Import Merge.Model Merge.Spec Merge.ProofsBase Merge.ProofsRun Merge.ProofsMerge Merge.ProofsC08 Merge.ProofsC08Mon.
Local Open Scope string_scope.
Local Open Scope list_scope.

Lemma ref_cases : forall r, r = "" \/ colon r = true \/ okname r = true.
Proof.
  intros [|c r]; [left; reflexivity|]. right. cbn.
  destruct c as [b0 b1 b2 b3 b4 b5 b6 b7].
  destruct b0, b1, b2, b3, b4, b5, b6, b7; cbn; tauto.
Qed.

Lemma okname_nonempty : forall s, okname s = true -> s <> "".
Proof. intros [|c s] H; [discriminate | discriminate]. Qed.

Lemma rename_ref_empty : forall v ns, rename_ref v ns "" = "".
Proof. reflexivity. Qed.

Lemma rename_ref_ok : forall v ns r, okname r = true -> rename_ref v ns r = (ns ++ ":" ++ r)%string.
Proof.
  intros v ns r H. pose proof (okname_colon r H) as Hc. unfold rename_ref.
  destruct r as [|c r]; [discriminate|]. destruct (v_keep_rootref v).
  - rewrite Hc. reflexivity.
  - apply rename_ok. exact Hc.
Qed.

Lemma ref_code_empty : forall v p, ref_code v p "" = "".
Proof.
  intros v p. induction p as [|e p IH]; [reflexivity|]. rewrite ref_code_cons, IH.
  destruct (i_flatten (snd e)); reflexivity.
Qed.

Lemma ref_code_ok : forall v p r, wf_path p -> okname r = true -> ref_code v p r = qual p r.
Proof.
  intros v p r. induction p as [|e p IH]; intros Hp Hr; [reflexivity|].
  assert (Hp' : wf_path p) by (intros e' He'; apply Hp; right; exact He').
  rewrite ref_code_cons, qual_cons, (IH Hp' Hr). destruct (i_flatten (snd e)); [reflexivity|].
  apply rename_ref_ok. apply okname_qual; assumption.
Qed.

Lemma ref_code_keep_colon : forall v p r, v_keep_rootref v = true -> colon r = true -> ref_code v p r = r.
Proof.
  intros v p r Hk Hc. induction p as [|e p IH]; [reflexivity|]. rewrite ref_code_cons, IH.
  destruct (i_flatten (snd e)); [reflexivity|]. unfold rename_ref. rewrite Hk, Hc.
  destruct r; [discriminate | reflexivity].
Qed.

Lemma ref_spec_cases : forall p r,
  (r = "" -> ref_spec p r = "") /\ (colon r = true -> ref_spec p r = drop1 r) /\ (okname r = true -> ref_spec p r = qual p r).
Proof.
  intros p r. repeat split.
  - intros ->. reflexivity.
  - intros H. unfold ref_spec. rewrite H. destruct r; [discriminate | reflexivity].
  - intros H. unfold ref_spec. rewrite (okname_colon r H). destruct r; [discriminate | reflexivity].
Qed.

(* keep-rootref variant: after the final pass every reference is what the specification says *)
Lemma ref_code_keep : forall v p r, v_keep_rootref v = true -> wf_path p -> strip_ref (ref_code v p r) = ref_spec p r.
Proof.
  intros v p r Hk Hp. destruct (ref_spec_cases p r) as (S1 & S2 & S3).
  destruct (ref_cases r) as [E|[E|E]].
  - subst r. rewrite ref_code_empty, (S1 eq_refl). reflexivity.
  - rewrite (ref_code_keep_colon v p r Hk E), (S2 E). unfold strip_ref. rewrite E. reflexivity.
  - rewrite (ref_code_ok v p r Hp E), (S3 E). unfold strip_ref.
    rewrite (okname_colon _ (okname_qual p r Hp E)). reflexivity.
Qed.

(* current renaming: right unless a ':'-reference crosses zero or several non-flattened includes *)
Definition nonflat (p : path) : nat := List.length (filter (fun e => negb (i_flatten (snd e))) p).
Definition rootref_safe (p : path) (r : string) : bool := negb (colon r) || Nat.eqb (nonflat p) 1.

Lemma ref_code_all_flatten : forall v p r, nonflat p = 0 -> ref_code v p r = r.
Proof.
  intros v p r. induction p as [|e p IH]; intros H; [reflexivity|]. rewrite ref_code_cons.
  unfold nonflat in *. cbn [filter] in H. destruct (i_flatten (snd e)); cbn in H; [exact (IH H) | discriminate].
Qed.

Lemma ref_code_current : forall v p r, v_keep_rootref v = false -> wf_path p -> rootref_safe p r = true ->
  ref_code v p r = ref_spec p r.
Proof.
  intros v p r Hk Hp Hs. destruct (ref_spec_cases p r) as (S1 & S2 & S3).
  destruct (ref_cases r) as [E|[E|E]].
  - subst r. rewrite ref_code_empty, (S1 eq_refl). reflexivity.
  - rewrite (S2 E). unfold rootref_safe in Hs. rewrite E in Hs. cbn in Hs. apply Nat.eqb_eq in Hs.
    clear S1 S2 S3 Hp. induction p as [|e p IH]; [discriminate|]. rewrite ref_code_cons.
    unfold nonflat in *. cbn [filter] in Hs. destruct (i_flatten (snd e)); cbn in Hs.
    + exact (IH Hs).
    + injection Hs as Hs. rewrite (ref_code_all_flatten v p r Hs). unfold rename_ref. rewrite Hk.
      destruct r; [discriminate|]. unfold rename. rewrite E. reflexivity.
  - rewrite (ref_code_ok v p r Hp E), (S3 E). reflexivity.
Qed.

Lemma str_list_eqb_refl : forall a, str_list_eqb a a = true.
Proof.
  intro a. unfold str_list_eqb. rewrite Nat.eqb_refl. cbn. induction a as [|x r IH]; cbn; [reflexivity|].
  rewrite String.eqb_refl. exact IH.
Qed.

Theorem refs_hold_keep : forall v g pi s, valid_load v g pi s -> v_keep_rootref v = true ->
  f_err (merge_all v g pi s) = None -> mon_refs g (f_tasks (merge_all v g pi s)) = true.
Proof.
  intros v g pi s Hl Hk Herr. unfold mon_refs. apply forallb_forall. intros o Ho.
  destruct (merge_all_entries v g pi s Hl Herr o Ho) as (Hp & _ & t' & _ & HR & H).
  unfold chk_refs. rewrite H, Hk. destruct HR. cbn [strip_task t_cmds t_deps]. rewrite !map_map. cbn [c_task d_task].
  rewrite <- (map_map c_task strip_ref), <- (map_map d_task strip_ref), r_cmds, r_deps, !map_map.
  rewrite (map_ext _ (fun c => ref_spec (o_path o) (c_task c))) by (intro c; apply ref_code_keep; assumption).
  rewrite (map_ext (fun d => strip_ref (ref_code v (o_path o) (d_task d))) (fun d => ref_spec (o_path o) (d_task d)))
    by (intro c; apply ref_code_keep; assumption).
  rewrite !str_list_eqb_refl. reflexivity.
Qed.

Definition refs_safe (o : origin) : bool :=
  forallb (fun c => rootref_safe (o_path o) (c_task c)) (t_cmds (o_task o))
  && forallb (fun d => rootref_safe (o_path o) (d_task d)) (t_deps (o_task o)).

Theorem refs_hold_partial : forall v g pi s, valid_load v g pi s -> v_keep_rootref v = false ->
  f_err (merge_all v g pi s) = None ->
  forallb (fun o => negb (refs_safe o) || chk_refs (f_tasks (merge_all v g pi s)) o) (all_origins g) = true.
Proof.
  intros v g pi s Hl Hk Herr. apply forallb_forall. intros o Ho.
  destruct (refs_safe o) eqn:Hsafe; [cbn|reflexivity].
  destruct (merge_all_entries v g pi s Hl Herr o Ho) as (Hp & _ & t' & _ & HR & H).
  unfold chk_refs. rewrite H, Hk. destruct HR. rewrite r_cmds, r_deps.
  unfold refs_safe in Hsafe. apply andb_true_iff in Hsafe. destruct Hsafe as [H1 H2]. rewrite forallb_forall in H1, H2.
  rewrite (map_ext_in _ (fun c => ref_spec (o_path o) (c_task c))) by (intros c Hc; apply ref_code_current; auto).
  rewrite (map_ext_in (fun d => ref_code v (o_path o) (d_task d)) (fun d => ref_spec (o_path o) (d_task d)))
    by (intros c Hc; apply ref_code_current; auto).
  rewrite !str_list_eqb_refl. reflexivity.
Qed.

(* ------------------------------------------------------------------ *)
(* reflection of valid_pi (used for concrete witnesses and examples)   *)

Lemma topob_valid : forall g pi, topob g pi = true -> hd "" pi = root_of g -> valid_pi g pi.
Proof.
  intros g pi H Hr. unfold topob in H. rewrite !andb_true_iff in H. destruct H as [[[H1 H2] H3] H4].
  constructor.
  - exact Hr.
  - apply Nat.eqb_eq in H2. lia.
  - apply nodupb_NoDup. exact H1.
  - intros p Hp. rewrite forallb_forall in H3. apply mem_In. exact (H3 p Hp).
  - intros p e He. unfold out_of in He. destruct (find_node p g) as [n|] eqn:E; [|contradiction].
    destruct (find_node_some g p n E) as [Hn Hpn]. rewrite forallb_forall in H4. specialize (H4 n Hn).
    rewrite forallb_forall in H4. specialize (H4 e He). apply andb_true_iff in H4. destruct H4 as [H5 H6].
    split; [apply mem_In; exact H5|]. apply Nat.ltb_lt in H6. rewrite Hpn in H6. exact H6.
Qed.

Lemma valid_sigma_id : valid_sigma sigma_id.
Proof. intros p x l. apply Permutation_refl. Qed.

Lemma valid_load_b : forall v g pi, dc_struct_ok v = true -> v_inplace v = false -> wf_graphb g = true -> topob g pi = true ->
  String.eqb (hd "" pi) (root_of g) = true -> valid_load v g pi sigma_id.
Proof.
  intros v g pi H1 H0 H2 H3 H4. constructor; [exact H1 | exact H0 | exact H2 | | exact valid_sigma_id].
  apply topob_valid; [exact H3 | apply String.eqb_eq; exact H4].
Qed.
