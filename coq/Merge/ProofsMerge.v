(* Model C "Merge": one Taskfile.Merge — what happens to the entries of the
   including file and to the entries of the included file. *)
From Coq Require Import List String Bool Arith Ascii Lia Permutation.
Import ListNotations.
From TV Require Import Merge.Model Merge.Spec Merge.ProofsBase Merge.ProofsRun.
Local Open Scope string_scope.
Local Open Scope list_scope.

(* ------------------------------------------------------------------ *)
(* alias extension: the only change a later merge makes to an entry    *)

Definition alias_ext (t t' : task) : Prop := exists extra, t' = add_aliases extra t.

Lemma add_aliases_nil : forall t, add_aliases [] t = t.
Proof. intros [a b c d e f g h i j]. unfold add_aliases. cbn. rewrite app_nil_r. reflexivity. Qed.

Lemma add_aliases_add : forall a b t, add_aliases b (add_aliases a t) = add_aliases (a ++ b) t.
Proof. intros a b t. unfold add_aliases. cbn. rewrite app_assoc. reflexivity. Qed.

Lemma alias_ext_refl : forall t, alias_ext t t.
Proof. intro t. exists []. symmetry. apply add_aliases_nil. Qed.

Lemma alias_ext_trans : forall a b c, alias_ext a b -> alias_ext b c -> alias_ext a c.
Proof. intros a b c [x Hx] [y Hy]. subst. exists (x ++ y). apply add_aliases_add. Qed.

(* ------------------------------------------------------------------ *)
(* update / default_alias                                              *)

Lemma update_keys : forall A k (f : A -> A) l, map fst (update k f l) = map fst l.
Proof.
  intros A k f l. induction l as [|[k' x] r IH]; cbn; [reflexivity|].
  destruct (String.eqb k k'); cbn; [reflexivity | rewrite IH; reflexivity].
Qed.

Lemma lookup_update : forall A k (f : A -> A) l k',
  lookup k' (update k f l) = match lookup k' l with
                             | Some x => if String.eqb k' k then Some (f x) else Some x
                             | None => None
                             end.
Proof.
  intros A k f l k'. induction l as [|[k0 x] r IH]; cbn; [reflexivity|].
  destruct (String.eqb k k0) eqn:E; cbn.
  - apply String.eqb_eq in E. subst k0. destruct (String.eqb k' k) eqn:E'; [reflexivity|].
    destruct (lookup k' r); reflexivity.
  - destruct (String.eqb k' k0) eqn:E'.
    + apply String.eqb_eq in E'. subst k0. rewrite String.eqb_sym, E. reflexivity.
    + exact IH.
Qed.

Lemma default_alias_keys : forall inc t2 t1, map fst (default_alias inc t2 t1) = map fst t1.
Proof.
  intros inc t2 t1. unfold default_alias.
  destruct (has "default" t2 && negb (has (i_ns inc) t1) && negb (i_flatten inc)); [apply update_keys | reflexivity].
Qed.

Lemma default_alias_lookup : forall inc t2 t1 k t,
  lookup k t1 = Some t -> exists t', lookup k (default_alias inc t2 t1) = Some t' /\ alias_ext t t'.
Proof.
  intros inc t2 t1 k t H. unfold default_alias.
  destruct (has "default" t2 && negb (has (i_ns inc) t1) && negb (i_flatten inc)).
  - rewrite lookup_update, H. destruct (String.eqb k (i_ns inc ++ ":default")).
    + eexists. split; [reflexivity|]. eexists. reflexivity.
    + exists t. split; [reflexivity | apply alias_ext_refl].
  - exists t. split; [exact H | apply alias_ext_refl].
Qed.

Lemma default_alias_lookup_none : forall inc t2 t1 k,
  lookup k t1 = None -> lookup k (default_alias inc t2 t1) = None.
Proof.
  intros inc t2 t1 k H. unfold default_alias.
  destruct (has "default" t2 && negb (has (i_ns inc) t1) && negb (i_flatten inc)); [|exact H].
  rewrite lookup_update, H. reflexivity.
Qed.

(* ------------------------------------------------------------------ *)
(* Taskfile.Merge without error                                        *)

Lemma tf_merge_sticky : forall v t1 t2 inc e, f_err t1 = Some e -> tf_merge v t1 t2 inc = t1.
Proof. intros v t1 t2 inc e H. unfold tf_merge. rewrite H. reflexivity. Qed.

Lemma tf_merge_ok : forall v t1 t2 inc,
  f_err (tf_merge v t1 t2 inc) = None ->
  f_err t1 = None /\ f_err t2 = None /\ f_version t1 = f_version t2 /\ f_dotenv t2 = false /\
  exists t1', tasks_merge_loop v inc (vars_merge_inc inc (f_vars t1) (f_vars t2)) (f_tasks t2) (f_tasks t1) = Ok t1'
              /\ f_tasks (tf_merge v t1 t2 inc) = default_alias inc (f_tasks t2) t1'
              /\ f_vars (tf_merge v t1 t2 inc) = vars_merge_inc inc (f_vars t1) (f_vars t2)
              /\ f_env (tf_merge v t1 t2 inc) = vars_merge_inc inc (f_env t1) (f_env t2).
Proof.
  intros v t1 t2 inc H. unfold tf_merge in *.
  destruct (f_err t1) eqn:E1; [congruence|].
  destruct (f_err t2) eqn:E2; [cbn in H; discriminate|].
  destruct (negb (String.eqb (f_version t1) (f_version t2))) eqn:EV; [cbn in H; discriminate|].
  destruct (f_dotenv t2) eqn:ED; [cbn in H; discriminate|].
  unfold tasks_merge in *.
  destruct (tasks_merge_loop v inc (vars_merge_inc inc (f_vars t1) (f_vars t2)) (f_tasks t2) (f_tasks t1)) as [t1'|e] eqn:EL;
    [|cbn in H; discriminate].
  apply negb_false_iff, String.eqb_eq in EV.
  repeat split; try reflexivity; try assumption.
  exists t1'. cbn. repeat split; reflexivity.
Qed.

Lemma fold_sched_sticky : forall v R l f0 e, f_err f0 = Some e -> fold_sched v R l f0 = f0.
Proof.
  intros v R l. unfold fold_sched. induction l as [|o r IH]; intros f0 e H; cbn; [reflexivity|].
  rewrite (tf_merge_sticky _ _ _ _ e H). exact (IH f0 e H).
Qed.

Lemma fold_sched_ok_head : forall v R l f0, f_err (fold_sched v R l f0) = None -> f_err f0 = None.
Proof.
  intros v R l f0 H. destruct (f_err f0) eqn:E; [|reflexivity].
  rewrite (fold_sched_sticky v R l f0 e E) in H. congruence.
Qed.

(* keys of a table stay distinct *)
Definition table_ok (f : file) : Prop := NoDup (map fst (f_tasks f)).

Lemma tf_merge_table_ok : forall v t1 t2 inc, table_ok t1 -> table_ok (tf_merge v t1 t2 inc).
Proof.
  intros v t1 t2 inc H. destruct (f_err (tf_merge v t1 t2 inc)) eqn:E.
  - (* on failure the tasks are those of t1 *)
    unfold tf_merge in *. unfold table_ok.
    destruct (f_err t1); [exact H|]. destruct (f_err t2); [exact H|].
    destruct (negb (String.eqb (f_version t1) (f_version t2))); [exact H|].
    destruct (f_dotenv t2); [exact H|].
    destruct (tasks_merge v inc _ (f_tasks t2) (f_tasks t1)); [cbn in E; discriminate | exact H].
  - destruct (tf_merge_ok v t1 t2 inc E) as (_&_&_&_&t1'&HL&HT&_).
    unfold table_ok. rewrite HT, default_alias_keys. exact (loop_ok_fresh _ _ _ _ _ _ HL H).
Qed.

Lemma fold_sched_table_ok : forall v R l f0, table_ok f0 -> table_ok (fold_sched v R l f0).
Proof.
  intros v R l. unfold fold_sched. induction l as [|o r IH]; intros f0 H; cbn; [exact H|].
  apply IH. apply tf_merge_table_ok. exact H.
Qed.

(* entries of the including file survive a merge, up to added aliases *)
Lemma tf_merge_keeps : forall v t1 t2 inc k t,
  f_err (tf_merge v t1 t2 inc) = None -> lookup k (f_tasks t1) = Some t ->
  exists t', lookup k (f_tasks (tf_merge v t1 t2 inc)) = Some t' /\ alias_ext t t'.
Proof.
  intros v t1 t2 inc k t E H. destruct (tf_merge_ok v t1 t2 inc E) as (_&_&_&_&t1'&HL&HT&_).
  rewrite HT. apply default_alias_lookup. apply loop_ok in HL. rewrite HL. apply lookup_app_some. exact H.
Qed.

Lemma fold_sched_keeps : forall v R l f0 k t,
  f_err (fold_sched v R l f0) = None -> lookup k (f_tasks f0) = Some t ->
  exists t', lookup k (f_tasks (fold_sched v R l f0)) = Some t' /\ alias_ext t t'.
Proof.
  intros v R l. induction l as [|o r IH]; intros f0 k t E H.
  - exists t. split; [exact H | apply alias_ext_refl].
  - change (fold_sched v R (o :: r) f0) with (fold_sched v R r (tf_merge v f0 (R (o_child o)) (o_inc o))) in *.
    pose proof (fold_sched_ok_head _ _ _ _ E) as E1.
    destruct (tf_merge_keeps v f0 _ _ k t E1 H) as [t1 [H1 X1]].
    destruct (IH _ k t1 E H1) as [t2 [H2 X2]].
    exists t2. split; [exact H2 | exact (alias_ext_trans _ _ _ X1 X2)].
Qed.

(* entries of the included file arrive transformed by merge_task *)
Lemma lookup_merged_entries : forall v inc pv t2 k t,
  NoDup (map fst t2) -> lookup k t2 = Some t -> mem k (i_excludes inc) = false ->
  In (merge_task v inc pv k t) (merged_entries v inc pv t2).
Proof.
  intros v inc pv t2 k t HN H HX. unfold merged_entries. apply in_map_iff. exists (k, t). split; [reflexivity|].
  unfold kept. apply filter_In. split; [apply lookup_In; exact H | cbn; rewrite HX; reflexivity].
Qed.

Lemma tf_merge_brings : forall v t1 t2 inc k t,
  f_err (tf_merge v t1 t2 inc) = None -> table_ok t1 -> table_ok t2 ->
  lookup k (f_tasks t2) = Some t -> mem k (i_excludes inc) = false ->
  exists t', lookup (fst (merge_task v inc (vars_merge_inc inc (f_vars t1) (f_vars t2)) k t)) (f_tasks (tf_merge v t1 t2 inc)) = Some t'
             /\ alias_ext (snd (merge_task v inc (vars_merge_inc inc (f_vars t1) (f_vars t2)) k t)) t'.
Proof.
  intros v t1 t2 inc k t E H1 H2 HL HX.
  destruct (tf_merge_ok v t1 t2 inc E) as (_&_&_&_&t1'&HLoop&HT&_).
  rewrite HT. apply default_alias_lookup.
  pose proof (loop_ok_fresh _ _ _ _ _ _ HLoop H1) as HN'.
  apply loop_ok in HLoop. apply In_nodup_lookup; [exact HN'|].
  rewrite HLoop. apply in_app_iff. right.
  set (pv := vars_merge_inc inc (f_vars t1) (f_vars t2)).
  rewrite <- surjective_pairing. apply lookup_merged_entries; assumption.
Qed.
