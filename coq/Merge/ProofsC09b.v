(* Model C "Merge": what is deterministic in the CURRENT variant (C09_partial). *)
From Coq Require Import List String Bool Arith Ascii Lia Permutation.
Import ListNotations.
From TV Require Import Merge.Model Merge.Spec Merge.ProofsBase Merge.ProofsRun Merge.ProofsMerge Merge.ProofsC08
     Merge.ProofsC08Mon Merge.ProofsC08Refs Merge.ProofsKeys.
Local Open Scope string_scope.
Local Open Scope list_scope.

Lemma Forall2_attrs_pair : forall dc p fields (proj : cmd -> attrs) (l1 l2 l : list cmd),
  Forall2 (fun c' c => attrs_rel dc p (proj c') (proj c)) l1 l ->
  Forall2 (fun c' c => attrs_rel dc p (proj c') (proj c)) l2 l ->
  forallb (fun xy => attrs_eqb fields (proj (fst xy)) (proj (snd xy))) (combine l1 l2) = true.
Proof.
  intros dc p fields proj l1 l2 l H1. revert l2. induction H1 as [|x y l1 l Hxy _ IH]; intros l2 H2; [reflexivity|].
  inversion H2 as [|x2 y2 l2' l' Hxy2 H2']; subst. cbn. rewrite (IH _ H2'), andb_true_r.
  unfold attrs_eqb. apply forallb_forall. intros f _. rewrite (Hxy f), (Hxy2 f). apply String.eqb_refl.
Qed.

Lemma Forall2_attrs_pair_dep : forall dc p fields (l1 l2 l : list dep),
  Forall2 (fun c' c => attrs_rel dc p (d_attrs c') (d_attrs c)) l1 l ->
  Forall2 (fun c' c => attrs_rel dc p (d_attrs c') (d_attrs c)) l2 l ->
  forallb (fun xy => attrs_eqb fields (d_attrs (fst xy)) (d_attrs (snd xy))) (combine l1 l2) = true.
Proof.
  intros dc p fields l1 l2 l H1. revert l2. induction H1 as [|x y l1 l Hxy _ IH]; intros l2 H2; [reflexivity|].
  inversion H2 as [|x2 y2 l2' l' Hxy2 H2']; subst. cbn. rewrite (IH _ H2'), andb_true_r.
  unfold attrs_eqb. apply forallb_forall. intros f _. rewrite (Hxy f), (Hxy2 f). apply String.eqb_refl.
Qed.

Lemma rel_stable : forall v p name t t1 t2 tf cf df, Rel v p name t t1 -> Rel v p name t t2 ->
  stable_eqb tf cf df t1 t2 = true.
Proof.
  intros v p name t t1 t2 tf cf df [A1 A2 A3 A4 A5 A6 A7 A8 A9 _] [B1 B2 B3 B4 B5 B6 B7 B8 B9 _].
  unfold stable_eqb. rewrite A1, B1, A2, B2, A6, B6, A7, B7, A8, B8, A9, B9.
  rewrite !str_list_eqb_refl, !String.eqb_refl, Bool.eqb_reflx, vars_eqb_refl. cbn.
  rewrite (Forall2_attrs_pair _ _ cf c_attrs _ _ _ A3 B3), (Forall2_attrs_pair_dep _ _ df _ _ _ A4 B4), !andb_true_r.
  unfold attrs_eqb. apply forallb_forall. intros f _. rewrite (A5 f), (B5 f). apply String.eqb_refl.
Qed.

Lemma strip_stable : forall tf cf df a b, stable_eqb tf cf df a b = true ->
  stable_eqb tf cf df (strip_task a) (strip_task b) = true.
Proof.
  intros tf cf df a b H. unfold stable_eqb in *. cbn [strip_task t_cmds t_deps t_dir t_internal t_incvars t_task t_attrs].
  rewrite !andb_true_iff in H. destruct H as [[[[[[[[H1 H2] H3] H4] H5] H6] H7] H8] H9].
  rewrite H3, H4, H5, H6, H7. rewrite !map_map. cbn [c_task d_task].
  assert (E : forall l l' : list string, str_list_eqb l l' = true -> str_list_eqb (map strip_ref l) (map strip_ref l') = true).
  { intros l l' Hl. unfold str_list_eqb in *. apply andb_true_iff in Hl. destruct Hl as [L1 L2]. rewrite !map_length, L1. cbn.
    apply Nat.eqb_eq in L1. revert l' L1 L2. induction l as [|x r IH]; intros [|y r'] L1 L2; try discriminate; [reflexivity|].
    cbn in *. apply andb_true_iff in L2. destruct L2 as [L2 L3]. apply String.eqb_eq in L2. subst y.
    rewrite String.eqb_refl. cbn. apply IH; [lia | exact L3]. }
  rewrite <- (map_map c_task strip_ref), <- (map_map c_task strip_ref (t_cmds b)), (E _ _ H1).
  rewrite <- (map_map d_task strip_ref), <- (map_map d_task strip_ref (t_deps b)), (E _ _ H2). cbn.
  assert (C : forall (l l' : list cmd) (h : cmd -> cmd), (forall c, c_attrs (h c) = c_attrs c) ->
     forallb (fun xy => attrs_eqb cf (c_attrs (fst xy)) (c_attrs (snd xy))) (combine l l') = true ->
     forallb (fun xy => attrs_eqb cf (c_attrs (fst xy)) (c_attrs (snd xy))) (combine (map h l) (map h l')) = true).
  { intros l l' h Hh. revert l'. induction l as [|x r IH]; intros [|y r'] Hl; try reflexivity. cbn in *.
    apply andb_true_iff in Hl. destruct Hl as [L1 L2]. rewrite !Hh, L1. cbn. apply IH. exact L2. }
  assert (D : forall (l l' : list dep) (h : dep -> dep), (forall c, d_attrs (h c) = d_attrs c) ->
     forallb (fun xy => attrs_eqb df (d_attrs (fst xy)) (d_attrs (snd xy))) (combine l l') = true ->
     forallb (fun xy => attrs_eqb df (d_attrs (fst xy)) (d_attrs (snd xy))) (combine (map h l) (map h l')) = true).
  { intros l l' h Hh. revert l'. induction l as [|x r IH]; intros [|y r'] Hl; try reflexivity. cbn in *.
    apply andb_true_iff in Hl. destruct Hl as [L1 L2]. rewrite !Hh, L1. cbn. apply IH. exact L2. }
  rewrite (C (t_cmds a) (t_cmds b) (fun c => {| c_task := strip_ref (c_task c); c_attrs := c_attrs c |}) (fun c => eq_refl) H8).
  rewrite (D (t_deps a) (t_deps b) (fun d => {| d_task := strip_ref (d_task d); d_attrs := d_attrs d |}) (fun c => eq_refl) H9).
  reflexivity.
Qed.

(* two loads of one tree, whatever the topological orders and edge-data orders: same keys,
   and for every origin the same commands, deps, directory, include vars and attributes *)
Theorem partial_det : forall v g pi pi' s s' tf cf df,
  valid_load v g pi s -> valid_load v g pi' s' -> wf_outb g = true ->
  f_err (merge_all v g pi s) = None -> f_err (merge_all v g pi' s') = None ->
  mon_stable tf cf df g (f_tasks (merge_all v g pi s)) (f_tasks (merge_all v g pi' s')) = true.
Proof.
  intros v g pi pi' s s' tf cf df Hl Hl' Hout E E'.
  pose proof (keys_permutation v g pi s Hl Hout E) as P. pose proof (keys_permutation v g pi' s' Hl' Hout E') as P'.
  assert (PP : Permutation (map fst (f_tasks (merge_all v g pi s))) (map fst (f_tasks (merge_all v g pi' s')))).
  { eapply Permutation_trans; [exact P | apply Permutation_sym; exact P']. }
  unfold mon_stable. rewrite !andb_true_iff. split; [split|].
  - apply forallb_forall. intros o Ho.
    destruct (merge_all_entries v g pi s Hl E o Ho) as (_ & _ & t1 & _ & R1 & L1).
    destruct (merge_all_entries v g pi' s' Hl' E' o Ho) as (_ & _ & t2 & _ & R2 & L2).
    rewrite L1, L2. pose proof (rel_stable v _ _ _ t1 t2 tf cf df R1 R2) as Hs.
    destruct (v_keep_rootref v); [apply strip_stable|]; exact Hs.
  - apply Nat.eqb_eq. pose proof (Permutation_length PP) as HL. rewrite !map_length in HL. exact HL.
  - apply forallb_forall. intros k Hk. apply mem_In. exact (Permutation_in _ PP Hk).
Qed.
