(* Model C "Merge": from the invariant of ProofsC08 to the boolean monitors of Spec.v
   evaluated on the table merge_all returns. *)
From Coq Require Import List String Bool Arith Ascii Lia Permutation.
Import ListNotations.
From TV Require Import Merge.Model Merge.Spec Merge.ProofsBase Merge.ProofsRun Merge.ProofsMerge Merge.ProofsC08.
Local Open Scope string_scope.
Local Open Scope list_scope.

(* what a theorem about a load assumes of its inputs *)
Record valid_load (v : variant) (g : graph) (pi : list string) (s : sigma) : Prop := {
  vl_dc : dc_struct_ok v = true;
  vl_copy : v_inplace v = false;
  vl_wf : wf_graphb g = true;
  vl_pi : valid_pi g pi;
  vl_sigma : valid_sigma s
}.

Lemma wf_graph_vertices : forall g, wf_graphb g = true -> wf_vertices g.
Proof.
  intros g H. unfold wf_graphb in H. apply andb_true_iff in H. destruct H as [H _].
  apply nodupb_NoDup. exact H.
Qed.

Lemma valid_load_good : forall v g pi s, valid_load v g pi s -> good_ops g (ops_of v g pi s).
Proof.
  intros v g pi s [_ _ Hwf Hpi Hs]. apply good_ops_of; [apply wf_graph_vertices; exact Hwf | exact Hpi | exact Hs].
Qed.

(* the table before the final pass *)
Definition raw_state (v : variant) (g : graph) (pi : list string) (s : sigma) : state :=
  run_ops v (ops_of v g pi s) (init_state g).

Lemma merge_all_raw : forall v g pi s, v_inplace v = false -> valid_pi g pi ->
  merge_all v g pi s = finish v (raw_state v g pi s (root_of g)).
Proof. intros v g pi s Hc Hv. unfold merge_all, raw_state. rewrite Hc, (vp_root g pi Hv). reflexivity. Qed.

Lemma finish_err : forall v f, f_err (finish v f) = f_err f.
Proof. intros v f. unfold finish. destruct (v_keep_rootref v); reflexivity. Qed.

Lemma lookup_map_snd : forall (h : task -> task) k l,
  lookup k (map (fun kt : string * task => (fst kt, h (snd kt))) l) = option_map h (lookup k l).
Proof.
  intros h k l. induction l as [|[k' t] r IH]; cbn; [reflexivity|].
  destruct (String.eqb k k'); [reflexivity | exact IH].
Qed.

Lemma finish_lookup : forall v f k,
  lookup k (f_tasks (finish v f)) = if v_keep_rootref v then option_map strip_task (lookup k (f_tasks f)) else lookup k (f_tasks f).
Proof.
  intros v f k. unfold finish. destruct (v_keep_rootref v); [|reflexivity]. cbn. apply lookup_map_snd.
Qed.

(* every origin has its entry in the returned table, up to the final pass *)
Theorem merge_all_entries : forall v g pi s, valid_load v g pi s -> f_err (merge_all v g pi s) = None ->
  forall o, In o (all_origins g) ->
  wf_path (o_path o) /\ okname (o_name o) = true /\
  exists t', lookup (qual (o_path o) (o_name o)) (f_tasks (raw_state v g pi s (root_of g))) = Some t'
             /\ Rel v (o_path o) (o_name o) (o_task o) t'
             /\ lookup (qual (o_path o) (o_name o)) (f_tasks (merge_all v g pi s))
                = Some (if v_keep_rootref v then strip_task t' else t').
Proof.
  intros v g pi s Hl Herr o Ho. pose proof (valid_load_good v g pi s Hl) as Hgo.
  destruct Hl as [Hdc Hcp Hwf Hpi Hs]. rewrite (merge_all_raw v g pi s Hcp Hpi) in *. rewrite finish_err in Herr.
  destruct (entries v g (ops_of v g pi s) Hdc Hwf Hgo (List.length g) (root_of g) Herr o Ho) as (H1 & H2 & _ & t' & H3 & H4).
  split; [exact H1|]. split; [exact H2|]. exists t'. split; [exact H3|]. split; [exact H4|].
  rewrite finish_lookup. unfold raw_state in H3. fold (raw_state v g pi s) in H3. rewrite H3.
  destruct (v_keep_rootref v); reflexivity.
Qed.

(* ---- callable as <namespace>:<task> ---- *)
Theorem present_holds : forall v g pi s, valid_load v g pi s -> f_err (merge_all v g pi s) = None ->
  mon_present g (f_tasks (merge_all v g pi s)) = true.
Proof.
  intros v g pi s Hl Herr. unfold mon_present. apply forallb_forall. intros o Ho.
  destruct (merge_all_entries v g pi s Hl Herr o Ho) as (_ & _ & t' & _ & _ & H).
  unfold chk_present. apply has_true_lookup. eexists. exact H.
Qed.

(* ---- directory, internal, include vars, Task ---- *)
Lemma vars_eqb_refl : forall a, vars_eqb a a = true.
Proof.
  intro a. unfold vars_eqb. rewrite Nat.eqb_refl. cbn. induction a as [|[k x] r IH]; cbn; [reflexivity|].
  rewrite !String.eqb_refl. exact IH.
Qed.

Lemma all_flatten_prefix : forall p, all_flatten p = true -> nsprefix p = "".
Proof.
  induction p as [|e p IH]; cbn; [reflexivity|]. intros H. apply andb_true_iff in H. destruct H as [H1 H2].
  rewrite H1. exact (IH H2).
Qed.

Lemma strip_task_fields : forall t,
  t_dir (strip_task t) = t_dir t /\ t_internal (strip_task t) = t_internal t /\ t_incvars (strip_task t) = t_incvars t /\
  t_task (strip_task t) = t_task t /\ t_aliases (strip_task t) = t_aliases t /\ t_attrs (strip_task t) = t_attrs t.
Proof. intro t. repeat split; reflexivity. Qed.

Lemma origin_task_name : forall g, wf_graphb g = true ->
  forall n p o, In o (origins n g p) -> t_task (o_task o) = o_name o.
Proof.
  intros g Hwf. induction n as [|n IH]; intros p o Ho.
  - cbn [origins] in Ho. rewrite app_nil_r in Ho. apply in_map_iff in Ho. destruct Ho as [[k t] [E Hkt]]. subst o. cbn.
    rewrite <- init_state_file_of in Hkt. destruct (wf_init g p Hwf) as [_ H]. destruct (H k t Hkt) as (_ & H2 & _). exact H2.
  - cbn [origins] in Ho. apply in_app_iff in Ho. destruct Ho as [Ho|Ho].
    + apply (IH p). destruct n; cbn [origins]; [rewrite app_nil_r|apply in_app_iff; left]; exact Ho.
    + apply in_flat_map in Ho. destruct Ho as [e [_ Ho]]. apply in_map_iff in Ho. destruct Ho as [o' [E Ho']]. subst o. cbn.
      apply filter_In in Ho'. destruct Ho' as [Ho' _]. exact (IH (snd e) o' Ho').
Qed.

Theorem place_holds : forall v g pi s, valid_load v g pi s -> f_err (merge_all v g pi s) = None ->
  mon_place g (f_tasks (merge_all v g pi s)) = true.
Proof.
  intros v g pi s Hl Herr. unfold mon_place. apply forallb_forall. intros o Ho.
  destruct (merge_all_entries v g pi s Hl Herr o Ho) as (_ & _ & t' & _ & HR & H).
  unfold chk_place. rewrite H. destruct HR.
  assert (E : forall t'', t_dir t'' = t_dir t' -> t_internal t'' = t_internal t' -> t_incvars t'' = t_incvars t' -> t_task t'' = t_task t' ->
     String.eqb (t_dir t'') (dir_spec (o_path o) (t_dir (o_task o)))
     && Bool.eqb (t_internal t'') (internal_spec (o_path o) (t_internal (o_task o)))
     && vars_eqb (t_incvars t'') (incvars_spec (o_path o) (t_incvars (o_task o)))
     && String.eqb (t_task t'') (if all_flatten (o_path o) then t_task (o_task o) else qual (o_path o) (o_name o)) = true).
  { intros t'' E1 E2 E3 E4. rewrite E1, E2, E3, E4, r_dir, r_internal, r_incvars, r_task.
    rewrite String.eqb_refl, Bool.eqb_reflx, vars_eqb_refl. cbn.
    destruct (all_flatten (o_path o)) eqn:EF; [|apply String.eqb_refl].
    unfold qual. rewrite (all_flatten_prefix _ EF). cbn.
    (* the definition's Task is its key *)
    apply String.eqb_eq. symmetry. exact (origin_task_name g (vl_wf _ _ _ _ Hl) _ _ o Ho). }
  destruct (v_keep_rootref v); apply E; reflexivity.
Qed.

(* ---- namespace aliases x task aliases ---- *)
Theorem aliases_hold : forall v g pi s, valid_load v g pi s -> f_err (merge_all v g pi s) = None ->
  mon_aliases g (f_tasks (merge_all v g pi s)) = true.
Proof.
  intros v g pi s Hl Herr. unfold mon_aliases. apply forallb_forall. intros o Ho.
  destruct (merge_all_entries v g pi s Hl Herr o Ho) as (_ & _ & t' & _ & HR & H).
  unfold chk_aliases. rewrite H. destruct HR. apply forallb_forall. intros n Hn. apply mem_In.
  specialize (r_aliases n Hn). destruct (v_keep_rootref v); exact r_aliases.
Qed.

(* ---- keeps all its attributes ---- *)
Definition dc_complete (v : variant) (tf cf df : list string) : bool :=
  forallb (fun f => mem f (v_task_dc v)) (unstructured tf)
  && forallb (fun f => mem f (v_cmd_dc v)) cf && forallb (fun f => mem f (v_dep_dc v)) df.

Lemma attrs_rel_eqb : forall dc p a' a fields, attrs_rel dc p a' a ->
  forallb (fun f => mem f dc) fields = true -> attrs_eqb fields a' a = true.
Proof.
  intros dc p a' a fields H Hf. unfold attrs_eqb. apply forallb_forall. intros f Hin.
  rewrite forallb_forall in Hf. specialize (Hf f Hin). rewrite (H f). destruct p; [apply String.eqb_refl|].
  rewrite Hf. apply String.eqb_refl.
Qed.

Lemma Forall2_combine : forall A B (P : A -> B -> Prop) (q : A * B -> bool) l l',
  Forall2 P l l' -> (forall x y, P x y -> q (x, y) = true) ->
  Nat.eqb (List.length l) (List.length l') = true /\ forallb q (combine l l') = true.
Proof.
  intros A B P q l l' H Hq. induction H as [|x y l l' Hxy _ [IH1 IH2]]; cbn; [split; reflexivity|].
  split; [exact IH1|]. rewrite (Hq x y Hxy). exact IH2.
Qed.

Lemma Forall2_map_l : forall A B C (P : C -> B -> Prop) (h : A -> C) l l',
  Forall2 (fun x y => P (h x) y) l l' -> Forall2 P (map h l) l'.
Proof. intros A B C P h l l' H. induction H; cbn; constructor; assumption. Qed.

Theorem attrs_hold : forall v g pi s tf cf df, valid_load v g pi s -> dc_complete v tf cf df = true ->
  f_err (merge_all v g pi s) = None ->
  mon_attrs tf cf df g (f_tasks (merge_all v g pi s)) = true.
Proof.
  intros v g pi s tf cf df Hl Hdc Herr. unfold mon_attrs. apply forallb_forall. intros o Ho.
  destruct (merge_all_entries v g pi s Hl Herr o Ho) as (_ & _ & t' & _ & HR & H).
  unfold dc_complete in Hdc. apply andb_true_iff in Hdc. destruct Hdc as [Hdc H3].
  apply andb_true_iff in Hdc. destruct Hdc as [H1 H2].
  unfold chk_attrs. rewrite H. destruct HR.
  assert (E : forall t'', t_attrs t'' = t_attrs t' ->
      Forall2 (fun c' c => attrs_rel (v_cmd_dc v) (o_path o) (c_attrs c') (c_attrs c)) (t_cmds t'') (t_cmds (o_task o)) ->
      Forall2 (fun c' c => attrs_rel (v_dep_dc v) (o_path o) (d_attrs c') (d_attrs c)) (t_deps t'') (t_deps (o_task o)) ->
      attrs_eqb (unstructured tf) (t_attrs t'') (t_attrs (o_task o))
      && Nat.eqb (List.length (t_cmds t'')) (List.length (t_cmds (o_task o)))
      && forallb (fun xy => attrs_eqb cf (c_attrs (fst xy)) (c_attrs (snd xy))) (combine (t_cmds t'') (t_cmds (o_task o)))
      && Nat.eqb (List.length (t_deps t'')) (List.length (t_deps (o_task o)))
      && forallb (fun xy => attrs_eqb df (d_attrs (fst xy)) (d_attrs (snd xy))) (combine (t_deps t'') (t_deps (o_task o))) = true).
  { intros t'' E1 F1 F2. rewrite E1, (attrs_rel_eqb _ _ _ _ _ r_attrs H1). cbn.
    destruct (Forall2_combine _ _ _ (fun xy => attrs_eqb cf (c_attrs (fst xy)) (c_attrs (snd xy))) _ _ F1) as [L1 L2].
    { intros x y Hxy. cbn. exact (attrs_rel_eqb _ _ _ _ _ Hxy H2). }
    destruct (Forall2_combine _ _ _ (fun xy => attrs_eqb df (d_attrs (fst xy)) (d_attrs (snd xy))) _ _ F2) as [L3 L4].
    { intros x y Hxy. cbn. exact (attrs_rel_eqb _ _ _ _ _ Hxy H3). }
    rewrite L1, L2, L3, L4. reflexivity. }
  destruct (v_keep_rootref v).
  - apply E; [reflexivity| |]; cbn [strip_task t_cmds t_deps]; apply Forall2_map_l; cbn; assumption.
  - apply E; [reflexivity|assumption|assumption].
Qed.
