(* Model C "Merge": statements about the variant that describes the current tree
   (Run/MergeCases.v: current_variant, computed from the extracted facts).
   Each refutation is guarded by the flag it depends on, so that the file still
   compiles (with the guard false) once the code is repaired. *)
From Coq Require Import List String Bool Arith Ascii Lia Permutation.
Import ListNotations.
From TV Require Import Merge.Model Merge.Spec Merge.ProofsBase Merge.ProofsRun Merge.ProofsMerge Merge.ProofsC08
     Merge.ProofsC08Mon Merge.ProofsC08Refs Merge.ProofsC09 Merge.ProofsKeys Extracted.Facts Run.MergeCases.
Local Open Scope string_scope.
Local Open Scope list_scope.

(* ---- small file systems used as witnesses and non-vacuity examples ---- *)

Definition mk_task (name : string) (cmds : list cmd) (deps : list dep) (a : attrs) : string * task :=
  (name, {| t_task := name; t_cmds := cmds; t_deps := deps; t_aliases := []; t_dir := ""; t_internal := false;
            t_namespace := ""; t_incvars := []; t_inctfvars := []; t_attrs := a |}).
Definition sh (text : string) : cmd := {| c_task := ""; c_attrs := [("Cmd", text)] |}.
Definition call (target : string) : cmd := {| c_task := target; c_attrs := [] |}.
Definition mk_inc (ns file : string) (flatten : bool) : include :=
  {| i_ns := ns; i_taskfile := file; i_dir := ""; i_optional := false; i_internal := false; i_flatten := flatten;
     i_advanced := false; i_aliases := []; i_excludes := []; i_vars := [];
     i_taskfile_t := [TLit file]; i_dir_t := [] |}.
Definition mk_file (vs : vars) (incs : list include) (ts : list (string * task)) : file :=
  {| f_version := "3.0.0"; f_dotenv := false; f_output := ""; f_vars := vs; f_env := []; f_includes := incs;
     f_tasks := ts; f_err := None |}.
Definition graph_of (fs : fsys) : graph := match read fs "/R/Taskfile.yml" with Ok g => g | Err _ => [] end.

(* 7.12: a task with every field set *)
Definition full_attrs (fields : list string) : attrs := map (fun f => (f, "x")) fields.
Definition fs_attrs : fsys :=
  [("/R/Taskfile.yml", mk_file [] [mk_inc "i" "./b" false] [mk_task "root" [sh "echo root"] [] []]);
   ("/R/b/Taskfile.yml", mk_file [] []
      [mk_task "w" [{| c_task := ""; c_attrs := full_attrs cmd_fields |}] [{| d_task := "w2"; d_attrs := full_attrs dep_fields |}]
               (full_attrs (unstructured task_fields)); mk_task "w2" [sh "echo w2"] [] []])].

Theorem attrs_refuted :
  dc_complete current_variant task_fields cmd_fields dep_fields = false ->
  exists g pi, valid_load current_variant g pi sigma_id
    /\ f_err (merge_all current_variant g pi sigma_id) = None
    /\ mon_attrs task_fields cmd_fields dep_fields g (f_tasks (merge_all current_variant g pi sigma_id)) = false.
Proof.
  intro H. vm_compute in H.
  first [ discriminate H
        | clear H; exists (graph_of fs_attrs), ["/R/Taskfile.yml"; "/R/b/Taskfile.yml"];
          split; [apply valid_load_b; vm_compute; reflexivity | split; vm_compute; reflexivity] ].
Qed.

(* 7.13 (a): ':'-reference two includes deep is bound to the depth-1 namespace *)
Definition fs_nested : fsys :=
  [("/R/Taskfile.yml", mk_file [] [mk_inc "b" "./b" false] [mk_task "root" [sh "echo ROOT"] [] []]);
   ("/R/b/Taskfile.yml", mk_file [] [mk_inc "c" "./c" false] [mk_task "root" [sh "echo B-ROOT"] [] []]);
   ("/R/b/c/Taskfile.yml", mk_file [] [] [mk_task "callroot" [call ":root"] [] []])].

Theorem rootref_nested_refuted :
  v_keep_rootref current_variant = false ->
  exists g pi, valid_load current_variant g pi sigma_id
    /\ f_err (merge_all current_variant g pi sigma_id) = None
    /\ mon_refs g (f_tasks (merge_all current_variant g pi sigma_id)) = false
    /\ option_map (fun t => map c_task (t_cmds t)) (lookup "b:c:callroot" (f_tasks (merge_all current_variant g pi sigma_id))) = Some ["b:root"].
Proof.
  intro H. vm_compute in H.
  first [ discriminate H
        | clear H; exists (graph_of fs_nested), ["/R/Taskfile.yml"; "/R/b/Taskfile.yml"; "/R/b/c/Taskfile.yml"];
          split; [apply valid_load_b; vm_compute; reflexivity | repeat split; vm_compute; reflexivity] ].
Qed.

(* 7.13 (b): under flatten the ':' is never stripped *)
Definition fs_flat : fsys :=
  [("/R/Taskfile.yml", mk_file [] [mk_inc "b" "./b" true] [mk_task "root" [sh "echo ROOT"] [] []]);
   ("/R/b/Taskfile.yml", mk_file [] [] [mk_task "callroot" [call ":root"] [] []])].

Theorem rootref_flatten_refuted :
  v_keep_rootref current_variant = false ->
  exists g pi, valid_load current_variant g pi sigma_id
    /\ f_err (merge_all current_variant g pi sigma_id) = None
    /\ mon_refs g (f_tasks (merge_all current_variant g pi sigma_id)) = false
    /\ option_map (fun t => map c_task (t_cmds t)) (lookup "callroot" (f_tasks (merge_all current_variant g pi sigma_id))) = Some [":root"].
Proof.
  intro H. vm_compute in H.
  first [ discriminate H
        | clear H; exists (graph_of fs_flat), ["/R/Taskfile.yml"; "/R/b/Taskfile.yml"];
          split; [apply valid_load_b; vm_compute; reflexivity | repeat split; vm_compute; reflexivity] ].
Qed.

(* 7.14: two sibling includes defining the same variable *)
Definition fs_siblings : fsys :=
  [("/R/Taskfile.yml", mk_file [] [mk_inc "b" "./b" false; mk_inc "d" "./d" false] [mk_task "show" [sh "echo X={{.X}}"] [] []]);
   ("/R/b/Taskfile.yml", mk_file [("X", "v=from-b")] [] [mk_task "t" [sh "echo b"] [] []]);
   ("/R/d/Taskfile.yml", mk_file [("X", "v=from-d")] [] [mk_task "t" [sh "echo d"] [] []])].

Theorem det_refuted :
  v_declared current_variant = false ->
  exists g pi pi', valid_load current_variant g pi sigma_id /\ valid_load current_variant g pi' sigma_id
    /\ f_err (merge_all current_variant g pi sigma_id) = None /\ f_err (merge_all current_variant g pi' sigma_id) = None
    /\ f_vars (merge_all current_variant g pi sigma_id) = [("X", "v=from-b")]
    /\ f_vars (merge_all current_variant g pi' sigma_id) = [("X", "v=from-d")]
    /\ map fst (f_tasks (merge_all current_variant g pi sigma_id)) = ["show"; "d:t"; "b:t"]
    /\ map fst (f_tasks (merge_all current_variant g pi' sigma_id)) = ["show"; "b:t"; "d:t"].
Proof.
  intro H. vm_compute in H.
  first [ discriminate H
        | clear H; exists (graph_of fs_siblings), ["/R/Taskfile.yml"; "/R/b/Taskfile.yml"; "/R/d/Taskfile.yml"],
                          ["/R/Taskfile.yml"; "/R/d/Taskfile.yml"; "/R/b/Taskfile.yml"];
          split; [apply valid_load_b; vm_compute; reflexivity|];
          split; [apply valid_load_b; vm_compute; reflexivity|]; repeat split; vm_compute; reflexivity ].
Qed.

(* non-vacuity: a 4-file diamond (b and d both include c) loads without error under the current variant *)
Definition fs_diamond : fsys :=
  [("/R/Taskfile.yml", mk_file [] [mk_inc "b" "./b" false; mk_inc "d" "./d" false] [mk_task "root" [sh "echo ROOT"] [] []]);
   ("/R/b/Taskfile.yml", mk_file [] [mk_inc "c" "../c" false] [mk_task "build" [call "c:gen"; call ":root"] [] []]);
   ("/R/d/Taskfile.yml", mk_file [] [mk_inc "c" "../c" true] [mk_task "default" [sh "echo d"] [{| d_task := "gen"; d_attrs := [] |}] []]);
   ("/R/c/Taskfile.yml", mk_file [] [] [mk_task "gen" [sh "echo gen"] [] []])].
Definition pi_diamond : list string := ["/R/Taskfile.yml"; "/R/b/Taskfile.yml"; "/R/d/Taskfile.yml"; "/R/c/Taskfile.yml"].

Lemma diamond_valid : valid_load current_variant (graph_of fs_diamond) pi_diamond sigma_id
  /\ f_err (merge_all current_variant (graph_of fs_diamond) pi_diamond sigma_id) = None
  /\ map fst (f_tasks (merge_all current_variant (graph_of fs_diamond) pi_diamond sigma_id)) <> [].
Proof.
  split; [apply valid_load_b; vm_compute; reflexivity|]. split; [vm_compute; reflexivity|].
  vm_compute. discriminate.
Qed.

Lemma siblings_valid :
  valid_load current_variant (graph_of fs_siblings) ["/R/Taskfile.yml"; "/R/b/Taskfile.yml"; "/R/d/Taskfile.yml"] sigma_id
  /\ valid_load current_variant (graph_of fs_siblings) ["/R/Taskfile.yml"; "/R/d/Taskfile.yml"; "/R/b/Taskfile.yml"] sigma_id
  /\ wf_outb (graph_of fs_siblings) = true.
Proof.
  split; [apply valid_load_b; vm_compute; reflexivity|]. split; [apply valid_load_b; vm_compute; reflexivity|].
  vm_compute. reflexivity.
Qed.

(* [HISTORICAL] the in-place variant of Vars.Merge (before 9941da6): a diamond whose shared file is included
   once in long form with dir: and once in short form; whether the long-form dir reaches the short-form
   branch (and the root's globals) depends on which sibling graph.Merge processes first *)
Definition mk_inc_dir (ns file dir : string) : include :=
  {| i_ns := ns; i_taskfile := file; i_dir := dir; i_optional := false; i_internal := false; i_flatten := false;
     i_advanced := true; i_aliases := []; i_excludes := []; i_vars := [];
     i_taskfile_t := [TLit file]; i_dir_t := [TLit dir] |}.
Definition fs_dirleak : fsys :=
  [("/R/Taskfile.yml", mk_file [] [mk_inc "app" "./app.yml" false; mk_inc "lib" "./lib.yml" false] [mk_task "root" [sh "echo ROOT"] [] []]);
   ("/R/app.yml", mk_file [] [mk_inc_dir "common" "./common.yml" "./appdir"] []);
   ("/R/lib.yml", mk_file [] [mk_inc "common" "./common.yml" false] []);
   ("/R/common.yml", mk_file [("WHERE", "|sh=basename $PWD")] [] [mk_task "where" [sh "echo {{.WHERE}}"] [] []])].
Definition inplace_variant : variant :=
  {| v_task_dc := v_task_dc current_variant; v_cmd_dc := v_cmd_dc current_variant; v_dep_dc := v_dep_dc current_variant;
     v_keep_rootref := v_keep_rootref current_variant; v_declared := true; v_inplace := true |}.
Definition copy_variant : variant :=
  {| v_task_dc := v_task_dc current_variant; v_cmd_dc := v_cmd_dc current_variant; v_dep_dc := v_dep_dc current_variant;
     v_keep_rootref := v_keep_rootref current_variant; v_declared := true; v_inplace := false |}.
Definition pi_app_first : list string := ["/R/Taskfile.yml"; "/R/app.yml"; "/R/lib.yml"; "/R/common.yml"].
Definition pi_lib_first : list string := ["/R/Taskfile.yml"; "/R/lib.yml"; "/R/app.yml"; "/R/common.yml"].

Lemma vardir_inplace_refuted :
  let g := graph_of fs_dirleak in
  topob g pi_app_first = true /\ topob g pi_lib_first = true /\
  f_err (merge_all inplace_variant g pi_app_first sigma_id) = None /\
  f_err (merge_all inplace_variant g pi_lib_first sigma_id) = None /\
  f_vars (merge_all inplace_variant g pi_app_first sigma_id) = [("WHERE", "|sh=basename $PWD")] /\
  f_vars (merge_all inplace_variant g pi_lib_first sigma_id) = [("WHERE", "/R/appdir|sh=basename $PWD")] /\
  (* the repaired variant gives the short-form branch its own, unstamped copy under both orders *)
  f_vars (merge_all copy_variant g pi_app_first sigma_id) = [("WHERE", "|sh=basename $PWD")] /\
  f_vars (merge_all copy_variant g pi_lib_first sigma_id) = [("WHERE", "|sh=basename $PWD")].
Proof. vm_compute. repeat split; reflexivity. Qed.
