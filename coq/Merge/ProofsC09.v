(* Model C "Merge": determinism of the load (C09). *)
From Coq Require Import List String Bool Arith Ascii Lia Permutation.
Import ListNotations.
From TV Require Import Merge.Model Merge.Spec Merge.ProofsBase Merge.ProofsRun.
Local Open Scope string_scope.
Local Open Scope list_scope.

(* declared-order variant: the final state of EVERY vertex is independent of the topological order *)
Theorem declared_state_det : forall v g pi pi', valid_pi g pi -> valid_pi g pi' ->
  forall p, run_ops v (ops_declared g pi) (init_state g) p = run_ops v (ops_declared g pi') (init_state g) p.
Proof.
  intros v g pi pi' Hv Hv'.
  apply (fix_unique v (block_decl g) (init_state g) (fun p => List.length pi - index_of p pi)).
  - intros p o Ho. unfold block_decl in Ho. apply in_map_iff in Ho. destruct Ho as [e [E He]]. subst o. cbn.
    destruct (vp_edges g pi Hv p e He) as [Hin Hlt].
    pose proof (index_of_lt_length _ _ Hin). lia.
  - intro p. rewrite <- (sched_declared g pi p Hv). apply run_ops_fix. exact (wo_declared g pi Hv).
  - intro p. rewrite <- (sched_declared g pi' p Hv'). apply run_ops_fix. exact (wo_declared g pi' Hv').
Qed.

Theorem det_declared : forall v g pi pi' s s', v_declared v = true -> v_inplace v = false -> valid_pi g pi -> valid_pi g pi' ->
  merge_all v g pi s = merge_all v g pi' s'.
Proof.
  intros v g pi pi' s s' Hd Hc Hv Hv'. unfold merge_all, ops_of. rewrite Hd, Hc.
  rewrite (vp_root g pi Hv), (vp_root g pi' Hv'). f_equal. apply declared_state_det; assumption.
Qed.

(* the listings (--list / --list-all, plain and --json) are functions of the merged table (Spec.v: listed):
   for the declared-order, copying variant they are the same on every load *)
Theorem listing_det : forall v g pi pi' s s' b, v_declared v = true -> v_inplace v = false -> valid_pi g pi -> valid_pi g pi' ->
  listing_plain b (f_tasks (merge_all v g pi s)) = listing_plain b (f_tasks (merge_all v g pi' s'))
  /\ listing_json b (f_tasks (merge_all v g pi s)) = listing_json b (f_tasks (merge_all v g pi' s')).
Proof.
  intros v g pi pi' s s' b Hd Hc Hv Hv'. rewrite (det_declared v g pi pi' s s' Hd Hc Hv Hv'). split; reflexivity.
Qed.
