(* Model C "Merge": graph.Merge as a sequence of Taskfile.Merge calls.
   The final state is characterised by a fixpoint equation per vertex ("pull"
   form), independent of how the calls of different vertices interleave. *)
From Coq Require Import List String Bool Arith Ascii Lia Permutation.
Import ListNotations.
From TV Require Import Merge.Model Merge.Spec Merge.ProofsBase.
Local Open Scope string_scope.
Local Open Scope list_scope.

Definition sched (ops : list op) (p : string) : list op :=
  filter (fun o => String.eqb (o_parent o) p) ops.

Definition fold_sched (v : variant) (R : state) (l : list op) (f0 : file) : file :=
  fold_left (fun acc o => tf_merge v acc (R (o_child o)) (o_inc o)) l f0.

(* well ordered: once a vertex has been merged into a parent, nothing is merged into it any more *)
Fixpoint wo (ops : list op) : Prop :=
  match ops with
  | [] => True
  | o :: r => (forall o', In o' (o :: r) -> o_parent o' <> o_child o) /\ wo r
  end.

Lemma wo_app : forall a b, wo a -> wo b ->
  (forall o o', In o a -> In o' b -> o_parent o' <> o_child o) -> wo (a ++ b).
Proof.
  induction a as [|o r IH]; intros b Ha Hb Hab; cbn; [exact Hb|].
  destruct Ha as [Ha1 Ha2]. split.
  - intros o' [H|H].
    + apply Ha1. left. exact H.
    + apply in_app_iff in H. destruct H as [H|H].
      * apply Ha1. right. exact H.
      * apply Hab; [left; reflexivity | exact H].
  - apply IH; [exact Ha2 | exact Hb |]. intros o1 o2 H1 H2. apply Hab; [right; exact H1 | exact H2].
Qed.

Lemma wo_snoc : forall ops o, wo (ops ++ [o]) ->
  wo ops /\ (forall o', In o' (ops ++ [o]) -> o_child o' <> o_parent o).
Proof.
  induction ops as [|a r IH]; intros o H; cbn in *.
  - destruct H as [H _]. split; [exact I|]. intros o' [E|[]]. subst. intro E. apply (H o'); [left; reflexivity | symmetry; exact E].
  - destruct H as [H1 H2]. destruct (IH o H2) as [IH1 IH2]. split.
    + split; [|exact IH1]. intros o' [E|Hin]; apply H1; [left; exact E | right; apply in_app_iff; left; exact Hin].
    + intros o' [E|Hin].
      * subst. intro E. apply (H1 o); [right; apply in_app_iff; right; left; reflexivity | symmetry; exact E].
      * apply IH2. exact Hin.
Qed.

Lemma fold_sched_ext : forall v R R' l f0,
  (forall o, In o l -> R (o_child o) = R' (o_child o)) -> fold_sched v R l f0 = fold_sched v R' l f0.
Proof.
  intros v R R' l. unfold fold_sched. induction l as [|o r IH]; intros f0 H; cbn; [reflexivity|].
  rewrite (H o (or_introl eq_refl)). apply IH. intros o' Ho'. apply H. right. exact Ho'.
Qed.

Lemma fold_sched_app : forall v R a b f0, fold_sched v R (a ++ b) f0 = fold_sched v R b (fold_sched v R a f0).
Proof. intros. unfold fold_sched. apply fold_left_app. Qed.

Lemma sched_app : forall a b p, sched (a ++ b) p = sched a p ++ sched b p.
Proof. intros. unfold sched. apply filter_app. Qed.

Lemma run_ops_snoc : forall v ops o st, run_ops v (ops ++ [o]) st = step v (run_ops v ops st) o.
Proof. intros. unfold run_ops. rewrite fold_left_app. reflexivity. Qed.

(* the fixpoint ("pull") characterisation of the final state *)
Theorem run_ops_fix : forall v ops st0, wo ops ->
  forall p, run_ops v ops st0 p = fold_sched v (run_ops v ops st0) (sched ops p) (st0 p).
Proof.
  intros v ops st0. induction ops as [|o ops IH] using rev_ind; intros Hwo p.
  - reflexivity.
  - apply wo_snoc in Hwo. destruct Hwo as [Hwo Hch]. specialize (IH Hwo).
    rewrite run_ops_snoc. set (R := run_ops v ops st0) in *.
    assert (Hagree : forall o', In o' (ops ++ [o]) -> R (o_child o') = step v R o (o_child o')).
    { intros o' Hin. unfold step, upd. destruct (String.eqb (o_child o') (o_parent o)) eqn:E; [|reflexivity].
      apply String.eqb_eq in E. exfalso. exact (Hch o' Hin E). }
    rewrite sched_app, fold_sched_app.
    assert (E1 : fold_sched v (step v R o) (sched ops p) (st0 p) = R p).
    { rewrite IH. symmetry. apply fold_sched_ext. intros o' Hin. apply Hagree.
      apply in_app_iff. left. unfold sched in Hin. apply filter_In in Hin. tauto. }
    rewrite E1. unfold sched at 1. cbn [filter].
    destruct (String.eqb (o_parent o) p) eqn:E.
    + apply String.eqb_eq in E. subst p. unfold fold_sched at 1. cbn [fold_left].
      rewrite <- (Hagree o) by (apply in_app_iff; right; left; reflexivity).
      unfold step at 1, upd. rewrite String.eqb_refl. reflexivity.
    + cbn. unfold step, upd. rewrite String.eqb_sym, E. reflexivity.
Qed.

(* the equation determines the state when the schedules respect a rank *)
Theorem fix_unique : forall v (Sch : string -> list op) (st0 : state) (rank : string -> nat) (R R' : state),
  (forall p o, In o (Sch p) -> rank (o_child o) < rank p) ->
  (forall p, R p = fold_sched v R (Sch p) (st0 p)) ->
  (forall p, R' p = fold_sched v R' (Sch p) (st0 p)) ->
  forall p, R p = R' p.
Proof.
  intros v Sch st0 rank R R' Hrank HR HR'.
  assert (H : forall n p, rank p < n -> R p = R' p).
  { induction n as [|n IH]; intros p Hp; [lia|].
    rewrite HR, HR'. apply fold_sched_ext. intros o Ho. apply IH. specialize (Hrank p o Ho). lia. }
  intro p. apply (H (S (rank p))). lia.
Qed.

(* ------------------------------------------------------------------ *)
(* valid topological orders                                            *)

Definition mkop (p : string) (e : include * string) : op := {| o_parent := p; o_child := snd e; o_inc := fst e |}.

Record valid_pi (g : graph) (pi : list string) : Prop := {
  vp_root : hd "" pi = root_of g;
  vp_len : List.length pi <= List.length g;
  vp_nodup : NoDup pi;
  vp_cover : forall p, In p (vertices g) -> In p pi;
  vp_edges : forall p e, In e (out_of g p) -> In (snd e) pi /\ index_of p pi < index_of (snd e) pi
}.

Lemma index_of_app_notin : forall x l1 l2, ~ In x l1 -> index_of x (l1 ++ l2) = List.length l1 + index_of x l2.
Proof.
  intros x l1 l2. induction l1 as [|y r IH]; intros H; cbn; [reflexivity|].
  destruct (String.eqb x y) eqn:E.
  - apply String.eqb_eq in E. subst. exfalso. apply H. left. reflexivity.
  - rewrite IH; [reflexivity|]. intro HI. apply H. right. exact HI.
Qed.

Lemma index_of_lt_length : forall x l, In x l -> index_of x l < List.length l.
Proof.
  intros x l. induction l as [|y r IH]; cbn; [tauto|].
  intros [H|H].
  - subst. rewrite String.eqb_refl. lia.
  - destruct (String.eqb x y); [lia | specialize (IH H); lia].
Qed.

(* in the reversed order children come first: a child of q never occurs after q *)
Lemma child_not_later : forall g pi q e l1 l2, valid_pi g pi -> rev pi = l1 ++ q :: l2 ->
  In e (out_of g q) -> ~ In (snd e) (q :: l2).
Proof.
  intros g pi q e l1 l2 Hv Hrev He Hin.
  destruct (vp_edges g pi Hv q e He) as [Hx Hlt].
  assert (Hpi : pi = rev l2 ++ q :: rev l1).
  { rewrite <- (rev_involutive pi), Hrev, rev_app_distr. cbn. rewrite <- app_assoc. reflexivity. }
  assert (HN := vp_nodup g pi Hv). rewrite Hpi in HN.
  assert (Hq : ~ In q (rev l2)).
  { intro H. apply NoDup_remove_2 in HN. apply HN. apply in_app_iff. left. exact H. }
  rewrite Hpi in Hlt. rewrite (index_of_app_notin q _ _ Hq) in Hlt. cbn [index_of] in Hlt.
  rewrite String.eqb_refl in Hlt.
  destruct Hin as [E|Hin].
  - rewrite <- E in Hlt. rewrite (index_of_app_notin q _ _ Hq) in Hlt. cbn [index_of] in Hlt.
    rewrite String.eqb_refl in Hlt. lia.
  - assert (Hin' : In (snd e) (rev l2)) by (apply in_rev in Hin; exact Hin).
    assert (Hlt2 : index_of (snd e) (rev l2 ++ q :: rev l1) < List.length (rev l2)).
    { clear - Hin'. induction (rev l2) as [|y r IH]; [contradiction|]. cbn.
      destruct (String.eqb (snd e) y) eqn:E; [lia|]. destruct Hin' as [H|H].
      - subst. rewrite String.eqb_refl in E. discriminate.
      - specialize (IH H). lia. }
    lia.
Qed.

(* ------------------------------------------------------------------ *)
(* declared-order variant                                              *)

Definition block_decl (g : graph) (p : string) : list op := map (mkop p) (out_of g p).

Lemma ops_declared_eq : forall g pi, ops_declared g pi = flat_map (block_decl g) (rev pi).
Proof. reflexivity. Qed.

Lemma sched_block_other : forall g q p, q <> p -> sched (block_decl g q) p = [].
Proof.
  intros g q p H. unfold sched, block_decl. induction (out_of g q) as [|e r IH]; cbn; [reflexivity|].
  destruct (String.eqb q p) eqn:E; [apply String.eqb_eq in E; contradiction | exact IH].
Qed.
Lemma sched_block_same : forall g p, sched (block_decl g p) p = block_decl g p.
Proof.
  intros g p. unfold sched, block_decl. induction (out_of g p) as [|e r IH]; cbn; [reflexivity|].
  rewrite String.eqb_refl. f_equal. exact IH.
Qed.

Lemma sched_flat_decl : forall g l p, NoDup l ->
  sched (flat_map (block_decl g) l) p = if mem p l then block_decl g p else [].
Proof.
  intros g l p. induction l as [|q r IH]; intros HN; [reflexivity|].
  cbn [flat_map]. inversion HN as [|? ? Hq Hr]; subst. rewrite sched_app, (IH Hr).
  unfold mem. cbn [existsb]. fold (mem p r).
  destruct (String.eqb p q) eqn:E; cbn [orb].
  - apply String.eqb_eq in E. subst q. rewrite sched_block_same.
    apply mem_false_not_In in Hq. rewrite Hq. cbn. apply app_nil_r.
  - rewrite sched_block_other; [reflexivity|]. intro; subst. rewrite String.eqb_refl in E. discriminate.
Qed.

Lemma out_of_nonvertex : forall g p, ~ In p (vertices g) -> out_of g p = [].
Proof.
  intros g p. unfold out_of, vertices. induction g as [|n r IH]; cbn; [reflexivity|].
  intros H. destruct (String.eqb p (n_path n)) eqn:E.
  - apply String.eqb_eq in E. exfalso. apply H. left. symmetry. exact E.
  - apply IH. intro HI. apply H. right. exact HI.
Qed.

Theorem sched_declared : forall g pi p, valid_pi g pi -> sched (ops_declared g pi) p = block_decl g p.
Proof.
  intros g pi p Hv. rewrite ops_declared_eq, sched_flat_decl.
  - destruct (mem p (rev pi)) eqn:E; [reflexivity|].
    unfold block_decl. rewrite out_of_nonvertex; [reflexivity|].
    intro HI. apply (vp_cover g pi Hv) in HI. apply mem_false_not_In in E. apply E. apply in_rev in HI. exact HI.
  - apply NoDup_rev. exact (vp_nodup g pi Hv).
Qed.

Lemma wo_block_decl : forall g p, (forall e, In e (out_of g p) -> snd e <> p) -> wo (block_decl g p).
Proof.
  intros g p H. unfold block_decl.
  assert (G : forall l : list (include * string), (forall e, In e l -> snd e <> p) -> wo (map (mkop p) l)).
  { induction l as [|e r IH]; intros H1; cbn; [exact I|]. split.
    - intros o' Ho'. assert (Hp : o_parent o' = p).
      { destruct Ho' as [E|Hin]; [subst; reflexivity|]. apply in_map_iff in Hin. destruct Hin as [e' [E _]]. subst. reflexivity. }
      rewrite Hp. intro E. apply (H1 e); [left; reflexivity | symmetry; exact E].
    - apply IH. intros e' He'. apply H1. right. exact He'. }
  apply G. exact H.
Qed.

Lemma no_self_edge : forall g pi p e, valid_pi g pi -> In e (out_of g p) -> snd e <> p.
Proof.
  intros g pi p e Hv He E. destruct (vp_edges g pi Hv p e He) as [_ Hlt]. rewrite E in Hlt. lia.
Qed.

Theorem wo_declared : forall g pi, valid_pi g pi -> wo (ops_declared g pi).
Proof.
  intros g pi Hv. rewrite ops_declared_eq.
  assert (G : forall l2 l1, rev pi = l1 ++ l2 -> wo (flat_map (block_decl g) l2)).
  { induction l2 as [|q r IH]; intros l1 Hrev; cbn; [exact I|].
    apply wo_app.
    - apply wo_block_decl. intros e He. exact (no_self_edge g pi q e Hv He).
    - apply (IH (l1 ++ [q])). rewrite <- app_assoc. exact Hrev.
    - intros o o' Ho Ho' E. unfold block_decl in Ho. apply in_map_iff in Ho. destruct Ho as [e [Eo He]]. subst o. cbn in E.
      apply in_flat_map in Ho'. destruct Ho' as [q' [Hq' Ho']]. unfold block_decl in Ho'.
      apply in_map_iff in Ho'. destruct Ho' as [e' [Eo' _]]. subst o'. cbn in E. subst q'.
      apply (child_not_later g pi q e l1 r Hv Hrev He). right. exact Hq'. }
  apply (G (rev pi) []). reflexivity.
Qed.

(* ------------------------------------------------------------------ *)
(* what every C08 / C09 argument needs from the sequence of merges     *)

Record good_ops (g : graph) (ops : list op) : Prop := {
  go_wo : wo ops;
  go_complete : forall p e, In e (out_of g p) -> In (mkop p e) (sched ops p);
  go_sound : forall p o, In o (sched ops p) -> exists e, In e (out_of g p) /\ o = mkop p e
}.

Theorem good_declared : forall g pi, valid_pi g pi -> good_ops g (ops_declared g pi).
Proof.
  intros g pi Hv. constructor.
  - exact (wo_declared g pi Hv).
  - intros p e He. rewrite (sched_declared g pi p Hv). unfold block_decl. apply in_map. exact He.
  - intros p o Ho. rewrite (sched_declared g pi p Hv) in Ho. unfold block_decl in Ho.
    apply in_map_iff in Ho. destruct Ho as [e [E He]]. exists e. split; [exact He | symmetry; exact E].
Qed.

(* ------------------------------------------------------------------ *)
(* current code: reverse topological order over the included vertices, *)
(* predecessor by predecessor, edge data in the order sigma            *)

Definition valid_sigma (s : sigma) : Prop := forall p x l, Permutation (s p x l) l.

Definition wf_vertices (g : graph) : Prop := NoDup (vertices g).

Definition block_cur (g : graph) (s : sigma) (x : string) : list op :=
  flat_map (fun p => map (fun inc => {| o_parent := p; o_child := x; o_inc := inc |}) (s p x (incs_between g p x)))
           (preds g x).

Lemma ops_current_eq : forall g pi s, ops_current g pi s = flat_map (block_cur g s) (rev (tl pi)).
Proof. reflexivity. Qed.

Lemma find_node_In : forall g n, NoDup (vertices g) -> In n g -> find_node (n_path n) g = Some n.
Proof.
  induction g as [|m r IH]; intros n HN Hin; [contradiction|]. cbn in *.
  inversion HN as [|? ? Hm Hr]; subst. destruct Hin as [E|Hin].
  - subst. rewrite String.eqb_refl. reflexivity.
  - destruct (String.eqb (n_path n) (n_path m)) eqn:E.
    + apply String.eqb_eq in E. exfalso. apply Hm. rewrite <- E. apply in_map. exact Hin.
    + apply IH; assumption.
Qed.

Lemma find_node_some : forall g p n, find_node p g = Some n -> In n g /\ n_path n = p.
Proof.
  induction g as [|m r IH]; intros p n H; cbn in H; [discriminate|].
  destruct (String.eqb p (n_path m)) eqn:E.
  - inversion H; subst. apply String.eqb_eq in E. split; [left; reflexivity | symmetry; exact E].
  - destruct (IH p n H) as [H1 H2]. split; [right; exact H1 | exact H2].
Qed.

Lemma in_incs_between : forall g p x inc, In inc (incs_between g p x) <-> In (inc, x) (out_of g p).
Proof.
  intros g p x inc. unfold incs_between. rewrite in_map_iff. split.
  - intros [[i y] [E H]]. cbn in E. subst i. apply filter_In in H. destruct H as [H1 H2]. cbn in H2.
    apply String.eqb_eq in H2. subst y. exact H1.
  - intros H. exists (inc, x). split; [reflexivity|]. apply filter_In. split; [exact H | cbn; apply String.eqb_refl].
Qed.

Lemma in_preds : forall g x p, NoDup (vertices g) ->
  (In p (preds g x) <-> exists inc, In (inc, x) (out_of g p)).
Proof.
  intros g x p HN. unfold preds. rewrite in_map_iff. split.
  - intros [n [E H]]. apply filter_In in H. destruct H as [Hn Hex]. apply existsb_exists in Hex.
    destruct Hex as [[inc y] [He Ey]]. cbn in Ey. apply String.eqb_eq in Ey. subst y.
    exists inc. unfold out_of. rewrite <- E, (find_node_In g n HN Hn). exact He.
  - intros [inc H]. unfold out_of in H. destruct (find_node p g) as [n|] eqn:E; [|contradiction].
    destruct (find_node_some g p n E) as [Hn Hp]. exists n. split; [exact Hp|].
    apply filter_In. split; [exact Hn|]. apply existsb_exists. exists (inc, x). split; [exact H | cbn; apply String.eqb_refl].
Qed.

Lemma in_block_cur : forall g s x o, NoDup (vertices g) -> valid_sigma s ->
  (In o (block_cur g s x) <-> o_child o = x /\ In (o_inc o, x) (out_of g (o_parent o))).
Proof.
  intros g s x o HN Hs. unfold block_cur. rewrite in_flat_map. split.
  - intros [p [Hp Ho]]. apply in_map_iff in Ho. destruct Ho as [inc [E Hinc]]. subst o. cbn.
    split; [reflexivity|]. apply in_incs_between. exact (Permutation_in _ (Hs p x _) Hinc).
  - intros [E H]. exists (o_parent o). split.
    + apply in_preds; [exact HN|]. exists (o_inc o). exact H.
    + apply in_map_iff. exists (o_inc o). split.
      * destruct o; cbn in *. subst. reflexivity.
      * apply (Permutation_in _ (Permutation_sym (Hs (o_parent o) x _))). apply in_incs_between. exact H.
Qed.

Lemma in_tl_pi : forall g pi p e, valid_pi g pi -> In e (out_of g p) -> In (snd e) (tl pi).
Proof.
  intros g pi p e Hv He. destruct (vp_edges g pi Hv p e He) as [Hin Hlt].
  destruct pi as [|r pi']; [contradiction|]. cbn. destruct Hin as [E|Hin]; [|exact Hin].
  exfalso. rewrite <- E in Hlt. cbn in Hlt. rewrite String.eqb_refl in Hlt. lia.
Qed.

Theorem good_current : forall g pi s, wf_vertices g -> valid_pi g pi -> valid_sigma s ->
  good_ops g (ops_current g pi s).
Proof.
  intros g pi s HN Hv Hs. rewrite ops_current_eq. constructor.
  - (* well ordered *)
    assert (Htl : exists r0, pi = r0 ++ tl pi) by (destruct pi; [exists []|exists [s0]]; reflexivity).
    destruct Htl as [r0 Htl].
    assert (G : forall l2 l1, rev (tl pi) = l1 ++ l2 -> wo (flat_map (block_cur g s) l2)).
    { induction l2 as [|x r IH]; intros l1 Hrev; cbn [flat_map]; [exact I|].
      apply wo_app.
      - (* inside the block of x every parent differs from x *)
        assert (B : forall l, (forall o, In o l -> o_child o = x /\ o_parent o <> x) -> wo l).
        { induction l as [|o l' IHl]; intros Hl; cbn; [exact I|]. split.
          - intros o' Ho'. destruct (Hl o (or_introl eq_refl)) as [E _]. rewrite E. apply (Hl o' Ho').
          - apply IHl. intros o' Ho'. apply Hl. right. exact Ho'. }
        apply B. intros o Ho. apply (in_block_cur g s x o HN Hs) in Ho. destruct Ho as [E H]. split; [exact E|].
        intro Ep. apply (no_self_edge g pi _ _ Hv H). cbn. symmetry. exact Ep.
      - apply (IH (l1 ++ [x])). rewrite <- app_assoc. exact Hrev.
      - intros o o' Ho Ho' E.
        apply (in_block_cur g s x o HN Hs) in Ho. destruct Ho as [Ex _].
        apply in_flat_map in Ho'. destruct Ho' as [x' [Hx' Ho']].
        apply (in_block_cur g s x' o' HN Hs) in Ho'. destruct Ho' as [Ex' H'].
        (* x = parent of o', so x precedes x' in pi, but x' comes after x in rev (tl pi) *)
        rewrite Ex in E. rewrite E in H'.
        assert (Hrev' : rev pi = (l1 ++ x :: r) ++ rev r0).
        { rewrite Htl at 1. rewrite rev_app_distr, Hrev. reflexivity. }
        rewrite <- app_assoc in Hrev'. cbn [app] in Hrev'.
        apply (child_not_later g pi x (o_inc o', x') l1 (r ++ rev r0) Hv Hrev' H'). cbn.
        right. apply in_app_iff. left. exact Hx'. }
    apply (G (rev (tl pi)) []). reflexivity.
  - intros p e He. unfold sched. apply filter_In. split; [|cbn; apply String.eqb_refl].
    apply in_flat_map. exists (snd e). split.
    + apply in_rev. rewrite rev_involutive. exact (in_tl_pi g pi p e Hv He).
    + apply (in_block_cur g s (snd e) (mkop p e) HN Hs). cbn. split; [reflexivity|]. destruct e; exact He.
  - intros p o Ho. unfold sched in Ho. apply filter_In in Ho. destruct Ho as [Ho Ep].
    apply String.eqb_eq in Ep. apply in_flat_map in Ho. destruct Ho as [x [_ Ho]].
    apply (in_block_cur g s x o HN Hs) in Ho. destruct Ho as [Ex H]. exists (o_inc o, x).
    rewrite Ep in H. split; [exact H|]. destruct o; cbn in *. subst. reflexivity.
Qed.

Theorem good_ops_of : forall v g pi s, wf_vertices g -> valid_pi g pi -> valid_sigma s ->
  good_ops g (ops_of v g pi s).
Proof.
  intros v g pi s HN Hv Hs. unfold ops_of. destruct (v_declared v).
  - exact (good_declared g pi Hv).
  - exact (good_current g pi s HN Hv Hs).
Qed.
