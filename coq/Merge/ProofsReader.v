(* Model C "Merge": the graph the reader builds is non-empty and every vertex is
   reachable from the root (the hypotheses of C08_abort_iff_flag and of the
   version / dotenv error theorems). *)
From Coq Require Import List String Bool Arith Ascii Lia Permutation.
Import ListNotations.
From TV Require Import Merge.Model Merge.Spec Merge.ProofsBase Merge.ProofsRun Merge.ProofsErrors.
Local Open Scope string_scope.
Local Open Scope list_scope.

Definition edges_sub (g g' : graph) : Prop := forall q x, In x (out_of g q) -> In x (out_of g' q).
Definition nodes_sub (g g' : graph) : Prop := forall q, has_node q g = true -> has_node q g' = true.

Lemma edges_sub_refl : forall g, edges_sub g g. Proof. intros g q x H. exact H. Qed.
Lemma edges_sub_trans : forall a b c, edges_sub a b -> edges_sub b c -> edges_sub a c.
Proof. intros a b c H1 H2 q x H. apply H2, H1, H. Qed.
Lemma nodes_sub_refl : forall g, nodes_sub g g. Proof. intros g q H. exact H. Qed.
Lemma nodes_sub_trans : forall a b c, nodes_sub a b -> nodes_sub b c -> nodes_sub a c.
Proof. intros a b c H1 H2 q H. apply H2, H1, H. Qed.

Lemma reach_mono : forall g g' a b, edges_sub g g' -> reach g a b -> reach g' a b.
Proof.
  intros g g' a b Hs H. induction H as [p | p e c He _ IH]; [constructor|].
  apply (reach_step g' p e c); [apply Hs; exact He | exact IH].
Qed.

Lemma reach_trans : forall g a b c, reach g a b -> reach g b c -> reach g a c.
Proof.
  intros g a b c H1 H2. induction H1 as [p | p e c' He _ IH]; [exact H2|].
  apply (reach_step g p e c); [exact He | exact (IH H2)].
Qed.

Lemma find_node_app : forall g n q, find_node q (g ++ [n]) =
  match find_node q g with Some m => Some m | None => if String.eqb q (n_path n) then Some n else None end.
Proof.
  induction g as [|m r IH]; intros n q; cbn; [reflexivity|]. destruct (String.eqb q (n_path m)); [reflexivity | apply IH].
Qed.

Lemma app_edges_sub : forall g n, edges_sub g (g ++ [n]).
Proof.
  intros g n q x H. unfold out_of in *. rewrite find_node_app. destruct (find_node q g); [exact H | contradiction].
Qed.
Lemma app_nodes_sub : forall g n, nodes_sub g (g ++ [n]).
Proof.
  intros g n q H. unfold has_node in *. rewrite find_node_app. destruct (find_node q g); [reflexivity | discriminate].
Qed.

Lemma find_node_add_out : forall p e g q,
  find_node q (add_out p e g) =
  match find_node q g with
  | Some m => if String.eqb p q then Some {| n_path := n_path m; n_file := n_file m; n_out := n_out m ++ [e] |} else Some m
  | None => None
  end.
Proof.
  intros p e. induction g as [|m r IH]; intros q; cbn; [reflexivity|].
  destruct (String.eqb p (n_path m)) eqn:E1; cbn.
  - apply String.eqb_eq in E1. subst p. destruct (String.eqb q (n_path m)) eqn:E2.
    + rewrite String.eqb_sym, E2. reflexivity.
    + destruct (find_node q r) as [m'|] eqn:E3; [|reflexivity].
      destruct (String.eqb (n_path m) q) eqn:E4; [rewrite String.eqb_sym, E4 in E2; discriminate | reflexivity].
  - destruct (String.eqb q (n_path m)) eqn:E2.
    + apply String.eqb_eq in E2. subst q. rewrite E1. reflexivity.
    + apply IH.
Qed.

Lemma add_out_edges_sub : forall p e g, edges_sub g (add_out p e g).
Proof.
  intros p e g q x H. unfold out_of in *. rewrite find_node_add_out. destruct (find_node q g) as [m|]; [|contradiction].
  destruct (String.eqb p q); [cbn; apply in_app_iff; left; exact H | exact H].
Qed.
Lemma add_out_nodes_sub : forall p e g, nodes_sub g (add_out p e g).
Proof.
  intros p e g q H. unfold has_node in *. rewrite find_node_add_out. destruct (find_node q g); [|discriminate].
  destruct (String.eqb p q); reflexivity.
Qed.
Lemma add_out_new_edge : forall p e g, has_node p g = true -> In e (out_of (add_out p e g) p).
Proof.
  intros p e g H. unfold has_node, out_of in *. rewrite find_node_add_out. destruct (find_node p g); [|discriminate].
  rewrite String.eqb_refl. cbn. apply in_app_iff. right. left. reflexivity.
Qed.
Lemma add_out_paths : forall p e g n, In n (add_out p e g) -> exists m, In m g /\ n_path m = n_path n.
Proof.
  intros p e g n H. destruct (add_out_static p e g n H) as [m [H1 [H2 _]]]. exists m. tauto.
Qed.

Lemma In_has_node : forall g n, In n g -> has_node (n_path n) g = true.
Proof.
  induction g as [|m r IH]; intros n H; [contradiction|]. unfold has_node. cbn.
  destruct (String.eqb (n_path n) (n_path m)) eqn:E; [reflexivity|]. destruct H as [H|H]; [subst; rewrite String.eqb_refl in E; discriminate|].
  exact (IH n H).
Qed.

(* what one visit guarantees *)
Record visit_post (path : string) (g g' : graph) : Prop := {
  vp_has : has_node path g' = true;
  vp_edges_sub : edges_sub g g';
  vp_nodes_sub : nodes_sub g g';
  vp_reach : forall n, In n g' -> has_node (n_path n) g = true \/ reach g' path (n_path n)
}.

Theorem visit_reach : forall fuel fs path g g', visit fuel fs path g = Ok g' -> visit_post path g g'.
Proof.
  induction fuel as [|fuel IH]; intros fs path g g' H; [discriminate|].
  cbn [visit] in H. destruct (has_node path g) eqn:Eh.
  { inversion H; subst. constructor; [exact Eh | apply edges_sub_refl | apply nodes_sub_refl|].
    intros n Hn. left. apply In_has_node. exact Hn. }
  destruct (lookup path fs) as [f|] eqn:Ef; [|discriminate].
  destruct (f_version f) as [|c0 s0] eqn:Ev; [discriminate|].
  change (fold_left (inc_step fuel fs path visit) (f_includes f) (Ok (g ++ [{| n_path := path; n_file := f; n_out := [] |}])) = Ok g') in H.
  set (g0 := g ++ [{| n_path := path; n_file := f; n_out := [] |}]) in *.
  set (Inv := fun ga : graph => has_node path ga = true /\ edges_sub g ga /\ nodes_sub g ga /\
                (forall n, In n ga -> has_node (n_path n) g = true \/ reach ga path (n_path n))).
  assert (G : forall l gacc gres, fold_left (inc_step fuel fs path visit) l (Ok gacc) = Ok gres -> Inv gacc -> Inv gres).
  { induction l as [|inc l IHl]; intros gacc gres Hf Hacc; [inversion Hf; subst; exact Hacc|].
    cbn [fold_left] in Hf. unfold inc_step at 2 in Hf.
    destruct (resolve fs path inc) as [child|] eqn:Er.
    - destruct (visit fuel fs child gacc) as [g2|e] eqn:Evis; [|rewrite fold_err in Hf; discriminate].
      destruct (reaches (List.length g2) g2 child path); [rewrite fold_err in Hf; discriminate|].
      destruct (IH fs child gacc g2 Evis) as [V1 V2 V3 V4]. destruct Hacc as (A1 & A2 & A3 & A4).
      apply (IHl _ gres Hf). set (g3 := add_out path (resolved fs path inc, child) g2).
      assert (S23 : edges_sub g2 g3) by apply add_out_edges_sub.
      assert (Hp2 : has_node path g2 = true) by (apply V3; exact A1).
      assert (Hedge : reach g3 path child).
      { apply (reach_step g3 path (resolved fs path inc, child) child); [apply add_out_new_edge; exact Hp2 | constructor]. }
      split; [apply add_out_nodes_sub; exact Hp2|].
      split; [exact (edges_sub_trans _ _ _ A2 (edges_sub_trans _ _ _ V2 S23))|].
      split; [exact (nodes_sub_trans _ _ _ A3 (nodes_sub_trans _ _ _ V3 (add_out_nodes_sub _ _ _)))|].
      intros n Hn. destruct (add_out_paths _ _ _ _ Hn) as [m [Hm Em]]. rewrite <- Em.
      destruct (V4 m Hm) as [Hold|Hr].
      + (* m's path was already a vertex of gacc: find that vertex and use the invariant of gacc *)
        unfold has_node in Hold. destruct (find_node (n_path m) gacc) as [m0|] eqn:E0; [|discriminate].
        destruct (find_node_some gacc _ m0 E0) as [Hm0 Ep0]. destruct (A4 m0 Hm0) as [Hg|Hr0].
        * left. rewrite <- Ep0. exact Hg.
        * right. rewrite <- Ep0. apply (reach_mono gacc g3); [exact (edges_sub_trans _ _ _ V2 S23) | exact Hr0].
      + right. apply (reach_trans g3 path child); [exact Hedge | exact (reach_mono g2 g3 _ _ S23 Hr)].
    - destruct (i_optional inc); [exact (IHl gacc gres Hf Hacc) | rewrite fold_err in Hf; discriminate]. }
  assert (H0 : Inv g0).
  { unfold Inv, g0. split; [|split; [apply app_edges_sub | split; [apply app_nodes_sub|]]].
    - unfold has_node. rewrite find_node_app. destruct (find_node path g); [reflexivity|]. cbn. rewrite String.eqb_refl. reflexivity.
    - intros n Hn. apply in_app_iff in Hn. destruct Hn as [Hn|[E|[]]]; [left; apply In_has_node; exact Hn|].
      subst n. right. constructor. }
  destruct (G _ _ _ H H0) as (I1 & I2 & I3 & I4). constructor; assumption.
Qed.

Theorem read_reachable : forall fs root g, read fs root = Ok g ->
  g <> [] /\ root_of g = root /\ all_reachable g.
Proof.
  intros fs root g H. unfold read in H. destruct (visit_reach _ _ _ _ _ H) as [V1 V2 V3 V4].
  assert (Hroot : root_of g = root).
  { (* the root is the first vertex added: visit on [] starts with [root node] and only appends / edits in place *)
    clear V1 V2 V3 V4. cbn [visit] in H. cbn [has_node find_node] in H.
    destruct (lookup root fs) as [f|]; [|discriminate]. destruct (f_version f); [discriminate|].
    change (fold_left (inc_step (List.length fs) fs root visit) (f_includes f) (Ok ([] ++ [{| n_path := root; n_file := f; n_out := [] |}])) = Ok g) in H.
    assert (K : forall fuel path ga gb, visit fuel fs path ga = Ok gb -> ga <> [] -> root_of gb = root_of ga /\ gb <> []).
    { induction fuel as [|fuel IHf]; intros path ga gb Hv Hne; [discriminate|].
      cbn [visit] in Hv. destruct (has_node path ga); [inversion Hv; subst; tauto|].
      destruct (lookup path fs) as [f0|]; [|discriminate]. destruct (f_version f0); [discriminate|].
      change (fold_left (inc_step fuel fs path visit) (f_includes f0) (Ok (ga ++ [{| n_path := path; n_file := f0; n_out := [] |}])) = Ok gb) in Hv.
      assert (K2 : forall l gacc gres, fold_left (inc_step fuel fs path visit) l (Ok gacc) = Ok gres -> gacc <> [] ->
                     root_of gres = root_of gacc /\ gres <> []).
      { induction l as [|inc l IHl]; intros gacc gres Hf Hn; [inversion Hf; subst; tauto|].
        cbn [fold_left] in Hf. unfold inc_step at 2 in Hf. destruct (resolve fs path inc) as [child|].
        - destruct (visit fuel fs child gacc) as [g2|e] eqn:Evis; [|rewrite fold_err in Hf; discriminate].
          destruct (reaches (List.length g2) g2 child path); [rewrite fold_err in Hf; discriminate|].
          destruct (IHf child gacc g2 Evis Hn) as [R1 R2].
          assert (R3 : root_of (add_out path (resolved fs path inc, child) g2) = root_of g2 /\ add_out path (resolved fs path inc, child) g2 <> []).
          { destruct g2 as [|m r]; [contradiction|]. cbn. destruct (String.eqb path (n_path m)); cbn; split; try reflexivity; discriminate. }
          destruct R3 as [R3 R4]. destruct (IHl _ gres Hf R4) as [R5 R6]. split; [congruence | exact R6].
        - destruct (i_optional inc); [exact (IHl gacc gres Hf Hn) | rewrite fold_err in Hf; discriminate]. }
      destruct (K2 _ _ _ Hv) as [R1 R2]; [destruct ga; discriminate|]. split; [|exact R2].
      rewrite R1. destruct ga as [|m r]; [contradiction | reflexivity]. }
    assert (K2 : forall l gacc gres, fold_left (inc_step (List.length fs) fs root visit) l (Ok gacc) = Ok gres -> gacc <> [] ->
                   root_of gres = root_of gacc).
    { induction l as [|inc l IHl]; intros gacc gres Hf Hn; [inversion Hf; subst; reflexivity|].
      cbn [fold_left] in Hf. unfold inc_step at 2 in Hf. destruct (resolve fs root inc) as [child|].
      - destruct (visit (List.length fs) fs child gacc) as [g2|e] eqn:Evis; [|rewrite fold_err in Hf; discriminate].
        destruct (reaches (List.length g2) g2 child root); [rewrite fold_err in Hf; discriminate|].
        destruct (K _ child gacc g2 Evis Hn) as [R1 R2].
        assert (R3 : root_of (add_out root (resolved fs root inc, child) g2) = root_of g2 /\ add_out root (resolved fs root inc, child) g2 <> []).
        { destruct g2 as [|m r]; [contradiction|]. cbn. destruct (String.eqb root (n_path m)); cbn; split; try reflexivity; discriminate. }
        destruct R3 as [R3 R4]. rewrite (IHl _ gres Hf R4). congruence.
      - destruct (i_optional inc); [exact (IHl gacc gres Hf Hn) | rewrite fold_err in Hf; discriminate]. }
    rewrite (K2 _ _ _ H); [reflexivity | discriminate]. }
  split; [|split; [exact Hroot|]].
  - intro E. subst g. discriminate V1.
  - intros n Hn. rewrite Hroot. destruct (V4 n Hn) as [Hold|Hr]; [discriminate Hold | exact Hr].
Qed.

(* ------------------------------------------------------------------ *)
(* include cycles are rejected: the graph of a successful read is acyclic *)

Definition cyc (g : graph) : Prop := exists x e, In e (out_of g x) /\ reach g (snd e) x.

Inductive pathl (g : graph) : string -> list string -> string -> Prop :=
| pl_nil : forall a, pathl g a [] a
| pl_cons : forall a e l b, In e (out_of g a) -> pathl g (snd e) l b -> pathl g a (a :: l) b.

Lemma reach_pathl : forall g a b, reach g a b -> exists l, pathl g a l b.
Proof.
  intros g a b H. induction H as [p | p e c He _ [l IH]]; [exists []; constructor|].
  exists (p :: l). apply (pl_cons g p e l c); assumption.
Qed.

Lemma pathl_in_reach : forall g a l b x, pathl g a l b -> In x l -> reach g a x.
Proof.
  intros g a l b x H. induction H as [a | a e l b He _ IH]; intros Hx; [contradiction|].
  destruct Hx as [E|Hx]; [subst; constructor|]. apply (reach_step g a e x); [exact He | exact (IH Hx)].
Qed.

Lemma pathl_reaches : forall g a l b, pathl g a l b -> forall k, List.length l <= k -> reaches k g a b = true.
Proof.
  intros g a l b H. induction H as [a | a e l b He _ IH]; intros k Hk.
  - destruct k; cbn; rewrite String.eqb_refl; reflexivity.
  - destruct k as [|k]; [cbn in Hk; lia|]. cbn [reaches]. apply orb_true_iff. right.
    apply existsb_exists. exists e. split; [exact He|]. apply IH. cbn in Hk. lia.
Qed.

Lemma out_nonempty_vertex : forall g q e, In e (out_of g q) -> In q (vertices g).
Proof.
  intros g q e H. unfold out_of in H. destruct (find_node q g) as [n|] eqn:E; [|contradiction].
  destruct (find_node_some g q n E) as [H1 H2]. unfold vertices. rewrite <- H2. apply in_map. exact H1.
Qed.

Lemma pathl_sources : forall g a l b, pathl g a l b -> incl l (vertices g).
Proof.
  intros g a l b H. induction H as [a | a e l b He _ IH]; intros x Hx; [contradiction|].
  destruct Hx as [E|Hx]; [subst; exact (out_nonempty_vertex g x e He) | exact (IH x Hx)].
Qed.

Lemma pathl_nodup : forall g a l b, ~ cyc g -> pathl g a l b -> NoDup l.
Proof.
  intros g a l b Hac H. induction H as [a | a e l b He Hp IH]; constructor; [|exact IH].
  intro Hin. apply Hac. exists a, e. split; [exact He | exact (pathl_in_reach g _ l b a Hp Hin)].
Qed.

Lemma reaches_complete : forall g a b, ~ cyc g -> reach g a b -> reaches (List.length g) g a b = true.
Proof.
  intros g a b Hac H. destruct (reach_pathl g a b H) as [l Hl]. apply (pathl_reaches g a l b Hl).
  pose proof (NoDup_incl_length (pathl_nodup g a l b Hac Hl) (pathl_sources g a l b Hl)) as HL.
  unfold vertices in HL. rewrite map_length in HL. exact HL.
Qed.

Lemma app_edges_sub_rev : forall g n, n_out n = [] -> edges_sub (g ++ [n]) g.
Proof.
  intros g n Hn q x H. unfold out_of in *. rewrite find_node_app in H. destruct (find_node q g); [exact H|].
  destruct (String.eqb q (n_path n)); [rewrite Hn in H; contradiction | contradiction].
Qed.

Lemma cyc_mono : forall g g', edges_sub g g' -> cyc g -> cyc g'.
Proof. intros g g' Hs [x [e [He Hr]]]. exists x, e. split; [apply Hs; exact He | exact (reach_mono g g' _ _ Hs Hr)]. Qed.

Lemma out_of_add_out_inv : forall p e g q x, In x (out_of (add_out p e g) q) -> In x (out_of g q) \/ (q = p /\ x = e).
Proof.
  intros p e g q x H. unfold out_of in *. rewrite find_node_add_out in H. destruct (find_node q g) as [m|]; [|contradiction].
  destruct (String.eqb p q) eqn:E; [|left; exact H]. cbn in H. apply in_app_iff in H. destruct H as [H|[H|[]]]; [left; exact H|].
  right. apply String.eqb_eq in E. split; [symmetry; exact E | symmetry; exact H].
Qed.

(* a walk in the graph with the new edge either avoids it, or reaches its source and leaves from its target *)
Lemma reach_split : forall p e g a b, reach (add_out p e g) a b ->
  reach g a b \/ (reach g a p /\ reach g (snd e) b).
Proof.
  intros p e g a b H. induction H as [a | a x c Hx _ IH]; [left; constructor|].
  destruct (out_of_add_out_inv p e g a x Hx) as [Hold|[Ea Ex]].
  - destruct IH as [IH|[IH1 IH2]].
    + left. apply (reach_step g a x c); assumption.
    + right. split; [apply (reach_step g a x p); assumption | exact IH2].
  - subst a x. destruct IH as [IH|[_ IH2]]; right; (split; [constructor|]); assumption.
Qed.

Lemma add_out_acyclic : forall p e g, ~ cyc g -> ~ reach g (snd e) p -> ~ cyc (add_out p e g).
Proof.
  intros p e g Hac Hnr [x [y [Hy Hr]]].
  destruct (out_of_add_out_inv p e g x y Hy) as [Hold|[Ex Ey]].
  - destruct (reach_split p e g _ _ Hr) as [H|[H1 H2]].
    + apply Hac. exists x, y. tauto.
    + apply Hnr. apply (reach_trans g _ x); [exact H2|]. apply (reach_step g x y p); assumption.
  - subst x y. destruct (reach_split p e g _ _ Hr) as [H|[H1 _]]; apply Hnr; assumption.
Qed.

Theorem visit_acyclic : forall fuel fs path g g', visit fuel fs path g = Ok g' -> ~ cyc g -> ~ cyc g'.
Proof.
  induction fuel as [|fuel IH]; intros fs path g g' H Hac; [discriminate|].
  cbn [visit] in H. destruct (has_node path g); [inversion H; subst; exact Hac|].
  destruct (lookup path fs) as [f|]; [|discriminate]. destruct (f_version f); [discriminate|].
  change (fold_left (inc_step fuel fs path visit) (f_includes f) (Ok (g ++ [{| n_path := path; n_file := f; n_out := [] |}])) = Ok g') in H.
  assert (G : forall l gacc gres, fold_left (inc_step fuel fs path visit) l (Ok gacc) = Ok gres -> ~ cyc gacc -> ~ cyc gres).
  { induction l as [|inc l IHl]; intros gacc gres Hf Hacc; [inversion Hf; subst; exact Hacc|].
    cbn [fold_left] in Hf. unfold inc_step at 2 in Hf. destruct (resolve fs path inc) as [child|].
    - destruct (visit fuel fs child gacc) as [g2|e] eqn:Evis; [|rewrite fold_err in Hf; discriminate].
      destruct (reaches (List.length g2) g2 child path) eqn:Er; [rewrite fold_err in Hf; discriminate|].
      pose proof (IH fs child gacc g2 Evis Hacc) as H2. apply (IHl _ gres Hf). apply add_out_acyclic; [exact H2|].
      cbn [snd]. intro Hr. rewrite (reaches_complete g2 child path H2 Hr) in Er. discriminate.
    - destruct (i_optional inc); [exact (IHl gacc gres Hf Hacc) | rewrite fold_err in Hf; discriminate]. }
  apply (G _ _ _ H). intro Hc. apply Hac. apply (cyc_mono _ g (app_edges_sub_rev g {| n_path := path; n_file := f; n_out := [] |} eq_refl) Hc).
Qed.

(* every include statement of every vertex that resolves to a file is an edge to that file *)
Definition fullp (fs : fsys) (g' : graph) (p : string) : Prop :=
  forall f inc c, lookup p fs = Some f -> In inc (f_includes f) -> resolve fs p inc = Some c ->
    exists e, In e (out_of g' p) /\ snd e = c.

Lemma fullp_mono : forall fs g g' p, edges_sub g g' -> fullp fs g p -> fullp fs g' p.
Proof.
  intros fs g g' p Hs H f inc c Hl Hi Hr. destruct (H f inc c Hl Hi Hr) as [e [He Ec]].
  exists e. split; [apply Hs; exact He | exact Ec].
Qed.

Theorem visit_full : forall fuel fs path g g', visit fuel fs path g = Ok g' ->
  forall n, In n g' -> has_node (n_path n) g = true \/ fullp fs g' (n_path n).
Proof.
  induction fuel as [|fuel IH]; intros fs path g g' H; [discriminate|].
  cbn [visit] in H. destruct (has_node path g) eqn:Eh.
  { inversion H; subst. intros n Hn. left. apply In_has_node. exact Hn. }
  destruct (lookup path fs) as [f|] eqn:Ef; [|discriminate]. destruct (f_version f) as [|c0 s0] eqn:Ev; [discriminate|].
  change (fold_left (inc_step fuel fs path visit) (f_includes f) (Ok (g ++ [{| n_path := path; n_file := f; n_out := [] |}])) = Ok g') in H.
  set (Inv := fun ga : graph => forall n, In n ga ->
                has_node (n_path n) g = true \/ n_path n = path \/ fullp fs ga (n_path n)).
  assert (G : forall l gacc gres, fold_left (inc_step fuel fs path visit) l (Ok gacc) = Ok gres ->
             has_node path gacc = true -> Inv gacc ->
             Inv gres /\ edges_sub gacc gres /\
             (forall inc c, In inc l -> resolve fs path inc = Some c -> exists e, In e (out_of gres path) /\ snd e = c)).
  { induction l as [|inc l IHl]; intros gacc gres Hf Hhas Hacc.
    - inversion Hf; subst. split; [exact Hacc|]. split; [apply edges_sub_refl | intros inc c []].
    - cbn [fold_left] in Hf. unfold inc_step at 2 in Hf. destruct (resolve fs path inc) as [child|] eqn:Er.
      + destruct (visit fuel fs child gacc) as [g2|e] eqn:Evis; [|rewrite fold_err in Hf; discriminate].
        destruct (reaches (List.length g2) g2 child path); [rewrite fold_err in Hf; discriminate|].
        destruct (visit_reach _ _ _ _ _ Evis) as [V1 V2 V3 V4].
        set (g3 := add_out path (resolved fs path inc, child) g2) in *.
        assert (S23 : edges_sub g2 g3) by apply add_out_edges_sub.
        assert (Hp2 : has_node path g2 = true) by (apply V3; exact Hhas).
        assert (H3 : Inv g3).
        { intros n Hn. destruct (add_out_paths _ _ _ _ Hn) as [m [Hm S1]]. rewrite <- S1.
          destruct (IH fs child gacc g2 Evis m Hm) as [Hold|Hfull].
          - unfold has_node in Hold. destruct (find_node (n_path m) gacc) as [m0|] eqn:E0; [|discriminate].
            destruct (find_node_some gacc _ m0 E0) as [Hm0 Ep0]. rewrite <- Ep0.
            destruct (Hacc m0 Hm0) as [Hg|[P1|Hf0]]; [left; exact Hg | right; left; exact P1|].
            right. right. apply (fullp_mono fs gacc g3); [exact (edges_sub_trans _ _ _ V2 S23) | exact Hf0].
          - right. right. apply (fullp_mono fs g2 g3 _ S23 Hfull). }
        destruct (IHl g3 gres Hf (add_out_nodes_sub _ _ _ _ Hp2) H3) as (I1 & I2 & I3).
        split; [exact I1|]. split; [exact (edges_sub_trans _ _ _ V2 (edges_sub_trans _ _ _ S23 I2))|].
        intros inc' c [E|Hin] Hr.
        * subst inc'. rewrite Er in Hr. inversion Hr; subst c. exists (resolved fs path inc, child).
          split; [apply I2; apply add_out_new_edge; exact Hp2 | reflexivity].
        * exact (I3 inc' c Hin Hr).
      + destruct (i_optional inc); [|rewrite fold_err in Hf; discriminate].
        destruct (IHl gacc gres Hf Hhas Hacc) as (I1 & I2 & I3). split; [exact I1|]. split; [exact I2|].
        intros inc' c [E|Hin] Hr; [subst; congruence | exact (I3 inc' c Hin Hr)]. }
  assert (Hh0 : has_node path (g ++ [{| n_path := path; n_file := f; n_out := [] |}]) = true).
  { unfold has_node. rewrite find_node_app. destruct (find_node path g); [reflexivity|]. cbn. rewrite String.eqb_refl. reflexivity. }
  assert (H0 : Inv (g ++ [{| n_path := path; n_file := f; n_out := [] |}])).
  { intros n Hn. apply in_app_iff in Hn. destruct Hn as [Hn|[E|[]]]; [left; apply In_has_node; exact Hn|]. subst n. right. left. reflexivity. }
  destruct (G _ _ _ H Hh0 H0) as (I1 & _ & I3). intros n Hn.
  destruct (I1 n Hn) as [Hg|[P1|Hf0]]; [left; exact Hg | | right; exact Hf0].
  right. rewrite P1. intros f' inc c Hl Hi Hr. rewrite Ef in Hl. inversion Hl; subst f'. exact (I3 inc c Hi Hr).
Qed.

(* edge targets are vertices *)
Definition targets_ok (g : graph) : Prop := forall q e, In e (out_of g q) -> has_node (snd e) g = true.

Theorem visit_targets : forall fuel fs path g g', visit fuel fs path g = Ok g' -> targets_ok g -> targets_ok g'.
Proof.
  induction fuel as [|fuel IH]; intros fs path g g' H Ht; [discriminate|].
  cbn [visit] in H. destruct (has_node path g); [inversion H; subst; exact Ht|].
  destruct (lookup path fs) as [f|]; [|discriminate]. destruct (f_version f); [discriminate|].
  change (fold_left (inc_step fuel fs path visit) (f_includes f) (Ok (g ++ [{| n_path := path; n_file := f; n_out := [] |}])) = Ok g') in H.
  assert (G : forall l gacc gres, fold_left (inc_step fuel fs path visit) l (Ok gacc) = Ok gres -> targets_ok gacc -> targets_ok gres).
  { induction l as [|inc l IHl]; intros gacc gres Hf Hacc; [inversion Hf; subst; exact Hacc|].
    cbn [fold_left] in Hf. unfold inc_step at 2 in Hf. destruct (resolve fs path inc) as [child|].
    - destruct (visit fuel fs child gacc) as [g2|e] eqn:Evis; [|rewrite fold_err in Hf; discriminate].
      destruct (reaches (List.length g2) g2 child path); [rewrite fold_err in Hf; discriminate|].
      destruct (visit_reach _ _ _ _ _ Evis) as [V1 _ _ _]. pose proof (IH fs child gacc g2 Evis Hacc) as H2.
      apply (IHl _ gres Hf). intros q x Hx. apply add_out_nodes_sub.
      destruct (out_of_add_out_inv _ _ _ _ _ Hx) as [Hold|[_ Ex]]; [exact (H2 q x Hold) | subst x; exact V1].
    - destruct (i_optional inc); [exact (IHl gacc gres Hf Hacc) | rewrite fold_err in Hf; discriminate]. }
  apply (G _ _ _ H). intros q x Hx. apply app_nodes_sub. apply (Ht q x). exact (app_edges_sub_rev g {| n_path := path; n_file := f; n_out := [] |} eq_refl q x Hx).
Qed.

(* the include relation of the file system *)
Inductive fs_reach (fs : fsys) : string -> string -> Prop :=
| fr_refl : forall p, fs_reach fs p p
| fr_step : forall p f inc c d, lookup p fs = Some f -> In inc (f_includes f) -> resolve fs p inc = Some c ->
    fs_reach fs c d -> fs_reach fs p d.

Lemma has_node_In : forall g p, has_node p g = true -> exists n, In n g /\ n_path n = p.
Proof.
  intros g p H. unfold has_node in H. destruct (find_node p g) as [n|] eqn:E; [|discriminate].
  destruct (find_node_some g p n E) as [H1 H2]. exists n. tauto.
Qed.

(* C08: a successful read leaves no include cycle through any file it visited *)
Theorem read_rejects_cycles : forall fs root g, read fs root = Ok g ->
  ~ cyc g /\
  forall p f inc c, has_node p g = true -> lookup p fs = Some f -> In inc (f_includes f) ->
    resolve fs p inc = Some c -> ~ fs_reach fs c p.
Proof.
  intros fs root g H. unfold read in H.
  assert (Hac : ~ cyc g).
  { apply (visit_acyclic _ _ _ _ _ H). intros [x [e [He _]]]. exact He. }
  split; [exact Hac|].
  pose proof (visit_full _ _ _ _ _ H) as Hfull. pose proof (visit_targets _ _ _ _ _ H) as Htg.
  assert (Ht : targets_ok g) by (apply Htg; intros q e []).
  assert (Hf : forall p, has_node p g = true -> fullp fs g p).
  { intros p Hp. destruct (has_node_In g p Hp) as [n [Hn En]]. destruct (Hfull n Hn) as [Hold|Hfl]; [discriminate Hold|]. rewrite <- En. exact Hfl. }
  assert (K : forall a b, fs_reach fs a b -> has_node a g = true -> reach g a b).
  { intros a b Hr. induction Hr as [a | a f inc c d Hl Hi Hres _ IH]; intros Ha; [constructor|].
    destruct (Hf a Ha f inc c Hl Hi Hres) as [e [He Ec]]. apply (reach_step g a e d); [exact He|].
    rewrite Ec. apply IH. rewrite <- Ec. exact (Ht a e He). }
  intros p f inc c Hp Hl Hi Hres Hback.
  destruct (Hf p Hp f inc c Hl Hi Hres) as [e [He Ec]]. apply Hac. exists p, e. split; [exact He|].
  rewrite Ec. apply K; [exact Hback|]. rewrite <- Ec. exact (Ht p e He).
Qed.
