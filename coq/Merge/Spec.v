(* Model C "Merge": what C08 / C09 demand of the merged table, stated on explicit
   namespace paths (closed forms), and the boolean monitors evaluated both in the
   theorems and on the table the real Executor built.  Definitions only. *)
From Coq Require Import List String Bool Arith Ascii.
Import ListNotations.
From TV Require Import Merge.Model.
Local Open Scope string_scope.
Local Open Scope list_scope.

(* a namespace path: include statements from the root downwards, each with the file that declares it *)
Definition path := list (string * include).

Definition nsprefix (p : path) : string :=
  fold_right (fun e acc => if i_flatten (snd e) then acc else (i_ns (snd e) ++ ":" ++ acc)%string) "" p.

(* `<ns1>:<ns2>:...:<task>`; flattened levels contribute nothing *)
Definition qual (p : path) (name : string) : string := (nsprefix p ++ name)%string.

(* deps / `task:` targets: own file, except ':'-prefixed ones which name a task of the root Taskfile *)
Definition ref_spec (p : path) (r : string) : string :=
  match r with
  | EmptyString => r
  | _ => if colon r then drop1 r else qual p r
  end.

Definition dir_spec (p : path) (d : string) : string :=
  fold_right (fun e acc => if i_advanced (snd e) then smart_join (i_dir (snd e)) acc else acc) d p.

Definition internal_spec (p : path) (b : bool) : bool := b || existsb (fun e => i_internal (snd e)) p.

(* include vars: the innermost include is merged first, outer includes override *)
Definition incvars_spec (p : path) (own : vars) : vars :=
  fold_right (fun e acc => if i_advanced (snd e) then vars_merge acc (i_vars (snd e)) else acc) own p.

Definition all_flatten (p : path) : bool := forallb (fun e => i_flatten (snd e)) p.

(* every name the task must answer to: namespaces and namespace aliases at every
   level, times the task's name and aliases (the first element is the key) *)
Definition expand_names (p : path) (names : list string) : list string :=
  fold_right (fun e acc =>
      if i_flatten (snd e) then acc
      else map (fun n => (i_ns (snd e) ++ ":" ++ n)%string) acc
           ++ flat_map (fun a => map (fun n => (a ++ ":" ++ n)%string) acc) (i_aliases (snd e)))
    names p.

Record origin := { o_path : path; o_file : string; o_name : string; o_task : task }.

Definition file_of (g : graph) (p : string) : file :=
  match find_node p g with Some n => n_file n | None => empty_file end.

(* every (namespace path, task) below vertex p that is not excluded on the way *)
Fixpoint origins (fuel : nat) (g : graph) (p : string) : list origin :=
  map (fun kt => {| o_path := []; o_file := p; o_name := fst kt; o_task := snd kt |}) (f_tasks (file_of g p))
  ++ match fuel with
     | 0 => []
     | S k =>
         flat_map (fun e =>
             map (fun o => {| o_path := (p, fst e) :: o_path o; o_file := o_file o; o_name := o_name o; o_task := o_task o |})
                 (filter (fun o => negb (mem (qual (o_path o) (o_name o)) (i_excludes (fst e))))
                         (origins k g (snd e))))
           (out_of g p)
     end.

Definition all_origins (g : graph) : list origin := origins (List.length g) g (root_of g).

(* ------------------------------------------------------------------ *)
(* per-origin checks against a table                                   *)

Definition table := list (string * task).

Definition str_list_eqb (a b : list string) : bool :=
  Nat.eqb (List.length a) (List.length b) && forallb (fun xy => String.eqb (fst xy) (snd xy)) (combine a b).

Definition attrs_eqb (fields : list string) (a b : attrs) : bool :=
  forallb (fun f => String.eqb (attr f a) (attr f b)) fields.

Definition vars_eqb (a b : vars) : bool :=
  Nat.eqb (List.length a) (List.length b)
  && forallb (fun xy => String.eqb (fst (fst xy)) (fst (snd xy)) && String.eqb (snd (fst xy)) (snd (snd xy))) (combine a b).

Definition unstructured (fields : list string) : list string :=
  filter (fun f => negb (mem f structured_fields)) fields.

(* callable as <namespace>:<task> *)
Definition chk_present (tbl : table) (o : origin) : bool := has (qual (o_path o) (o_name o)) tbl.

(* same commands; deps and task: references resolve to the own file / the root *)
Definition chk_refs (tbl : table) (o : origin) : bool :=
  match lookup (qual (o_path o) (o_name o)) tbl with
  | None => true
  | Some t' =>
      str_list_eqb (map c_task (t_cmds t')) (map (fun c => ref_spec (o_path o) (c_task c)) (t_cmds (o_task o)))
      && str_list_eqb (map d_task (t_deps t')) (map (fun d => ref_spec (o_path o) (d_task d)) (t_deps (o_task o)))
  end.

(* keeps all its attributes; the text of every command / dep is unchanged *)
Definition chk_attrs (tf cf df : list string) (tbl : table) (o : origin) : bool :=
  match lookup (qual (o_path o) (o_name o)) tbl with
  | None => true
  | Some t' =>
      attrs_eqb (unstructured tf) (t_attrs t') (t_attrs (o_task o))
      && Nat.eqb (List.length (t_cmds t')) (List.length (t_cmds (o_task o)))
      && forallb (fun xy => attrs_eqb cf (c_attrs (fst xy)) (c_attrs (snd xy))) (combine (t_cmds t') (t_cmds (o_task o)))
      && Nat.eqb (List.length (t_deps t')) (List.length (t_deps (o_task o)))
      && forallb (fun xy => attrs_eqb df (d_attrs (fst xy)) (d_attrs (snd xy))) (combine (t_deps t') (t_deps (o_task o)))
  end.

(* directory given by the includes, include vars, internal *)
Definition chk_place (tbl : table) (o : origin) : bool :=
  match lookup (qual (o_path o) (o_name o)) tbl with
  | None => true
  | Some t' =>
      String.eqb (t_dir t') (dir_spec (o_path o) (t_dir (o_task o)))
      && Bool.eqb (t_internal t') (internal_spec (o_path o) (t_internal (o_task o)))
      && vars_eqb (t_incvars t') (incvars_spec (o_path o) (t_incvars (o_task o)))
      && String.eqb (t_task t') (if all_flatten (o_path o) then t_task (o_task o) else qual (o_path o) (o_name o))
  end.

(* namespace aliases x task aliases *)
Definition chk_aliases (tbl : table) (o : origin) : bool :=
  match lookup (qual (o_path o) (o_name o)) tbl with
  | None => true
  | Some t' =>
      forallb (fun n => mem n (qual (o_path o) (o_name o) :: t_aliases t'))
              (expand_names (o_path o) (o_name o :: t_aliases (o_task o)))
  end.

(* `<namespace>` for the default task: for an origin named "default" whose innermost
   include is not flattened, unless the including file's subtree already owns that name *)
Fixpoint split_last {A} (l : list A) : option (list A * A) :=
  match l with
  | [] => None
  | [x] => Some ([], x)
  | x :: r => match split_last r with Some (i, z) => Some (x :: i, z) | None => None end
  end.

Definition chk_default (g : graph) (tbl : table) (o : origin) : bool :=
  if negb (String.eqb (o_name o) "default") then true else
  match split_last (o_path o) with
  | None => true
  | Some (outer, (pfile, inc)) =>
      if i_flatten inc then true
      else if existsb (fun o' => String.eqb (qual (o_path o') (o_name o')) (i_ns inc)) (origins (List.length g) g pfile) then true
      else match lookup (qual (o_path o) (o_name o)) tbl with
           | None => true
           | Some t' => forallb (fun n => mem n (t_aliases t')) (expand_names outer (i_ns inc :: i_aliases inc))
           end
  end.

(* ------------------------------------------------------------------ *)
(* whole-table monitors                                                *)

Definition mon_present (g : graph) (tbl : table) : bool := forallb (chk_present tbl) (all_origins g).
Definition mon_refs (g : graph) (tbl : table) : bool := forallb (chk_refs tbl) (all_origins g).
Definition mon_attrs (tf cf df : list string) (g : graph) (tbl : table) : bool := forallb (chk_attrs tf cf df tbl) (all_origins g).
Definition mon_place (g : graph) (tbl : table) : bool := forallb (chk_place tbl) (all_origins g).
Definition mon_aliases (g : graph) (tbl : table) : bool := forallb (chk_aliases tbl) (all_origins g).
Definition mon_default (g : graph) (tbl : table) : bool := forallb (chk_default g tbl) (all_origins g).
(* nothing dropped, nothing invented, nothing overwritten: as many entries as origins, keys distinct *)
Definition mon_dropped (g : graph) (tbl : table) : bool :=
  Nat.eqb (List.length tbl) (List.length (all_origins g)) && nodupb (map fst tbl)
  && forallb (chk_present tbl) (all_origins g).

(* when must loading fail (besides what the reader reports): schema versions differ,
   an included file has dotenv, two origins get the same qualified name *)
Definition spec_collision (g : graph) : bool :=
  existsb (fun n => negb (nodupb (map (fun o => qual (o_path o) (o_name o)) (origins (List.length g) g (n_path n))))) g.
Definition spec_version_mismatch (g : graph) : bool :=
  existsb (fun n => negb (String.eqb (f_version (n_file n)) (f_version (file_of g (root_of g))))) g.
Definition spec_dotenv (g : graph) : bool := existsb (fun n => f_dotenv (n_file n)) (tl g).
Definition spec_merge_must_fail (g : graph) : bool := spec_collision g || spec_version_mismatch g || spec_dotenv g.

(* C09: the canonical order of the task table: a file's own tasks, then its includes in declared order *)
Definition canonical_keys (g : graph) : list string := map (fun o => qual (o_path o) (o_name o)) (all_origins g).

(* C09, what every load of one tree agrees on even when includes are merged in a random order:
   for every origin, the commands (targets and every field), deps, directory, internal,
   include vars, Task and every attribute of the entry; and the set of keys.
   (The order of the table, alias lists, IncludedTaskfileVars and the global vars may differ.) *)
Definition stable_eqb (tf cf df : list string) (a b : task) : bool :=
  str_list_eqb (map c_task (t_cmds a)) (map c_task (t_cmds b))
  && str_list_eqb (map d_task (t_deps a)) (map d_task (t_deps b))
  && String.eqb (t_dir a) (t_dir b) && Bool.eqb (t_internal a) (t_internal b)
  && vars_eqb (t_incvars a) (t_incvars b) && String.eqb (t_task a) (t_task b)
  && attrs_eqb tf (t_attrs a) (t_attrs b)
  && forallb (fun xy => attrs_eqb cf (c_attrs (fst xy)) (c_attrs (snd xy))) (combine (t_cmds a) (t_cmds b))
  && forallb (fun xy => attrs_eqb df (d_attrs (fst xy)) (d_attrs (snd xy))) (combine (t_deps a) (t_deps b)).

Definition mon_stable (tf cf df : list string) (g : graph) (tbl tbl' : table) : bool :=
  forallb (fun o => match lookup (qual (o_path o) (o_name o)) tbl, lookup (qual (o_path o) (o_name o)) tbl' with
                    | Some a, Some b => stable_eqb tf cf df a b
                    | _, _ => false
                    end) (all_origins g)
  && Nat.eqb (List.length tbl) (List.length tbl')
  && forallb (fun k => mem k (map fst tbl')) (map fst tbl).

(* ------------------------------------------------------------------ *)
(* well-formed inputs (the domain of the theorems; checked on every generated case) *)

(* non-empty and not ':'-prefixed *)
Definition okname (s : string) : bool :=
  match s with EmptyString => false | String c _ => negb (Ascii.eqb c ":"%char) end.

Definition wf_inc (i : include) : bool := okname (i_ns i) && forallb okname (i_aliases i).
Definition wf_task (kt : string * task) : bool :=
  okname (fst kt) && String.eqb (t_task (snd kt)) (fst kt) && forallb okname (t_aliases (snd kt)).
Definition wf_file (f : file) : bool :=
  forallb wf_task (f_tasks f) && nodupb (map fst (f_tasks f)) && match f_err f with None => true | Some _ => false end.
Definition wf_graphb (g : graph) : bool :=
  nodupb (vertices g) && forallb (fun n => wf_file (n_file n) && forallb (fun e => wf_inc (fst e)) (n_out n)) g.

(* namespaces are the keys of the includes section: distinct within a file *)
Definition wf_outb (g : graph) : bool := forallb (fun n => nodupb (map (fun e => i_ns (fst e)) (n_out n))) g.

(* ------------------------------------------------------------------ *)
(* the task listing (--list / --list-all, plain and --json) as a function of the merged table:
   Executor.GetTaskList takes the keys of the table, orders them with sort.AlphaNumericWithRootTasksFirst
   (keys without ':' first, each group in byte order), drops internal tasks (and, for --list, tasks without
   desc); the plain listing prints Task, ToEditorOutput prints Name() = label or Task, entry i for task i *)
Fixpoint contains_colon (s : string) : bool :=
  match s with EmptyString => false | String c r => Ascii.eqb c ":"%char || contains_colon r end.
Definition root_first_leb (a b : string) : bool :=
  match contains_colon a, contains_colon b with
  | false, true => true
  | true, false => false
  | _, _ => String.leb a b
  end.
Fixpoint insert_sorted {A} (k : A -> string) (x : A) (l : list A) : list A :=
  match l with
  | [] => [x]
  | y :: r => if root_first_leb (k x) (k y) then x :: l else y :: insert_sorted k x r
  end.
Definition sort_root_first {A} (k : A -> string) (l : list A) : list A := fold_right (insert_sorted k) [] l.

Definition listed (only_desc : bool) (tbl : table) : table :=
  sort_root_first fst
    (filter (fun kt => negb (t_internal (snd kt)) && (negb only_desc || negb (String.eqb (attr "Desc" (t_attrs (snd kt))) ""))) tbl).
Definition listing_plain (only_desc : bool) (tbl : table) : list string := map fst (listed only_desc tbl).
Definition listing_json (only_desc : bool) (tbl : table) : list string :=
  map (fun kt => match attr "Label" (t_attrs (snd kt)) with EmptyString => t_task (snd kt) | l => l end) (listed only_desc tbl).
