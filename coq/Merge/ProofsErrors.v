(* Model C "Merge": erroneous trees are rejected (C08): schema-version mismatch and
   dotenv in an included file anywhere below the root; missing non-optional files
   and files without a version in the reader. *)
From Coq Require Import List String Bool Arith Ascii Lia Permutation.
Import ListNotations.
From TV Require Import Merge.Model Merge.Spec Merge.ProofsBase Merge.ProofsRun Merge.ProofsMerge Merge.ProofsC08 Merge.ProofsC08Mon.
Local Open Scope string_scope.
Local Open Scope list_scope.

Inductive reach (g : graph) : string -> string -> Prop :=
| reach_refl : forall p, reach g p p
| reach_step : forall p e c, In e (out_of g p) -> reach g (snd e) c -> reach g p c.

Lemma tf_merge_static : forall v t1 t2 inc,
  f_version (tf_merge v t1 t2 inc) = f_version t1 /\ f_dotenv (tf_merge v t1 t2 inc) = f_dotenv t1.
Proof.
  intros v t1 t2 inc. unfold tf_merge. destruct (f_err t1); [tauto|]. destruct (f_err t2); [cbn; tauto|].
  destruct (negb (String.eqb (f_version t1) (f_version t2))); [cbn; tauto|]. destruct (f_dotenv t2); [cbn; tauto|].
  destruct (tasks_merge v inc _ (f_tasks t2) (f_tasks t1)); cbn; tauto.
Qed.

Lemma fold_sched_static : forall v R l f0,
  f_version (fold_sched v R l f0) = f_version f0 /\ f_dotenv (fold_sched v R l f0) = f_dotenv f0.
Proof.
  intros v R l. induction l as [|o r IH]; intros f0; [tauto|].
  change (fold_sched v R (o :: r) f0) with (fold_sched v R r (tf_merge v f0 (R (o_child o)) (o_inc o))).
  destruct (IH (tf_merge v f0 (R (o_child o)) (o_inc o))) as [H1 H2].
  destruct (tf_merge_static v f0 (R (o_child o)) (o_inc o)) as [H3 H4]. rewrite H1, H2, H3, H4. tauto.
Qed.

Section Errors.
  Variables (v : variant) (g : graph) (ops : list op).
  Hypothesis Hgo : good_ops g ops.
  Let R : state := run_ops v ops (init_state g).

  Lemma R_fix'' : forall p, R p = fold_sched v R (sched ops p) (init_state g p).
  Proof. intro p. apply run_ops_fix. exact (go_wo g ops Hgo). Qed.

  Lemma R_static : forall p, f_version (R p) = f_version (file_of g p) /\ f_dotenv (R p) = f_dotenv (file_of g p).
  Proof. intro p. rewrite R_fix''. apply fold_sched_static. Qed.

  (* one edge: no error above means no error below, equal versions, no dotenv below *)
  Lemma edge_ok : forall p e, In e (out_of g p) -> f_err (R p) = None ->
    f_err (R (snd e)) = None /\ f_version (file_of g p) = f_version (file_of g (snd e)) /\ f_dotenv (file_of g (snd e)) = false.
  Proof.
    intros p e He E. pose proof (go_complete g ops Hgo p e He) as Hs. apply in_split in Hs. destruct Hs as [l1 [l2 Hs]].
    rewrite R_fix'', Hs, fold_sched_app in E.
    change (fold_sched v R (mkop p e :: l2) ?f) with (fold_sched v R l2 (tf_merge v f (R (snd e)) (fst e))) in E.
    apply fold_sched_ok_head in E. apply tf_merge_ok in E. destruct E as (_ & E2 & E3 & E4 & _).
    destruct (fold_sched_static v R l1 (init_state g p)) as [S1 _]. destruct (R_static (snd e)) as [S2 S3].
    rewrite S1, S2 in E3. rewrite S3 in E4. repeat split; assumption.
  Qed.

  Lemma reach_ok : forall p c, reach g p c -> f_err (R p) = None ->
    f_err (R c) = None /\ f_version (file_of g c) = f_version (file_of g p).
  Proof.
    intros p c H. induction H as [p | p e c He _ IH]; intro E; [tauto|].
    destruct (edge_ok p e He E) as (E1 & E2 & _). destruct (IH E1) as [E3 E4]. split; [exact E3 | congruence].
  Qed.
End Errors.

Theorem version_mismatch_fails : forall v g pi s c, valid_load v g pi s -> reach g (root_of g) c ->
  f_version (file_of g c) <> f_version (file_of g (root_of g)) -> f_err (merge_all v g pi s) <> None.
Proof.
  intros v g pi s c Hl Hr Hv Herr. pose proof (valid_load_good v g pi s Hl) as Hgo.
  rewrite (merge_all_raw v g pi s (vl_copy _ _ _ _ Hl) (vl_pi _ _ _ _ Hl)), finish_err in Herr. unfold raw_state in Herr.
  destruct (reach_ok v g _ Hgo _ _ Hr Herr) as [_ H]. contradiction.
Qed.

Theorem dotenv_fails : forall v g pi s p e, valid_load v g pi s -> reach g (root_of g) p -> In e (out_of g p) ->
  f_dotenv (file_of g (snd e)) = true -> f_err (merge_all v g pi s) <> None.
Proof.
  intros v g pi s p e Hl Hr He Hd Herr. pose proof (valid_load_good v g pi s Hl) as Hgo.
  rewrite (merge_all_raw v g pi s (vl_copy _ _ _ _ Hl) (vl_pi _ _ _ _ Hl)), finish_err in Herr. unfold raw_state in Herr.
  destruct (reach_ok v g _ Hgo _ _ Hr Herr) as [E _]. destruct (edge_ok v g _ Hgo p e He E) as (_ & _ & H). congruence.
Qed.

(* ------------------------------------------------------------------ *)
(* the reader                                                          *)

(* a file the reader accepts: it has a version and every include that does not resolve is optional *)
Definition closed (fs : fsys) (n : node) : Prop :=
  f_version (n_file n) <> "" /\
  forall inc, In inc (f_includes (n_file n)) -> resolve fs (n_path n) inc = None -> i_optional inc = true.

Lemma add_out_static : forall p e g n, In n (add_out p e g) -> exists m, In m g /\ n_path m = n_path n /\ n_file m = n_file n.
Proof.
  intros p e g. induction g as [|m r IH]; intros n H; cbn in H; [contradiction|].
  destruct (String.eqb p (n_path m)).
  - destruct H as [E|H]; [subst n; exists m; cbn; split; [left; reflexivity | tauto] | exists n; split; [right; exact H | tauto]].
  - destruct H as [E|H]; [subst n; exists m; split; [left; reflexivity | tauto]|].
    destruct (IH n H) as [m' [H1 H2]]. exists m'. split; [right; exact H1 | exact H2].
Qed.

Definition all_closed (fs : fsys) (g : graph) : Prop :=
  forall n, In n g -> exists m, n_path m = n_path n /\ n_file m = n_file n /\ closed fs m.

Lemma closed_static : forall fs n m, n_path m = n_path n -> n_file m = n_file n -> closed fs m -> closed fs n.
Proof. intros fs n m H1 H2 [H3 H4]. unfold closed. rewrite <- H1, <- H2. split; assumption. Qed.

(* the fold over the includes of one file, as in [visit] *)
Definition inc_step (fuel' : nat) (fs : fsys) (path : string)
           (vis : nat -> fsys -> string -> graph -> result graph) (acc : result graph) (inc : include) : result graph :=
  match acc with
  | Err e => Err e
  | Ok g1 =>
      match resolve fs path inc with
      | None => if i_optional inc then Ok g1 else Err ENotFound
      | Some child =>
          match vis fuel' fs child g1 with
          | Err e => Err e
          | Ok g2 => if reaches (List.length g2) g2 child path then Err ECycle
                     else Ok (add_out path (resolved fs path inc, child) g2)
          end
      end
  end.

Lemma fold_err : forall fuel' fs path vis l e, fold_left (inc_step fuel' fs path vis) l (Err e) = Err e.
Proof. intros. induction l; cbn; auto. Qed.

Definition same_node (m n : node) : Prop := n_path m = n_path n /\ n_file m = n_file n.

(* every vertex the reader adds is closed *)
Theorem visit_closed : forall fuel fs path g g',
  visit fuel fs path g = Ok g' ->
  forall n, In n g' -> (exists m, In m g /\ same_node m n) \/ closed fs n.
Proof.
  induction fuel as [|fuel IH]; intros fs path g g' H; [discriminate|].
  cbn [visit] in H. destruct (has_node path g).
  { inversion H; subst. intros n Hn. left. exists n. split; [exact Hn | split; reflexivity]. }
  destruct (lookup path fs) as [f|] eqn:Ef; [|discriminate].
  destruct (f_version f) as [|c0 s0] eqn:Ev; [discriminate|].
  change (fold_left (inc_step fuel fs path visit) (f_includes f) (Ok (g ++ [{| n_path := path; n_file := f; n_out := [] |}])) = Ok g') in H.
  set (Inv := fun ga : graph => forall n, In n ga ->
                (exists m, In m g /\ same_node m n) \/ (n_path n = path /\ n_file n = f) \/ closed fs n).
  assert (G : forall l gacc gres,
             fold_left (inc_step fuel fs path visit) l (Ok gacc) = Ok gres -> Inv gacc ->
             Inv gres /\ (forall inc, In inc l -> resolve fs path inc = None -> i_optional inc = true)).
  { induction l as [|inc l IHl]; intros gacc gres Hf Hacc.
    - inversion Hf; subst. split; [exact Hacc | intros inc []].
    - cbn [fold_left] in Hf. unfold inc_step at 2 in Hf.
      destruct (resolve fs path inc) as [child|] eqn:Er.
      + destruct (visit fuel fs child gacc) as [g2|e] eqn:Evis; [|rewrite fold_err in Hf; discriminate].
        destruct (reaches (List.length g2) g2 child path); [rewrite fold_err in Hf; discriminate|].
        assert (H2 : Inv g2).
        { intros n Hn. destruct (IH fs child gacc g2 Evis n Hn) as [[m [Hm [S1 S2]]]|Hc]; [|right; right; exact Hc].
          destruct (Hacc m Hm) as [[m0 [Hm0 [T1 T2]]]|[[P1 P2]|Hc]].
          - left. exists m0. split; [exact Hm0 | split; congruence].
          - right. left. split; congruence.
          - right. right. apply (closed_static fs n m S1 S2 Hc). }
        assert (H3 : Inv (add_out path (resolved fs path inc, child) g2)).
        { intros n Hn. destruct (add_out_static _ _ _ _ Hn) as [m [Hm [S1 S2]]].
          destruct (H2 m Hm) as [[m0 [Hm0 [T1 T2]]]|[[P1 P2]|Hc]].
          - left. exists m0. split; [exact Hm0 | split; congruence].
          - right. left. split; congruence.
          - right. right. apply (closed_static fs n m S1 S2 Hc). }
        destruct (IHl _ gres Hf H3) as [I1 I2]. split; [exact I1|].
        intros inc' [E|Hin] Hr; [subst; congruence | exact (I2 inc' Hin Hr)].
      + destruct (i_optional inc) eqn:Eo; [|rewrite fold_err in Hf; discriminate].
        destruct (IHl gacc gres Hf Hacc) as [I1 I2]. split; [exact I1|].
        intros inc' [E|Hin] Hr; [subst; exact Eo | exact (I2 inc' Hin Hr)]. }
  assert (H0 : Inv (g ++ [{| n_path := path; n_file := f; n_out := [] |}])).
  { intros n Hn. apply in_app_iff in Hn. destruct Hn as [Hn|[E|[]]].
    - left. exists n. split; [exact Hn | split; reflexivity].
    - subst n. right. left. split; reflexivity. }
  destruct (G _ _ _ H H0) as [I1 I2]. intros n Hn.
  destruct (I1 n Hn) as [Hg|[[P1 P2]|Hc]]; [left; exact Hg | | right; exact Hc].
  right. unfold closed. rewrite P1, P2. split; [rewrite Ev; discriminate | exact I2].
Qed.

(* C08: a successful read means no reachable file lacks a version or has a missing non-optional include *)
Theorem read_closed : forall fs root g, read fs root = Ok g -> forall n, In n g -> closed fs n.
Proof.
  intros fs root g H n Hn. unfold read in H.
  destruct (visit_closed _ _ _ _ _ H n Hn) as [[m [[] _]]|Hc]. exact Hc.
Qed.

(* ------------------------------------------------------------------ *)
(* graph.Merge stops at the first failing Taskfile.Merge (merge_err); the model
   used by the theorems carries the failure as a sticky flag up to the root
   (f_err of merge_all).  On graphs all of whose vertices are reachable from the
   root (what the reader builds) the two notions of "the load failed" coincide. *)

Lemma first_err_none : forall v ops st, first_err_ops v ops st = None ->
  (forall p, f_err (st p) = None) -> forall p, f_err (run_ops v ops st p) = None.
Proof.
  intros v ops. induction ops as [|o r IH]; intros st H Hst p; [exact (Hst p)|].
  cbn [first_err_ops] in H. unfold run_ops. cbn [fold_left]. fold (run_ops v r (step v st o)).
  destruct (f_err (tf_merge v (st (o_parent o)) (st (o_child o)) (o_inc o))) eqn:E; [discriminate|].
  apply IH; [exact H|]. intro q. unfold step, upd. destruct (String.eqb q (o_parent o)); [exact E | exact (Hst q)].
Qed.

Lemma err_persists : forall v ops st p e, f_err (st p) = Some e -> f_err (run_ops v ops st p) = Some e.
Proof.
  intros v ops. induction ops as [|o r IH]; intros st p e H; [exact H|].
  unfold run_ops. cbn [fold_left]. fold (run_ops v r (step v st o)). apply IH.
  unfold step, upd. destruct (String.eqb p (o_parent o)) eqn:E; [|exact H].
  apply String.eqb_eq in E. subst p. rewrite (tf_merge_sticky _ _ _ _ e H). exact H.
Qed.

Lemma first_err_some : forall v ops st e, first_err_ops v ops st = Some e ->
  exists o, In o ops /\ f_err (run_ops v ops st (o_parent o)) <> None.
Proof.
  intros v ops. induction ops as [|o r IH]; intros st e H; [discriminate|].
  cbn [first_err_ops] in H. unfold run_ops. cbn [fold_left]. fold (run_ops v r (step v st o)).
  destruct (f_err (tf_merge v (st (o_parent o)) (st (o_child o)) (o_inc o))) as [e'|] eqn:E.
  - exists o. split; [left; reflexivity|].
    rewrite (err_persists v r (step v st o) (o_parent o) e'); [discriminate|].
    unfold step, upd. rewrite String.eqb_refl. exact E.
  - destruct (IH _ e H) as [o' [Ho' Hn]]. exists o'. split; [right; exact Ho' | exact Hn].
Qed.

Definition all_reachable (g : graph) : Prop := forall n, In n g -> reach g (root_of g) (n_path n).

Lemma init_no_err : forall g, wf_graphb g = true -> forall p, In p (vertices g) -> f_err (init_state g p) = None.
Proof.
  intros g Hwf p Hp. unfold init_state. destruct (find_node p g) as [n|] eqn:E.
  - destruct (wf_graph_node g p n Hwf E) as [H _]. unfold wf_file in H. apply andb_true_iff in H. destruct H as [_ H].
    destruct (f_err (n_file n)); [discriminate | reflexivity].
  - exfalso. clear - E Hp. unfold vertices in Hp. induction g as [|m r IH]; [contradiction|]. cbn in *.
    destruct (String.eqb p (n_path m)) eqn:E'; [discriminate|]. destruct Hp as [Hp|Hp]; [subst; rewrite String.eqb_refl in E'; discriminate | exact (IH Hp E)].
Qed.

Theorem abort_iff_flag : forall v g pi s, valid_load v g pi s -> g <> [] -> all_reachable g ->
  (merge_err v g pi s = None <-> f_err (merge_all v g pi s) = None).
Proof.
  intros v g pi s Hl Hne Hreach. pose proof (valid_load_good v g pi s Hl) as Hgo.
  rewrite (merge_all_raw v g pi s (vl_copy _ _ _ _ Hl) (vl_pi _ _ _ _ Hl)), finish_err. unfold raw_state, merge_err. rewrite (vl_copy _ _ _ _ Hl). split.
  - (* no failing merge: nothing carries a flag; but the root could be missing from g *)
    intro H. destruct (first_err_ops v (ops_of v g pi s) (init_state g)) eqn:E; [discriminate|].
    (* states outside the vertices are never touched; restrict to vertices via a stronger induction *)
    assert (G : forall ops st, first_err_ops v ops st = None -> forall p, f_err (st p) = None -> f_err (run_ops v ops st p) = None).
    { induction ops as [|o r IH]; intros st H0 p Hp; [exact Hp|].
      cbn [first_err_ops] in H0. unfold run_ops. cbn [fold_left]. fold (run_ops v r (step v st o)).
      destruct (f_err (tf_merge v (st (o_parent o)) (st (o_child o)) (o_inc o))) eqn:E0; [discriminate|].
      apply IH; [exact H0|]. unfold step, upd. destruct (String.eqb p (o_parent o)); [exact E0 | exact Hp]. }
    apply G; [exact E|]. apply init_no_err; [exact (vl_wf _ _ _ _ Hl)|].
    destruct g as [|n r]; [contradiction | left; reflexivity].
  - intro H. destruct (first_err_ops v (ops_of v g pi s) (init_state g)) as [e|] eqn:E; [|reflexivity]. exfalso.
    destruct (first_err_some v _ _ e E) as [o [Ho Hn]].
    (* the parent of a failing merge is a vertex, hence reachable from the root *)
    assert (Hs : In o (sched (ops_of v g pi s) (o_parent o))) by (unfold sched; apply filter_In; split; [exact Ho | apply String.eqb_refl]).
    destruct (go_sound g _ Hgo _ _ Hs) as [e0 [He0 _]].
    assert (Hv : exists n, In n g /\ n_path n = o_parent o).
    { unfold out_of in He0. destruct (find_node (o_parent o) g) as [n|] eqn:En; [|contradiction].
      destruct (find_node_some g _ n En) as [H1 H2]. exists n. tauto. }
    destruct Hv as [n [Hn1 Hn2]]. pose proof (Hreach n Hn1) as Hr. rewrite Hn2 in Hr.
    destruct (reach_ok v g _ Hgo _ _ Hr H) as [Hc _]. contradiction.
Qed.
