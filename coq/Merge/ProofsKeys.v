(* Model C "Merge": the keys of the merged table are exactly the qualified names of
   the origins — nothing dropped, nothing invented, nothing overwritten (C08), and
   in the declared-order variant they come in "Taskfile order" (C09). *)
From Coq Require Import List String Bool Arith Ascii Lia Permutation.
Import ListNotations.
From TV Require Import Merge.Model Merge.Spec Merge.ProofsBase Merge.ProofsRun Merge.ProofsMerge Merge.ProofsC08 Merge.ProofsC08Mon.
Local Open Scope string_scope.
Local Open Scope list_scope.

Definition okey (o : origin) : string := qual (o_path o) (o_name o).

(* the key under which Tasks.Merge files an entry of the included table *)
Definition xkey (inc : include) (k : string) : string := if i_flatten inc then k else rename (i_ns inc) k.
Definition nonexcl (inc : include) (k : string) : bool := negb (mem k (i_excludes inc)).

Lemma merge_task_key : forall v inc pv k t, fst (merge_task v inc pv k t) = xkey inc k.
Proof. reflexivity. Qed.

Lemma filter_map_comm : forall A B (h : A -> B) (q : B -> bool) l, filter q (map h l) = map h (filter (fun x => q (h x)) l).
Proof.
  intros A B h q l. induction l as [|x r IH]; cbn; [reflexivity|]. destruct (q (h x)); cbn; rewrite IH; reflexivity.
Qed.

Lemma merged_entries_keys : forall v inc pv t2,
  map fst (merged_entries v inc pv t2) = map (xkey inc) (filter (nonexcl inc) (map fst t2)).
Proof.
  intros v inc pv t2. unfold merged_entries, kept. rewrite map_map, filter_map_comm, map_map. reflexivity.
Qed.

Definition brought (R : state) (o : op) : list string :=
  map (xkey (o_inc o)) (filter (nonexcl (o_inc o)) (map fst (f_tasks (R (o_child o))))).

Lemma tf_merge_keys : forall v t1 t2 inc, f_err (tf_merge v t1 t2 inc) = None ->
  map fst (f_tasks (tf_merge v t1 t2 inc)) = map fst (f_tasks t1) ++ map (xkey inc) (filter (nonexcl inc) (map fst (f_tasks t2))).
Proof.
  intros v t1 t2 inc E. destruct (tf_merge_ok v t1 t2 inc E) as (_&_&_&_&t1'&HL&HT&_).
  rewrite HT, default_alias_keys. apply loop_ok in HL. rewrite HL, map_app, merged_entries_keys. reflexivity.
Qed.

Lemma fold_sched_keys : forall v R l f0, f_err (fold_sched v R l f0) = None ->
  map fst (f_tasks (fold_sched v R l f0)) = map fst (f_tasks f0) ++ flat_map (brought R) l.
Proof.
  intros v R l. induction l as [|o r IH]; intros f0 E.
  - cbn. rewrite app_nil_r. reflexivity.
  - change (fold_sched v R (o :: r) f0) with (fold_sched v R r (tf_merge v f0 (R (o_child o)) (o_inc o))) in *.
    rewrite (IH _ E). rewrite (tf_merge_keys _ _ _ _ (fold_sched_ok_head _ _ _ _ E)).
    cbn [flat_map]. rewrite <- app_assoc. reflexivity.
Qed.

(* ------------------------------------------------------------------ *)
(* origins: names are well formed; the keys one level up               *)

Lemma origins_ok : forall g, wf_graphb g = true ->
  forall n p o, In o (origins n g p) -> wf_path (o_path o) /\ okname (o_name o) = true.
Proof.
  intros g Hwf. induction n as [|n IH]; intros p o Ho.
  - cbn [origins] in Ho. rewrite app_nil_r in Ho. apply in_map_iff in Ho. destruct Ho as [[k t] [E Hkt]]. subst o. cbn.
    rewrite <- init_state_file_of in Hkt. destruct (wf_init g p Hwf) as [_ H]. destruct (H k t Hkt) as (H1 & _).
    split; [intros e [] | exact H1].
  - cbn [origins] in Ho. apply in_app_iff in Ho. destruct Ho as [Ho|Ho].
    + apply (IH p). destruct n; cbn [origins]; [rewrite app_nil_r|apply in_app_iff; left]; exact Ho.
    + apply in_flat_map in Ho. destruct Ho as [e [He Ho]]. apply in_map_iff in Ho. destruct Ho as [o' [E Ho']]. subst o. cbn.
      apply filter_In in Ho'. destruct Ho' as [Ho' _]. destruct (IH (snd e) o' Ho') as [H1 H2].
      split; [|exact H2]. intros e' [E|He']; [subst e'; exact (wf_edge g p e Hwf He) | exact (H1 e' He')].
Qed.

Definition own_keys (g : graph) (p : string) : list string := map fst (f_tasks (file_of g p)).

Lemma okeys_own : forall g p,
  map okey (map (fun kt : string * task => {| o_path := []; o_file := p; o_name := fst kt; o_task := snd kt |}) (f_tasks (file_of g p)))
  = own_keys g p.
Proof. intros g p. unfold own_keys. rewrite map_map. apply map_ext. intros [k t]. reflexivity. Qed.

Lemma okeys_zero : forall g p, map okey (origins 0 g p) = own_keys g p.
Proof. intros g p. cbn [origins]. rewrite app_nil_r. apply okeys_own. Qed.

Lemma okeys_succ : forall g, wf_graphb g = true -> forall n p,
  map okey (origins (S n) g p)
  = own_keys g p ++ flat_map (fun e => map (xkey (fst e)) (filter (nonexcl (fst e)) (map okey (origins n g (snd e))))) (out_of g p).
Proof.
  intros g Hwf n p. cbn [origins]. rewrite map_app, okeys_own. f_equal.
  induction (out_of g p) as [|e r IH]; [reflexivity|]. cbn [flat_map]. rewrite map_app, IH. f_equal.
  rewrite map_map, filter_map_comm, map_map. apply map_ext_in. intros o Ho. apply filter_In in Ho. destruct Ho as [Ho _].
  unfold okey. cbn [o_path o_name]. rewrite qual_cons. cbn [snd]. unfold xkey. destruct (i_flatten (fst e)); [reflexivity|].
  destruct (origins_ok g Hwf n (snd e) o Ho) as [H1 H2]. symmetry. apply rename_ok. apply okname_colon. apply okname_qual; assumption.
Qed.

(* ------------------------------------------------------------------ *)
(* fuel: a rank from the topological order bounds the depth            *)

Definition rank (pi : list string) (p : string) : nat := List.length pi - index_of p pi.

Lemma index_of_notin : forall x l, ~ In x l -> index_of x l = List.length l.
Proof.
  intros x l. induction l as [|y r IH]; intros H; cbn; [reflexivity|].
  destruct (String.eqb x y) eqn:E.
  - apply String.eqb_eq in E. subst. exfalso. apply H. left. reflexivity.
  - rewrite IH; [reflexivity|]. intro HI. apply H. right. exact HI.
Qed.

Lemma rank_child : forall g pi p e, valid_pi g pi -> In e (out_of g p) -> rank pi (snd e) < rank pi p.
Proof.
  intros g pi p e Hv He. destruct (vp_edges g pi Hv p e He) as [Hin Hlt].
  pose proof (index_of_lt_length _ _ Hin). unfold rank. lia.
Qed.

(* ------------------------------------------------------------------ *)
(* the main statement, for any schedule that is a permutation of the declared includes *)

Definition perm_ops (g : graph) (ops : list op) : Prop :=
  forall p, Permutation (sched ops p) (map (mkop p) (out_of g p)).

Lemma Permutation_filter' : forall A (q : A -> bool) l l', Permutation l l' -> Permutation (filter q l) (filter q l').
Proof.
  intros A q l l' H. induction H; cbn.
  - constructor.
  - destruct (q x); [constructor|]; assumption.
  - destruct (q x), (q y); first [apply perm_swap | apply Permutation_refl].
  - eapply Permutation_trans; eassumption.
Qed.

Lemma Permutation_flat_map_pointwise : forall A B (f h : A -> list B) l,
  (forall x, In x l -> Permutation (f x) (h x)) -> Permutation (flat_map f l) (flat_map h l).
Proof.
  intros A B f h l. induction l as [|x r IH]; intros H; cbn; [constructor|].
  apply Permutation_app; [apply H; left; reflexivity | apply IH; intros y Hy; apply H; right; exact Hy].
Qed.

Section Keys.
  Variables (v : variant) (g : graph) (pi : list string) (ops : list op).
  Hypothesis Hdc : dc_struct_ok v = true.
  Hypothesis Hwf : wf_graphb g = true.
  Hypothesis Hpi : valid_pi g pi.
  Hypothesis Hgo : good_ops g ops.
  Hypothesis Hperm : perm_ops g ops.

  Let R : state := run_ops v ops (init_state g).

  Lemma R_fix' : forall p, R p = fold_sched v R (sched ops p) (init_state g p).
  Proof. intro p. apply run_ops_fix. exact (go_wo g ops Hgo). Qed.

  Lemma R_keys : forall p, f_err (R p) = None ->
    map fst (f_tasks (R p)) = own_keys g p ++ flat_map (brought R) (sched ops p).
  Proof.
    intros p E. rewrite R_fix' in E |- *. rewrite (fold_sched_keys v R _ _ E). reflexivity.
  Qed.

  Lemma child_no_err : forall p e, In e (out_of g p) -> f_err (R p) = None -> f_err (R (snd e)) = None.
  Proof.
    intros p e He E. pose proof (go_complete g ops Hgo p e He) as Hs. apply in_split in Hs. destruct Hs as [l1 [l2 Hs]].
    rewrite R_fix', Hs, fold_sched_app in E.
    change (fold_sched v R (mkop p e :: l2) ?f) with (fold_sched v R l2 (tf_merge v f (R (snd e)) (fst e))) in E.
    apply fold_sched_ok_head in E. apply tf_merge_ok in E. tauto.
  Qed.

  Theorem keys_perm : forall n p, rank pi p <= n -> f_err (R p) = None ->
    Permutation (map fst (f_tasks (R p))) (map okey (origins n g p)).
  Proof.
    induction n as [|n IH]; intros p Hr E.
    - (* rank 0: p is not in pi, hence has no includes *)
      assert (Hout : out_of g p = []).
      { destruct (out_of g p) as [|e r] eqn:Eo; [reflexivity|]. exfalso.
        assert (He : In e (out_of g p)) by (rewrite Eo; left; reflexivity).
        pose proof (rank_child g pi p e Hpi He). lia. }
      rewrite (R_keys p E), okeys_zero.
      assert (Hs : sched ops p = []).
      { destruct (sched ops p) as [|o r] eqn:Es; [reflexivity|]. exfalso.
        destruct (go_sound g ops Hgo p o) as [e [He _]]; [rewrite Es; left; reflexivity|]. rewrite Hout in He. exact He. }
      rewrite Hs. cbn. rewrite app_nil_r. apply Permutation_refl.
    - rewrite (R_keys p E), (okeys_succ g Hwf n p). apply Permutation_app_head.
      eapply Permutation_trans; [apply Permutation_flat_map; apply Hperm|].
      rewrite flat_map_concat_map, map_map, <- flat_map_concat_map.
      apply Permutation_flat_map_pointwise. intros e He. unfold brought. cbn [mkop o_inc o_child].
      apply Permutation_map. apply Permutation_filter'. apply IH.
      + pose proof (rank_child g pi p e Hpi He). lia.
      + exact (child_no_err p e He E).
  Qed.

  (* with the includes merged exactly in declared order the table is in "Taskfile order" *)
  Theorem keys_exact : (forall p, sched ops p = map (mkop p) (out_of g p)) ->
    forall n p, rank pi p <= n -> f_err (R p) = None -> map fst (f_tasks (R p)) = map okey (origins n g p).
  Proof.
    intros Hex. induction n as [|n IH]; intros p Hr E.
    - pose proof (keys_perm 0 p Hr E) as HP.
      assert (Hout : out_of g p = []).
      { destruct (out_of g p) as [|e r] eqn:Eo; [reflexivity|]. exfalso.
        assert (He : In e (out_of g p)) by (rewrite Eo; left; reflexivity).
        pose proof (rank_child g pi p e Hpi He). lia. }
      rewrite (R_keys p E), okeys_zero, Hex, Hout. cbn. apply app_nil_r.
    - rewrite (R_keys p E), (okeys_succ g Hwf n p), Hex. f_equal.
      rewrite flat_map_concat_map, map_map, <- flat_map_concat_map.
      assert (G : forall l, (forall e, In e l -> In e (out_of g p)) ->
                 flat_map (fun e => brought R (mkop p e)) l
                 = flat_map (fun e => map (xkey (fst e)) (filter (nonexcl (fst e)) (map okey (origins n g (snd e))))) l).
      { induction l as [|e r IHl]; intros Hl; [reflexivity|]. cbn [flat_map]. rewrite IHl by (intros e' He'; apply Hl; right; exact He').
        f_equal. unfold brought. cbn [mkop o_inc o_child]. rewrite IH; [reflexivity| |].
        - pose proof (rank_child g pi p e Hpi (Hl e (or_introl eq_refl))). lia.
        - exact (child_no_err p e (Hl e (or_introl eq_refl)) E). }
      apply G. intros e He. exact He.
  Qed.
End Keys.

Lemma rank_le_length : forall pi p, rank pi p <= List.length pi.
Proof. intros. unfold rank. lia. Qed.

(* ------------------------------------------------------------------ *)
(* the two variants of graph.Merge are permutations of the declared includes *)

Lemma perm_declared : forall g pi, valid_pi g pi -> perm_ops g (ops_declared g pi).
Proof. intros g pi Hv p. rewrite (sched_declared g pi p Hv). apply Permutation_refl. Qed.

(* namespaces are the keys of the includes section: distinct within a file *)

Lemma wf_out_nodup : forall g p, wf_outb g = true -> NoDup (out_of g p).
Proof.
  intros g p H. unfold out_of. destruct (find_node p g) as [n|] eqn:E; [|constructor].
  destruct (find_node_some g p n E) as [Hn _]. unfold wf_outb in H. rewrite forallb_forall in H.
  specialize (H n Hn). apply nodupb_NoDup in H. exact (NoDup_map_inv _ _ H).
Qed.

Lemma NoDup_app_intro : forall A (a b : list A), NoDup a -> NoDup b -> (forall x, In x a -> ~ In x b) -> NoDup (a ++ b).
Proof.
  intros A a b Ha Hb H. induction a as [|x r IH]; [exact Hb|]. cbn. inversion Ha; subst. constructor.
  - rewrite in_app_iff. intros [Hx|Hx]; [contradiction | exact (H x (or_introl eq_refl) Hx)].
  - apply IH; [assumption|]. intros y Hy. apply H. right. exact Hy.
Qed.

Lemma NoDup_flat_map : forall A B (f : A -> list B) l, NoDup l ->
  (forall x, In x l -> NoDup (f x)) ->
  (forall x y b, In x l -> In y l -> In b (f x) -> In b (f y) -> x = y) ->
  NoDup (flat_map f l).
Proof.
  intros A B f l HN. induction HN as [|x r Hx Hr IH]; intros H1 H2; cbn; [constructor|].
  apply NoDup_app_intro.
  - apply H1. left. reflexivity.
  - apply IH; [intros y Hy; apply H1; right; exact Hy|]. intros y z b Hy Hz. apply H2; right; assumption.
  - intros b Hb Hb'. apply in_flat_map in Hb'. destruct Hb' as [y [Hy Hby]].
    assert (x = y) by (apply (H2 x y b); [left; reflexivity | right; exact Hy | exact Hb | exact Hby]).
    subst y. contradiction.
Qed.

Lemma NoDup_map_inj : forall A B (f : A -> B) l, (forall x y, In x l -> In y l -> f x = f y -> x = y) -> NoDup l -> NoDup (map f l).
Proof.
  intros A B f l Hinj HN. induction HN as [|x r Hx Hr IH]; cbn; [constructor|]. constructor.
  - intro H. apply in_map_iff in H. destruct H as [y [E Hy]].
    assert (y = x) by (apply Hinj; [right; exact Hy | left; reflexivity | exact E]). subst y. contradiction.
  - apply IH. intros y z Hy Hz. apply Hinj; right; assumption.
Qed.

Lemma preds_nodup : forall g x, NoDup (vertices g) -> NoDup (preds g x).
Proof.
  intros g x H. unfold preds, vertices in *. induction g as [|n r IH]; cbn; [constructor|].
  inversion H as [|? ? Hn Hr]; subst. destruct (existsb (fun e => String.eqb (snd e) x) (n_out n)); cbn.
  - constructor; [|exact (IH Hr)]. intro HI. apply Hn. apply in_map_iff in HI. destruct HI as [m [E Hm]].
    apply filter_In in Hm. apply in_map_iff. exists m. tauto.
  - exact (IH Hr).
Qed.

Lemma ops_current_nodup : forall g pi s, wf_vertices g -> wf_outb g = true -> valid_pi g pi -> valid_sigma s ->
  NoDup (ops_current g pi s).
Proof.
  intros g pi s HN Hout Hv Hs. rewrite ops_current_eq. apply NoDup_flat_map.
  - apply NoDup_rev. pose proof (vp_nodup g pi Hv) as H. destruct pi; [constructor | inversion H; assumption].
  - intros x _. unfold block_cur. apply NoDup_flat_map.
    + apply preds_nodup. exact HN.
    + intros p _. apply NoDup_map_inj.
      * intros a b _ _ E. inversion E. reflexivity.
      * apply (Permutation_NoDup (Permutation_sym (Hs p x _))). unfold incs_between.
        apply NoDup_map_inj.
        -- intros [i1 y1] [i2 y2] H1 H2 E. cbn in E. subst i2. apply filter_In in H1, H2. cbn in *.
           destruct H1 as [_ H1], H2 as [_ H2]. apply String.eqb_eq in H1, H2. subst. reflexivity.
        -- apply NoDup_filter. apply wf_out_nodup. exact Hout.
    + intros p q o _ _ Hp Hq. apply in_map_iff in Hp, Hq. destruct Hp as [i [E1 _]], Hq as [j [E2 _]]. subst o. inversion E2. reflexivity.
  - intros x y o _ _ Hx Hy. apply (in_block_cur g s x o HN Hs) in Hx. apply (in_block_cur g s y o HN Hs) in Hy.
    destruct Hx as [Hx _], Hy as [Hy _]. congruence.
Qed.

Lemma perm_current : forall g pi s, wf_vertices g -> wf_outb g = true -> valid_pi g pi -> valid_sigma s ->
  perm_ops g (ops_current g pi s).
Proof.
  intros g pi s HN Hout Hv Hs p. pose proof (good_current g pi s HN Hv Hs) as Hgo. apply NoDup_Permutation.
  - unfold sched. apply NoDup_filter. apply ops_current_nodup; assumption.
  - apply NoDup_map_inj; [|apply wf_out_nodup; exact Hout].
    intros [i1 y1] [i2 y2] _ _ E. inversion E. reflexivity.
  - intro o. split.
    + intro Ho. destruct (go_sound g _ Hgo p o Ho) as [e [He E]]. subst o. apply in_map. exact He.
    + intro Ho. apply in_map_iff in Ho. destruct Ho as [e [E He]]. subst o. exact (go_complete g _ Hgo p e He).
Qed.

Lemma perm_ops_of : forall v g pi s, wf_vertices g -> wf_outb g = true -> valid_pi g pi -> valid_sigma s ->
  perm_ops g (ops_of v g pi s).
Proof.
  intros v g pi s HN Hout Hv Hs. unfold ops_of. destruct (v_declared v); [apply perm_declared | apply perm_current]; assumption.
Qed.

(* ------------------------------------------------------------------ *)
(* consequences for the returned table                                 *)

Lemma finish_keys : forall v f, map fst (f_tasks (finish v f)) = map fst (f_tasks f).
Proof.
  intros v f. unfold finish. destruct (v_keep_rootref v); [|reflexivity]. cbn. rewrite map_map. reflexivity.
Qed.

Lemma rank_root_le : forall g pi p, valid_pi g pi -> rank pi p <= List.length g.
Proof. intros g pi p Hv. pose proof (vp_len g pi Hv). pose proof (rank_le_length pi p). lia. Qed.

Theorem keys_permutation : forall v g pi s, valid_load v g pi s -> wf_outb g = true ->
  f_err (merge_all v g pi s) = None ->
  Permutation (map fst (f_tasks (merge_all v g pi s))) (map okey (all_origins g)).
Proof.
  intros v g pi s Hl Hout Herr. pose proof (valid_load_good v g pi s Hl) as Hgo.
  destruct Hl as [Hdc Hcp Hwf Hpi Hs]. rewrite (merge_all_raw v g pi s Hcp Hpi) in *. rewrite finish_err in Herr. rewrite finish_keys.
  unfold all_origins, raw_state in *.
  apply (keys_perm v g pi _ Hwf Hpi Hgo (perm_ops_of v g pi s (wf_graph_vertices g Hwf) Hout Hpi Hs));
    [apply rank_root_le; exact Hpi | exact Herr].
Qed.

(* C08: as many entries as origins, keys distinct, every origin present *)
Theorem dropped_holds : forall v g pi s, valid_load v g pi s -> wf_outb g = true ->
  f_err (merge_all v g pi s) = None -> mon_dropped g (f_tasks (merge_all v g pi s)) = true.
Proof.
  intros v g pi s Hl Hout Herr. pose proof (keys_permutation v g pi s Hl Hout Herr) as HP.
  pose proof (present_holds v g pi s Hl Herr) as HP2. unfold mon_present in HP2.
  unfold mon_dropped. rewrite HP2, andb_true_r. apply andb_true_iff. split.
  - apply Nat.eqb_eq. pose proof (Permutation_length HP) as HL. rewrite !map_length in HL. exact HL.
  - apply nodupb_NoDup. destruct Hl as [Hdc Hcp Hwf Hpi Hs]. rewrite (merge_all_raw v g pi s Hcp Hpi), finish_keys.
    unfold raw_state. apply (R_table_ok v g _ Hwf). apply good_ops_of; [apply wf_graph_vertices; exact Hwf | exact Hpi | exact Hs].
Qed.

(* two origins with the same qualified name make the load fail *)
Theorem collision_fails : forall v g pi s, valid_load v g pi s -> wf_outb g = true ->
  nodupb (map okey (all_origins g)) = false -> f_err (merge_all v g pi s) <> None.
Proof.
  intros v g pi s Hl Hout Hc Herr. pose proof (keys_permutation v g pi s Hl Hout Herr) as HP.
  assert (HN : NoDup (map fst (f_tasks (merge_all v g pi s)))).
  { destruct Hl as [Hdc Hcp Hwf Hpi Hs]. rewrite (merge_all_raw v g pi s Hcp Hpi), finish_keys.
    unfold raw_state. apply (R_table_ok v g _ Hwf). apply good_ops_of; [apply wf_graph_vertices; exact Hwf | exact Hpi | exact Hs]. }
  apply (Permutation_NoDup HP) in HN. apply nodupb_NoDup in HN. congruence.
Qed.

(* C09 (declared-order variant): the task table is in Taskfile order *)
Theorem order_declared : forall v g pi s, valid_load v g pi s -> v_declared v = true ->
  f_err (merge_all v g pi s) = None ->
  map fst (f_tasks (merge_all v g pi s)) = canonical_keys g.
Proof.
  intros v g pi s Hl Hd Herr. destruct Hl as [Hdc Hcp Hwf Hpi Hs]. rewrite (merge_all_raw v g pi s Hcp Hpi) in *.
  rewrite finish_err in Herr. rewrite finish_keys. unfold raw_state, ops_of in *. rewrite Hd in *.
  unfold canonical_keys, all_origins.
  apply (keys_exact v g pi _ Hwf Hpi (good_declared g pi Hpi) (perm_declared g pi Hpi));
    [intro p; apply sched_declared; exact Hpi | apply rank_root_le; exact Hpi | exact Herr].
Qed.
