(* C05, the code as it is: what the current checkers do detect (under an
   injective hash), what they ignore on purpose (mtimes, for checksum), and
   idempotence of the writing check. *)
From Coq Require Import List String Ascii NArith Bool Arith ZArith Lia Sorting.Sorted Permutation OrderedTypeEx.
Import ListNotations.
From TV Require Import Fp.Model Fp.ProofsBase.
Local Open Scope string_scope.
Local Open Scope list_scope.

(* ---------------- order on strings ---------------- *)

Lemma leb_iff : forall a b, String.leb a b = true <-> a = b \/ String_as_OT.lt a b.
Proof.
  intros a b. unfold String.leb. split.
  - destruct (String.compare a b) eqn:E; intros Hc; try discriminate.
    + left. now apply String_as_OT.cmp_eq.
    + right. now apply String_as_OT.cmp_lt.
  - intros [->|Hl].
    + assert (E : String.compare b b = Eq) by (now apply String_as_OT.cmp_eq). now rewrite E.
    + apply String_as_OT.cmp_lt in Hl. unfold String_as_OT.cmp in Hl. now rewrite Hl.
Qed.

Lemma le_str_trans : forall a b c, le_str a b -> le_str b c -> le_str a c.
Proof.
  unfold le_str. intros a b c Hab Hbc. apply leb_iff in Hab. apply leb_iff in Hbc. apply leb_iff.
  destruct Hab as [->|Hab]; auto. destruct Hbc as [->|Hbc]; auto.
  right. eapply String_as_OT.lt_trans; eauto.
Qed.

Lemma le_str_antisym : forall a b, le_str a b -> le_str b a -> a = b.
Proof. unfold le_str. intros. now apply String.leb_antisym. Qed.

Lemma sorted_unique : forall l1 l2,
  Sorted le_str l1 -> Sorted le_str l2 -> NoDup l1 -> NoDup l2 ->
  (forall x, In x l1 <-> In x l2) -> l1 = l2.
Proof.
  intros l1 l2 S1 S2.
  apply Sorted_StronglySorted in S1; [|exact le_str_trans].
  apply Sorted_StronglySorted in S2; [|exact le_str_trans].
  revert l2 S2. induction S1 as [|a r1 S1 IH Ha]; intros l2 S2 N1 N2 Hin.
  - destruct l2 as [|b r2]; auto. exfalso. apply (Hin b). now left.
  - destruct S2 as [|b r2 S2 Hb].
    + exfalso. apply (Hin a). now left.
    + assert (a = b).
      { apply le_str_antisym.
        - assert (Hbin : In b (a :: r1)) by (apply Hin; now left).
          destruct Hbin as [->|Hbin]; [apply leb_refl|]. rewrite Forall_forall in Ha. now apply Ha.
        - assert (Hain : In a (b :: r2)) by (apply Hin; now left).
          destruct Hain as [->|Hain]; [apply leb_refl|]. rewrite Forall_forall in Hb. now apply Hb. }
      subst b. f_equal. inversion N1; inversion N2; subst. apply IH; auto.
      intros x. split; intros Hx.
      * assert (Hx' : In x (a :: r2)) by (apply Hin; now right). destruct Hx'; [subst; contradiction|auto].
      * assert (Hx' : In x (a :: r1)) by (apply Hin; now right). destruct Hx'; [subst; contradiction|auto].
Qed.

(* ---------------- strings as lists ---------------- *)

Lemma las_app : forall a b, list_ascii_of_string (a ++ b)%string = list_ascii_of_string a ++ list_ascii_of_string b.
Proof. induction a; intros; cbn; [reflexivity | now rewrite IHa]. Qed.

Lemma las_inj : forall a b, list_ascii_of_string a = list_ascii_of_string b -> a = b.
Proof.
  intros a b E. rewrite <- (string_of_list_ascii_of_string a), <- (string_of_list_ascii_of_string b). now rewrite E.
Qed.

Lemma sapp_assoc : forall a b c, ((a ++ b) ++ c = a ++ (b ++ c))%string.
Proof. intros. apply las_inj. rewrite !las_app. now rewrite app_assoc. Qed.

Lemma sapp_inv_head : forall a x y, (a ++ x = a ++ y)%string -> x = y.
Proof.
  intros a x y E. apply las_inj. apply (f_equal list_ascii_of_string) in E. rewrite !las_app in E.
  now apply app_inv_head in E.
Qed.

Lemma sapp_inv_tail : forall b x y, (x ++ b = y ++ b)%string -> x = y.
Proof.
  intros b x y E. apply las_inj. apply (f_equal list_ascii_of_string) in E. rewrite !las_app in E.
  now apply app_inv_tail in E.
Qed.

Lemma slen_app : forall a b, String.length (a ++ b)%string = String.length a + String.length b.
Proof. induction a; intros; cbn; [reflexivity | now rewrite IHa]. Qed.

Section Detect.
  Variable matchb : string -> path -> bool.

  Notation globs := (globs matchb).
  Notation fp_cs := (fp_cs matchb).

  Definition same_paths (f f' : fsmap) : Prop := forall x, In x (map fst f) <-> In x (map fst f').

  (* Globs sees the file map only through its set of paths *)
  Theorem globs_ext : forall f f' pats, same_paths f f' -> globs f pats = globs f' pats.
  Proof.
    intros f f' pats Hp. apply sorted_unique; try apply globs_sorted; try apply globs_nodup.
    intros x. rewrite !globs_spec. now rewrite (Hp x).
  Qed.

  Definition entry (f : fsmap) (p : path) : path * string * N := (p, content_of f p, 0%N).

  Lemma fp_cs_map : forall f pats, fp_cs f pats = map (entry f) (globs f pats).
  Proof. reflexivity. Qed.

  Lemma stream_app : forall a b, stream (a ++ b) = (stream a ++ stream b)%string.
  Proof.
    induction a as [|e a IH]; intros b; cbn; auto.
    rewrite IH. now rewrite !sapp_assoc.
  Qed.

  Lemma map_entry_eq : forall f f' l, (forall q, In q l -> content_of f' q = content_of f q) ->
    map (entry f') l = map (entry f) l.
  Proof.
    intros f f' l Hc. apply map_ext_in. intros q Hq. unfold entry. now rewrite Hc.
  Qed.

  (* --- an edit of one matched file changes the stream, hence (H injective) the digest --- *)
  Theorem edit_changes_stream : forall f f' pats p,
    same_paths f f' -> In p (globs f pats) ->
    content_of f' p <> content_of f p ->
    (forall q, q <> p -> content_of f' q = content_of f q) ->
    stream (fp_cs f' pats) <> stream (fp_cs f pats).
  Proof.
    intros f f' pats p Hp Hin Hne Hoth E.
    rewrite !fp_cs_map in E. rewrite <- (globs_ext f f' pats Hp) in E.
    pose proof (globs_nodup matchb f pats) as Nd.
    destruct (in_split _ _ Hin) as [l1 [l2 El]]. rewrite El in E, Nd.
    apply NoDup_remove_2 in Nd.
    rewrite !map_app in E. cbn [map] in E. rewrite !stream_app in E.
    assert (E1 : map (entry f') l1 = map (entry f) l1).
    { apply map_entry_eq. intros q Hq. apply Hoth. intros ->. apply Nd. apply in_or_app. now left. }
    assert (E2 : map (entry f') l2 = map (entry f) l2).
    { apply map_entry_eq. intros q Hq. apply Hoth. intros ->. apply Nd. apply in_or_app. now right. }
    rewrite E1, E2 in E. apply sapp_inv_head in E. cbn [stream fold_right entry fst snd] in E.
    apply sapp_inv_head in E. apply sapp_inv_tail in E. contradiction.
  Qed.

  (* --- additions and removals change the length of the stream --- *)
  Definition weight (f : fsmap) (p : path) : nat := String.length (basename p) + String.length (content_of f p).

  Lemma stream_length : forall f l, String.length (stream (map (entry f) l)) = list_sum (map (weight f) l).
  Proof.
    intros f l; induction l as [|p l IH]; cbn [map stream fold_right list_sum]; auto.
    cbn [entry fst snd]. rewrite !slen_app. unfold stream in IH. rewrite IH. unfold weight, list_sum. lia.
  Qed.

  Lemma list_sum_perm : forall a b, Permutation a b -> list_sum a = list_sum b.
  Proof. induction 1; unfold list_sum in *; cbn [fold_right] in *; lia. Qed.

  Theorem add_changes_stream : forall f f' pats p,
    ~ In p (map fst f) ->
    (forall x, In x (map fst f') <-> x = p \/ In x (map fst f)) ->
    decide matchb pats p = Some true -> basename p <> ""%string ->
    (forall q, q <> p -> content_of f' q = content_of f q) ->
    stream (fp_cs f' pats) <> stream (fp_cs f pats).
  Proof.
    intros f f' pats p Hnew Hdom Hdec Hbase Hoth E.
    apply (f_equal String.length) in E. rewrite !fp_cs_map, !stream_length in E.
    assert (Hnp : ~ In p (globs f pats)) by (rewrite globs_spec; tauto).
    assert (Hperm : Permutation (globs f' pats) (p :: globs f pats)).
    { apply NoDup_Permutation.
      - apply globs_nodup.
      - constructor; auto. apply globs_nodup.
      - intros x. cbn [In]. rewrite !globs_spec, Hdom. split.
        + intros [[->|Hq] Hd]; auto.
        + intros [<-|[Hq Hd]]; auto. }
    rewrite (list_sum_perm _ _ (Permutation_map (weight f') Hperm)) in E. cbn [map list_sum] in E.
    assert (Es : map (weight f') (globs f pats) = map (weight f) (globs f pats)).
    { apply map_ext_in. intros q Hq. unfold weight. rewrite Hoth; auto. intros ->. contradiction. }
    rewrite Es in E. unfold weight at 1 in E.
    assert (String.length (basename p) > 0) by (destruct (basename p); [congruence | cbn; lia]).
    cbn [list_sum fold_right] in E. unfold list_sum in E. cbn [fold_right] in E. lia.
  Qed.

  Corollary remove_changes_stream : forall f f' pats p,
    ~ In p (map fst f') ->
    (forall x, In x (map fst f) <-> x = p \/ In x (map fst f')) ->
    decide matchb pats p = Some true -> basename p <> ""%string ->
    (forall q, q <> p -> content_of f' q = content_of f q) ->
    stream (fp_cs f' pats) <> stream (fp_cs f pats).
  Proof.
    intros f f' pats p Hnew Hdom Hdec Hbase Hoth E. symmetry in E. revert E.
    apply add_changes_stream with (p := p); auto. intros q Hq. symmetry. now apply Hoth.
  Qed.

  (* --- method checksum ignores modification times --- *)
  Theorem checksum_ignores_mtime : forall f f' pats,
    same_paths f f' -> (forall q, content_of f' q = content_of f q) -> fp_cs f' pats = fp_cs f pats.
  Proof.
    intros f f' pats Hp Hc. rewrite !fp_cs_map, <- (globs_ext f f' pats Hp).
    apply map_entry_eq. auto.
  Qed.

  Lemma in_keys_insert_kv : forall A (x : string * A) m k, In k (map fst (insert_kv x m)) <-> k = fst x \/ In k (map fst m).
  Proof.
    intros A x m k; induction m as [|y m IH]; cbn; [intuition|].
    destruct (String.leb (fst x) (fst y)); cbn; [intuition|]. rewrite IH. intuition.
  Qed.

  Lemma in_keys_remove : forall A k k' (m : list (string * A)), In k' (map fst (remove_key k m)) <-> In k' (map fst m) /\ k' <> k.
  Proof.
    intros A k k' m; induction m as [|[k2 x] m IH]; cbn; [tauto|].
    destruct (String.eqb_spec k k2) as [E|E]; cbn.
    - rewrite IH. subst. intuition congruence.
    - rewrite IH. intuition congruence.
  Qed.

  Lemma in_keys_fs_set : forall A k (x : A) m k', In k' (map fst (fs_set k x m)) <-> k' = k \/ In k' (map fst m).
  Proof.
    intros. unfold fs_set. rewrite in_keys_insert_kv, in_keys_remove. cbn [fst].
    destruct (String.eqb_spec k' k); intuition.
  Qed.

  Lemma lookup_in_keys : forall A k (m : list (string * A)) x, lookup k m = Some x -> In k (map fst m).
  Proof.
    intros A k m x; induction m as [|[k2 y] m IH]; cbn; [discriminate|].
    destruct (String.eqb_spec k k2); [left; congruence | right; auto].
  Qed.

  Theorem mtime_ops_keep_checksum : forall now f pats o,
    (exists p, o = Touch p) \/ (exists p t, o = SetMtime p t) ->
    fp_cs (file_op now f o) pats = fp_cs f pats.
  Proof.
    intros now f pats o Ho.
    assert (Hgen : forall p m, match lookup p f with
                             | Some x => fs_set p {| f_content := f_content x; f_mtime := m |} f
                             | None => f end = file_op now f o -> fp_cs (file_op now f o) pats = fp_cs f pats).
    { intros p m E. rewrite <- E. destruct (lookup p f) as [x|] eqn:El; auto.
      apply checksum_ignores_mtime.
      - intros k. rewrite in_keys_fs_set. split; auto. intros [->|Hk]; auto. eapply lookup_in_keys; eauto.
      - intros q. unfold content_of. rewrite lookup_fs_set.
        destruct (String.eqb_spec q p); auto. subst. now rewrite El. }
    destruct Ho as [[p ->]|[p [t ->]]].
    - apply (Hgen p now). reflexivity.
    - apply (Hgen p t). reflexivity.
  Qed.

  (* --- method timestamp sees a source that is newer than marker and generates --- *)
  Theorem timestamp_detects_newer : forall v dry now s t mt p,
    lookup (ts_key t) (tss s) = Some mt ->
    In p (globs (fs s) (t_sources t)) ->
    (N.max (max_mtime (fs s) (globs (fs s) (t_generates t))) mt < mtime_of (fs s) p)%N ->
    fst (check_timestamp matchb v dry now s t) = false.
  Proof.
    intros v dry now s t mt p Hl Hin Hlt. unfold check_timestamp. rewrite Hl. cbn [fst].
    assert (E : existsb (fun q => N.ltb (N.max (max_mtime (fs s) (globs (fs s) (t_generates t))) mt) (mtime_of (fs s) q))
                        (globs (fs s) (t_sources t)) = true).
    { apply existsb_exists. exists p. split; auto. now apply N.ltb_lt. }
    rewrite E. reflexivity.
  Qed.

End Detect.

Section DetectCheck.
  Variable matchb : string -> path -> bool.
  Variable H : string -> string.
  Variable Hx : fpr -> string.
  Notation fp_cs := (fp_cs matchb).

  (* --- the writing check is idempotent: run it again on an unchanged tree and it says "same" --- *)
  Theorem checksum_check_idempotent : forall v dry s t,
    let s1 := snd (check_checksum matchb H Hx v false s t) in
    fs s1 = fs s /\
    check_checksum matchb H Hx v dry s1 t = (gens_exist matchb (fs s) t, s1).
  Proof.
    intros v dry s t. cbn zeta.
    set (new := dg H Hx v (fp_cs (fs s) (t_sources t))).
    assert (Hs1 : fs (snd (check_checksum matchb H Hx v false s t)) = fs s
                  /\ lookup (cs_key t) (cks (snd (check_checksum matchb H Hx v false s t))) = Some new).
    { unfold check_checksum. cbn [snd negb andb]. fold new.
      destruct (str_eq_opt (lookup (cs_key t) (cks s)) new) eqn:Es; cbn [negb].
      - split; auto. now apply str_eq_opt_true.
      - split; auto. cbn. apply lookup_set_eq. }
    destruct Hs1 as [Hf Hl]. split; auto.
    unfold check_checksum at 1. rewrite Hf. fold new. rewrite Hl. cbn [str_eq_opt].
    rewrite String.eqb_refl. cbn [negb andb]. rewrite andb_false_r. reflexivity.
  Qed.

  Hypothesis H_inj : forall a b, H a = H b -> a = b.

  (* --- the checksum checker acts on it --- *)
  Theorem checksum_detects : forall v dry s t f0,
    v_fp_exact v = false ->
    lookup (cs_key t) (cks s) = Some (dg H Hx v (fp_cs f0 (t_sources t))) ->
    stream (fp_cs (fs s) (t_sources t)) <> stream (fp_cs f0 (t_sources t)) ->
    fst (check_checksum matchb H Hx v dry s t) = false.
  Proof.
    intros v dry s t f0 Hv Hl Hs. unfold check_checksum. cbn [fst]. rewrite Hl. unfold dg. rewrite Hv.
    cbn [str_eq_opt]. destruct (String.eqb_spec (H (stream (fp_cs f0 (t_sources t)))) (H (stream (fp_cs (fs s) (t_sources t))))) as [E|E].
    - apply H_inj in E. congruence.
    - reflexivity.
  Qed.

End DetectCheck.
