(* C04 for the repaired protocol: a task is skipped only if the most recent
   attempt at the present fingerprint ran every command successfully and the
   generates files exist.  Invariant + induction over all histories. *)
From Coq Require Import List String Ascii NArith Bool Arith ZArith Lia.
Import ListNotations.
From TV Require Import Fp.Model Fp.ProofsBase Fp.ProofsC12 Fp.ProofsSafe.
Local Open Scope string_scope.
Local Open Scope list_scope.

Lemma fs_of_snap_of : forall s, fs_of_snap (snap_of s) = fs s.
Proof.
  intros s. unfold fs_of_snap, snap_of. cbn [sn_files].
  generalize (fs s). intros f. induction f as [|[k [c m]] f IH]; [reflexivity|].
  cbn [map]. rewrite IH. reflexivity.
Qed.

Definition wf_task (t : task) : Prop := t_sources t <> [] /\ t_method t <> NoMethod.

(* every task is fingerprinted, and no two tasks share a state file *)
Definition wf_proj (p : project) : Prop :=
  (forall tid t, nth_error p tid = Some t -> wf_task t) /\
  (forall i j ti tj, nth_error p i = Some ti -> nth_error p j = Some tj -> rkey ti = rkey tj -> i = j).

Definition empty_store (s : state) : Prop := cks s = [] /\ tsx s = [].

Ltac file_op_case Es :=
  unfold Model.step in Es; cbn in Es; inversion Es; subst; clear Es.

Section C04.
  Variable matchb : string -> path -> bool.
  Variable H : string -> string.
  Variable Hx : fpr -> string.
  Variable v : variant.
  Hypothesis Hsafe : v_safe v = true.
  Hypothesis Hfp : v_fp_exact v = true.
  Hypothesis Hts : v_ts_exact v = true.
  Hypothesis Hlist : v_listjson_dry v = true.
  Hypothesis Hdfg : v_dry_fail_guard v = true.
  Hypothesis Hinj : forall a b, Hx a = Hx b -> a = b.

  Notation step := (step matchb H Hx).
  Notation observe := (observe matchb H Hx).
  Notation task_fp := (task_fp matchb).

  Definition Inv04 (p : project) (s : state) (g : ghost04) : Prop :=
    forall tid t d, nth_error p tid = Some t -> rec_of s t = Some d ->
      exists fp, d = Hx fp /\ g04_lookup tid fp g = Some true.

  Lemma inv04_same_store : forall p s s' g, same_store s s' -> Inv04 p s g -> Inv04 p s' g.
  Proof.
    intros p s s' g Hss Hinv tid t d Hn Hr. rewrite (rec_of_same_store _ _ _ Hss) in Hr. eauto.
  Qed.

  Lemma g04_lookup_other : forall tid tid' fp fp' b g,
    tid' <> tid -> g04_lookup tid' fp' ((tid, fp, b) :: g) = g04_lookup tid' fp' g.
  Proof.
    intros. cbn. destruct (Nat.eqb_spec tid' tid); [congruence|reflexivity].
  Qed.

  Lemma g04_lookup_same : forall tid fp b g, g04_lookup tid fp ((tid, fp, b) :: g) = Some b.
  Proof. intros. cbn. now rewrite Nat.eqb_refl, fpr_eqb_refl. Qed.

  (* the invariant after an attempt of task tid *)
  Lemma inv04_attempt : forall p s s' g tid t fp b,
    wf_proj p -> nth_error p tid = Some t -> Inv04 p s g ->
    (rec_of s' t = None \/ (b = true /\ rec_of s' t = Some (Hx fp))) ->
    (forall t', rkey t <> rkey t' -> rec_of s' t' = rec_of s t') ->
    Inv04 p s' ((tid, fp, b) :: g).
  Proof.
    intros p s s' g tid t fp b [Hwf Hkeys] Hn Hinv Hrec Hoth tid' t' d Hn' Hr.
    destruct (Nat.eq_dec tid' tid) as [E|E].
    - subst tid'. assert (t' = t) by congruence. subst t'.
      destruct Hrec as [Hrec|[-> Hrec]]; [congruence|].
      exists fp. split; [congruence|]. apply g04_lookup_same.
    - assert (Hk : rkey t <> rkey t').
      { intros Ek. apply E. symmetry. eapply Hkeys; eauto. }
      rewrite Hoth in Hr by auto. destruct (Hinv _ _ _ Hn' Hr) as [fp0 [Ed Hl]].
      exists fp0. split; auto. now rewrite g04_lookup_other.
  Qed.

  Lemma c04_run_holds : forall p, wf_proj p -> forall h s g,
    Inv04 p s g -> c04_run matchb p (fs s) g (observe v p s h) = true.
  Proof.
    intros p Hwf h; induction h as [|[t0 o] h IH]; intros s g Hinv; cbn; auto.
    destruct (step v p s (t0, o)) as [s' x] eqn:Es. cbn [c04_run].
    destruct (c04_step matchb p (fs s) g {| o_ev := (t0, o); o_res := x; o_snap := snap_of s' |}) as [ok g'] eqn:Ec.
    cbn [o_snap]. rewrite fs_of_snap_of.
    assert (Hgoal : ok = true /\ Inv04 p s' g').
    { unfold c04_step in Ec. cbn [o_ev o_res snd] in Ec.
      destruct o as [pth c|pth|pth|pth q|pth tm|m tid oc];
        try (file_op_case Es; inversion Ec; subst; split; auto; fail).
      unfold Model.step in Es. cbn [snd fst] in Es. unfold invoke in Es.
      destruct (nth_error p tid) as [t|] eqn:Hn.
      2:{ inversion Ec; subst. split; auto.
          destruct m; inversion Es; subst; auto.
          rewrite list_json_quiet; auto. }
      destruct Hwf as [Hwt Hkeys]. destruct (Hwt _ _ Hn) as [Hsrc Hm].
      assert (Hrun : forall mm, (mm = Run \/ mm = Force \/ mm = Dry) -> m = mm ->
                run_task matchb H Hx v t0 s mm tid t oc = (s', x) -> ok = true /\ Inv04 p s' g').
      { intros mm Hmm -> Er.
        change (run_task matchb H Hx v t0 s mm tid t oc)
          with (run_task_core matchb H Hx v t0 (pre_state mm t0 t s) mm tid t oc) in Er.
        cbn [fst] in Ec. change (deps_fs mm t0 t (fs s)) with (fs (pre_state mm t0 t s)) in Ec.
        assert (Hinv0 : Inv04 p (pre_state mm t0 t s) g) by (eapply inv04_same_store; [apply same_store_pre | exact Hinv]).
        clear Hinv. set (s0 := pre_state mm t0 t s) in *.
        pose proof (run_task_summary matchb H Hx v Hsafe Hfp Hts Hdfg _ _ _ _ _ _ _ _ Hsrc Hm Hmm Er) as Sm.
        destruct Sm as [Hnf Hup -> ->|Hd Hup Hss Hrd|Hnd Hup Hr Hnone Hoth|Hnd Hup -> Hrec Hoth].
        - (* skipped: justified by the record *)
          cbn [is_skipped] in Ec.
          assert (Hat : is_attempt mm RSkipped = false) by (destruct mm; reflexivity).
          rewrite Hat in Ec.
          unfold up_formula in Hup. apply andb_true_iff in Hup. destruct Hup as [_ Hup].
          apply andb_true_iff in Hup. destruct Hup as [Hrec Hgen].
          apply str_eq_opt_true in Hrec. destruct (Hinv0 _ _ _ Hn Hrec) as [fp0 [Ed Hl]].
          apply Hinj in Ed. subst fp0. rewrite Hl, Hgen in Ec. inversion Ec; subst. auto.
        - subst mm. destruct Hrd as [-> | ->]; cbn in Ec; inversion Ec; subst; (split; [reflexivity | eapply inv04_same_store; eauto]).
        - assert (Hat : is_attempt mm x = true).
          { destruct Hmm as [->|[->| ->]]; try congruence; destruct Hr as [->|[->| ->]]; reflexivity. }
          assert (Hsk : is_skipped x = false) by (destruct Hr as [->|[->| ->]]; reflexivity).
          rewrite Hat, Hsk in Ec. inversion Ec; subst. split; auto.
          eapply inv04_attempt; eauto. split; auto.
        - assert (Hat : is_attempt mm ROk = true) by (destruct Hmm as [->|[->| ->]]; try congruence; reflexivity).
          rewrite Hat in Ec. cbn in Ec. inversion Ec; subst. split; auto.
          eapply inv04_attempt; eauto; [split; auto|].
          destruct Hrec as [Hrec|[_ [_ Hrec]]]; auto. }
      destruct m.
      - apply (Hrun Run); auto.
      - apply (Hrun Force); auto.
      - apply (Hrun Dry); auto.
      - (* Status *)
        rewrite (uptodate_safe matchb H Hx v Hfp Hts) in Es by auto. inversion Es; subst.
        cbn in Ec. inversion Ec; subst. auto.
      - (* ListJson *)
        rewrite list_json_quiet in Es by auto. inversion Es; subst.
        cbn in Ec. inversion Ec; subst. auto.
      - inversion Es; subst. cbn in Ec. inversion Ec; subst. auto.
      - inversion Es; subst. cbn in Ec. inversion Ec; subst. auto. }
    destruct Hgoal as [-> Hinv']. cbn. now apply IH.
  Qed.

  Lemma inv04_empty : forall p s, empty_store s -> Inv04 p s [].
  Proof.
    intros p s [E1 E2] tid t d _ Hr. unfold rec_of in Hr. rewrite E1, E2 in Hr.
    destruct (t_method t); cbn in Hr; discriminate.
  Qed.

  (* C04_sound, over every history, every project without shared state files, every outcome *)
  Theorem c04_sound : forall p s h,
    wf_proj p -> empty_store s ->
    mon_C04 matchb p (snap_of s) (observe v p s h) = true.
  Proof.
    intros p s h Hwf He. unfold mon_C04. rewrite fs_of_snap_of.
    apply c04_run_holds; auto. now apply inv04_empty.
  Qed.
End C04.
