(* Witnesses: histories on which the faithful model of the code as read by the
   design pass (and of every variant lacking the corresponding repair) violates
   the monitors.  Each is a vm_compute run of the executable model with the
   concrete matcher; the hash is the identity (injective). *)
From Coq Require Import List String Ascii NArith Bool Arith.
Import ListNotations.
From TV Require Import Fp.Model.
Local Open Scope string_scope.

Definition idH (s : string) : string := s.
Definition hx1 (fp : fpr) : string :=
  fold_right (fun e acc => fst (fst e) ++ "|" ++ snd (fst e) ++ "|" ++ String (ascii_of_N (snd e mod 256)) "" ++ ";" ++ acc) "" fp.

Definition w_task (m : method) : task :=
  {| t_name := "build"; t_label := None; t_method := m;
     t_sources := [(false, "src/**/*.txt"); (true, "src/ex/*.txt")]; t_generates := [];
     t_status := []; t_prompt := false; t_dir := ""; t_ncmds := 2; t_outputs := []; t_dep := None; t_subguard := None |}.
Definition w_prompt (m : method) : task :=
  {| t_name := "build"; t_label := None; t_method := m;
     t_sources := [(false, "src/**/*.txt")]; t_generates := [];
     t_status := []; t_prompt := true; t_dir := ""; t_ncmds := 2; t_outputs := []; t_dep := None; t_subguard := None |}.
Definition w_gen (m : method) : task :=
  {| t_name := "build"; t_label := None; t_method := m;
     t_sources := [(false, "src/*.txt")]; t_generates := [(false, "out.txt")];
     t_status := []; t_prompt := false; t_dir := ""; t_ncmds := 2; t_outputs := ["out.txt"]; t_dep := None; t_subguard := None |}.
Definition w_dir : task :=
  {| t_name := "build"; t_label := None; t_method := Checksum;
     t_sources := [(false, "src/*.txt")]; t_generates := [];
     t_status := []; t_prompt := false; t_dir := "newdir"; t_ncmds := 1; t_outputs := []; t_dep := None; t_subguard := None |}.

Definition w_init : state :=
  {| fs := [("src/a.txt", {| f_content := "A0"; f_mtime := 1 |});
            ("src/ex/e.txt", {| f_content := "E0"; f_mtime := 3 |});
            ("src/sub/s.txt", {| f_content := "S0"; f_mtime := 2 |})];
     dirs := ["src"; "src/ex"; "src/sub"]; cks := []; tss := []; tsx := []; trace := [] |}.

Definition w_obs (v : variant) (p : project) (h : list event) : list ostep :=
  observe gmatch idH hx1 v p w_init h.
Definition w04 (v : variant) (p : project) (h : list event) : bool :=
  mon_C04 gmatch p (snap_of w_init) (w_obs v p h).
Definition w05 (v : variant) (p : project) (h : list event) : bool :=
  mon_C05 gmatch p (snap_of w_init) (w_obs v p h).
Definition w12 (v : variant) (p : project) (h : list event) : bool :=
  mon_C12 (snap_of w_init) (w_obs v p h).

Ltac by_variant v :=
  destruct v as [a1 a2 a3 a4 a5 a6 a7 a8 a9 a10]; cbn [v_ts_rollback v_prompt_rollback v_listjson_dry v_safe
    v_fp_exact v_ts_exact v_ts_gen_exist v_dry_mkdir_guard v_force_records v_dry_fail_guard]; intros; subst;
  repeat match goal with b : bool |- _ => destruct b end; vm_compute; repeat split.

(* 7.4: method timestamp, failed run, next run "up to date" *)
Definition h_74 : list event := [(10, Invoke Run 0 (FailAt 1)); (12, Invoke Run 0 AllOk)]%N.
Lemma ts_failure_refuted : forall v,
  v_ts_rollback v = false -> v_safe v = false -> v_ts_exact v = false ->
  w04 v [w_task Timestamp] h_74 = false.
Proof. intro v; by_variant v. Qed.

(* 7.5: checksum written during the check, prompt declined, next run skipped *)
Definition h_75 : list event := [(10, Invoke Run 0 PromptNo); (12, Invoke Run 0 AllOk)]%N.
Lemma prompt_declined_refuted : forall v m,
  v_prompt_rollback v = false -> v_safe v = false -> m <> NoMethod ->
  w04 v [w_prompt m] h_75 = false.
Proof. intros v m; destruct m; try congruence; by_variant v. Qed.

(* 7.6: --list --json records a fingerprint; the task never ran and is skipped *)
Definition h_76 : list event := [(10, Invoke ListJson 0 AllOk); (12, Invoke Run 0 AllOk)]%N.
Lemma listjson_refuted : forall v m,
  v_listjson_dry v = false -> m <> NoMethod ->
  w04 v [w_task m] h_76 = false /\ w12 v [w_task m] h_76 = false.
Proof. intros v m; destruct m; try congruence; by_variant v. Qed.

(* 7.7: killed after the check *)
Definition h_77 : list event := [(10, Invoke Run 0 (KilledAt 0)); (12, Invoke Run 0 AllOk)]%N.
Lemma killed_refuted : forall v m,
  v_safe v = false -> m <> NoMethod ->
  w04 v [w_task m] h_77 = false.
Proof. intros v m; destruct m; try congruence; by_variant v. Qed.

(* 7.8: rename across directories keeping the base name *)
Definition h_78 : list event :=
  [(10, Invoke Run 0 AllOk); (12, Rename "src/a.txt" "src/sub/a.txt"); (14, Invoke Run 0 AllOk)]%N.
Lemma rename_collision_refuted : forall v,
  v_fp_exact v = false ->
  w05 v [w_task Checksum] h_78 = false /\ w04 v [w_task Checksum] h_78 = false.
Proof. intro v; by_variant v. Qed.

(* the serialisation basename ++ content is not injective: two different fingerprints, one stream *)
Lemma stream_not_injective :
  exists a b : fpr, a <> b /\ stream a = stream b.
Proof.
  exists [("src/a.txt", "A0", 0%N); ("src/b.txt", "B", 0%N)], [("src/a.txt", "A0b.txtB", 0%N)].
  split; [discriminate | reflexivity].
Qed.

(* 7.9: method timestamp never notices a missing generates file *)
Definition h_79 : list event :=
  [(10, Invoke Run 0 AllOk); (12, Remove "out.txt"); (14, Invoke Run 0 AllOk)]%N.
Lemma ts_generates_refuted : forall v,
  v_ts_gen_exist v = false -> v_ts_exact v = false ->
  w05 v [w_gen Timestamp] h_79 = false /\ w04 v [w_gen Timestamp] h_79 = false.
Proof. intro v; by_variant v. Qed.

(* method timestamp: removal of a source (nothing gets a newer mtime) goes unnoticed *)
Definition h_rm : list event :=
  [(10, Invoke Run 0 AllOk); (12, Remove "src/sub/s.txt"); (14, Invoke Run 0 AllOk)]%N.
Lemma ts_removal_refuted : forall v,
  v_ts_exact v = false ->
  w05 v [w_task Timestamp] h_rm = false.
Proof. intro v; by_variant v. Qed.

(* a successful --force run records nothing: the next run executes again *)
Definition h_force : list event :=
  [(10, Invoke Force 0 AllOk); (12, Invoke Run 0 AllOk)]%N.
Lemma force_not_recorded_refuted : forall v m,
  v_force_records v = false -> m <> NoMethod ->
  w05 v [w_task m] h_force = false.
Proof. intros v m; destruct m; try congruence; by_variant v. Qed.

(* 7.18: --dry creates the task's dir *)
Definition h_718 : list event := [(10, Invoke Dry 0 AllOk)]%N.
Lemma dry_mkdir_refuted : forall v,
  v_dry_mkdir_guard v = false -> w12 v [w_dir] h_718 = false.
Proof. intro v; by_variant v. Qed.

(* normalizeFilename is not injective: two tasks share their fingerprint state *)
Lemma key_collision : normalize "gen.x" = normalize "gen-x" /\ "gen.x" <> "gen-x".
Proof. split; [reflexivity | discriminate]. Qed.
Definition w_named (n : string) (m : method) : task :=
  {| t_name := n; t_label := None; t_method := m; t_sources := [(false, "src/*.txt")]; t_generates := [];
     t_status := []; t_prompt := false; t_dir := ""; t_ncmds := 1; t_outputs := []; t_dep := None; t_subguard := None |}.
Definition h_keys : list event := [(10, Invoke Run 0 AllOk); (12, Invoke Run 1 AllOk)]%N.
Lemma key_collision_refuted : forall v m, m <> NoMethod ->
  w04 v [w_named "gen.x" m; w_named "gen-x" m] h_keys = false.
Proof. intros v m; destruct m; try congruence; by_variant v. Qed.

(* ---- used by Properties ---- *)
Lemma method_cs_ne : Checksum <> NoMethod.
Proof. discriminate. Qed.

Definition h_example : list event :=
  [(10, Invoke Run 0 (FailAt 1)); (12, Invoke Run 0 AllOk); (14, Invoke Run 0 AllOk);
   (16, Write "src/a.txt" "A1"); (18, Invoke Run 0 (KilledAt 1)); (20, Invoke Run 0 AllOk)]%N.

(* 7.4 residual, LIVE: method timestamp with generates.  A successful run leaves out.txt newer than
   the sources; a forced attempt fails (the marker is dropped in the repaired variants, kept in the
   old ones); the next run is "up to date" either way. *)
Definition h_74r : list event :=
  [(10, Invoke Run 0 AllOk); (12, Invoke Force 0 (FailAt 0)); (14, Invoke Run 0 AllOk)]%N.
Lemma ts_generates_residual_refuted : forall v,
  v_ts_exact v = false -> w04 v [w_gen Timestamp] h_74r = false.
Proof. intro v; by_variant v. Qed.

(* timestamp set-blindness as a C04 violation, LIVE: a source is removed, the task is skipped at a
   fingerprint at which it never ran *)
Lemma ts_removal_refuted_c04 : forall v,
  v_ts_exact v = false -> w04 v [w_task Timestamp] h_rm = false.
Proof. intro v; by_variant v. Qed.

(* [HISTORICAL, repaired in 41513bc] a dry run whose sub-call fails (callee precondition) drops the caller's record *)
Definition w_sub : task :=
  {| t_name := "build"; t_label := None; t_method := Checksum;
     t_sources := [(false, "src/**/*.txt")]; t_generates := [];
     t_status := []; t_prompt := false; t_dir := ""; t_ncmds := 1; t_outputs := []; t_dep := None; t_subguard := Some "guard.flag" |}.
Definition w_init_flag : state := with_fs w_init (fs_set "guard.flag" {| f_content := "g"; f_mtime := 4 |} (fs w_init)).
Definition h_dryfail : list event :=
  [(10, Invoke Run 0 AllOk); (12, Write "src/a.txt" "A1"); (14, Remove "guard.flag"); (16, Invoke Dry 0 AllOk)]%N.
Lemma dry_fail_refuted : forall v,
  v_dry_fail_guard v = false ->
  mon_C12 (snap_of w_init_flag) (observe gmatch idH hx1 v [w_sub] w_init_flag h_dryfail) = false.
Proof. intro v; by_variant v. Qed.
