(* The theorems about the tree AS IT IS: the variant [current] computed from the
   facts extracted from /repo.  The flag facts are discharged here by
   computation against Extracted.Facts, so a regression of a repaired flag in
   the code breaks these lemmas (and with them the obligations of
   Properties/C04.v, C05.v, C12.v). *)
From Coq Require Import List String Ascii NArith Bool Arith.
Import ListNotations.
From TV Require Import Fp.Model Fp.ProofsBase Fp.ProofsC12 Fp.ProofsSafe Fp.ProofsC04
                       Fp.ProofsCurrentCs Fp.ProofsCurrentTs Fp.Refute Extracted.Facts Run.FpCases.
Local Open Scope string_scope.

(* ---- the repaired flags, read off the source on every run ---- *)
Lemma cur_safe : v_safe current = true.            Proof. vm_compute. reflexivity. Qed.
Lemma cur_listjson_dry : v_listjson_dry current = true.  Proof. vm_compute. reflexivity. Qed.
Lemma cur_ts_rollback : v_ts_rollback current = true.    Proof. vm_compute. reflexivity. Qed.
Lemma cur_force_records : v_force_records current = true. Proof. vm_compute. reflexivity. Qed.
Lemma cur_dry_fail_guard : v_dry_fail_guard current = true. Proof. vm_compute. reflexivity. Qed.
Lemma cur_pure : pure_variant current = true.      Proof. vm_compute. reflexivity. Qed.
(* ---- the flags of the open findings (these two say: still open) ---- *)
Lemma cur_fp_not_exact : v_fp_exact current = false.  Proof. vm_compute. reflexivity. Qed.
Lemma cur_ts_not_exact : v_ts_exact current = false.  Proof. vm_compute. reflexivity. Qed.

Section Cur.
  Variable matchb : string -> path -> bool.
  Variable H : string -> string.
  Variable Hx : fpr -> string.

  Definition c04_cur_checksum :=
    c04_current_checksum matchb H Hx current cur_safe cur_listjson_dry cur_dry_fail_guard.
  Definition c05_cur_checksum :=
    c05_current_checksum matchb H Hx current cur_safe cur_listjson_dry cur_dry_fail_guard cur_force_records.
  Definition c04_cur_timestamp :=
    c04_current_timestamp matchb H Hx current cur_safe cur_listjson_dry cur_ts_rollback cur_ts_not_exact cur_force_records cur_dry_fail_guard.
  Definition c05_cur_timestamp :=
    c05_current_timestamp matchb H Hx current cur_safe cur_listjson_dry cur_ts_rollback cur_ts_not_exact cur_force_records cur_dry_fail_guard.

  Lemma c12_cur : forall p h s, mon_C12 (snap_of s) (observe matchb H Hx current p s h) = true.
  Proof. intros. apply mon_C12_repaired. exact cur_pure. Qed.

  Lemma c12_cur_commutes : forall p s Hh t m tid o K,
    read_only m = true ->
    run_hist matchb H Hx current p s (Hh ++ (t, Invoke m tid o) :: K) = run_hist matchb H Hx current p s (Hh ++ K) /\
    mon_C12_commute (observe matchb H Hx current p s (Hh ++ (t, Invoke m tid o) :: K))
                    (observe matchb H Hx current p s (Hh ++ K)) (List.length Hh) = true.
  Proof.
    intros p s Hh t m tid o K Hro.
    pose proof (pure_variant_cond current p m tid cur_pure Hro) as Hp.
    split; [now apply run_hist_commutes | now apply commute_holds].
  Qed.
End Cur.

(* ---- non-vacuity: histories with a failed and a killed attempt that meet the hypotheses ---- *)

Definition h_cur : list event :=
  [(10, Invoke Run 0 (FailAt 1)); (12, Invoke Run 0 AllOk); (14, Invoke Run 0 AllOk);
   (16, Write "src/a.txt" "A1"); (18, Invoke Force 0 (KilledAt 1)); (20, Invoke Run 0 AllOk);
   (22, Invoke Dry 0 AllOk); (24, Invoke Run 0 AllOk)]%N.

Lemma wf_csc_example : wf_csc_proj [w_task Checksum].
Proof.
  split.
  - intros [|tid] t E; cbn in E; inversion E; subst.
    + split; [reflexivity | discriminate].
    + destruct tid; discriminate.
  - intros [|i] [|j] ti tj Ei Ej _; cbn in Ei, Ej; try reflexivity;
      try (destruct i; discriminate); try (destruct j; discriminate).
Qed.

Lemma wf_ts_example : wf_ts_proj [w_task Timestamp].
Proof.
  split.
  - intros [|tid] t E; cbn in E; inversion E; subst.
    + repeat split; try reflexivity; discriminate.
    + destruct tid; discriminate.
  - intros [|i] [|j] ti tj Ei Ej _; cbn in Ei, Ej; try reflexivity;
      try (destruct i; discriminate); try (destruct j; discriminate).
Qed.

Lemma K_of_forallb : forall matchb p T (f : fsmap),
  forallb (fun kv => N.ltb (f_mtime (snd kv)) T) f = true -> K matchb p T f.
Proof.
  intros matchb p T f Hall q x _ Hl. rewrite forallb_forall in Hall.
  assert (Hin : In (q, x) f).
  { clear Hall. induction f as [|[k y] f IH]; cbn in Hl; [discriminate|].
    destruct (String.eqb_spec q k); [inversion Hl; subst; now left | right; auto]. }
  specialize (Hall _ Hin). cbn in Hall. now apply N.ltb_lt.
Qed.

Lemma cur_checksum_example :
  wf_csc_proj [w_task Checksum] /\ cks w_init = [] /\
  nocoll_run gmatch idH hx1 current [w_task Checksum] (fs w_init) []
             (observe gmatch idH hx1 current [w_task Checksum] w_init h_cur) = true /\
  nocoll5_run gmatch idH hx1 current [w_task Checksum] (fs w_init) []
             (observe gmatch idH hx1 current [w_task Checksum] w_init h_cur) = true /\
  map o_res (observe gmatch idH hx1 current [w_task Checksum] w_init h_cur)
  = [RFailed; ROk; RSkipped; RFile; RKilled; ROk; RSkipped; RSkipped].
Proof. split; [apply wf_csc_example|]. repeat split; vm_compute; reflexivity. Qed.

Lemma cur_timestamp_example :
  wf_ts_proj [w_task Timestamp] /\ tss w_init = [] /\ K gmatch [w_task Timestamp] 10 (fs w_init) /\
  times_ok 10 h_cur = true /\ forallb (ev_ok gmatch [w_task Timestamp]) h_cur = true /\
  map o_res (observe gmatch idH hx1 current [w_task Timestamp] w_init h_cur)
  = [RFailed; ROk; RSkipped; RFile; RKilled; ROk; RSkipped; RSkipped].
Proof.
  split; [apply wf_ts_example|]. split; [reflexivity|]. split; [apply K_of_forallb; vm_compute; reflexivity|].
  repeat split; vm_compute; reflexivity.
Qed.

(* ---- the deps shape: a dep regenerates one of the task's sources from spec.txt before the check ---- *)
Definition w_dep : task :=
  {| t_name := "build"; t_label := None; t_method := Checksum;
     t_sources := [(false, "src/**/*.txt")]; t_generates := [];
     t_status := []; t_prompt := false; t_dir := ""; t_ncmds := 2; t_outputs := [];
     t_dep := Some ("spec.txt", "src/g.txt"); t_subguard := None |}.
Definition w_init_spec : state := with_fs w_init (fs_set "spec.txt" {| f_content := "S1"; f_mtime := 4 |} (fs w_init)).
Definition h_dep : list event :=
  [(10, Invoke Run 0 AllOk); (12, Invoke Run 0 AllOk); (14, Write "spec.txt" "S2");
   (16, Invoke Run 0 (FailAt 0)); (18, Invoke Run 0 (KilledAt 1)); (20, Invoke Run 0 AllOk); (22, Invoke Run 0 AllOk)]%N.

Lemma wf_csc_dep : wf_csc_proj [w_dep].
Proof.
  split.
  - intros [|tid] t E; cbn in E; inversion E; subst.
    + split; [reflexivity | discriminate].
    + destruct tid; discriminate.
  - intros [|i] [|j] ti tj Ei Ej _; cbn in Ei, Ej; try reflexivity;
      try (destruct i; discriminate); try (destruct j; discriminate).
Qed.

Lemma cur_deps_example :
  wf_csc_proj [w_dep] /\ cks w_init_spec = [] /\
  nocoll_run gmatch idH hx1 current [w_dep] (fs w_init_spec) []
             (observe gmatch idH hx1 current [w_dep] w_init_spec h_dep) = true /\
  nocoll5_run gmatch idH hx1 current [w_dep] (fs w_init_spec) []
             (observe gmatch idH hx1 current [w_dep] w_init_spec h_dep) = true /\
  map o_res (observe gmatch idH hx1 current [w_dep] w_init_spec h_dep)
  = [ROk; RSkipped; RFile; RFailed; RKilled; ROk; RSkipped].
Proof. split; [apply wf_csc_dep|]. repeat split; vm_compute; reflexivity. Qed.
