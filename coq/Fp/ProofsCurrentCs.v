(* The tree as it is after the repairs (record-after-success protocol,
   --list --json dry), method checksum, with the digest the code really uses
   (xxh3 of the basename++content stream, NOT assumed injective on
   fingerprints): C04 and C05 over all histories, under the two carve-outs
   that correspond to the open findings
     - no two tasks share a state file            (normalizeFilename collision)
     - no two distinct fingerprints that occur in the history for one task
       share a digest                             (7.8, stream collision)   *)
From Coq Require Import List String Ascii NArith Bool Arith ZArith Lia.
Import ListNotations.
From TV Require Import Fp.Model Fp.ProofsBase Fp.ProofsC12 Fp.ProofsSafe Fp.ProofsC04.
Local Open Scope string_scope.
Local Open Scope list_scope.

Definition wf_csc_task (t : task) : Prop := t_method t = Checksum /\ t_sources t <> [].

Definition wf_csc_proj (p : project) : Prop :=
  (forall tid t, nth_error p tid = Some t -> wf_csc_task t) /\
  (forall i j ti tj, nth_error p i = Some ti -> nth_error p j = Some tj -> cs_key ti = cs_key tj -> i = j).

Section CurrentCs.
  Variable matchb : string -> path -> bool.
  Variable H : string -> string.
  Variable Hx : fpr -> string.
  Variable v : variant.
  Hypothesis Hsafe : v_safe v = true.
  Hypothesis Hlist : v_listjson_dry v = true.
  Hypothesis Hdfg : v_dry_fail_guard v = true.

  Notation step := (step matchb H Hx).
  Notation observe := (observe matchb H Hx).
  Notation task_fp := (task_fp matchb).
  Notation D := (dg H Hx v).

  Definition recc (s : state) (t : task) : option string := lookup (cs_key t) (cks s).

  Definition upf (s : state) (t : task) : bool :=
    (is_nil (t_status t) || status_ok (fs s) t)
    && (str_eq_opt (recc s t) (D (task_fp t (fs s))) && gens_exist matchb (fs s) t).

  Lemma uptodate_csc : forall now s t, wf_csc_task t ->
    uptodate matchb H Hx v true now s t = (upf s t, s).
  Proof.
    intros now s t [Hm Hsrc]. unfold Model.uptodate.
    assert (Hnn : negb (is_nil (t_sources t)) = true) by (destruct (t_sources t); [congruence|reflexivity]).
    rewrite Hnn. unfold check_sources. rewrite Hm. unfold check_checksum, upf, recc, Model.task_fp, fp_of. rewrite Hm.
    cbn [negb andb].
    destruct (is_nil (t_status t)); cbn [negb andb orb]; [reflexivity|].
    now destruct (status_ok (fs s) t).
  Qed.

  Lemma on_error_csc : forall s t, wf_csc_task t ->
    on_error v s t = with_cks s (remove_key (cs_key t) (cks s)).
  Proof.
    intros s t [Hm Hsrc]. unfold on_error. rewrite Hm. destruct (t_sources t); [congruence|reflexivity].
  Qed.

  Lemma record_csc : forall now f0 s t, wf_csc_task t ->
    record matchb H Hx v now f0 s t = with_cks s (set_key (cs_key t) (D (task_fp t f0)) (cks s)).
  Proof. intros now f0 s t [Hm _]. unfold record, Model.task_fp, fp_of. now rewrite Hm. Qed.

  Lemma cks_mkdir' : forall s d, cks (mkdir s d) = cks s.
  Proof. intros. unfold mkdir. destruct (String.eqb d ""); auto. now destruct (existsb _ _). Qed.

  (* one direct invocation, summarised over the record of the task and of the others *)
  Inductive csum (s : state) (m : mode) (t : task) (s' : state) (r : res) : Prop :=
  | CS_skip : m <> Force -> upf s t = true -> s' = s -> r = RSkipped -> csum s m t s' r
  | CS_dry : m = Dry -> upf s t = false -> cks s' = cks s -> (r = RDry \/ r = RFailed) -> csum s m t s' r
  | CS_bad : m <> Dry -> (m = Force \/ upf s t = false) ->
             (r = RDeclined \/ r = RFailed \/ r = RKilled) ->
             recc s' t = None ->
             (forall t', cs_key t <> cs_key t' -> recc s' t' = recc s t') ->
             csum s m t s' r
  | CS_ok : m <> Dry -> (m = Force \/ upf s t = false) -> r = ROk ->
            (recc s' t = Some (D (task_fp t (fs s)))
             \/ (m = Force /\ v_force_records v = false /\ recc s' t = None)) ->
            (forall t', cs_key t <> cs_key t' -> recc s' t' = recc s t') ->
            csum s m t s' r.

  Lemma recc_remove_same : forall s t x, cks x = remove_key (cs_key t) (cks s) -> recc x t = None.
  Proof. intros s t x E. unfold recc. rewrite E. apply lookup_remove_eq. Qed.

  Lemma recc_remove_other : forall s t t' x, cks x = remove_key (cs_key t) (cks s) ->
    cs_key t <> cs_key t' -> recc x t' = recc s t'.
  Proof. intros s t t' x E Hk. unfold recc. rewrite E. apply lookup_remove_neq. congruence. Qed.

  Lemma run_task_csum : forall now s m tid t o s' r,
    wf_csc_task t -> (m = Run \/ m = Force \/ m = Dry) ->
    run_task_core matchb H Hx v now s m tid t o = (s', r) -> csum s m t s' r.
  Proof.
    intros now s m tid t o s' r Hwt Hmode E. unfold run_task_core in E.
    set (dry := match m with Dry => true | _ => false end) in *.
    set (force := match m with Force => true | _ => false end) in *.
    rewrite Hsafe, orb_true_r in E. cbn [andb] in E.
    rewrite (uptodate_csc now s t Hwt) in E.
    destruct (if force then false else upf s t) eqn:Eu.
    - assert (Hf : force = false) by (destruct force; [discriminate|reflexivity]).
      rewrite Hf in E, Eu. rewrite Eu in E. inversion E; subst. apply CS_skip; auto.
      intros ->. subst force. discriminate.
    - assert (Hnu : m = Force \/ upf s t = false).
      { destruct m; subst force; cbn in Eu; auto. }
      assert (Eup : (let '(up, s1) := if force then (false, s) else (upf s t, s) in
                     if up then (s1, RSkipped) else (s1, RDry)) = (s, RDry) ).
      { destruct force; [reflexivity|]. now rewrite Eu. }
      assert (E' : (if force then (false, s) else (upf s t, s)) = (false, s)).
      { destruct force; [reflexivity|]. now rewrite Eu. }
      rewrite E' in E. clear Eup E'.
      unfold invalidate in E. rewrite (on_error_csc s t Hwt) in E.
      set (s2 := with_cks s (remove_key (cs_key t) (cks s))) in *.
      destruct dry eqn:Ed.
      + assert (m = Dry) by (destruct m; subst dry; try discriminate; auto). subst m.
        cbn [negb andb] in E. rewrite andb_false_r in E. cbn [andb] in E. rewrite Hdfg in E.
        destruct Hnu as [?|Hnu]; [discriminate|].
        destruct (guard_ok s t); cbn [negb] in E;
          destruct (v_dry_mkdir_guard v); inversion E; subst; apply CS_dry; auto using cks_mkdir'.
      + assert (Hnd : m <> Dry) by (intros ->; subst dry; discriminate).
        cbn [negb andb] in E. rewrite andb_true_r in E.
        destruct (t_prompt t && is_prompt_no o).
        * assert (Hck : cks s' = remove_key (cs_key t) (cks s)).
          { destruct (v_prompt_rollback v); inversion E; subst; auto.
            rewrite (on_error_csc _ t Hwt). cbn.
            clear. induction (cks s) as [|[k x] l IH]; cbn; auto.
            destruct (String.eqb_spec (cs_key t) k); cbn; auto.
            destruct (String.eqb_spec (cs_key t) k); [congruence|]. now rewrite IH. }
          assert (r = RDeclined) by (destruct (v_prompt_rollback v); inversion E; auto). subst r.
          apply CS_bad; auto.
          -- eapply recc_remove_same; eauto.
          -- intros; eapply recc_remove_other; eauto.
        * cbn [andb] in E.
          destruct (guard_ok s t); cbn [negb] in E.
          2:{ (* the sub-call fails: a failing command *)
              inversion E; subst. clear E. rewrite (on_error_csc _ t Hwt).
              assert (Hck : cks (with_cks (mkdir s2 (t_dir t)) (remove_key (cs_key t) (cks (mkdir s2 (t_dir t)))))
                            = remove_key (cs_key t) (cks s)).
              { cbn [cks with_cks]. rewrite cks_mkdir'. unfold s2. cbn [cks with_cks].
                clear. induction (cks s) as [|[k x] l IH]; cbn; auto.
                destruct (String.eqb_spec (cs_key t) k); cbn; auto.
                destruct (String.eqb_spec (cs_key t) k); [congruence|]. now rewrite IH. }
              apply CS_bad; auto.
              - eapply recc_remove_same; eauto.
              - intros; eapply recc_remove_other; eauto. }
          unfold run_cmds, after_success in E. rewrite Hsafe in E.
          set (sm := child_trace (mkdir s2 (t_dir t)) tid t) in *.
          assert (Hsm : cks sm = remove_key (cs_key t) (cks s)).
          { unfold sm, child_trace. destruct (t_subguard t); cbn [cks with_trace]; rewrite cks_mkdir'; reflexivity. }
          set (sok := write_outputs (N.succ now) (with_trace sm (add_trace tid 0 (t_ncmds t) (trace sm))) t) in *.
          assert (Hsok : cks sok = remove_key (cs_key t) (cks s)) by (unfold sok; cbn; exact Hsm).
          assert (Hokc : ((if negb force || v_force_records v then record matchb H Hx v now (fs s) sok t else sok), ROk) = (s', r) ->
                         csum s m t s' r).
          { intros E1. inversion E1; subst. clear E1. apply CS_ok; auto.
            - destruct (negb force || v_force_records v) eqn:Erok.
              + left. rewrite (record_csc _ _ _ _ Hwt). unfold recc. cbn [cks with_cks]. apply lookup_set_eq.
              + right. apply orb_false_iff in Erok. destruct Erok as [Ef Er].
                destruct m; subst force; cbn in Ef; try discriminate. repeat split; auto.
                eapply recc_remove_same; eauto.
            - intros t' Hk. destruct (negb force || v_force_records v).
              + rewrite (record_csc _ _ _ _ Hwt). unfold recc. cbn [cks with_cks]. rewrite lookup_set_neq by congruence.
                rewrite Hsok. apply lookup_remove_neq. congruence.
              + eapply recc_remove_other; eauto. }
          destruct o as [|k| |k]; try (now apply Hokc).
          -- destruct (Nat.ltb k (t_ncmds t)); [|now apply Hokc].
             inversion E; subst. clear E. apply CS_bad; auto.
             ++ rewrite (on_error_csc _ t Hwt). unfold recc. cbn. apply lookup_remove_eq.
             ++ intros t' Hk. rewrite (on_error_csc _ t Hwt). unfold recc. cbn.
                rewrite lookup_remove_neq by congruence. rewrite Hsm. apply lookup_remove_neq. congruence.
          -- destruct (Nat.ltb k (t_ncmds t)); [|now apply Hokc].
             inversion E; subst. clear E. apply CS_bad; auto.
             ++ unfold recc. cbn. rewrite Hsm. apply lookup_remove_eq.
             ++ intros t' Hk. unfold recc. cbn. rewrite Hsm. apply lookup_remove_neq. congruence.
  Qed.

  (* ---------------- C04 ---------------- *)

  (* carve-out for 7.8: the fingerprint being checked does not collide with a different one at which the
     task was attempted before (a boolean over the observed history, evaluated along the monitor's ghost) *)
  Definition nocoll_step (tid : nat) (fp : fpr) (g : ghost04) : bool :=
    forallb (fun e => negb (Nat.eqb (fst (fst e)) tid && String.eqb (D (snd (fst e))) (D fp))
                      || fpr_eqb (snd (fst e)) fp) g.

  Fixpoint nocoll_run (p : project) (before : fsmap) (g : ghost04) (l : list ostep) : bool :=
    match l with
    | [] => true
    | e :: r =>
        match snd (o_ev e) with
        | Invoke m tid _ => match nth_error p tid with
                            | Some t => nocoll_step tid (task_fp t (deps_fs m (fst (o_ev e)) t before)) g
                            | None => true
                            end
        | _ => true
        end
        && nocoll_run p (fs_of_snap (o_snap e)) (snd (c04_step matchb p before g e)) r
    end.

  Lemma g04_lookup_in : forall tid fp g b, g04_lookup tid fp g = Some b -> In (tid, fp, b) g.
  Proof.
    intros tid fp g b; induction g as [|[[t' f'] b'] g IH]; cbn; [discriminate|].
    destruct (Nat.eqb_spec tid t') as [E|E]; cbn.
    - destruct (fpr_eqb fp f') eqn:F.
      + apply fpr_eqb_eq in F. intros Hs. inversion Hs; subst. now left.
      + intros Hs. right. auto.
    - intros Hs. right. auto.
  Qed.

  Lemma nocoll_use : forall tid fp fp0 g b,
    nocoll_step tid fp g = true -> In (tid, fp0, b) g -> D fp0 = D fp -> fp0 = fp.
  Proof.
    intros tid fp fp0 g b Hn Hin Hd. unfold nocoll_step in Hn. rewrite forallb_forall in Hn.
    specialize (Hn _ Hin). cbn in Hn. rewrite Nat.eqb_refl, Hd, String.eqb_refl in Hn. cbn in Hn.
    now apply fpr_eqb_eq.
  Qed.

  Definition InvC (p : project) (s : state) (g : ghost04) : Prop :=
    forall tid t d, nth_error p tid = Some t -> recc s t = Some d ->
      exists fp, d = D fp /\ g04_lookup tid fp g = Some true.

  Lemma invC_same : forall p s s' g, cks s' = cks s -> InvC p s g -> InvC p s' g.
  Proof. intros p s s' g E Hinv tid t d Hn Hr. unfold recc in Hr. rewrite E in Hr. eauto. Qed.

  Lemma invC_attempt : forall p s s' g tid t fp b,
    wf_csc_proj p -> nth_error p tid = Some t -> InvC p s g ->
    (recc s' t = None \/ (b = true /\ recc s' t = Some (D fp))) ->
    (forall t', cs_key t <> cs_key t' -> recc s' t' = recc s t') ->
    InvC p s' ((tid, fp, b) :: g).
  Proof.
    intros p s s' g tid t fp b [Hwf Hkeys] Hn Hinv Hrec Hoth tid' t' d Hn' Hr.
    destruct (Nat.eq_dec tid' tid) as [E|E].
    - subst tid'. assert (t' = t) by congruence. subst t'.
      destruct Hrec as [Hrec|[-> Hrec]]; [congruence|].
      exists fp. split; [congruence|]. cbn. now rewrite Nat.eqb_refl, fpr_eqb_refl.
    - assert (Hk : cs_key t <> cs_key t').
      { intros Ek. apply E. symmetry. eapply Hkeys; eauto. }
      rewrite Hoth in Hr by auto. destruct (Hinv _ _ _ Hn' Hr) as [fp0 [Ed Hl]].
      exists fp0. split; auto. cbn. destruct (Nat.eqb_spec tid' tid); [congruence|exact Hl].
  Qed.

  Lemma c04_current_run : forall p, wf_csc_proj p -> forall h s g,
    InvC p s g ->
    nocoll_run p (fs s) g (observe v p s h) = true ->
    c04_run matchb p (fs s) g (observe v p s h) = true.
  Proof.
    intros p Hwf h; induction h as [|[t0 o] h IH]; intros s g Hinv Hnc; cbn; auto.
    cbn [Model.observe] in Hnc |- *.
    destruct (step v p s (t0, o)) as [s' x] eqn:Es. cbn [c04_run nocoll_run] in Hnc |- *.
    apply andb_true_iff in Hnc. destruct Hnc as [Hn1 Hnc]. cbn [o_snap o_ev snd] in Hn1, Hnc.
    rewrite fs_of_snap_of in Hnc.
    destruct (c04_step matchb p (fs s) g {| o_ev := (t0, o); o_res := x; o_snap := snap_of s' |}) as [ok g'] eqn:Ec.
    cbn [snd] in Hnc. cbn [o_snap]. rewrite fs_of_snap_of.
    assert (Hgoal : ok = true /\ InvC p s' g').
    { unfold c04_step in Ec. cbn [o_ev o_res snd] in Ec.
      destruct o as [pth c|pth|pth|pth q|pth tm|m tid oc];
        try (file_op_case Es; inversion Ec; subst; split; auto; fail).
      unfold Model.step in Es. cbn [snd fst] in Es. unfold invoke in Es.
      destruct (nth_error p tid) as [t|] eqn:Hn.
      2:{ inversion Ec; subst. split; auto.
          destruct m; inversion Es; subst; auto.
          rewrite list_json_quiet; auto. }
      pose proof Hwf as [Hwt Hkeys]. pose proof (Hwt _ _ Hn) as Hwt'.
      assert (Hrun : forall mm, (mm = Run \/ mm = Force \/ mm = Dry) -> m = mm ->
                run_task matchb H Hx v t0 s mm tid t oc = (s', x) -> ok = true /\ InvC p s' g').
      { intros mm Hmm -> Er.
        change (run_task matchb H Hx v t0 s mm tid t oc)
          with (run_task_core matchb H Hx v t0 (pre_state mm t0 t s) mm tid t oc) in Er.
        cbn [fst] in Ec, Hn1. change (deps_fs mm t0 t (fs s)) with (fs (pre_state mm t0 t s)) in Ec, Hn1.
        assert (Hinv0 : InvC p (pre_state mm t0 t s) g) by (eapply invC_same; [|exact Hinv]; reflexivity).
        clear Hinv. set (s0 := pre_state mm t0 t s) in *.
        pose proof (run_task_csum _ _ _ _ _ _ _ _ Hwt' Hmm Er) as Sm.
        destruct Sm as [Hnf Hup -> ->|Hd Hup Hss Hrd|Hnd Hup Hr Hnone Hoth|Hnd Hup -> Hrec Hoth].
        - cbn [is_skipped] in Ec.
          assert (Hat : is_attempt mm RSkipped = false) by (destruct mm; reflexivity).
          rewrite Hat in Ec.
          unfold upf in Hup. apply andb_true_iff in Hup. destruct Hup as [_ Hup].
          apply andb_true_iff in Hup. destruct Hup as [Hrec Hgen].
          apply str_eq_opt_true in Hrec. destruct (Hinv0 _ _ _ Hn Hrec) as [fp0 [Ed Hl]].
          assert (fp0 = task_fp t (fs s0)) by (eapply nocoll_use; eauto using g04_lookup_in).
          subst fp0. rewrite Hl, Hgen in Ec. inversion Ec; subst. auto.
        - subst mm. destruct Hrd as [-> | ->]; cbn in Ec; inversion Ec; subst; (split; [reflexivity | eapply invC_same; eauto]).
        - assert (Hat : is_attempt mm x = true).
          { destruct Hmm as [->|[->| ->]]; try congruence; destruct Hr as [->|[->| ->]]; reflexivity. }
          assert (Hsk : is_skipped x = false) by (destruct Hr as [->|[->| ->]]; reflexivity).
          rewrite Hat, Hsk in Ec. inversion Ec; subst. split; auto.
          eapply invC_attempt; eauto.
        - assert (Hat : is_attempt mm ROk = true) by (destruct Hmm as [->|[->| ->]]; try congruence; reflexivity).
          rewrite Hat in Ec. cbn in Ec. inversion Ec; subst. split; auto.
          eapply invC_attempt; eauto.
          destruct Hrec as [Hrec|[_ [_ Hrec]]]; auto. }
      destruct m.
      - apply (Hrun Run); auto.
      - apply (Hrun Force); auto.
      - apply (Hrun Dry); auto.
      - rewrite (uptodate_csc t0 s t Hwt') in Es. inversion Es; subst. cbn in Ec. inversion Ec; subst. auto.
      - rewrite list_json_quiet in Es by auto. inversion Es; subst. cbn in Ec. inversion Ec; subst. auto.
      - inversion Es; subst. cbn in Ec. inversion Ec; subst. auto.
      - inversion Es; subst. cbn in Ec. inversion Ec; subst. auto. }
    destruct Hgoal as [-> Hinv']. cbn. apply IH; auto.
  Qed.

  Theorem c04_current_checksum : forall p s h,
    wf_csc_proj p -> cks s = [] ->
    nocoll_run p (fs s) [] (observe v p s h) = true ->
    mon_C04 matchb p (snap_of s) (observe v p s h) = true.
  Proof.
    intros p s h Hwf He Hnc. unfold mon_C04. rewrite fs_of_snap_of.
    apply c04_current_run; auto.
    intros tid t d _ Hr. unfold recc in Hr. rewrite He in Hr. discriminate.
  Qed.

  (* ---------------- C05 ---------------- *)
  Hypothesis Hforce : v_force_records v = true.

  (* the same carve-out along the ghost of mon_C05: the fingerprint of the task's most recent attempt *)
  Definition nocoll5_step (tid : nat) (fp : fpr) (g : ghost05) : bool :=
    match lookup_nat tid g with
    | Some (fp0, _) => negb (String.eqb (D fp0) (D fp)) || fpr_eqb fp0 fp
    | None => true
    end.

  Fixpoint nocoll5_run (p : project) (before : fsmap) (g : ghost05) (l : list ostep) : bool :=
    match l with
    | [] => true
    | e :: r =>
        match snd (o_ev e) with
        | Invoke m tid _ => match nth_error p tid with
                            | Some t => nocoll5_step tid (task_fp t (deps_fs m (fst (o_ev e)) t before)) g
                            | None => true
                            end
        | _ => true
        end
        && nocoll5_run p (fs_of_snap (o_snap e)) (snd (c05_step matchb p before g e)) r
    end.

  Definition InvC5 (p : project) (s : state) (g : ghost05) : Prop :=
    forall tid t, nth_error p tid = Some t ->
      match lookup_nat tid g with
      | Some (fp0, true) => recc s t = Some (D fp0)
      | _ => recc s t = None
      end.

  Lemma invC5_same : forall p s s' g, cks s' = cks s -> InvC5 p s g -> InvC5 p s' g.
  Proof. intros p s s' g E Hinv tid t Hn. unfold recc. rewrite E. now apply Hinv. Qed.

  Lemma invC5_attempt : forall p s s' g tid t fp (b : bool),
    wf_csc_proj p -> nth_error p tid = Some t -> InvC5 p s g ->
    (recc s' t = if b then Some (D fp) else None) ->
    (forall t', cs_key t <> cs_key t' -> recc s' t' = recc s t') ->
    InvC5 p s' ((tid, (fp, b)) :: g).
  Proof.
    intros p s s' g tid t fp b [Hwf Hkeys] Hn Hinv Hrec Hoth tid' t' Hn'.
    cbn [lookup_nat]. destruct (Nat.eqb_spec tid' tid) as [E|E].
    - subst tid'. assert (t' = t) by congruence. subst t'. destruct b; auto.
    - assert (Hk : cs_key t <> cs_key t').
      { intros Ek. apply E. symmetry. eapply Hkeys; eauto. }
      rewrite Hoth by auto. now apply Hinv.
  Qed.

  Lemma c05_current_run : forall p, wf_csc_proj p -> forall h s g,
    InvC5 p s g ->
    nocoll5_run p (fs s) g (observe v p s h) = true ->
    c05_run matchb p (fs s) g (observe v p s h) = true.
  Proof.
    intros p Hwf h; induction h as [|[t0 o] h IH]; intros s g Hinv Hnc; cbn; auto.
    cbn [Model.observe] in Hnc |- *.
    destruct (step v p s (t0, o)) as [s' x] eqn:Es. cbn [c05_run nocoll5_run] in Hnc |- *.
    apply andb_true_iff in Hnc. destruct Hnc as [Hn1 Hnc]. cbn [o_snap o_ev snd] in Hn1, Hnc.
    rewrite fs_of_snap_of in Hnc.
    destruct (c05_step matchb p (fs s) g {| o_ev := (t0, o); o_res := x; o_snap := snap_of s' |}) as [ok g'] eqn:Ec.
    cbn [snd] in Hnc. cbn [o_snap]. rewrite fs_of_snap_of.
    assert (Hgoal : ok = true /\ InvC5 p s' g').
    { unfold c05_step in Ec. cbn [o_ev o_res snd] in Ec.
      destruct o as [pth c|pth|pth|pth q|pth tm|m tid oc];
        try (file_op_case Es; inversion Ec; subst; split; auto; fail).
      unfold Model.step in Es. cbn [snd fst] in Es. unfold invoke in Es.
      destruct (nth_error p tid) as [t|] eqn:Hn.
      2:{ inversion Ec; subst. split; auto.
          destruct m; inversion Es; subst; auto.
          rewrite list_json_quiet; auto. }
      pose proof Hwf as [Hwt Hkeys]. pose proof (Hwt _ _ Hn) as Hwt'.
      (* the monitor's expectation is the model's decision *)
      assert (Hexp : forall st fp0 b0, lookup_nat tid g = Some (fp0, b0) -> recc st t = Some (D fp0) ->
                nocoll5_step tid (task_fp t (fs st)) g = true ->
                fpr_eqb (task_fp t (fs st)) fp0 && gens_exist matchb (fs st) t
                  && (is_nil (t_status t) || status_ok (fs st) t) = upf st t).
      { intros st fp0 b0 El Hr Hnc1. unfold upf. rewrite Hr. cbn [str_eq_opt].
        unfold nocoll5_step in Hnc1. rewrite El in Hnc1.
        assert (Heq : String.eqb (D fp0) (D (task_fp t (fs st))) = fpr_eqb (task_fp t (fs st)) fp0).
        { destruct (String.eqb (D fp0) (D (task_fp t (fs st)))) eqn:E1; cbn in Hnc1.
          - apply fpr_eqb_eq in Hnc1. subst fp0. symmetry. apply fpr_eqb_refl.
          - destruct (fpr_eqb (task_fp t (fs st)) fp0) eqn:E2; auto.
            apply fpr_eqb_eq in E2. subst fp0. rewrite String.eqb_refl in E1. discriminate. }
        rewrite Heq. clear Hnc1 Heq.
        destruct (fpr_eqb (task_fp t (fs st)) fp0), (gens_exist matchb (fs st) t),
                 (is_nil (t_status t) || status_ok (fs st) t); reflexivity. }
      assert (Hrun : forall mm, (mm = Run \/ mm = Force \/ mm = Dry) -> m = mm ->
                run_task matchb H Hx v t0 s mm tid t oc = (s', x) -> ok = true /\ InvC5 p s' g').
      { intros mm Hmm -> Er.
        change (run_task matchb H Hx v t0 s mm tid t oc)
          with (run_task_core matchb H Hx v t0 (pre_state mm t0 t s) mm tid t oc) in Er.
        cbn [fst] in Ec, Hn1. change (deps_fs mm t0 t (fs s)) with (fs (pre_state mm t0 t s)) in Ec, Hn1.
        assert (Hinv0 : InvC5 p (pre_state mm t0 t s) g) by (eapply invC5_same; [|exact Hinv]; reflexivity).
        clear Hinv. set (s0 := pre_state mm t0 t s) in *.
        pose proof (run_task_csum _ _ _ _ _ _ _ _ Hwt' Hmm Er) as Sm.
        pose proof (Hinv0 _ _ Hn) as Hi.
        destruct Sm as [Hnf Hup -> ->|Hd Hup Hss Hrd|Hnd Hup Hr Hnone Hoth|Hnd Hup -> Hrec Hoth].
        - assert (Hat : is_attempt mm RSkipped = false) by (destruct mm; reflexivity).
          rewrite Hat in Ec.
          destruct Hmm as [->|[->| ->]]; try congruence.
          + destruct (lookup_nat tid g) as [[fp0 [|]]|] eqn:El.
            * rewrite (Hexp s0 _ _ eq_refl Hi Hn1), Hup in Ec. inversion Ec; subst; auto.
            * inversion Ec; subst; auto.
            * inversion Ec; subst; auto.
          + inversion Ec; subst; auto.
        - subst mm. destruct Hrd as [-> | ->]; cbn in Ec; inversion Ec; subst; (split; [reflexivity | eapply invC5_same; eauto]).
        - assert (Hat : is_attempt mm x = true).
          { destruct Hmm as [->|[->| ->]]; try congruence; destruct Hr as [->|[->| ->]]; reflexivity. }
          assert (Hok : is_ok x = false) by (destruct Hr as [->|[->| ->]]; reflexivity).
          rewrite Hat, Hok in Ec.
          assert (Hinv' : InvC5 p s' ((tid, (task_fp t (fs s0), false)) :: g)).
          { eapply invC5_attempt; eauto. }
          destruct Hmm as [->|[->| ->]]; try congruence.
          + destruct Hup as [Hup|Hup]; [discriminate|].
            destruct (lookup_nat tid g) as [[fp0 [|]]|] eqn:El.
            * rewrite (Hexp s0 _ _ eq_refl Hi Hn1), Hup in Ec.
              destruct Hr as [->|[->| ->]]; inversion Ec; subst; auto.
            * inversion Ec; subst; auto.
            * inversion Ec; subst; auto.
          + assert (Hsk : is_skipped x = false) by (destruct Hr as [->|[->| ->]]; reflexivity).
            rewrite Hsk in Ec. inversion Ec; subst; auto.
        - assert (Hat : is_attempt mm ROk = true) by (destruct Hmm as [->|[->| ->]]; try congruence; reflexivity).
          rewrite Hat in Ec. cbn [is_ok] in Ec.
          assert (Hrec' : recc s' t = Some (D (task_fp t (fs s0)))).
          { destruct Hrec as [Hrec|[_ [Hf _]]]; auto. congruence. }
          assert (Hinv' : InvC5 p s' ((tid, (task_fp t (fs s0), true)) :: g)).
          { eapply invC5_attempt; eauto. }
          destruct Hmm as [->|[->| ->]]; try congruence.
          + destruct Hup as [Hup|Hup]; [discriminate|].
            destruct (lookup_nat tid g) as [[fp0 [|]]|] eqn:El.
            * rewrite (Hexp s0 _ _ eq_refl Hi Hn1), Hup in Ec. inversion Ec; subst; auto.
            * inversion Ec; subst; auto.
            * inversion Ec; subst; auto.
          + cbn in Ec. inversion Ec; subst; auto. }
      destruct m.
      - apply (Hrun Run); auto.
      - apply (Hrun Force); auto.
      - apply (Hrun Dry); auto.
      - rewrite (uptodate_csc t0 s t Hwt') in Es. inversion Es; subst. cbn in Ec. inversion Ec; subst. auto.
      - rewrite list_json_quiet in Es by auto. inversion Es; subst. cbn in Ec. inversion Ec; subst. auto.
      - inversion Es; subst. cbn in Ec. inversion Ec; subst. auto.
      - inversion Es; subst. cbn in Ec. inversion Ec; subst. auto. }
    destruct Hgoal as [-> Hinv']. cbn. apply IH; auto.
  Qed.

  Theorem c05_current_checksum : forall p s h,
    wf_csc_proj p -> cks s = [] ->
    nocoll5_run p (fs s) [] (observe v p s h) = true ->
    mon_C05 matchb p (snap_of s) (observe v p s h) = true.
  Proof.
    intros p s h Hwf He Hnc. unfold mon_C05. rewrite fs_of_snap_of.
    apply c05_current_run; auto.
    intros tid t _. cbn. unfold recc. now rewrite He.
  Qed.
End CurrentCs.
