(* The repaired protocol (v_safe, exact fingerprints): how one invocation
   changes the per-task record.  Used by ProofsC04 and ProofsC05. *)
From Coq Require Import List String Ascii NArith Bool Arith ZArith Lia.
Import ListNotations.
From TV Require Import Fp.Model Fp.ProofsBase Fp.ProofsC12.
Local Open Scope string_scope.
Local Open Scope list_scope.

(* which file of .task a task's record lives in *)
Definition rkey (t : task) : option (bool * string) :=
  match t_method t with
  | Checksum => Some (false, cs_key t)
  | Timestamp => Some (true, ts_key t)
  | NoMethod => None
  end.

(* the record, in the variant whose timestamp method stores a digest *)
Definition rec_of (s : state) (t : task) : option string :=
  match t_method t with
  | Checksum => lookup (cs_key t) (cks s)
  | Timestamp => lookup (ts_key t) (tsx s)
  | NoMethod => None
  end.

Definition same_store (s s' : state) : Prop := cks s = cks s' /\ tsx s = tsx s'.

Lemma rec_of_same_store : forall s s' t, same_store s s' -> rec_of s' t = rec_of s t.
Proof. intros s s' t [E1 E2]. unfold rec_of. now rewrite E1, E2. Qed.

Lemma same_store_refl : forall s, same_store s s.
Proof. split; reflexivity. Qed.

Lemma same_store_trans : forall a b c, same_store a b -> same_store b c -> same_store a c.
Proof. intros a b c [? ?] [? ?]; split; congruence. Qed.

Lemma same_store_mkdir : forall s d, same_store s (mkdir s d).
Proof.
  intros s d. unfold mkdir. destruct (String.eqb d ""); [apply same_store_refl|].
  destruct (existsb _ _); split; reflexivity.
Qed.

Lemma same_store_trace : forall s x, same_store s (with_trace s x).
Proof. split; reflexivity. Qed.

Lemma same_store_fs : forall s x, same_store s (with_fs s x).
Proof. split; reflexivity. Qed.

Lemma same_store_outputs : forall now s t, same_store s (write_outputs now s t).
Proof. split; reflexivity. Qed.

Lemma same_store_child : forall s tid t, same_store s (child_trace s tid t).
Proof. intros. unfold child_trace. destruct (t_subguard t); split; reflexivity. Qed.

(* the state the up-to-date check sees: after the deps ran *)
Definition pre_state (m : mode) (now : N) (t : task) (s : state) : state := with_fs s (deps_fs m now t (fs s)).

Lemma same_store_pre : forall m now t s, same_store s (pre_state m now t s).
Proof. split; reflexivity. Qed.

Lemma deps_fs_none : forall m now t f, t_dep t = None -> deps_fs m now t f = f.
Proof. intros m now t f E. unfold deps_fs, dep_write. rewrite E. now destruct m. Qed.

Lemma pre_state_none : forall m now t s, t_dep t = None -> pre_state m now t s = s.
Proof. intros. unfold pre_state. rewrite deps_fs_none by auto. apply with_fs_id. Qed.

Section Safe.
  Variable matchb : string -> path -> bool.
  Variable H : string -> string.
  Variable Hx : fpr -> string.
  Variable v : variant.
  Hypothesis Hsafe : v_safe v = true.
  Hypothesis Hfp : v_fp_exact v = true.
  Hypothesis Hts : v_ts_exact v = true.
  Hypothesis Hdfg : v_dry_fail_guard v = true.

  Notation uptodate := (uptodate matchb H Hx).
  Notation task_fp := (task_fp matchb).
  Notation gens_exist := (gens_exist matchb).

  (* the decision of IsTaskUpToDate as a formula over the record *)
  Definition up_formula (s : state) (t : task) : bool :=
    (is_nil (t_status t) || status_ok (fs s) t)
    && (str_eq_opt (rec_of s t) (Hx (task_fp t (fs s))) && gens_exist (fs s) t).

  Lemma uptodate_safe : forall now s t,
    t_sources t <> [] ->
    uptodate v true now s t = (up_formula s t, s).
  Proof.
    intros now s t Hsrc.
    pose proof (uptodate_quiet matchb H Hx v now s t) as Est.
    destruct (uptodate v true now s t) as [b s'] eqn:E. cbn in Est. subst s'. f_equal.
    unfold Model.uptodate in E.
    assert (Hnn : negb (is_nil (t_sources t)) = true) by (destruct (t_sources t); [congruence|reflexivity]).
    rewrite Hnn in E.
    unfold up_formula, rec_of, Model.task_fp, fp_of.
    assert (Hsrc' : fst (check_sources matchb H Hx v true now s t) =
                    str_eq_opt (match t_method t with
                                | Checksum => lookup (cs_key t) (cks s)
                                | Timestamp => lookup (ts_key t) (tsx s)
                                | NoMethod => None end)
                               (Hx match t_method t with
                                   | Timestamp => fp_ts matchb (fs s) (t_sources t)
                                   | _ => fp_cs matchb (fs s) (t_sources t) end)
                    && gens_exist (fs s) t).
    { unfold check_sources. destruct (t_method t).
      - unfold check_checksum, dg. rewrite Hfp. reflexivity.
      - rewrite Hts. unfold check_timestamp_exact. reflexivity.
      - reflexivity. }
    destruct (check_sources matchb H Hx v true now s t) as [src s1]. cbn [fst] in Hsrc'. subst src.
    inversion E; subst b. clear E.
    destruct (is_nil (t_status t)); cbn [negb andb orb]; [reflexivity|].
    now destruct (status_ok (fs s) t).
  Qed.

  (* ---- effect of the three record operations ---- *)

  Lemma rec_on_error_same : forall s t, t_sources t <> [] -> rec_of (on_error v s t) t = None.
  Proof.
    intros s t Hsrc. unfold rec_of, on_error. destruct (t_method t); auto.
    - destruct (t_sources t); [congruence|]. cbn. apply lookup_remove_eq.
    - rewrite Hts. cbn. apply lookup_remove_eq.
  Qed.

  Lemma rec_on_error_other : forall s t t', rkey t <> rkey t' -> rec_of (on_error v s t) t' = rec_of s t'.
  Proof.
    intros s t t' Hk. unfold rec_of, on_error, rkey in *.
    destruct (t_method t) eqn:Em, (t_method t') eqn:Em'; try rewrite Hts; auto;
      try (destruct (is_nil (t_sources t)); cbn; auto; fail).
    - destruct (is_nil (t_sources t)); cbn; auto. apply lookup_remove_neq. congruence.
    - cbn. apply lookup_remove_neq. congruence.
  Qed.

  Lemma rec_invalidate_same : forall s t, t_sources t <> [] -> rec_of (invalidate v s t) t = None.
  Proof. intros. unfold invalidate. now apply rec_on_error_same. Qed.

  Lemma rec_invalidate_other : forall s t t', rkey t <> rkey t' -> rec_of (invalidate v s t) t' = rec_of s t'.
  Proof. intros. unfold invalidate. now apply rec_on_error_other. Qed.

  Lemma rec_record_same : forall now f0 s t, t_method t <> NoMethod ->
    rec_of (record matchb H Hx v now f0 s t) t = Some (Hx (task_fp t f0)).
  Proof.
    intros now f0 s t Hm. unfold rec_of, record, Model.task_fp, fp_of, dg.
    destruct (t_method t); try congruence.
    - rewrite Hfp. cbn. apply lookup_set_eq.
    - rewrite Hts. cbn. apply lookup_set_eq.
  Qed.

  Lemma rec_record_other : forall now f0 s t t', rkey t <> rkey t' ->
    rec_of (record matchb H Hx v now f0 s t) t' = rec_of s t'.
  Proof.
    intros now f0 s t t' Hk. unfold rec_of, record, rkey in *.
    destruct (t_method t), (t_method t'); try rewrite Hts; cbn; auto.
    - apply lookup_set_neq. congruence.
    - apply lookup_set_neq. congruence.
  Qed.

  (* ---- one direct invocation of a task, summarised ---- *)

  Inductive run_summary (s : state) (m : mode) (t : task) (s' : state) (r : res) : Prop :=
  | RS_skip : m <> Force -> up_formula s t = true -> s' = s -> r = RSkipped -> run_summary s m t s' r
  | RS_dry : m = Dry -> up_formula s t = false -> same_store s s' -> (r = RDry \/ r = RFailed) -> run_summary s m t s' r
  | RS_bad : m <> Dry -> (m = Force \/ up_formula s t = false) ->
             (r = RDeclined \/ r = RFailed \/ r = RKilled) ->
             rec_of s' t = None ->
             (forall t', rkey t <> rkey t' -> rec_of s' t' = rec_of s t') ->
             run_summary s m t s' r
  | RS_ok : m <> Dry -> (m = Force \/ up_formula s t = false) -> r = ROk ->
            (rec_of s' t = Some (Hx (task_fp t (fs s)))
             \/ (m = Force /\ v_force_records v = false /\ rec_of s' t = None)) ->
            (forall t', rkey t <> rkey t' -> rec_of s' t' = rec_of s t') ->
            run_summary s m t s' r.

  Lemma run_cmds_summary : forall now f0 force s tid t o s' r,
    t_sources t <> [] -> t_method t <> NoMethod ->
    rec_of s t = None ->
    run_cmds matchb H Hx v now f0 force s tid t o = (s', r) ->
    ((r = RFailed \/ r = RKilled) /\ rec_of s' t = None
     \/ r = ROk /\ (if negb force || v_force_records v then rec_of s' t = Some (Hx (task_fp t f0)) else rec_of s' t = None))
    /\ (forall t', rkey t <> rkey t' -> rec_of s' t' = rec_of s t').
  Proof.
    intros now f0 force s tid t o s' r Hsrc Hm Hnone E.
    set (rok := negb force || v_force_records v) in *.
    assert (Hok : forall s1, same_store s s1 ->
              (after_success matchb H Hx v now f0 force s1 t, ROk) = (s', r) ->
              ((r = RFailed \/ r = RKilled) /\ rec_of s' t = None
               \/ r = ROk /\ (if rok then rec_of s' t = Some (Hx (task_fp t f0)) else rec_of s' t = None))
              /\ (forall t', rkey t <> rkey t' -> rec_of s' t' = rec_of s t')).
    { intros s1 Hss E1. unfold after_success in E1. rewrite Hsafe in E1. fold rok in E1.
      inversion E1; subst. clear E1. split.
      - right. split; auto. destruct rok.
        + now apply rec_record_same.
        + now rewrite (rec_of_same_store _ _ _ Hss).
      - intros t' Hk. destruct rok.
        + rewrite rec_record_other by auto. now apply rec_of_same_store.
        + now apply rec_of_same_store. }
    unfold run_cmds in E.
    set (sok := write_outputs (N.succ now) (with_trace s (add_trace tid 0 (t_ncmds t) (trace s))) t) in *.
    assert (Hsok : same_store s sok).
    { unfold sok. eapply same_store_trans; [apply same_store_trace | apply same_store_outputs]. }
    destruct o as [|k| |k].
    - now apply (Hok sok).
    - destruct (Nat.ltb k (t_ncmds t)).
      + inversion E; subst. clear E. split.
        * left. split; auto. now apply rec_on_error_same.
        * intros t' Hk. rewrite rec_on_error_other by auto. apply rec_of_same_store, same_store_trace.
      + now apply (Hok sok).
    - now apply (Hok sok).
    - destruct (Nat.ltb k (t_ncmds t)).
      + inversion E; subst. clear E. split.
        * left. split; auto.
        * intros t' Hk. apply rec_of_same_store, same_store_trace.
      + now apply (Hok sok).
  Qed.

  Lemma run_task_summary : forall now s m tid t o s' r,
    t_sources t <> [] -> t_method t <> NoMethod ->
    (m = Run \/ m = Force \/ m = Dry) ->
    run_task_core matchb H Hx v now s m tid t o = (s', r) ->
    run_summary s m t s' r.
  Proof.
    intros now s m tid t o s' r Hsrc Hm Hmode E. unfold run_task_core in E.
    set (dry := match m with Dry => true | _ => false end) in *.
    set (force := match m with Force => true | _ => false end) in *.
    assert (Eup : (if force then (false, s) else uptodate v (dry || v_safe v) now s t)
                  = ((if force then false else up_formula s t), s)).
    { destruct force; auto. rewrite Hsafe, orb_true_r. now apply uptodate_safe. }
    rewrite Eup in E. clear Eup.
    destruct (if force then false else up_formula s t) eqn:Eu.
    - (* skipped *)
      inversion E; subst. apply RS_skip; auto.
      + intros ->. subst force. discriminate.
      + destruct force; [discriminate|auto].
    - assert (Hnu : m = Force \/ up_formula s t = false).
      { destruct m; subst force; cbn in Eu; auto. }
      rewrite Hsafe in E. cbn [andb] in E.
      destruct dry eqn:Ed.
      + (* dry run past the check *)
        assert (m = Dry) by (destruct m; subst dry; try discriminate; auto). subst m.
        cbn [negb andb] in E. rewrite andb_false_r in E. cbn [andb] in E. rewrite Hdfg in E.
        destruct Hnu as [?|Hnu]; [discriminate|].
        destruct (guard_ok s t); cbn [negb] in E;
          destruct (v_dry_mkdir_guard v); inversion E; subst; apply RS_dry; auto using same_store_refl, same_store_mkdir.
      + assert (Hnd : m <> Dry) by (intros ->; subst dry; discriminate).
        cbn [negb andb] in E. rewrite andb_true_r in E.
        destruct (t_prompt t && is_prompt_no o).
        * (* declined *)
          inversion E; subst. clear E. apply RS_bad; auto.
          -- destruct (v_prompt_rollback v); [now apply rec_on_error_same | now apply rec_invalidate_same].
          -- intros t' Hk. destruct (v_prompt_rollback v).
             ++ rewrite rec_on_error_other by auto. now apply rec_invalidate_other.
             ++ now apply rec_invalidate_other.
        * cbn [andb] in E.
          destruct (guard_ok s t); cbn [negb] in E.
          2:{ (* the sub-call fails: a failing command *)
              inversion E; subst. clear E. apply RS_bad; auto.
              - now apply rec_on_error_same.
              - intros t' Hk. rewrite rec_on_error_other by auto.
                rewrite (rec_of_same_store (invalidate v s t)) by apply same_store_mkdir.
                now apply rec_invalidate_other. }
          assert (Hnone : rec_of (child_trace (mkdir (invalidate v s t) (t_dir t)) tid t) t = None).
          { rewrite (rec_of_same_store (invalidate v s t)).
            - now apply rec_invalidate_same.
            - eapply same_store_trans; [apply same_store_mkdir | apply same_store_child]. }
          pose proof (run_cmds_summary _ _ _ _ _ _ _ _ _ Hsrc Hm Hnone E) as [Hr Hoth].
          assert (Hoth' : forall t', rkey t <> rkey t' -> rec_of s' t' = rec_of s t').
          { intros t' Hk. rewrite Hoth by auto.
            rewrite (rec_of_same_store (invalidate v s t)).
            - now apply rec_invalidate_other.
            - eapply same_store_trans; [apply same_store_mkdir | apply same_store_child]. }
          destruct Hr as [[Hr Hn]|[Hr Hrec]].
          -- apply RS_bad; auto; destruct Hr; auto.
          -- apply RS_ok; auto.
             destruct (negb force || v_force_records v) eqn:Erok; auto.
             right. apply orb_false_iff in Erok. destruct Erok as [Ef Er].
             destruct m; subst force; cbn in Ef; try discriminate. auto.
  Qed.
End Safe.
