(* Model B "Fp": basic facts (association lists, sorting, equality tests) and the
   specification of Globs. *)
From Coq Require Import List String Ascii NArith Bool Arith Lia Sorting.Sorted Permutation.
Import ListNotations.
From TV Require Import Fp.Model.
Local Open Scope string_scope.

(* ---------------- association lists ---------------- *)

Lemma lookup_remove_eq : forall A k (m : list (string * A)), lookup k (remove_key k m) = None.
Proof.
  intros A k m; induction m as [|[k' v] m IH]; cbn; auto.
  destruct (String.eqb_spec k k') as [E|E]; auto. cbn. destruct (String.eqb_spec k k'); congruence.
Qed.

Lemma lookup_remove_neq : forall A k k' (m : list (string * A)),
  k <> k' -> lookup k (remove_key k' m) = lookup k m.
Proof.
  intros A k k' m Hne; induction m as [|[k2 v] m IH]; cbn; auto.
  destruct (String.eqb_spec k' k2) as [E|E].
  - subst. destruct (String.eqb_spec k k2); congruence.
  - cbn. destruct (String.eqb_spec k k2); auto.
Qed.

Lemma lookup_set_eq : forall A k (v : A) m, lookup k (set_key k v m) = Some v.
Proof. intros; unfold set_key; cbn. now rewrite String.eqb_refl. Qed.

Lemma lookup_set_neq : forall A k k' (v : A) m, k <> k' -> lookup k (set_key k' v m) = lookup k m.
Proof.
  intros A k k' v m Hne; unfold set_key; cbn.
  destruct (String.eqb_spec k k'); try congruence. now apply lookup_remove_neq.
Qed.

Lemma lookup_set : forall A k k' (v : A) m,
  lookup k (set_key k' v m) = if String.eqb k k' then Some v else lookup k m.
Proof.
  intros. destruct (String.eqb_spec k k') as [E|E].
  - subst. apply lookup_set_eq.
  - now apply lookup_set_neq.
Qed.

Lemma leb_refl : forall s, String.leb s s = true.
Proof. intros s. destruct (String.leb_total s s); auto. Qed.

Lemma lookup_insert_kv : forall A k k' (v : A) m,
  lookup k (insert_kv (k', v) m) = if String.eqb k k' then Some v else lookup k m.
Proof.
  intros A k k' v m; induction m as [|[k2 v2] m IH]; cbn.
  - reflexivity.
  - destruct (String.leb k' k2) eqn:L; cbn.
    + reflexivity.
    + rewrite IH. destruct (String.eqb_spec k k') as [E|E]; auto.
      subst. destruct (String.eqb_spec k' k2) as [E2|E2]; auto.
      subst. rewrite leb_refl in L. discriminate.
Qed.

Lemma lookup_fs_set : forall A k k' (v : A) m,
  lookup k (fs_set k' v m) = if String.eqb k k' then Some v else lookup k m.
Proof.
  intros. unfold fs_set. rewrite lookup_insert_kv.
  destruct (String.eqb_spec k k'); auto. now apply lookup_remove_neq.
Qed.

Definition keys {A} (m : list (string * A)) : list string := map fst m.

Lemma keys_remove : forall A k k' (m : list (string * A)),
  In k' (keys (remove_key k m)) -> In k' (keys m) /\ k' <> k.
Proof.
  intros A k k' m; induction m as [|[k2 v] m IH]; cbn; [tauto|].
  destruct (String.eqb_spec k k2) as [E|E]; cbn.
  - intros H; apply IH in H. tauto.
  - intros [H|H]; [subst; split; auto|]. apply IH in H; tauto.
Qed.

Lemma nodup_remove : forall A k (m : list (string * A)), NoDup (keys m) -> NoDup (keys (remove_key k m)).
Proof.
  intros A k m; induction m as [|[k2 v] m IH]; cbn; intros H; [constructor|].
  inversion H; subst. destruct (String.eqb_spec k k2); cbn; auto.
  constructor; auto. intros Hin. apply keys_remove in Hin. tauto.
Qed.

Lemma nodup_set : forall A k (v : A) m, NoDup (keys m) -> NoDup (keys (set_key k v m)).
Proof.
  intros; unfold set_key; cbn. constructor.
  - intros Hin. apply keys_remove in Hin. tauto.
  - now apply nodup_remove.
Qed.

Lemma in_lookup : forall A (m : list (string * A)) k v,
  NoDup (keys m) -> (In (k, v) m <-> lookup k m = Some v).
Proof.
  intros A m k v; induction m as [|[k2 v2] m IH]; cbn; intros Hnd.
  - split; [tauto|discriminate].
  - inversion Hnd; subst. destruct (String.eqb_spec k k2) as [E|E].
    + subst. split.
      * intros [H|H]; [congruence|]. exfalso. apply H1. change k2 with (fst (k2, v)). now apply in_map.
      * intros H; left; congruence.
    + rewrite <- IH by auto. split; [intros [H|H]; [congruence|auto] | auto].
Qed.

Lemma with_fs_id : forall s, with_fs s (fs s) = s.
Proof. intros []; reflexivity. Qed.

(* ---------------- sorting ---------------- *)

Lemma in_insert_str : forall x a l, In x (insert_str a l) <-> x = a \/ In x l.
Proof.
  intros x a l; induction l as [|y r IH]; cbn; [intuition|].
  destruct (String.leb a y); cbn; [intuition|]. rewrite IH. intuition.
Qed.

Lemma in_sort_str : forall x l, In x (sort_str l) <-> In x l.
Proof.
  intros x l; induction l as [|a r IH]; cbn; [tauto|].
  rewrite in_insert_str, IH. intuition.
Qed.

Lemma perm_insert_str : forall a l, Permutation (insert_str a l) (a :: l).
Proof.
  intros a l; induction l as [|y r IH]; cbn; auto.
  destruct (String.leb a y); auto.
  eapply perm_trans; [apply perm_skip, IH | apply perm_swap].
Qed.

Lemma perm_sort_str : forall l, Permutation (sort_str l) l.
Proof.
  induction l as [|a r IH]; cbn; auto.
  eapply perm_trans; [apply perm_insert_str | now apply perm_skip].
Qed.

Definition le_str (a b : string) : Prop := String.leb a b = true.

Lemma insert_str_sorted : forall a l, Sorted le_str l -> Sorted le_str (insert_str a l).
Proof.
  intros a l; induction l as [|y r IH]; cbn; intros Hs.
  - repeat constructor.
  - destruct (String.leb a y) eqn:L.
    + constructor; auto.
    + inversion Hs; subst. constructor; auto.
      assert (Hya : le_str y a) by (destruct (String.leb_total a y); [congruence|auto]).
      destruct r as [|z r']; cbn.
      * constructor; auto.
      * destruct (String.leb a z); constructor; auto. inversion H2; auto.
Qed.

Lemma sort_str_sorted : forall l, Sorted le_str (sort_str l).
Proof. induction l; cbn; [constructor | now apply insert_str_sorted]. Qed.

(* ---------------- equality tests ---------------- *)

Lemma list_eqb_refl : forall A (e : A -> A -> bool) l, (forall x, e x x = true) -> list_eqb e l l = true.
Proof. intros A e l H; induction l; cbn; auto. now rewrite H, IHl. Qed.

Lemma list_eqb_eq : forall A (e : A -> A -> bool),
  (forall x y, e x y = true <-> x = y) -> forall a b, list_eqb e a b = true <-> a = b.
Proof.
  intros A e He a; induction a as [|x a IH]; intros [|y b]; cbn; split; try discriminate; auto.
  - rewrite andb_true_iff, He, IH. intros [-> ->]; auto.
  - intros E; inversion E; subst. rewrite andb_true_iff. split; [now apply He | now apply IH].
Qed.

Lemma fpe_eqb_eq : forall a b, fpe_eqb a b = true <-> a = b.
Proof.
  intros [[p c] m] [[p' c'] m']; unfold fpe_eqb; cbn.
  rewrite !andb_true_iff, !String.eqb_eq, N.eqb_eq. split.
  - intros [[-> ->] ->]; auto.
  - intros E; inversion E; auto.
Qed.

Lemma fpr_eqb_eq : forall a b, fpr_eqb a b = true <-> a = b.
Proof. apply list_eqb_eq, fpe_eqb_eq. Qed.

Lemma fpr_eqb_refl : forall a, fpr_eqb a a = true.
Proof. intros; now apply fpr_eqb_eq. Qed.

Lemma snap_eqb_refl : forall a, snap_eqb a a = true.
Proof.
  intros a; unfold snap_eqb, kvs_eqb, kvn_eqb.
  rewrite !list_eqb_refl; auto; intros.
  - apply Nat.eqb_refl.
  - now rewrite !String.eqb_refl.
  - now rewrite String.eqb_refl, N.eqb_refl.
  - now rewrite !String.eqb_refl.
  - apply String.eqb_refl.
  - now apply fpe_eqb_eq.
Qed.

Lemma res_eqb_refl : forall r, res_eqb r r = true.
Proof. destruct r; cbn; auto. apply Bool.eqb_reflx. Qed.

Lemma str_eq_opt_true : forall o d, str_eq_opt o d = true <-> o = Some d.
Proof.
  intros [x|] d; cbn.
  - rewrite String.eqb_eq. split; congruence.
  - split; discriminate.
Qed.

(* ---------------- Globs ---------------- *)

Section GlobsFacts.
  Variable matchb : string -> path -> bool.

  Definition inb (p : string) (l : list string) : bool := existsb (String.eqb p) l.

  Lemma inb_In : forall p l, inb p l = true <-> In p l.
  Proof.
    intros p l; unfold inb; rewrite existsb_exists. split.
    - intros [x [Hin E]]. apply String.eqb_eq in E. now subst.
    - intros H; exists p; split; auto. apply String.eqb_refl.
  Qed.

  (* the verdict of the LAST pattern that matches p *)
  Definition decide_from (init : option bool) (pats : list glob) (p : path) : option bool :=
    fold_left (fun acc g => if matchb (snd g) p then Some (negb (fst g)) else acc) pats init.
  Definition decide : list glob -> path -> option bool := decide_from None.

  Lemma lookup_fold_add : forall neg l acc p,
    lookup p (fold_left (globs_add neg) l acc) = if inb p l then Some (negb neg) else lookup p acc.
  Proof.
    intros neg l; induction l as [|a l IH]; intros acc p; cbn; auto.
    rewrite IH. unfold globs_add at 1. rewrite lookup_set.
    destruct (String.eqb p a); cbn; auto. now destruct (inb p l).
  Qed.

  Lemma inb_cons : forall p a l, inb p (a :: l) = String.eqb p a || inb p l.
  Proof. reflexivity. Qed.

  Lemma inb_filter : forall (f : string -> bool) p l, inb p (filter f l) = f p && inb p l.
  Proof.
    intros f p l; induction l as [|a l IH]; [cbn; now rewrite andb_false_r|].
    cbn [filter]. destruct (f a) eqn:Fa; rewrite ?inb_cons, IH.
    - destruct (String.eqb_spec p a) as [E|E]; cbn; auto. subst. now rewrite Fa.
    - destruct (String.eqb_spec p a) as [E|E]; cbn; auto. subst. now rewrite Fa.
  Qed.

  Lemma lookup_globs_fold : forall f pats acc p,
    lookup p (globs_fold matchb f pats acc) =
      if inb p (map fst f) then decide_from (lookup p acc) pats p else lookup p acc.
  Proof.
    intros f pats; induction pats as [|[neg pat] r IH]; intros acc p; cbn.
    - now destruct (inb p (map fst f)).
    - rewrite IH, lookup_fold_add. unfold glob1. rewrite inb_filter.
      destruct (inb p (map fst f)); cbn; [|now rewrite andb_false_r].
      rewrite andb_true_r. unfold decide_from; cbn. now destruct (matchb pat p).
  Qed.

  Lemma nodup_fold_add : forall neg l acc, NoDup (keys acc) -> NoDup (keys (fold_left (globs_add neg) l acc)).
  Proof.
    intros neg l; induction l as [|a l IH]; intros acc H; cbn; auto.
    apply IH. now apply nodup_set.
  Qed.

  Lemma nodup_globs_fold : forall f pats acc, NoDup (keys acc) -> NoDup (keys (globs_fold matchb f pats acc)).
  Proof.
    intros f pats; induction pats as [|[neg pat] r IH]; intros acc H; cbn; auto.
    apply IH. now apply nodup_fold_add.
  Qed.

  Lemma in_true_keys : forall (m : list (path * bool)) p,
    NoDup (keys m) -> (In p (map fst (filter (fun kv => snd kv) m)) <-> lookup p m = Some true).
  Proof.
    intros m p Hnd. rewrite <- in_lookup by auto. rewrite in_map_iff. split.
    - intros [[k b] [E Hin]]. cbn in E; subst. apply filter_In in Hin. cbn in Hin. destruct Hin as [Hin ->]. auto.
    - intros Hin. exists (p, true). split; auto. apply filter_In. auto.
  Qed.

  (* Globs_spec: a file is in the result iff it exists and the last pattern matching it is positive *)
  Theorem globs_spec : forall f pats p,
    In p (globs matchb f pats) <-> In p (map fst f) /\ decide pats p = Some true.
  Proof.
    intros f pats p. unfold globs, collect_keys. rewrite in_sort_str.
    rewrite in_true_keys by (apply nodup_globs_fold; constructor).
    rewrite lookup_globs_fold. cbn [lookup]. rewrite <- inb_In.
    destruct (inb p (map fst f)); unfold decide; split; intros H; try tauto; try discriminate.
    - destruct H; discriminate.
  Qed.

  Theorem globs_sorted : forall f pats, Sorted le_str (globs matchb f pats).
  Proof. intros; apply sort_str_sorted. Qed.

  Lemma nodup_map_filter : forall A (g : string * A -> bool) (m : list (string * A)),
    NoDup (keys m) -> NoDup (map fst (filter g m)).
  Proof.
    intros A g m; induction m as [|[k v] m IH]; cbn; intros H; [constructor|].
    inversion H; subst. destruct (g (k, v)); cbn; auto.
    constructor; auto. intros Hin. apply H2. apply in_map_iff in Hin. destruct Hin as [x [E Hin]].
    apply filter_In in Hin. destruct Hin as [Hin _]. subst. now apply in_map.
  Qed.

  Theorem globs_nodup : forall f pats, NoDup (globs matchb f pats).
  Proof.
    intros. unfold globs, collect_keys.
    eapply Permutation_NoDup; [apply Permutation_sym, perm_sort_str|].
    apply nodup_map_filter, nodup_globs_fold. constructor.
  Qed.

  (* the result depends on the file map only through its set of paths *)
  Lemma decide_app : forall a b init p, decide_from init (a ++ b) p = decide_from (decide_from init a p) b p.
  Proof. intros; unfold decide_from; now rewrite fold_left_app. Qed.

  (* exclude entries act in order: a later exclude removes an earlier match, a later include restores it *)
  Corollary globs_last_wins : forall f pats neg pat p,
    In p (map fst f) -> matchb pat p = true ->
    (In p (globs matchb f (pats ++ [(neg, pat)])) <-> neg = false).
  Proof.
    intros f pats neg pat p Hin Hm. rewrite globs_spec. unfold decide. rewrite decide_app.
    unfold decide_from at 1; cbn. rewrite Hm. destruct neg; cbn; split; intros; try tauto; try discriminate.
    destruct H; discriminate.
  Qed.
End GlobsFacts.
