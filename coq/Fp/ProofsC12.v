(* C12: read-only modes leave the state alone; H;R;K behaves like H;K. *)
From Coq Require Import List String Ascii NArith Bool Arith Lia.
Import ListNotations.
From TV Require Import Fp.Model Fp.ProofsBase.
Local Open Scope string_scope.
Local Open Scope list_scope.

Section C12.
  Variable matchb : string -> path -> bool.
  Variable H : string -> string.
  Variable Hx : fpr -> string.

  Notation uptodate := (uptodate matchb H Hx).
  Notation check_sources := (check_sources matchb H Hx).
  Notation invoke := (invoke matchb H Hx).
  Notation step := (step matchb H Hx).
  Notation run_hist := (run_hist matchb H Hx).
  Notation observe := (observe matchb H Hx).

  (* a dry check writes nothing *)
  Lemma check_sources_quiet : forall v now s t,
    snd (check_sources v true now s t) = s.
  Proof.
    intros v now s t.
    unfold Model.check_sources. destruct (t_method t); auto.
    destruct (v_ts_exact v); auto.
    unfold check_timestamp. cbn [negb].
    destruct (lookup (ts_key t) (tss s)); [reflexivity|].
    now destruct (is_nil _).
  Qed.

  Lemma uptodate_quiet : forall v now s t,
    snd (uptodate v true now s t) = s.
  Proof.
    intros v now s t. unfold Model.uptodate.
    destruct (negb (is_nil (t_sources t))).
    - pose proof (check_sources_quiet v now s t) as E.
      destruct (check_sources v true now s t) as [b s']. cbn in *. now subst.
    - reflexivity.
  Qed.

  Lemma list_json_quiet : forall v now p s,
    v_listjson_dry v = true -> list_json matchb H Hx v now s p = s.
  Proof.
    intros v now p s Hq. unfold list_json. rewrite Hq. revert s.
    induction p as [|t p IH]; intros s; cbn; auto.
    rewrite uptodate_quiet. apply IH.
  Qed.

  Lemma mkdir_empty : forall s, mkdir s "" = s.
  Proof. reflexivity. Qed.

  (* when is a read-only invocation pure in variant v *)
  Definition pure_cond (v : variant) (p : project) (m : mode) (tid : nat) : bool :=
    match m with
    | ListJson => v_listjson_dry v
    | Dry => match nth_error p tid with
             | Some t => (String.eqb (t_dir t) "" || v_dry_mkdir_guard v)
                         && (v_dry_fail_guard v || match t_subguard t with None => true | Some _ => false end)
             | None => true
             end
    | Status | ListM | Summary => true
    | Run | Force => false
    end.

  Theorem invoke_pure : forall v p now s m tid o,
    read_only m = true -> pure_cond v p m tid = true ->
    fst (invoke v p now s m tid o) = s.
  Proof.
    intros v p now s m tid o Hro Hp. destruct m; cbn in Hro; try discriminate; cbn in Hp |- *.
    - (* Dry *)
      destruct (nth_error p tid) as [t|]; [|reflexivity].
      unfold run_task. cbn [deps_fs]. rewrite with_fs_id. unfold run_task_core. cbn [orb].
      pose proof (uptodate_quiet v now s t) as E.
      destruct (uptodate v true now s t) as [up s1]. cbn in E. subst s1.
      destruct up; [reflexivity|].
      rewrite andb_false_r. cbn [negb andb]. rewrite andb_false_r. cbn [andb].
      apply andb_true_iff in Hp. destruct Hp as [Hd Hg].
      assert (Hs3 : (if v_dry_mkdir_guard v then s else mkdir s (t_dir t)) = s).
      { destruct (v_dry_mkdir_guard v); [reflexivity|].
        rewrite orb_false_r in Hd. apply String.eqb_eq in Hd. rewrite Hd. reflexivity. }
      rewrite Hs3. unfold guard_ok.
      destruct (t_subguard t) as [fl|].
      + rewrite orb_false_r in Hg. rewrite Hg. now destruct (has_key fl (fs s)).
      + reflexivity.
    - (* Status *)
      destruct (nth_error p tid) as [t|]; [|reflexivity].
      pose proof (uptodate_quiet v now s t) as E.
      destruct (uptodate v true now s t) as [up s1]. cbn in *. now subst.
    - (* ListJson *) now apply list_json_quiet.
    - reflexivity.
    - reflexivity.
  Qed.

  (* no command runs either: the trace is part of the state *)
  Corollary invoke_pure_trace : forall v p now s m tid o,
    read_only m = true -> pure_cond v p m tid = true ->
    trace (fst (invoke v p now s m tid o)) = trace s.
  Proof. intros. now rewrite invoke_pure. Qed.

  Definition ev_pure (v : variant) (p : project) (e : event) : bool :=
    match snd e with
    | Invoke m tid _ => if read_only m then pure_cond v p m tid else true
    | _ => true
    end.

  Theorem mon_C12_holds : forall v p h s,
    forallb (ev_pure v p) h = true -> mon_C12 (snap_of s) (observe v p s h) = true.
  Proof.
    intros v p h; induction h as [|e h IH]; intros s Hall; cbn; auto.
    cbn in Hall. apply andb_true_iff in Hall. destruct Hall as [He Hall].
    destruct (step v p s e) as [s' x] eqn:Es. unfold mon_C12 in *. cbn.
    rewrite IH by auto. rewrite andb_true_r.
    unfold c12_step. cbn. unfold ev_pure in He. destruct e as [t o]. cbn in *.
    destruct o; auto.
    destruct (read_only m) eqn:Hro; auto.
    unfold Model.step in Es. cbn in Es.
    pose proof (invoke_pure v p t s m tid o Hro He) as E. rewrite Es in E. cbn in E. subst.
    apply snap_eqb_refl.
  Qed.

  Definition pure_variant (v : variant) : bool :=
    v_dry_mkdir_guard v && v_listjson_dry v && v_dry_fail_guard v.

  Lemma pure_variant_all : forall v p h, pure_variant v = true -> forallb (ev_pure v p) h = true.
  Proof.
    intros v p h Hv. unfold pure_variant in Hv. apply andb_true_iff in Hv. destruct Hv as [Hv Hf].
    apply andb_true_iff in Hv. destruct Hv as [Hg Hl].
    apply forallb_forall. intros [t o] _. unfold ev_pure. cbn. destruct o; auto.
    destruct m; cbn; auto.
    destruct (nth_error p tid); auto. rewrite Hg, Hf. now rewrite orb_true_r.
  Qed.

  Theorem mon_C12_repaired : forall v p h s,
    pure_variant v = true -> mon_C12 (snap_of s) (observe v p s h) = true.
  Proof. intros. apply mon_C12_holds. now apply pure_variant_all. Qed.

  (* ---- H ; R ; K  =  H ; K ---- *)

  Lemma observe_app : forall v p a b s,
    observe v p s (a ++ b) = observe v p s a ++ observe v p (run_hist v p s a) b.
  Proof.
    intros v p a; induction a as [|e a IH]; intros b s; cbn; auto.
    destruct (step v p s e) as [s' x]. cbn. now rewrite IH.
  Qed.

  Lemma observe_length : forall v p a s, List.length (observe v p s a) = List.length a.
  Proof.
    intros v p a; induction a as [|e a IH]; intros s; cbn; auto.
    destruct (step v p s e). cbn. now rewrite IH.
  Qed.

  Lemma skipn_app_exact : forall A (a b : list A) n, n = List.length a -> skipn n (a ++ b) = b.
  Proof. intros A a b n ->. induction a; cbn; auto. Qed.

  Lemma ostep_eqb_refl : forall x, ostep_eqb x x = true.
  Proof. intros; unfold ostep_eqb. now rewrite res_eqb_refl, snap_eqb_refl. Qed.

  Theorem run_hist_commutes : forall v p s Hh t m tid o K,
    read_only m = true -> pure_cond v p m tid = true ->
    run_hist v p s (Hh ++ (t, Invoke m tid o) :: K) = run_hist v p s (Hh ++ K).
  Proof.
    intros. unfold Model.run_hist. rewrite !fold_left_app. cbn [fold_left].
    f_equal. unfold Model.step. cbn. now apply invoke_pure.
  Qed.

  Theorem commute_holds : forall v p s Hh t m tid o K,
    read_only m = true -> pure_cond v p m tid = true ->
    mon_C12_commute (observe v p s (Hh ++ (t, Invoke m tid o) :: K)) (observe v p s (Hh ++ K)) (List.length Hh) = true.
  Proof.
    intros v p s Hh t m tid o K Hro Hp. unfold mon_C12_commute.
    rewrite !observe_app.
    rewrite (skipn_app_exact _ (observe v p s Hh) (observe v p (run_hist v p s Hh) K) (List.length Hh)) by (now rewrite observe_length).
    cbn [Model.observe]. destruct (step v p (run_hist v p s Hh) (t, Invoke m tid o)) as [s' x] eqn:Es.
    assert (s' = run_hist v p s Hh).
    { unfold Model.step in Es. cbn in Es. pose proof (invoke_pure v p t (run_hist v p s Hh) m tid o Hro Hp) as E.
      rewrite Es in E. exact E. }
    subst s'.
    change (observe v p s Hh ++ ?a :: ?b) with (observe v p s Hh ++ [a] ++ b).
    rewrite app_assoc. rewrite skipn_app_exact.
    - apply list_eqb_refl, ostep_eqb_refl.
    - rewrite app_length, observe_length. cbn [List.length]. now rewrite Nat.add_1_r.
  Qed.
End C12.

Lemma pure_variant_cond : forall v p m tid,
  pure_variant v = true -> read_only m = true -> pure_cond v p m tid = true.
Proof.
  intros v p m tid Hv Hro. unfold pure_variant in Hv. apply andb_true_iff in Hv. destruct Hv as [Hv Hf].
  apply andb_true_iff in Hv. destruct Hv as [Hg Hl].
  destruct m; cbn in *; try discriminate; auto.
  destruct (nth_error p tid); auto. rewrite Hg, Hf. now rewrite orb_true_r.
Qed.
