(* Model B "Fp": fingerprinting of tasks over histories of file operations and
   Task invocations.  Stands for internal/fingerprint/*.go, status.go, the
   fingerprint block / prompt / mkdir / statusOnError of Executor.RunTask
   (task.go), Executor.ToEditorOutput (help.go) and the dry wiring of
   internal/flags/flags.go.

   Only executable definitions live here (no proofs).  External behaviour is a
   Section variable: the glob matcher [matchb], the hash [H] applied to the byte
   stream the current code feeds to xxh3, and [Hx], the hash of an exact
   (injectively serialised) fingerprint used by the repaired variant. *)
From Coq Require Import List String Ascii NArith Bool Arith.
Import ListNotations.
Local Open Scope string_scope.

(* ------------------------------------------------------------------ *)
(* finite maps as association lists keyed by strings                   *)

Definition path := string.

Fixpoint lookup {A} (k : string) (m : list (string * A)) : option A :=
  match m with
  | [] => None
  | (k', v) :: r => if String.eqb k k' then Some v else lookup k r
  end.

Fixpoint remove_key {A} (k : string) (m : list (string * A)) : list (string * A) :=
  match m with
  | [] => []
  | (k', v) :: r => if String.eqb k k' then remove_key k r else (k', v) :: remove_key k r
  end.

Definition set_key {A} (k : string) (v : A) (m : list (string * A)) : list (string * A) :=
  (k, v) :: remove_key k m.

Definition has_key {A} (k : string) (m : list (string * A)) : bool :=
  match lookup k m with Some _ => true | None => false end.

Definition is_nil {A} (l : list A) : bool := match l with [] => true | _ => false end.

(* insertion sort of strings, bytewise order = Go's sort.Strings *)
Fixpoint insert_str (x : string) (l : list string) : list string :=
  match l with
  | [] => [x]
  | y :: r => if String.leb x y then x :: l else y :: insert_str x r
  end.
Definition sort_str (l : list string) : list string := fold_right insert_str [] l.

Fixpoint insert_kv {A} (x : string * A) (l : list (string * A)) : list (string * A) :=
  match l with
  | [] => [x]
  | y :: r => if String.leb (fst x) (fst y) then x :: l else y :: insert_kv x r
  end.
Definition sort_kv {A} (l : list (string * A)) : list (string * A) := fold_right insert_kv [] l.

(* the file map is kept sorted by path (what a directory walk in lexical order shows) *)
Definition fs_set {A} (k : string) (v : A) (m : list (string * A)) : list (string * A) :=
  insert_kv (k, v) (remove_key k m).

(* ------------------------------------------------------------------ *)
(* files, tasks, variants                                              *)

Record file := { f_content : string; f_mtime : N }.
Definition fsmap := list (path * file).

Inductive method := Checksum | Timestamp | NoMethod.

Definition glob := (bool * string)%type.    (* (negate, pattern), patterns relative to the project root *)

Record task := {
  t_name : string;
  t_label : option string;
  t_method : method;
  t_sources : list glob;
  t_generates : list glob;
  t_status : list path;        (* status: [test -f p] for every p *)
  t_prompt : bool;
  t_dir : string;              (* "" = no dir: *)
  t_ncmds : nat;               (* commands 0 .. n-1, each appends (task, i) to the trace *)
  t_outputs : list path;       (* files the last command writes once every command succeeded *)
  t_dep : option (path * path); (* Some (spec, dst): the task has a dep (a task without sources, so it always runs) whose
                                  command copies the content of spec to dst - typically one of this task's sources *)
  t_subguard : option path     (* Some fl: the first command is `task: child`, a task without sources whose
                                  precondition is [test -f fl] and whose one command appends (task, n) to the trace *)
}.
Definition project := list task.

(* What the code does at each place where the current tree and the repaired
   design differ.  [false] everywhere = the tree the design pass read. *)
Record variant := {
  v_ts_rollback : bool;     (* TimestampChecker.OnError removes the marker            (7.4) *)
  v_prompt_rollback : bool; (* a declined prompt calls statusOnError                  (7.5) *)
  v_listjson_dry : bool;    (* ToEditorOutput runs the check dry                      (7.6) *)
  v_safe : bool;            (* RunTask checks dry, drops the record before an attempt, records after success (7.7) *)
  v_fp_exact : bool;        (* checksum: the record is the hash of the exact fingerprint (7.8) *)
  v_ts_exact : bool;        (* timestamp: the record is the hash of (name, mtime) of every source, not a marker mtime *)
  v_ts_gen_exist : bool;    (* timestamp: every generates pattern must match a file   (7.9) *)
  v_dry_mkdir_guard : bool; (* --dry does not create the task's dir                   (7.18) *)
  v_force_records : bool;   (* a successful --force run records the fingerprint too *)
  v_dry_fail_guard : bool   (* the statusOnError after a failing command is skipped in dry mode (41513bc) *)
}.

Definition repaired : variant :=
  {| v_ts_rollback := true; v_prompt_rollback := true; v_listjson_dry := true; v_safe := true;
     v_fp_exact := true; v_ts_exact := true; v_ts_gen_exist := true; v_dry_mkdir_guard := true; v_force_records := true;
     v_dry_fail_guard := true |}.

Definition pinned : variant :=
  {| v_ts_rollback := false; v_prompt_rollback := false; v_listjson_dry := false; v_safe := false;
     v_fp_exact := false; v_ts_exact := false; v_ts_gen_exist := false; v_dry_mkdir_guard := false; v_force_records := false;
     v_dry_fail_guard := false |}.

(* ------------------------------------------------------------------ *)
(* operations                                                          *)

Inductive mode := Run | Force | Dry | Status | ListJson | ListM | Summary.

Inductive outcome :=
| AllOk
| FailAt (k : nat)       (* command k appends to the trace, then exits non-zero *)
| PromptNo               (* no --yes and no terminal: a prompt is declined *)
| KilledAt (k : nat).    (* SIGKILL at the start of command k (k = 0: after the check, before any command) *)

Inductive op :=
| Write (p : path) (c : string)
| Touch (p : path)
| Remove (p : path)
| Rename (p q : path)
| SetMtime (p : path) (t : N)
| Invoke (m : mode) (tid : nat) (o : outcome).

Definition event := (N * op)%type.    (* (logical time, operation); an Invoke at t uses t (check) and t+1 (outputs) *)

Inductive res :=
| RFile | RNoTask
| RSkipped            (* "is up to date" *)
| ROk | RFailed | RDeclined | RKilled
| RDry                (* --dry went past the check: commands printed, not run *)
| RDryQ               (* observation only: a silent --dry said nothing (up to date or not cannot be told) *)
| RStatus (up : bool)
| RQuery.

(* fingerprints: sorted list of (path, content, mtime); the component a method ignores is blanked *)
Definition fpr := list (path * string * N).

Record state := {
  fs : fsmap;
  dirs : list path;               (* directories of interest that exist (task dir:) *)
  cks : list (string * string);   (* .task/checksum/<key>  -> digest *)
  tss : list (string * N);        (* .task/timestamp/<key> -> mtime of the marker *)
  tsx : list (string * string);   (* repaired timestamp method: digest of the mtime fingerprint *)
  trace : list (nat * nat)        (* newest first: (task, command) *)
}.

Definition with_fs (s : state) (f : fsmap) : state :=
  {| fs := f; dirs := dirs s; cks := cks s; tss := tss s; tsx := tsx s; trace := trace s |}.
Definition with_dirs (s : state) (d : list path) : state :=
  {| fs := fs s; dirs := d; cks := cks s; tss := tss s; tsx := tsx s; trace := trace s |}.
Definition with_cks (s : state) (c : list (string * string)) : state :=
  {| fs := fs s; dirs := dirs s; cks := c; tss := tss s; tsx := tsx s; trace := trace s |}.
Definition with_tss (s : state) (c : list (string * N)) : state :=
  {| fs := fs s; dirs := dirs s; cks := cks s; tss := c; tsx := tsx s; trace := trace s |}.
Definition with_tsx (s : state) (c : list (string * string)) : state :=
  {| fs := fs s; dirs := dirs s; cks := cks s; tss := tss s; tsx := c; trace := trace s |}.
Definition with_trace (s : state) (c : list (nat * nat)) : state :=
  {| fs := fs s; dirs := dirs s; cks := cks s; tss := tss s; tsx := tsx s; trace := c |}.

(* ------------------------------------------------------------------ *)
(* names                                                               *)

(* normalizeFilename: regexp [^A-z0-9] -> "-" ; A-z is the byte range 65..122 *)
Definition keep_char (c : ascii) : bool :=
  let n := nat_of_ascii c in
  (Nat.leb 65 n && Nat.leb n 122) || (Nat.leb 48 n && Nat.leb n 57).
Fixpoint normalize (s : string) : string :=
  match s with
  | EmptyString => EmptyString
  | String c r => String (if keep_char c then c else "-"%char) (normalize r)
  end.

(* Task.Name(): label if set, else the task name; the timestamp checker uses t.Task *)
Definition cs_key (t : task) : string :=
  normalize (match t_label t with Some l => l | None => t_name t end).
Definition ts_key (t : task) : string := normalize (t_name t).

(* filepath.Base for clean relative paths: the part after the last '/' *)
Fixpoint basename_aux (acc : string) (s : string) : string :=
  match s with
  | EmptyString => acc
  | String c r => if Ascii.eqb c "/"%char then basename_aux EmptyString r
                  else basename_aux (acc ++ String c EmptyString) r
  end.
Definition basename (p : path) : string := basename_aux EmptyString p.

(* ------------------------------------------------------------------ *)
Section Oracles.
  Variable matchb : string -> path -> bool.    (* does the pattern match the path (mvdan expand.Fields + stat) *)
  Variable H : string -> string.               (* xxh3 of a byte stream, printed *)
  Variable Hx : fpr -> string.                 (* hash of an exact fingerprint (repaired variant) *)

  (* glob(dir, g): the regular files the pattern expands to *)
  Definition glob1 (f : fsmap) (pat : string) : list path :=
    filter (matchb pat) (map fst f).

  (* Globs: fold the patterns in order into a map path -> bool (later patterns
     overwrite), collectKeys = the keys mapped to true, sorted *)
  Definition globs_add (neg : bool) (acc : list (path * bool)) (p : path) : list (path * bool) :=
    set_key p (negb neg) acc.
  Fixpoint globs_fold (f : fsmap) (pats : list glob) (acc : list (path * bool)) : list (path * bool) :=
    match pats with
    | [] => acc
    | (neg, pat) :: r => globs_fold f r (fold_left (globs_add neg) (glob1 f pat) acc)
    end.
  Definition collect_keys (m : list (path * bool)) : list path :=
    sort_str (map fst (filter (fun kv => snd kv) m)).
  Definition globs (f : fsmap) (pats : list glob) : list path :=
    collect_keys (globs_fold f pats []).

  Definition content_of (f : fsmap) (p : path) : string :=
    match lookup p f with Some x => f_content x | None => "" end.
  Definition mtime_of (f : fsmap) (p : path) : N :=
    match lookup p f with Some x => f_mtime x | None => 0%N end.

  (* the fingerprint proper, per method *)
  Definition fp_cs (f : fsmap) (pats : list glob) : fpr :=
    map (fun p => (p, content_of f p, 0%N)) (globs f pats).
  Definition fp_ts (f : fsmap) (pats : list glob) : fpr :=
    map (fun p => (p, "", mtime_of f p)) (globs f pats).
  Definition fp_of (m : method) (f : fsmap) (pats : list glob) : fpr :=
    match m with Timestamp => fp_ts f pats | _ => fp_cs f pats end.

  (* ChecksumChecker.checksum: for every file, in order: base name, then content, unseparated *)
  Definition stream (fp : fpr) : string :=
    fold_right (fun e acc => basename (fst (fst e)) ++ snd (fst e) ++ acc) "" fp.

  Definition dg (v : variant) (fp : fpr) : string :=
    if v_fp_exact v then Hx fp else H (stream fp).

  (* every positive generates pattern expands to at least one file *)
  Definition gens_exist (f : fsmap) (t : task) : bool :=
    forallb (fun g => fst g || negb (is_nil (glob1 f (snd g)))) (t_generates t).

  Definition status_ok (f : fsmap) (t : task) : bool :=
    forallb (fun p => has_key p f) (t_status t).

  Definition str_eq_opt (o : option string) (d : string) : bool :=
    match o with Some x => String.eqb x d | None => false end.

  (* --- ChecksumChecker.IsUpToDate --- *)
  Definition check_checksum (v : variant) (dry : bool) (s : state) (t : task) : bool * state :=
    let key := cs_key t in
    let new := dg v (fp_cs (fs s) (t_sources t)) in
    let same := str_eq_opt (lookup key (cks s)) new in
    let s' := if negb dry && negb same then with_cks s (set_key key new (cks s)) else s in
    (same && gens_exist (fs s) t, s').

  Definition max_mtime (f : fsmap) (ps : list path) : N :=
    fold_right (fun p acc => N.max (mtime_of f p) acc) 0%N ps.

  (* --- TimestampChecker.IsUpToDate (the current, make-like comparison) --- *)
  Definition check_timestamp (v : variant) (dry : bool) (now : N) (s : state) (t : task) : bool * state :=
    let key := ts_key t in
    let srcs := globs (fs s) (t_sources t) in
    let gens := globs (fs s) (t_generates t) in
    let gmax := max_mtime (fs s) gens in
    match lookup key (tss s) with
    | None =>
        (* marker missing: created (when not dry) but not part of this comparison *)
        let s1 := if negb dry then with_tss s (set_key key now (tss s)) else s in
        if is_nil gens then (false, s1)
        else
          let upd := existsb (fun p => N.ltb gmax (mtime_of (fs s) p)) srcs in
          (negb upd && (negb (v_ts_gen_exist v) || gens_exist (fs s) t), s1)
    | Some mt =>
        let m := N.max gmax mt in
        let upd := existsb (fun p => N.ltb m (mtime_of (fs s) p)) srcs in
        let s1 := if negb dry then with_tss s (set_key key now (tss s)) else s in
        (negb upd && (negb (v_ts_gen_exist v) || gens_exist (fs s) t), s1)
    end.

  (* --- repaired timestamp method: the record is the digest of (name, mtime) of every source --- *)
  Definition check_timestamp_exact (v : variant) (dry : bool) (s : state) (t : task) : bool * state :=
    let key := ts_key t in
    let new := Hx (fp_ts (fs s) (t_sources t)) in
    let same := str_eq_opt (lookup key (tsx s)) new in
    let s' := if negb dry && negb same then with_tsx s (set_key key new (tsx s)) else s in
    (same && gens_exist (fs s) t, s').

  Definition check_sources (v : variant) (dry : bool) (now : N) (s : state) (t : task) : bool * state :=
    match t_method t with
    | Checksum => check_checksum v dry s t
    | Timestamp => if v_ts_exact v then check_timestamp_exact v dry s t else check_timestamp v dry now s t
    | NoMethod => (false, s)
    end.

  (* --- fingerprint.IsTaskUpToDate: status AND sources, both evaluated --- *)
  Definition uptodate (v : variant) (dry : bool) (now : N) (s : state) (t : task) : bool * state :=
    let status_set := negb (is_nil (t_status t)) in
    let sources_set := negb (is_nil (t_sources t)) in
    let st := status_set && status_ok (fs s) t in
    let '(src, s') := if sources_set then check_sources v dry now s t else (false, s) in
    ((if status_set then if sources_set then st && src else st
      else if sources_set then src else false), s').

  (* --- statusOnError -> checker.OnError --- *)
  Definition on_error (v : variant) (s : state) (t : task) : state :=
    match t_method t with
    | Checksum => if is_nil (t_sources t) then s else with_cks s (remove_key (cs_key t) (cks s))
    | Timestamp =>
        if v_ts_exact v then with_tsx s (remove_key (ts_key t) (tsx s))
        else if v_ts_rollback v then with_tss s (remove_key (ts_key t) (tss s)) else s
    | NoMethod => s
    end.

  (* repaired protocol: drop the record when an attempt starts (statusOnError before the prompt) ... *)
  Definition invalidate (v : variant) (s : state) (t : task) : state := on_error v s t.
  (* ... and write it when every command has succeeded (fingerprint taken when the attempt started) *)
  Definition record (v : variant) (now : N) (f0 : fsmap) (s : state) (t : task) : state :=
    match t_method t with
    | Checksum => with_cks s (set_key (cs_key t) (dg v (fp_cs f0 (t_sources t))) (cks s))
    | Timestamp => if v_ts_exact v then with_tsx s (set_key (ts_key t) (Hx (fp_ts f0 (t_sources t))) (tsx s))
                   else with_tss s (set_key (ts_key t) now (tss s))
    | NoMethod => s
    end.

  Definition mkdir (s : state) (d : string) : state :=
    if String.eqb d "" then s
    else if existsb (String.eqb d) (dirs s) then s else with_dirs s (d :: dirs s).

  (* commands k, k+1, ... of task [tid]; [n] = number of commands left *)
  Fixpoint add_trace (tid k n : nat) (tr : list (nat * nat)) : list (nat * nat) :=
    match n with O => tr | S n' => add_trace tid (S k) n' ((tid, k) :: tr) end.

  Definition write_outputs (now : N) (s : state) (t : task) : state :=
    with_fs s (fold_left (fun f p => fs_set p {| f_content := "out"; f_mtime := now |} f) (t_outputs t) (fs s)).

  (* the command loop of RunTask for a non-dry run that got past check and prompt *)
  (* what a successful attempt leaves behind: the safe protocol records the fingerprint taken when the
     attempt started; otherwise a forced run may (v_force_records) run the writing check afterwards *)
  Definition after_success (v : variant) (now : N) (f0 : fsmap) (force : bool) (s : state) (t : task) : state :=
    if v_safe v then (if negb force || v_force_records v then record v now f0 s t else s)
    else if force && v_force_records v then snd (check_sources v false now s t) else s.

  (* the command loop of RunTask for a non-dry run that got past check and prompt *)
  Definition run_cmds (v : variant) (now : N) (f0 : fsmap) (force : bool)
                      (s : state) (tid : nat) (t : task) (o : outcome) : state * res :=
    let n := t_ncmds t in
    let ok := (after_success v now f0 force
                 (write_outputs (N.succ now) (with_trace s (add_trace tid 0 n (trace s))) t) t, ROk) in
    match o with
    | FailAt k =>
        if Nat.ltb k n then
          (on_error v (with_trace s (add_trace tid 0 (S k) (trace s))) t, RFailed)
        else ok
    | KilledAt k =>
        if Nat.ltb k n then
          (with_trace s (add_trace tid 0 k (trace s)), RKilled)
        else ok
    | _ => ok
    end.

  (* the guarded sub-call (first command of the task) *)
  Definition guard_ok (s : state) (t : task) : bool :=
    match t_subguard t with Some fl => has_key fl (fs s) | None => true end.
  Definition child_trace (s : state) (tid : nat) (t : task) : state :=
    match t_subguard t with Some _ => with_trace s ((tid, t_ncmds t) :: trace s) | None => s end.

  Definition is_prompt_no (o : outcome) : bool := match o with PromptNo => true | _ => false end.

  (* runDeps: the dep runs before the up-to-date check of a normal or forced run (in dry mode its command
     is only printed; --status, --list, --summary do not run deps).  The file it writes is stamped like
     everything an invocation writes after its check: now + 1. *)
  Definition dep_write (now : N) (t : task) (f : fsmap) : fsmap :=
    match t_dep t with
    | Some (spec, dst) =>
        match lookup spec f with
        | Some x => fs_set dst {| f_content := f_content x; f_mtime := N.succ now |} f
        | None => f
        end
    | None => f
    end.
  Definition deps_fs (m : mode) (now : N) (t : task) (f : fsmap) : fsmap :=
    match m with Run | Force => dep_write now t f | _ => f end.

  (* Executor.RunTask after runDeps, for one directly called task *)
  Definition run_task_core (v : variant) (now : N) (s : state) (m : mode) (tid : nat) (t : task) (o : outcome)
    : state * res :=
    let dry := match m with Dry => true | _ => false end in
    let force := match m with Force => true | _ => false end in
    let '(up, s1) := if force then (false, s) else uptodate v (dry || v_safe v) now s t in
    if up then (s1, RSkipped)
    else
      let f0 := fs s in
      let s2 := if v_safe v && negb dry then invalidate v s1 t else s1 in
      if t_prompt t && negb dry && is_prompt_no o then
        ((if v_prompt_rollback v then on_error v s2 t else s2), RDeclined)
      else
        let s3 := if dry && v_dry_mkdir_guard v then s2 else mkdir s2 (t_dir t) in
        (* the sub-call is followed in dry mode too: the callee's precondition is evaluated, and when it
           fails the command loop of the caller sees a failing command (exit 201) *)
        if negb (guard_ok s t) then
          ((if dry && v_dry_fail_guard v then s3 else on_error v s3 t), RFailed)
        else if dry then (s3, RDry)
        else
          run_cmds v now f0 force (child_trace s3 tid t) tid t o.

  (* Executor.RunTask: deps first; the fingerprint that matters is the one of the tree they leave *)
  Definition run_task (v : variant) (now : N) (s : state) (m : mode) (tid : nat) (t : task) (o : outcome)
    : state * res :=
    run_task_core v now (with_fs s (deps_fs m now t (fs s))) m tid t o.

  (* ToEditorOutput: the check of every listed task *)
  Definition list_json (v : variant) (now : N) (s : state) (p : project) : state :=
    fold_left (fun s t => snd (uptodate v (v_listjson_dry v) now s t)) p s.

  Definition invoke (v : variant) (p : project) (now : N) (s : state) (m : mode) (tid : nat) (o : outcome)
    : state * res :=
    match m with
    | ListM | Summary => (s, RQuery)
    | ListJson => (list_json v now s p, RQuery)
    | Status =>
        match nth_error p tid with
        | None => (s, RNoTask)
        | Some t => let '(up, s') := uptodate v true now s t in (s', RStatus up)
        end
    | Run | Force | Dry =>
        match nth_error p tid with
        | None => (s, RNoTask)
        | Some t => run_task v now s m tid t o
        end
    end.

  Definition file_op (now : N) (f : fsmap) (o : op) : fsmap :=
    match o with
    | Write p c => fs_set p {| f_content := c; f_mtime := now |} f
    | Touch p => match lookup p f with
                 | Some x => fs_set p {| f_content := f_content x; f_mtime := now |} f
                 | None => f end
    | Remove p => remove_key p f
    | Rename p q => match lookup p f with
                    | Some x => if String.eqb p q then f else fs_set q x (remove_key p f)
                    | None => f end
    | SetMtime p t => match lookup p f with
                      | Some x => fs_set p {| f_content := f_content x; f_mtime := t |} f
                      | None => f end
    | Invoke _ _ _ => f
    end.

  Definition step (v : variant) (p : project) (s : state) (e : event) : state * res :=
    match snd e with
    | Invoke m tid o => invoke v p (fst e) s m tid o
    | o => (with_fs s (file_op (fst e) (fs s) o), RFile)
    end.

  Definition run_hist (v : variant) (p : project) (s : state) (h : list event) : state :=
    fold_left (fun s e => fst (step v p s e)) h s.

  (* ---------------------------------------------------------------- *)
  (* observations: what the harness can see of the real binary, and the
     same projection of the model                                       *)

  Record snapshot := {
    sn_files : list (path * string * N);   (* in the order of the walk: sorted by path *)
    sn_dirs : list path;                   (* sorted *)
    sn_cks : list (string * string);       (* sorted by key *)
    sn_tss : list (string * N);            (* sorted by key *)
    sn_tsx : list (string * string);       (* content of the markers, when not empty *)
    sn_trace : nat                         (* number of lines of the trace file *)
  }.

  Record ostep := { o_ev : event; o_res : res; o_snap : snapshot }.   (* snapshot AFTER the operation *)

  Definition snap_of (s : state) : snapshot :=
    {| sn_files := map (fun kv => (fst kv, f_content (snd kv), f_mtime (snd kv))) (fs s);
       sn_dirs := sort_str (dirs s);
       sn_cks := sort_kv (cks s);
       sn_tss := sort_kv (tss s);
       sn_tsx := sort_kv (tsx s);
       sn_trace := List.length (trace s) |}.

  Definition fs_of_snap (sn : snapshot) : fsmap :=
    map (fun e => (fst (fst e), {| f_content := snd (fst e); f_mtime := snd e |})) (sn_files sn).

  Fixpoint observe (v : variant) (p : project) (s : state) (h : list event) : list ostep :=
    match h with
    | [] => []
    | e :: r => let '(s', x) := step v p s e in
                {| o_ev := e; o_res := x; o_snap := snap_of s' |} :: observe v p s' r
    end.

  (* ---------------------------------------------------------------- *)
  (* equality tests                                                    *)

  Definition fpe_eqb (a b : path * string * N) : bool :=
    String.eqb (fst (fst a)) (fst (fst b)) && String.eqb (snd (fst a)) (snd (fst b)) && N.eqb (snd a) (snd b).
  Fixpoint list_eqb {A} (eqb : A -> A -> bool) (a b : list A) : bool :=
    match a, b with
    | [], [] => true
    | x :: a', y :: b' => eqb x y && list_eqb eqb a' b'
    | _, _ => false
    end.
  Definition fpr_eqb : fpr -> fpr -> bool := list_eqb fpe_eqb.
  Definition kvs_eqb (a b : list (string * string)) : bool :=
    list_eqb (fun x y => String.eqb (fst x) (fst y) && String.eqb (snd x) (snd y)) a b.
  Definition kvn_eqb (a b : list (string * N)) : bool :=
    list_eqb (fun x y => String.eqb (fst x) (fst y) && N.eqb (snd x) (snd y)) a b.
  Definition snap_eqb (a b : snapshot) : bool :=
    list_eqb fpe_eqb (sn_files a) (sn_files b) && list_eqb String.eqb (sn_dirs a) (sn_dirs b)
    && kvs_eqb (sn_cks a) (sn_cks b) && kvn_eqb (sn_tss a) (sn_tss b) && kvs_eqb (sn_tsx a) (sn_tsx b)
    && Nat.eqb (sn_trace a) (sn_trace b).

  Definition res_eqb (a b : res) : bool :=
    match a, b with
    | RFile, RFile | RNoTask, RNoTask | RSkipped, RSkipped | ROk, ROk | RFailed, RFailed
    | RDeclined, RDeclined | RKilled, RKilled | RDry, RDry | RDryQ, RDryQ | RQuery, RQuery => true
    | RStatus x, RStatus y => Bool.eqb x y
    | _, _ => false
    end.

  (* ---------------------------------------------------------------- *)
  (* monitors: functions of the observed behaviour only                *)

  Fixpoint lookup_fp {A} (k : fpr) (m : list (fpr * A)) : option A :=
    match m with
    | [] => None
    | (k', x) :: r => if fpr_eqb k k' then Some x else lookup_fp k r
    end.

  Fixpoint lookup_nat {A} (k : nat) (m : list (nat * A)) : option A :=
    match m with
    | [] => None
    | (k', x) :: r => if Nat.eqb k k' then Some x else lookup_nat k r
    end.

  Definition is_attempt (m : mode) (r : res) : bool :=
    match m with
    | Run | Force => match r with ROk | RFailed | RDeclined | RKilled => true | _ => false end
    | _ => false
    end.
  Definition is_ok (r : res) : bool := match r with ROk => true | _ => false end.
  Definition is_skipped (r : res) : bool := match r with RSkipped => true | _ => false end.

  Definition task_fp (t : task) (f : fsmap) : fpr := fp_of (t_method t) f (t_sources t).

  (* C04.  Ghost state: for every task, for every fingerprint at which an
     attempt was made, whether the most recent such attempt ran all commands
     successfully.  A skip must be justified by a [true] entry for the present
     fingerprint, and the generates files must exist. *)
  Definition ghost04 := list (nat * fpr * bool).   (* newest first *)
  Fixpoint g04_lookup (tid : nat) (fp : fpr) (g : ghost04) : option bool :=
    match g with
    | [] => None
    | (t', fp', b) :: r => if Nat.eqb tid t' && fpr_eqb fp fp' then Some b else g04_lookup tid fp r
    end.

  Definition c04_step (p : project) (before : fsmap) (g : ghost04) (e : ostep) : bool * ghost04 :=
    match snd (o_ev e) with
    | Invoke m tid _ =>
        match nth_error p tid with
        | None => (true, g)
        | Some t =>
            let f1 := deps_fs m (fst (o_ev e)) t before in   (* the present fingerprint: after the deps ran *)
            let fp := task_fp t f1 in
            let ok := if is_skipped (o_res e)
                      then match g04_lookup tid fp g with Some true => gens_exist f1 t | _ => false end
                      else true in
            (ok, if is_attempt m (o_res e) then (tid, fp, is_ok (o_res e)) :: g else g)
        end
    | _ => (true, g)
    end.

  Fixpoint c04_run (p : project) (before : fsmap) (g : ghost04) (l : list ostep) : bool :=
    match l with
    | [] => true
    | e :: r => let '(ok, g') := c04_step p before g e in
                ok && c04_run p (fs_of_snap (o_snap e)) g' r
    end.
  Definition mon_C04 (p : project) (init : snapshot) (l : list ostep) : bool :=
    c04_run p (fs_of_snap init) [] l.

  (* C05.  Ghost state: for every task the fingerprint and success of its most
     recent attempt.  After a successful attempt the next normal run skips iff
     fingerprint, generates and status are unchanged/intact; --force never skips. *)
  Definition ghost05 := list (nat * (fpr * bool)).
  Definition c05_step (p : project) (before : fsmap) (g : ghost05) (e : ostep) : bool * ghost05 :=
    match snd (o_ev e) with
    | Invoke m tid _ =>
        match nth_error p tid with
        | None => (true, g)
        | Some t =>
            let f1 := deps_fs m (fst (o_ev e)) t before in
            let fp := task_fp t f1 in
            let ok :=
              match m with
              | Run =>
                  match lookup_nat tid g with
                  | Some (fp0, true) =>
                      let expect := fpr_eqb fp fp0 && gens_exist f1 t
                                    && (is_nil (t_status t) || status_ok f1 t) in
                      match o_res e with
                      | RSkipped => expect
                      | ROk | RFailed | RDeclined | RKilled => negb expect
                      | _ => true
                      end
                  | _ => true
                  end
              | Force => negb (is_skipped (o_res e))
              | _ => true
              end in
            (ok, if is_attempt m (o_res e) then (tid, (fp, is_ok (o_res e))) :: g else g)
        end
    | _ => (true, g)
    end.
  Fixpoint c05_run (p : project) (before : fsmap) (g : ghost05) (l : list ostep) : bool :=
    match l with
    | [] => true
    | e :: r => let '(ok, g') := c05_step p before g e in
                ok && c05_run p (fs_of_snap (o_snap e)) g' r
    end.
  Definition mon_C05 (p : project) (init : snapshot) (l : list ostep) : bool :=
    c05_run p (fs_of_snap init) [] l.

  (* C12.  A read-only invocation leaves the whole snapshot (files with
     mtimes, directories, fingerprint state, trace) as it was. *)
  Definition read_only (m : mode) : bool :=
    match m with Dry | Status | ListJson | ListM | Summary => true | _ => false end.
  Definition c12_step (before : snapshot) (e : ostep) : bool :=
    match snd (o_ev e) with
    | Invoke m _ _ => if read_only m then snap_eqb before (o_snap e) else true
    | _ => true
    end.
  Fixpoint c12_run (before : snapshot) (l : list ostep) : bool :=
    match l with
    | [] => true
    | e :: r => c12_step before e && c12_run (o_snap e) r
    end.
  Definition mon_C12 (init : snapshot) (l : list ostep) : bool := c12_run init l.

  (* H ; R ; K  versus  H ; K : the observations of K coincide *)
  Definition ostep_eqb (a b : ostep) : bool :=
    res_eqb (o_res a) (o_res b) && snap_eqb (o_snap a) (o_snap b).
  Definition mon_C12_commute (with_r without_r : list ostep) (n_h : nat) : bool :=
    list_eqb ostep_eqb (skipn (S n_h) with_r) (skipn n_h without_r).

End Oracles.

(* ------------------------------------------------------------------ *)
(* a concrete matcher for the generated pattern family:
   '/'-separated segments; a segment "**" matches any number of directories
   (including none); inside a segment '*' matches any run of characters.      *)

Fixpoint seg_match (pat s : list ascii) : bool :=
  match pat with
  | [] => is_nil s
  | c :: pr =>
      if Ascii.eqb c "*"%char then
        (fix aux (s : list ascii) : bool :=
           seg_match pr s || match s with [] => false | _ :: s' => aux s' end) s
      else match s with
           | [] => false
           | d :: s' => Ascii.eqb c d && seg_match pr s'
           end
  end.

Fixpoint split_slash (acc : list ascii) (s : string) : list (list ascii) :=
  match s with
  | EmptyString => [rev acc]
  | String c r => if Ascii.eqb c "/"%char then rev acc :: split_slash [] r
                  else split_slash (c :: acc) r
  end.

Definition is_starstar (p : list ascii) : bool :=
  match p with [a; b] => Ascii.eqb a "*"%char && Ascii.eqb b "*"%char | _ => false end.

Fixpoint segs_match (pats segs : list (list ascii)) : bool :=
  match pats with
  | [] => is_nil segs
  | p :: pr =>
      if is_starstar p then
        (fix aux (segs : list (list ascii)) : bool :=
           segs_match pr segs || match segs with [] => false | _ :: r => aux r end) segs
      else match segs with
           | [] => false
           | s :: sr => seg_match p s && segs_match pr sr
           end
  end.

Definition gmatch (pat : string) (p : path) : bool :=
  segs_match (split_slash [] pat) (split_slash [] p).
