(* The tree as it is after the repairs, method timestamp (the make-like
   comparison "is any source newer than the marker"): C04 and C05 over all
   histories, under the carve-outs that correspond to the open findings
     - no two tasks share a marker file                       (name collision)
     - every change of a source makes it newer than the marker: file
       operations stamp the current logical time, logical time increases, and
       no file that a sources pattern matches is removed, renamed or given an
       explicit mtime                                   (timestamp set-blindness)
     - the tasks have no generates (the 7.4 residual: generates newer than the
       sources stand in for a successful run)                                  *)
From Coq Require Import List String Ascii NArith Bool Arith ZArith Lia Sorting.Sorted.
Import ListNotations.
From TV Require Import Fp.Model Fp.ProofsBase Fp.ProofsC12 Fp.ProofsSafe Fp.ProofsC04 Fp.ProofsDetect.
Local Open Scope string_scope.
Local Open Scope list_scope.

Definition wf_ts_task (t : task) : Prop :=
  t_method t = Timestamp /\ t_sources t <> [] /\ t_generates t = [] /\ t_dep t = None.

Definition wf_ts_proj (p : project) : Prop :=
  (forall tid t, nth_error p tid = Some t -> wf_ts_task t) /\
  (forall i j ti tj, nth_error p i = Some ti -> nth_error p j = Some tj -> ts_key ti = ts_key tj -> i = j).

(* logical time: every event happens at or after T, the next one at least two ticks later *)
Fixpoint times_ok (T : N) (h : list event) : bool :=
  match h with
  | [] => true
  | e :: r => N.leb T (fst e) && times_ok (fst e + 2) r
  end.

Section CurrentTs.
  Variable matchb : string -> path -> bool.
  Variable H : string -> string.
  Variable Hx : fpr -> string.
  Variable v : variant.
  Hypothesis Hsafe : v_safe v = true.
  Hypothesis Hlist : v_listjson_dry v = true.
  Hypothesis Hroll : v_ts_rollback v = true.
  Hypothesis Hnex : v_ts_exact v = false.
  Hypothesis Hforce : v_force_records v = true.
  Hypothesis Hdfg : v_dry_fail_guard v = true.

  Notation step := (step matchb H Hx).
  Notation observe := (observe matchb H Hx).
  Notation task_fp := (task_fp matchb).
  Notation globs := (globs matchb).

  (* is the path matched by some sources pattern of the task / of some task of the project *)
  Definition srel_t (t : task) (q : path) : bool := existsb (fun g => matchb (snd g) q) (t_sources t).
  Definition srel (p : project) (q : path) : bool := existsb (fun t => srel_t t q) p.

  (* carve-out: the file operations that keep "changed => newer than the marker" *)
  Definition op_ok (p : project) (o : op) : bool :=
    match o with
    | Write _ _ | Touch _ | Invoke _ _ _ => true
    | Remove q => negb (srel p q)
    | Rename a b => negb (srel p a) && negb (srel p b)
    | SetMtime q _ => negb (srel p q)
    end.

  Definition recm (s : state) (t : task) : option N := lookup (ts_key t) (tss s).
  Definition srcs (f : fsmap) (t : task) : list path := globs f (t_sources t).

  Definition no_newer (f : fsmap) (t : task) (mt : N) : bool :=
    negb (existsb (fun q => N.ltb mt (mtime_of f q)) (srcs f t)).

  Definition upT (s : state) (t : task) : bool :=
    (is_nil (t_status t) || status_ok (fs s) t)
    && match recm s t with Some mt => no_newer (fs s) t mt | None => false end.

  Lemma globs_nil : forall f, globs f [] = [].
  Proof. reflexivity. Qed.

  Lemma uptodate_ts : forall now s t, wf_ts_task t ->
    uptodate matchb H Hx v true now s t = (upT s t, s).
  Proof.
    intros now s t [Hm [Hsrc [Hg _]]]. unfold Model.uptodate.
    assert (Hnn : negb (is_nil (t_sources t)) = true) by (destruct (t_sources t); [congruence|reflexivity]).
    rewrite Hnn. unfold check_sources. rewrite Hm, Hnex. unfold check_timestamp, upT, recm, no_newer, srcs, gens_exist.
    rewrite Hg. cbn [negb forallb max_mtime fold_right is_nil]. rewrite globs_nil. cbn [max_mtime fold_right is_nil].
    destruct (lookup (ts_key t) (tss s)) as [mt|].
    - rewrite N.max_0_l, orb_true_r, andb_true_r.
      destruct (is_nil (t_status t)); cbn [negb andb orb]; [reflexivity|].
      now destruct (status_ok (fs s) t).
    - destruct (is_nil (t_status t)); cbn [negb andb orb]; [reflexivity|].
      now rewrite andb_false_r.
  Qed.

  Lemma on_error_ts : forall s t, wf_ts_task t ->
    on_error v s t = with_tss s (remove_key (ts_key t) (tss s)).
  Proof. intros s t [Hm _]. unfold on_error. now rewrite Hm, Hnex, Hroll. Qed.

  Lemma record_ts : forall now f0 s t, wf_ts_task t ->
    record matchb H Hx v now f0 s t = with_tss s (set_key (ts_key t) now (tss s)).
  Proof. intros now f0 s t [Hm _]. unfold record. now rewrite Hm, Hnex. Qed.

  Lemma tss_mkdir : forall s d, tss (mkdir s d) = tss s.
  Proof. intros. unfold mkdir. destruct (String.eqb d ""); auto. now destruct (existsb _ _). Qed.
  Lemma fs_mkdir : forall s d, fs (mkdir s d) = fs s.
  Proof. intros. unfold mkdir. destruct (String.eqb d ""); auto. now destruct (existsb _ _). Qed.

  Definition outs (now : N) (f : fsmap) (t : task) : fsmap :=
    fold_left (fun f q => fs_set q {| f_content := "out"; f_mtime := now |} f) (t_outputs t) f.

  Lemma remove_remove : forall A k (l : list (string * A)), remove_key k (remove_key k l) = remove_key k l.
  Proof.
    intros A k l; induction l as [|[k' x] l IH]; cbn; auto.
    destruct (String.eqb_spec k k'); cbn; auto.
    destruct (String.eqb_spec k k'); [congruence|]. now rewrite IH.
  Qed.

  Inductive tsum (s : state) (now : N) (m : mode) (t : task) (s' : state) (r : res) : Prop :=
  | TS_skip : m <> Force -> upT s t = true -> s' = s -> r = RSkipped -> tsum s now m t s' r
  | TS_dry : m = Dry -> upT s t = false -> tss s' = tss s -> fs s' = fs s -> (r = RDry \/ r = RFailed) -> tsum s now m t s' r
  | TS_bad : m <> Dry -> (m = Force \/ upT s t = false) ->
             (r = RDeclined \/ r = RFailed \/ r = RKilled) ->
             tss s' = remove_key (ts_key t) (tss s) -> fs s' = fs s -> tsum s now m t s' r
  | TS_ok : m <> Dry -> (m = Force \/ upT s t = false) -> r = ROk ->
            tss s' = set_key (ts_key t) now (remove_key (ts_key t) (tss s)) ->
            fs s' = outs (N.succ now) (fs s) t -> tsum s now m t s' r.

  Lemma run_task_tsum : forall now s m tid t o s' r,
    wf_ts_task t -> (m = Run \/ m = Force \/ m = Dry) ->
    run_task_core matchb H Hx v now s m tid t o = (s', r) -> tsum s now m t s' r.
  Proof.
    intros now s m tid t o s' r Hwt Hmode E. unfold run_task_core in E.
    set (dry := match m with Dry => true | _ => false end) in *.
    set (force := match m with Force => true | _ => false end) in *.
    rewrite Hsafe, orb_true_r in E. cbn [andb] in E.
    rewrite (uptodate_ts now s t Hwt) in E.
    destruct (if force then false else upT s t) eqn:Eu.
    - assert (Hf : force = false) by (destruct force; [discriminate|reflexivity]).
      rewrite Hf in E, Eu. rewrite Eu in E. inversion E; subst. apply TS_skip; auto.
      intros ->. subst force. discriminate.
    - assert (Hnu : m = Force \/ upT s t = false).
      { destruct m; subst force; cbn in Eu; auto. }
      assert (E' : (if force then (false, s) else (upT s t, s)) = (false, s)).
      { destruct force; [reflexivity|]. now rewrite Eu. }
      rewrite E' in E. clear E'.
      unfold invalidate in E. rewrite (on_error_ts s t Hwt) in E.
      set (s2 := with_tss s (remove_key (ts_key t) (tss s))) in *.
      destruct dry eqn:Ed.
      + assert (m = Dry) by (destruct m; subst dry; try discriminate; auto). subst m.
        cbn [negb andb] in E. rewrite andb_false_r in E. cbn [andb] in E. rewrite Hdfg in E.
        destruct Hnu as [?|Hnu]; [discriminate|].
        destruct (guard_ok s t); cbn [negb] in E;
          destruct (v_dry_mkdir_guard v); inversion E; subst; apply TS_dry; auto using tss_mkdir, fs_mkdir.
      + assert (Hnd : m <> Dry) by (intros ->; subst dry; discriminate).
        cbn [negb andb] in E. rewrite andb_true_r in E.
        destruct (t_prompt t && is_prompt_no o).
        * assert (r = RDeclined) by (destruct (v_prompt_rollback v); inversion E; auto). subst r.
          apply TS_bad; auto.
          -- destruct (v_prompt_rollback v); inversion E; subst; auto.
             rewrite (on_error_ts _ t Hwt). cbn. apply remove_remove.
          -- destruct (v_prompt_rollback v); inversion E; subst; auto.
             rewrite (on_error_ts _ t Hwt). reflexivity.
        * cbn [andb] in E.
          destruct (guard_ok s t); cbn [negb] in E.
          2:{ (* the sub-call fails: a failing command *)
              inversion E; subst. clear E. rewrite (on_error_ts _ t Hwt). apply TS_bad; auto.
              - cbn [tss with_tss]. rewrite tss_mkdir. unfold s2. cbn [tss with_tss]. apply remove_remove.
              - cbn [fs with_tss]. rewrite fs_mkdir. reflexivity. }
          unfold run_cmds, after_success in E. rewrite Hsafe, Hforce, orb_true_r in E.
          set (sm := child_trace (mkdir s2 (t_dir t)) tid t) in *.
          assert (Hsm : tss sm = remove_key (ts_key t) (tss s)).
          { unfold sm, child_trace. destruct (t_subguard t); cbn [tss with_trace]; rewrite tss_mkdir; reflexivity. }
          assert (Hfm : fs sm = fs s).
          { unfold sm, child_trace. destruct (t_subguard t); cbn [fs with_trace]; rewrite fs_mkdir; reflexivity. }
          set (sok := write_outputs (N.succ now) (with_trace sm (add_trace tid 0 (t_ncmds t) (trace sm))) t) in *.
          assert (Hokc : (record matchb H Hx v now (fs s) sok t, ROk) = (s', r) -> tsum s now m t s' r).
          { intros E1. inversion E1; subst. clear E1. rewrite (record_ts _ _ _ _ Hwt).
            apply TS_ok; auto.
            - cbn. now rewrite Hsm.
            - cbn. unfold outs. now rewrite Hfm. }
          destruct o as [|k| |k]; try (now apply Hokc).
          -- destruct (Nat.ltb k (t_ncmds t)); [|now apply Hokc].
             inversion E; subst. clear E. rewrite (on_error_ts _ t Hwt). apply TS_bad; auto.
             ++ cbn. rewrite Hsm. apply remove_remove.
          -- destruct (Nat.ltb k (t_ncmds t)); [|now apply Hokc].
             inversion E; subst. clear E. apply TS_bad; auto.
  Qed.

  (* ---------------- the tree between a successful attempt and now ---------------- *)

  (* J: every file matched by a sources pattern of t is as it was in f0, or newer than the marker *)
  Definition J (t : task) (mt : N) (f0 f : fsmap) : Prop :=
    forall q, srel_t t q = true ->
      lookup q f = lookup q f0 \/ exists x, lookup q f = Some x /\ (mt < f_mtime x)%N.

  (* K: no source-related file is stamped at or after the next event time *)
  Definition K (p : project) (T : N) (f : fsmap) : Prop :=
    forall q x, srel p q = true -> lookup q f = Some x -> (f_mtime x < T)%N.

  Lemma J_refl : forall t mt f, J t mt f f.
  Proof. intros t mt f q _. now left. Qed.

  Lemma srel_of : forall p tid t q, nth_error p tid = Some t -> srel_t t q = true -> srel p q = true.
  Proof.
    intros p tid t q Hn Hs. unfold srel. apply existsb_exists. exists t. split; auto.
    eapply nth_error_In; eauto.
  Qed.

  Lemma lookup_remove_any : forall A k q (f : list (string * A)),
    q <> k -> lookup q (remove_key k f) = lookup q f.
  Proof. intros. now apply lookup_remove_neq. Qed.

  (* what a permitted file operation at time tau does to one path *)
  Lemma file_op_lookup : forall p tau f o q,
    op_ok p o = true -> srel p q = true ->
    lookup q (file_op tau f o) = lookup q f
    \/ exists x, lookup q (file_op tau f o) = Some x /\ f_mtime x = tau.
  Proof.
    intros p tau f o q Hok Hq. destruct o as [a c|a|a|a b|a tm|m tid oc]; cbn [file_op op_ok] in *.
    - rewrite lookup_fs_set. destruct (String.eqb q a); [right; eexists; split; reflexivity | now left].
    - destruct (lookup a f) as [x|] eqn:El; [|now left].
      rewrite lookup_fs_set. destruct (String.eqb q a); [right; eexists; split; reflexivity | now left].
    - left. apply lookup_remove_any. intros ->. rewrite Hq in Hok. discriminate.
    - apply andb_true_iff in Hok. destruct Hok as [Ha Hb].
      destruct (lookup a f) as [x|] eqn:El; [|now left].
      destruct (String.eqb a b); [now left|]. left.
      rewrite lookup_fs_set. destruct (String.eqb_spec q b) as [->|Nb]; [rewrite Hq in Hb; discriminate|].
      apply lookup_remove_any. intros ->. rewrite Hq in Ha. discriminate.
    - destruct (lookup a f) as [x|] eqn:El; [|now left].
      left. rewrite lookup_fs_set. destruct (String.eqb_spec q a) as [->|Na]; [rewrite Hq in Hok; discriminate|reflexivity].
    - now left.
  Qed.

  Lemma outs_lookup : forall now t f q,
    lookup q (outs now f t) = lookup q f \/ exists x, lookup q (outs now f t) = Some x /\ f_mtime x = now.
  Proof.
    intros now t f q. unfold outs. generalize (t_outputs t). intros l. revert f.
    induction l as [|a l IH]; intros f; cbn [fold_left]; [now left|].
    destruct (IH (fs_set a {| f_content := "out"; f_mtime := now |} f)) as [E|E]; [|now right].
    rewrite E, lookup_fs_set. destruct (String.eqb q a); [right; eexists; split; reflexivity | now left].
  Qed.

  Lemma J_update : forall t mt f0 f f' tau,
    J t mt f0 f -> (mt < tau)%N ->
    (forall q, srel_t t q = true -> lookup q f' = lookup q f \/ exists x, lookup q f' = Some x /\ f_mtime x = tau) ->
    J t mt f0 f'.
  Proof.
    intros t mt f0 f f' tau HJ Hlt Hup q Hq. destruct (Hup q Hq) as [E|[x [E Em]]].
    - rewrite E. now apply HJ.
    - right. exists x. split; auto. lia.
  Qed.

  Lemma K_update : forall p T T' f f' tau,
    K p T f -> (T <= T')%N -> (tau < T')%N ->
    (forall q, srel p q = true -> lookup q f' = lookup q f \/ exists x, lookup q f' = Some x /\ f_mtime x = tau) ->
    K p T' f'.
  Proof.
    intros p T T' f f' tau HK Hle Hlt Hup q x Hq Hl. destruct (Hup q Hq) as [E|[y [E Em]]].
    - rewrite E in Hl. specialize (HK _ _ Hq Hl). lia.
    - rewrite E in Hl. inversion Hl; subst. lia.
  Qed.

  (* ---------------- fingerprints vs. "nothing is newer than the marker" ---------------- *)

  Lemma in_keys_lookup : forall A q (f : list (string * A)), In q (map fst f) <-> exists x, lookup q f = Some x.
  Proof.
    intros A q f; induction f as [|[k y] f IH]; cbn.
    - split; [tauto | intros [x E]; discriminate].
    - destruct (String.eqb_spec q k) as [->|N].
      + split; [intros _; eauto | intros _; now left].
      + rewrite IH. split; [intros [E|E]; [congruence|auto] | auto].
  Qed.

  Lemma decide_from_matches : forall pats init q b,
    decide_from matchb init pats q = Some b -> init = Some b \/ existsb (fun g => matchb (snd g) q) pats = true.
  Proof.
    induction pats as [|g pats IH]; intros init q b E; cbn in *; [now left|].
    unfold decide_from in E. cbn in E. fold (decide_from matchb (if matchb (snd g) q then Some (negb (fst g)) else init) pats q) in E.
    destruct (matchb (snd g) q) eqn:M; cbn; [now right|].
    destruct (IH _ _ _ E) as [E1|E1]; auto.
  Qed.

  Lemma in_srcs_srel : forall f t q, In q (srcs f t) -> srel_t t q = true.
  Proof.
    intros f t q Hin. unfold srcs in Hin. apply globs_spec in Hin. destruct Hin as [_ Hd].
    unfold decide in Hd. destruct (decide_from_matches _ _ _ _ Hd) as [E|E]; [discriminate|exact E].
  Qed.

  Lemma in_srcs_iff : forall f t q, In q (srcs f t) <-> (exists x, lookup q f = Some x) /\ decide matchb (t_sources t) q = Some true.
  Proof. intros. unfold srcs. rewrite globs_spec, in_keys_lookup. tauto. Qed.

  Lemma no_newer_spec : forall f t mt, no_newer f t mt = true <-> forall q, In q (srcs f t) -> (mtime_of f q <= mt)%N.
  Proof.
    intros f t mt. unfold no_newer. rewrite negb_true_iff. split.
    - intros E q Hq. destruct (N.ltb mt (mtime_of f q)) eqn:L; [|apply N.ltb_ge in L; exact L].
      assert (existsb (fun q0 => N.ltb mt (mtime_of f q0)) (srcs f t) = true) by (apply existsb_exists; eauto). congruence.
    - intros Hall. destruct (existsb _ _) eqn:E; auto. apply existsb_exists in E. destruct E as [q [Hq L]].
      apply N.ltb_lt in L. specialize (Hall q Hq). lia.
  Qed.

  (* L1: if nothing matched is newer than the marker, the fingerprint is the one of the successful attempt *)
  Lemma same_fp_if_no_newer : forall t mt f0 f,
    J t mt f0 f -> no_newer f t mt = true -> fp_ts matchb f (t_sources t) = fp_ts matchb f0 (t_sources t).
  Proof.
    intros t mt f0 f HJ Hnn. rewrite no_newer_spec in Hnn.
    assert (Hsame : forall q, In q (srcs f t) -> lookup q f = lookup q f0).
    { intros q Hq. destruct (HJ q (in_srcs_srel _ _ _ Hq)) as [E|[x [E Hm]]]; auto.
      specialize (Hnn q Hq). unfold mtime_of in Hnn. rewrite E in Hnn. lia. }
    assert (Hl : srcs f t = srcs f0 t).
    { apply sorted_unique; try apply globs_sorted; try apply globs_nodup.
      intros q. split; intros Hq.
      - pose proof (Hsame q Hq) as E. apply in_srcs_iff in Hq. destruct Hq as [[x Hx'] Hd].
        apply in_srcs_iff. split; auto. exists x. congruence.
      - pose proof Hq as Hq0. apply in_srcs_iff in Hq. destruct Hq as [[x0 Hx0] Hd].
        destruct (HJ q (in_srcs_srel _ _ _ Hq0)) as [E|[x [E Hm]]].
        + apply in_srcs_iff. split; auto. exists x0. congruence.
        + assert (Hin : In q (srcs f t)) by (apply in_srcs_iff; split; eauto).
          specialize (Hnn q Hin). unfold mtime_of in Hnn. rewrite E in Hnn. lia. }
    unfold fp_ts. fold (srcs f t) (srcs f0 t). rewrite <- Hl.
    apply map_ext_in. intros q Hq. unfold mtime_of. now rewrite (Hsame q Hq).
  Qed.

  (* L2: conversely, at the fingerprint of the successful attempt nothing is newer than the marker *)
  Lemma fp_ts_inj : forall (l l0 : list path) (f f0 : fsmap),
    map (fun q => (q, "", mtime_of f q)) l = map (fun q => (q, "", mtime_of f0 q)) l0 ->
    l = l0 /\ forall q, In q l -> mtime_of f q = mtime_of f0 q.
  Proof.
    induction l as [|a l IH]; intros [|b l0] f f0 E; cbn in E; try discriminate.
    - split; [reflexivity | intros q []].
    - inversion E; subst. destruct (IH _ _ _ H3) as [-> Hm]. split; auto.
      intros q [->|Hq]; auto.
  Qed.

  Lemma no_newer_if_same_fp : forall t mt f0 f,
    fp_ts matchb f (t_sources t) = fp_ts matchb f0 (t_sources t) ->
    (forall q, In q (srcs f0 t) -> (mtime_of f0 q < mt)%N) ->
    no_newer f t mt = true.
  Proof.
    intros t mt f0 f E Hold. apply no_newer_spec. intros q Hq.
    unfold fp_ts in E. fold (srcs f t) (srcs f0 t) in E. apply fp_ts_inj in E. destruct E as [El Em].
    rewrite (Em q Hq). rewrite El in Hq. specialize (Hold q Hq). lia.
  Qed.

  Lemma task_fp_ts : forall t f, t_method t = Timestamp -> task_fp t f = fp_ts matchb f (t_sources t).
  Proof. intros t f Hm. unfold Model.task_fp, fp_of. now rewrite Hm. Qed.

  (* ---------------- the step of the state components the invariants speak about ---------------- *)

  Definition ev_ok (p : project) (e : event) : bool := op_ok p (snd e).

  Lemma recm_set_same : forall s t x now, tss x = set_key (ts_key t) now (remove_key (ts_key t) (tss s)) -> recm x t = Some now.
  Proof. intros s t x now E. unfold recm. rewrite E. apply lookup_set_eq. Qed.
  Lemma recm_set_other : forall s t t' x now, tss x = set_key (ts_key t) now (remove_key (ts_key t) (tss s)) ->
    ts_key t <> ts_key t' -> recm x t' = recm s t'.
  Proof. intros s t t' x now E Hk. unfold recm. rewrite E. rewrite lookup_set_neq by congruence. apply lookup_remove_neq. congruence. Qed.
  Lemma recm_rm_same : forall s t x, tss x = remove_key (ts_key t) (tss s) -> recm x t = None.
  Proof. intros s t x E. unfold recm. rewrite E. apply lookup_remove_eq. Qed.
  Lemma recm_rm_other : forall s t t' x, tss x = remove_key (ts_key t) (tss s) -> ts_key t <> ts_key t' -> recm x t' = recm s t'.
  Proof. intros s t t' x E Hk. unfold recm. rewrite E. apply lookup_remove_neq. congruence. Qed.

  (* ---------------- C04 ---------------- *)

  Definition InvT (p : project) (T : N) (s : state) (g : ghost04) : Prop :=
    forall tid t mt, nth_error p tid = Some t -> recm s t = Some mt ->
      (mt < T)%N /\ exists f0, g04_lookup tid (fp_ts matchb f0 (t_sources t)) g = Some true /\ J t mt f0 (fs s).

  (* the invariant survives anything that leaves the markers alone and changes files only by stamping tau *)
  Lemma invT_files : forall p T T' s s' g tau,
    InvT p T s g -> tss s' = tss s -> (T <= tau)%N -> (T <= T')%N ->
    (forall q, srel p q = true -> lookup q (fs s') = lookup q (fs s) \/ exists x, lookup q (fs s') = Some x /\ f_mtime x = tau) ->
    InvT p T' s' g.
  Proof.
    intros p T T' s s' g tau Hinv Et Hle Hle' Hup tid t mt Hn Hr.
    unfold recm in Hr. rewrite Et in Hr. destruct (Hinv _ _ _ Hn Hr) as [Hlt [f0 [Hg HJ]]].
    split; [lia|]. exists f0. split; auto.
    eapply J_update with (tau := tau); eauto; [lia|].
    intros q Hq. apply Hup. eapply srel_of; eauto.
  Qed.

  Lemma g04_other : forall tid tid' fp fp' b g,
    tid' <> tid -> g04_lookup tid' fp' ((tid, fp, b) :: g) = g04_lookup tid' fp' g.
  Proof. intros. cbn. destruct (Nat.eqb_spec tid' tid); [congruence|reflexivity]. Qed.

  Lemma c04_ts_run : forall p, wf_ts_proj p -> forall h T s g,
    InvT p T s g -> times_ok T h = true -> forallb (ev_ok p) h = true ->
    c04_run matchb p (fs s) g (observe v p s h) = true.
  Proof.
    intros p Hwf h; induction h as [|[t0 o] h IH]; intros T s g Hinv Htm Hev; cbn; auto.
    cbn [times_ok fst] in Htm. apply andb_true_iff in Htm. destruct Htm as [Ht0 Htm]. apply N.leb_le in Ht0.
    cbn [forallb] in Hev. apply andb_true_iff in Hev. destruct Hev as [Hok Hev]. unfold ev_ok in Hok. cbn [snd] in Hok.
    destruct (step v p s (t0, o)) as [s' x] eqn:Es. cbn [c04_run].
    destruct (c04_step matchb p (fs s) g {| o_ev := (t0, o); o_res := x; o_snap := snap_of s' |}) as [ok g'] eqn:Ec.
    cbn [o_snap]. rewrite fs_of_snap_of.
    assert (Hgoal : ok = true /\ InvT p (t0 + 2) s' g').
    { unfold c04_step in Ec. cbn [o_ev o_res snd] in Ec.
      assert (Hfile : forall oo, op_ok p oo = true ->
                 s' = with_fs s (file_op t0 (fs s) oo) -> (ok, g') = (true, g) -> ok = true /\ InvT p (t0 + 2) s' g').
      { intros oo Hoo -> Eg. inversion Eg; subst. split; auto.
        apply (invT_files p T (t0 + 2) s _ g t0 Hinv); [reflexivity | lia | lia |].
        intros q Hq. cbn [fs with_fs]. eapply file_op_lookup; eauto. }
      destruct o as [pth c|pth|pth|pth q|pth tm|m tid oc];
        try (unfold Model.step in Es; cbn in Es; inversion Es; subst; clear Es;
             apply (Hfile _ Hok eq_refl); inversion Ec; reflexivity).
      unfold Model.step in Es. cbn [snd fst] in Es. unfold invoke in Es.
      assert (Hstay : s' = s -> (ok, g') = (true, g) -> ok = true /\ InvT p (t0 + 2) s' g').
      { intros -> Eg. inversion Eg; subst. split; auto.
        apply (invT_files p T (t0 + 2) s s g t0 Hinv); [reflexivity | lia | lia |]. intros; now left. }
      destruct (nth_error p tid) as [t|] eqn:Hn.
      2:{ destruct m; inversion Es; subst; try (now apply Hstay).
          apply Hstay; auto. now apply list_json_quiet. }
      pose proof Hwf as [Hwt Hkeys]. pose proof (Hwt _ _ Hn) as Hwt'. pose proof Hwt' as [Hm [Hsrc [Hgen Hdep]]].
      cbn [fst] in Ec. rewrite (deps_fs_none _ _ _ _ Hdep) in Ec.
      assert (Hge : gens_exist matchb (fs s) t = true) by (unfold gens_exist; now rewrite Hgen).
      assert (Hrun : forall mm, (mm = Run \/ mm = Force \/ mm = Dry) -> m = mm ->
                run_task matchb H Hx v t0 s mm tid t oc = (s', x) -> ok = true /\ InvT p (t0 + 2) s' g').
      { intros mm Hmm -> Er. unfold run_task in Er. rewrite (deps_fs_none _ _ _ _ Hdep), with_fs_id in Er.
        pose proof (run_task_tsum _ _ _ _ _ _ _ _ Hwt' Hmm Er) as Sm.
        destruct Sm as [Hnf Hup -> ->|Hd Hup Ht Hf Hrd|Hnd Hup Hr Ht Hf|Hnd Hup -> Ht Hf].
        - (* skipped: the marker's attempt was at this fingerprint *)
          assert (Hat : is_attempt mm RSkipped = false) by (destruct mm; reflexivity).
          cbn [is_skipped] in Ec. rewrite Hat in Ec.
          unfold upT in Hup. apply andb_true_iff in Hup. destruct Hup as [_ Hup].
          destruct (recm s t) as [mt|] eqn:Hrec; [|discriminate].
          destruct (Hinv _ _ _ Hn Hrec) as [_ [f0 [Hg HJ]]].
          rewrite (task_fp_ts _ _ Hm), (same_fp_if_no_newer _ _ _ _ HJ Hup), Hg, Hge in Ec.
          apply Hstay; auto.
        - subst mm. destruct Hrd as [-> | ->]; cbn in Ec; inversion Ec; subst; (split; [reflexivity|]);
            (apply (invT_files p T (t0 + 2) s s' g' t0 Hinv); [exact Ht | lia | lia |]; intros q _; left; now rewrite Hf).
        - assert (Hat : is_attempt mm x = true).
          { destruct Hmm as [->|[->| ->]]; try congruence; destruct Hr as [->|[->| ->]]; reflexivity. }
          assert (Hsk : is_skipped x = false) by (destruct Hr as [->|[->| ->]]; reflexivity).
          rewrite Hat, Hsk in Ec. inversion Ec; subst. split; auto.
          intros tid' t' mt Hn' Hr'.
          destruct (Nat.eq_dec tid' tid) as [E|E].
          + subst tid'. assert (t' = t) by congruence. subst t'. rewrite (recm_rm_same _ _ _ Ht) in Hr'. discriminate.
          + assert (Hk : ts_key t <> ts_key t') by (intros Ek; apply E; symmetry; eapply Hkeys; eauto).
            rewrite (recm_rm_other _ _ _ _ Ht Hk) in Hr'.
            destruct (Hinv _ _ _ Hn' Hr') as [Hlt [f0 [Hg HJ]]]. split; [lia|]. exists f0.
            rewrite g04_other by auto. rewrite Hf. auto.
        - assert (Hat : is_attempt mm ROk = true) by (destruct Hmm as [->|[->| ->]]; try congruence; reflexivity).
          rewrite Hat in Ec. cbn in Ec. inversion Ec; subst. split; auto.
          intros tid' t' mt Hn' Hr'.
          destruct (Nat.eq_dec tid' tid) as [E|E].
          + subst tid'. assert (t' = t) by congruence. subst t'.
            rewrite (recm_set_same _ _ _ _ Ht) in Hr'. inversion Hr'; subst mt. split; [lia|].
            exists (fs s). split.
            * rewrite (task_fp_ts _ _ Hm). cbn. now rewrite Nat.eqb_refl, fpr_eqb_refl.
            * rewrite Hf. eapply J_update with (tau := N.succ t0); [apply J_refl | lia |].
              intros q _. apply outs_lookup.
          + assert (Hk : ts_key t <> ts_key t') by (intros Ek; apply E; symmetry; eapply Hkeys; eauto).
            rewrite (recm_set_other _ _ _ _ _ Ht Hk) in Hr'.
            destruct (Hinv _ _ _ Hn' Hr') as [Hlt [f0 [Hg HJ]]]. split; [lia|]. exists f0.
            rewrite g04_other by auto. split; auto. rewrite Hf.
            eapply J_update with (tau := N.succ t0); eauto; [lia|]. intros q _. apply outs_lookup. }
      destruct m.
      - apply (Hrun Run); auto.
      - apply (Hrun Force); auto.
      - apply (Hrun Dry); auto.
      - rewrite (uptodate_ts t0 s t Hwt') in Es. inversion Es; subst. cbn in Ec. apply Hstay; auto.
      - rewrite list_json_quiet in Es by auto. inversion Es; subst. cbn in Ec. apply Hstay; auto.
      - inversion Es; subst. cbn in Ec. apply Hstay; auto.
      - inversion Es; subst. cbn in Ec. apply Hstay; auto. }
    destruct Hgoal as [-> Hinv']. cbn. eapply IH; eauto.
  Qed.

  Theorem c04_current_timestamp : forall p s h T,
    wf_ts_proj p -> tss s = [] ->
    times_ok T h = true -> forallb (ev_ok p) h = true ->
    mon_C04 matchb p (snap_of s) (observe v p s h) = true.
  Proof.
    intros p s h T Hwf He Htm Hev. unfold mon_C04. rewrite fs_of_snap_of.
    eapply c04_ts_run; eauto.
    intros tid t mt _ Hr. unfold recm in Hr. rewrite He in Hr. discriminate.
  Qed.

  (* ---------------- C05 ---------------- *)

  Definition InvT5 (p : project) (T : N) (s : state) (g : ghost05) : Prop :=
    K p T (fs s) /\
    forall tid t, nth_error p tid = Some t ->
      match lookup_nat tid g with
      | Some (fp0, true) =>
          exists mt f0, recm s t = Some mt /\ (mt < T)%N /\ fp0 = fp_ts matchb f0 (t_sources t) /\ J t mt f0 (fs s)
                        /\ (forall q, In q (srcs f0 t) -> (mtime_of f0 q < mt)%N)
      | _ => recm s t = None
      end.

  Lemma invT5_files : forall p T T' s s' g tau,
    InvT5 p T s g -> tss s' = tss s -> (T <= tau)%N -> (tau < T')%N ->
    (forall q, srel p q = true -> lookup q (fs s') = lookup q (fs s) \/ exists x, lookup q (fs s') = Some x /\ f_mtime x = tau) ->
    InvT5 p T' s' g.
  Proof.
    intros p T T' s s' g tau [HK Hinv] Et Hle Hlt Hup. split.
    - eapply K_update with (tau := tau); eauto. lia.
    - intros tid t Hn. specialize (Hinv tid t Hn). unfold recm in *. rewrite Et.
      destruct (lookup_nat tid g) as [[fp0 [|]]|]; auto.
      destruct Hinv as [mt [f0 [Hr [Hm [Hfp [HJ Hold]]]]]]. exists mt, f0. repeat split; auto; [lia|].
      eapply J_update with (tau := tau); eauto; [lia|]. intros q Hq. apply Hup. eapply srel_of; eauto.
  Qed.

  Lemma srcs_old : forall p T f tid t, K p T f -> nth_error p tid = Some t ->
    forall q, In q (srcs f t) -> (mtime_of f q < T)%N.
  Proof.
    intros p T f tid t HK Hn q Hq. pose proof (in_srcs_srel _ _ _ Hq) as Hs.
    apply in_srcs_iff in Hq. destruct Hq as [[x Hx'] _]. unfold mtime_of. rewrite Hx'.
    eapply HK; eauto. eapply srel_of; eauto.
  Qed.

  Lemma c05_ts_run : forall p, wf_ts_proj p -> forall h T s g,
    InvT5 p T s g -> times_ok T h = true -> forallb (ev_ok p) h = true ->
    c05_run matchb p (fs s) g (observe v p s h) = true.
  Proof.
    intros p Hwf h; induction h as [|[t0 o] h IH]; intros T s g Hinv Htm Hev; cbn; auto.
    cbn [times_ok fst] in Htm. apply andb_true_iff in Htm. destruct Htm as [Ht0 Htm]. apply N.leb_le in Ht0.
    cbn [forallb] in Hev. apply andb_true_iff in Hev. destruct Hev as [Hok Hev]. unfold ev_ok in Hok. cbn [snd] in Hok.
    destruct (step v p s (t0, o)) as [s' x] eqn:Es. cbn [c05_run].
    destruct (c05_step matchb p (fs s) g {| o_ev := (t0, o); o_res := x; o_snap := snap_of s' |}) as [ok g'] eqn:Ec.
    cbn [o_snap]. rewrite fs_of_snap_of.
    assert (Hgoal : ok = true /\ InvT5 p (t0 + 2) s' g').
    { unfold c05_step in Ec. cbn [o_ev o_res snd] in Ec.
      assert (Hfile : forall oo, op_ok p oo = true ->
                 s' = with_fs s (file_op t0 (fs s) oo) -> (ok, g') = (true, g) -> ok = true /\ InvT5 p (t0 + 2) s' g').
      { intros oo Hoo -> Eg. inversion Eg; subst. split; auto.
        apply (invT5_files p T (t0 + 2) s _ g t0 Hinv); [reflexivity | lia | lia |].
        intros q Hq. cbn [fs with_fs]. eapply file_op_lookup; eauto. }
      destruct o as [pth c|pth|pth|pth q|pth tm|m tid oc];
        try (unfold Model.step in Es; cbn in Es; inversion Es; subst; clear Es;
             apply (Hfile _ Hok eq_refl); inversion Ec; reflexivity).
      unfold Model.step in Es. cbn [snd fst] in Es. unfold invoke in Es.
      assert (Hstay : s' = s -> (ok, g') = (true, g) -> ok = true /\ InvT5 p (t0 + 2) s' g').
      { intros -> Eg. inversion Eg; subst. split; auto.
        apply (invT5_files p T (t0 + 2) s s g t0 Hinv); [reflexivity | lia | lia |]. intros; now left. }
      destruct (nth_error p tid) as [t|] eqn:Hn.
      2:{ destruct m; inversion Es; subst; try (now apply Hstay).
          apply Hstay; auto. now apply list_json_quiet. }
      pose proof Hwf as [Hwt Hkeys]. pose proof (Hwt _ _ Hn) as Hwt'. pose proof Hwt' as [Hm [Hsrc [Hgen Hdep]]].
      cbn [fst] in Ec. rewrite (deps_fs_none _ _ _ _ Hdep) in Ec.
      assert (Hge : gens_exist matchb (fs s) t = true) by (unfold gens_exist; now rewrite Hgen).
      destruct Hinv as [HK Hinv]. pose proof (Hinv _ _ Hn) as Hi.
      (* the monitor's expectation is the model's decision *)
      assert (Hexp : forall fp0, lookup_nat tid g = Some (fp0, true) ->
                fpr_eqb (task_fp t (fs s)) fp0 && gens_exist matchb (fs s) t
                  && (is_nil (t_status t) || status_ok (fs s) t) = upT s t).
      { intros fp0 El. rewrite El in Hi. destruct Hi as [mt [f0 [Hr [Hlt [Hfp [HJ Hold]]]]]].
        unfold upT. rewrite Hr, Hge, andb_true_r, (task_fp_ts _ _ Hm).
        assert (Heq : fpr_eqb (fp_ts matchb (fs s) (t_sources t)) fp0 = no_newer (fs s) t mt).
        { destruct (no_newer (fs s) t mt) eqn:Nn.
          - apply fpr_eqb_eq. subst fp0. eapply same_fp_if_no_newer; eauto.
          - destruct (fpr_eqb _ fp0) eqn:F; auto. apply fpr_eqb_eq in F. subst fp0.
            rewrite (no_newer_if_same_fp _ _ _ _ F Hold) in Nn. discriminate. }
        rewrite Heq. apply andb_comm. }
      (* the invariant after an attempt of tid *)
      assert (Hbad : forall fp, tss s' = remove_key (ts_key t) (tss s) -> fs s' = fs s ->
                InvT5 p (t0 + 2) s' ((tid, (fp, false)) :: g)).
      { intros fp Ht Hf. split.
        - rewrite Hf. apply (K_update p T (t0 + 2) (fs s) (fs s) t0 HK); [lia | lia |]. intros; now left.
        - intros tid' t' Hn'. cbn [lookup_nat]. destruct (Nat.eqb_spec tid' tid) as [E|E].
          + subst tid'. assert (t' = t) by congruence. subst t'. eapply recm_rm_same; eauto.
          + assert (Hk : ts_key t <> ts_key t') by (intros Ek; apply E; symmetry; eapply Hkeys; eauto).
            specialize (Hinv _ _ Hn'). rewrite (recm_rm_other _ _ _ _ Ht Hk).
            destruct (lookup_nat tid' g) as [[fp0 [|]]|]; auto.
            destruct Hinv as [mt [f0 [Hr [Hlt [Hfp [HJ Hold]]]]]]. exists mt, f0. rewrite Hf. repeat split; auto. lia. }
      assert (Hgood : tss s' = set_key (ts_key t) t0 (remove_key (ts_key t) (tss s)) ->
                fs s' = outs (N.succ t0) (fs s) t ->
                InvT5 p (t0 + 2) s' ((tid, (task_fp t (fs s), true)) :: g)).
      { intros Ht Hf. split.
        - rewrite Hf. apply (K_update p T (t0 + 2) (fs s) _ (N.succ t0) HK); [lia | lia |]. intros q _. apply outs_lookup.
        - intros tid' t' Hn'. cbn [lookup_nat]. destruct (Nat.eqb_spec tid' tid) as [E|E].
          + subst tid'. assert (t' = t) by congruence. subst t'.
            exists t0, (fs s). rewrite (recm_set_same _ _ _ _ Ht), (task_fp_ts _ _ Hm). repeat split; auto; [lia| |].
            * rewrite Hf. eapply J_update with (tau := N.succ t0); [apply J_refl | lia |]. intros q _. apply outs_lookup.
            * intros q Hq. pose proof (srcs_old _ _ _ _ _ HK Hn q Hq). lia.
          + assert (Hk : ts_key t <> ts_key t') by (intros Ek; apply E; symmetry; eapply Hkeys; eauto).
            specialize (Hinv _ _ Hn'). rewrite (recm_set_other _ _ _ _ _ Ht Hk).
            destruct (lookup_nat tid' g) as [[fp0 [|]]|]; auto.
            destruct Hinv as [mt [f0 [Hr [Hlt [Hfp [HJ Hold]]]]]]. exists mt, f0. repeat split; auto; [lia|].
            rewrite Hf. eapply J_update with (tau := N.succ t0); eauto; [lia|]. intros q _. apply outs_lookup. }
      assert (Hrun : forall mm, (mm = Run \/ mm = Force \/ mm = Dry) -> m = mm ->
                run_task matchb H Hx v t0 s mm tid t oc = (s', x) -> ok = true /\ InvT5 p (t0 + 2) s' g').
      { intros mm Hmm -> Er. unfold run_task in Er. rewrite (deps_fs_none _ _ _ _ Hdep), with_fs_id in Er.
        pose proof (run_task_tsum _ _ _ _ _ _ _ _ Hwt' Hmm Er) as Sm.
        destruct Sm as [Hnf Hup -> ->|Hd Hup Ht Hf Hrd|Hnd Hup Hr Ht Hf|Hnd Hup -> Ht Hf].
        - assert (Hat : is_attempt mm RSkipped = false) by (destruct mm; reflexivity).
          rewrite Hat in Ec.
          destruct Hmm as [->|[->| ->]]; try congruence.
          + destruct (lookup_nat tid g) as [[fp0 [|]]|] eqn:El.
            * rewrite (Hexp _ eq_refl), Hup in Ec. apply Hstay; auto.
            * apply Hstay; auto.
            * apply Hstay; auto.
          + apply Hstay; auto.
        - subst mm. destruct Hrd as [-> | ->]; cbn in Ec; inversion Ec; subst; (split; [reflexivity|]);
            (apply (invT5_files p T (t0 + 2) s s' g' t0 (conj HK Hinv)); [exact Ht | lia | lia |]; intros q _; left; now rewrite Hf).
        - assert (Hat : is_attempt mm x = true).
          { destruct Hmm as [->|[->| ->]]; try congruence; destruct Hr as [->|[->| ->]]; reflexivity. }
          assert (Hokx : is_ok x = false) by (destruct Hr as [->|[->| ->]]; reflexivity).
          rewrite Hat, Hokx in Ec.
          destruct Hmm as [->|[->| ->]]; try congruence.
          + destruct Hup as [Hup|Hup]; [discriminate|].
            destruct (lookup_nat tid g) as [[fp0 [|]]|] eqn:El.
            * rewrite (Hexp _ eq_refl), Hup in Ec.
              destruct Hr as [->|[->| ->]]; inversion Ec; subst; split; auto.
            * inversion Ec; subst; split; auto.
            * inversion Ec; subst; split; auto.
          + assert (Hsk : is_skipped x = false) by (destruct Hr as [->|[->| ->]]; reflexivity).
            rewrite Hsk in Ec. inversion Ec; subst; split; auto.
        - assert (Hat : is_attempt mm ROk = true) by (destruct Hmm as [->|[->| ->]]; try congruence; reflexivity).
          rewrite Hat in Ec. cbn [is_ok] in Ec.
          destruct Hmm as [->|[->| ->]]; try congruence.
          + destruct Hup as [Hup|Hup]; [discriminate|].
            destruct (lookup_nat tid g) as [[fp0 [|]]|] eqn:El.
            * rewrite (Hexp _ eq_refl), Hup in Ec. inversion Ec; subst; split; auto.
            * inversion Ec; subst; split; auto.
            * inversion Ec; subst; split; auto.
          + cbn in Ec. inversion Ec; subst; split; auto. }
      destruct m.
      - apply (Hrun Run); auto.
      - apply (Hrun Force); auto.
      - apply (Hrun Dry); auto.
      - rewrite (uptodate_ts t0 s t Hwt') in Es. inversion Es; subst. cbn in Ec. apply Hstay; auto.
      - rewrite list_json_quiet in Es by auto. inversion Es; subst. cbn in Ec. apply Hstay; auto.
      - inversion Es; subst. cbn in Ec. apply Hstay; auto.
      - inversion Es; subst. cbn in Ec. apply Hstay; auto. }
    destruct Hgoal as [-> Hinv']. cbn. eapply IH; eauto.
  Qed.

  Theorem c05_current_timestamp : forall p s h T,
    wf_ts_proj p -> tss s = [] -> K p T (fs s) ->
    times_ok T h = true -> forallb (ev_ok p) h = true ->
    mon_C05 matchb p (snap_of s) (observe v p s h) = true.
  Proof.
    intros p s h T Hwf He HK Htm Hev. unfold mon_C05. rewrite fs_of_snap_of.
    eapply c05_ts_run; eauto. split; auto.
    intros tid t _. cbn. unfold recm. now rewrite He.
  Qed.
End CurrentTs.
