(* Non-vacuity: concrete instances meeting the hypotheses of the theorems. *)
From Coq Require Import List String Ascii NArith Bool Arith.
Import ListNotations.
From TV Require Import Fp.Model Fp.ProofsBase Fp.ProofsSafe Fp.ProofsC04 Fp.Refute.
Local Open Scope string_scope.

Definition p_example : project := [w_task Checksum; w_gen Timestamp].

Lemma wf_example : wf_proj p_example.
Proof.
  split.
  - intros [|[|tid]] t E; cbn in E; inversion E; subst; try (split; discriminate).
    destruct tid; discriminate.
  - intros [|[|i]] [|[|j]] ti tj Ei Ej Ek; cbn in Ei, Ej; inversion Ei; inversion Ej; subst;
      try reflexivity; try discriminate; try (destruct i; discriminate); try (destruct j; discriminate).
Qed.

Lemma empty_example : empty_store w_init.
Proof. split; reflexivity. Qed.

Lemma c04_example :
  wf_proj p_example /\ empty_store w_init /\
  map o_res (observe gmatch idH hx1 repaired p_example w_init h_example)
  = [RFailed; ROk; RSkipped; RFile; RKilled; ROk].
Proof. split; [apply wf_example|]. split; [apply empty_example|]. vm_compute. reflexivity. Qed.

(* ---- C04_partial: a history with a failed, a forced-failed and successful attempts, no collision ---- *)
From TV Require Import Fp.ProofsPartial.

Definition h_partial : list event :=
  [(10, Invoke Run 0 (FailAt 1)); (12, Invoke Run 0 AllOk); (14, Write "src/a.txt" "A1");
   (16, Invoke Force 0 (FailAt 0)); (18, Invoke Run 0 AllOk); (20, Invoke Run 0 AllOk)]%N.

Lemma wf_cs_example : wf_cs_proj [w_task Checksum].
Proof.
  split.
  - intros [|tid] t E; cbn in E; inversion E; subst.
    + repeat split; try reflexivity; discriminate.
    + destruct tid; discriminate.
  - intros [|i] [|j] ti tj Ei Ej _; cbn in Ei, Ej; try reflexivity;
      try (destruct i; discriminate); try (destruct j; discriminate).
Qed.

Lemma partial_example :
  wf_cs_proj [w_task Checksum] /\
  forallb (ev_c04_ok pinned) h_partial = true /\
  nocoll_run gmatch idH hx1 pinned [w_task Checksum] (fs w_init) []
             (observe gmatch idH hx1 pinned [w_task Checksum] w_init h_partial) = true /\
  map o_res (observe gmatch idH hx1 pinned [w_task Checksum] w_init h_partial)
  = [RFailed; ROk; RFile; RFailed; ROk; RSkipped].
Proof. split; [apply wf_cs_example|]. repeat split; vm_compute; reflexivity. Qed.

Definition h_c05_example : list event :=
  [(10, Invoke Run 0 AllOk); (12, Invoke Run 0 AllOk);
   (14, Write "src/a.txt" "A1"); (16, Invoke Run 0 AllOk);
   (18, Write "src/new.txt" "n"); (20, Invoke Run 0 AllOk);
   (22, Remove "src/new.txt"); (24, Invoke Run 0 AllOk);
   (26, Rename "src/a.txt" "src/sub/a.txt"); (28, Invoke Run 0 AllOk); (30, Invoke Run 0 AllOk)]%N.

Lemma c05_example :
  wf_proj p_example /\ empty_store w_init /\
  map o_res (observe gmatch idH hx1 repaired p_example w_init h_c05_example)
  = [ROk; RSkipped; RFile; ROk; RFile; ROk; RFile; ROk; RFile; ROk; RSkipped].
Proof. split; [apply wf_example|]. split; [apply empty_example|]. vm_compute. reflexivity. Qed.
