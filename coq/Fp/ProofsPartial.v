(* C04, the code as it is (the check writes the record, a failing command
   removes it): soundness for method checksum over all histories whose
   invocations are not killed, with no prompt to decline and no writing
   --list --json, as long as no two distinct fingerprints of a task collide
   under the digest. *)
From Coq Require Import List String Ascii NArith Bool Arith ZArith Lia.
Import ListNotations.
From TV Require Import Fp.Model Fp.ProofsBase Fp.ProofsC12 Fp.ProofsSafe Fp.ProofsC04.
Local Open Scope string_scope.
Local Open Scope list_scope.

Definition wf_cs_task (t : task) : Prop :=
  t_method t = Checksum /\ t_sources t <> [] /\ t_prompt t = false /\ t_subguard t = None /\ t_dep t = None.

Definition wf_cs_proj (p : project) : Prop :=
  (forall tid t, nth_error p tid = Some t -> wf_cs_task t) /\
  (forall i j ti tj, nth_error p i = Some ti -> nth_error p j = Some tj -> cs_key ti = cs_key tj -> i = j).

Definition not_killed (o : outcome) : bool := match o with KilledAt _ => false | _ => true end.

Definition ev_c04_ok (v : variant) (e : event) : bool :=
  match snd e with
  | Invoke m _ o => not_killed o && match m with ListJson => v_listjson_dry v | _ => true end
  | _ => true
  end.

Section Partial.
  Variable matchb : string -> path -> bool.
  Variable H : string -> string.
  Variable Hx : fpr -> string.
  Variable v : variant.
  Hypothesis Hnsafe : v_safe v = false.
  Hypothesis Hnforce : v_force_records v = false.

  Notation step := (step matchb H Hx).
  Notation observe := (observe matchb H Hx).
  Notation task_fp := (task_fp matchb).
  Notation D := (dg H Hx v).

  (* no two distinct fingerprints at which the task was attempted / is checked share a digest *)
  Definition nocoll_step (tid : nat) (fp : fpr) (g : ghost04) : bool :=
    forallb (fun e => negb (Nat.eqb (fst (fst e)) tid && String.eqb (D (snd (fst e))) (D fp))
                      || fpr_eqb (snd (fst e)) fp) g.

  Fixpoint nocoll_run (p : project) (before : fsmap) (g : ghost04) (l : list ostep) : bool :=
    match l with
    | [] => true
    | e :: r =>
        match snd (o_ev e) with
        | Invoke _ tid _ => match nth_error p tid with
                            | Some t => nocoll_step tid (task_fp t before) g
                            | None => true
                            end
        | _ => true
        end
        && nocoll_run p (fs_of_snap (o_snap e)) (snd (c04_step matchb p before g e)) r
    end.

  Definition recc (s : state) (t : task) : option string := lookup (cs_key t) (cks s).

  Definition InvP (p : project) (s : state) (g : ghost04) : Prop :=
    forall tid t d, nth_error p tid = Some t -> recc s t = Some d ->
      exists fp, d = D fp /\ g04_lookup tid fp g = Some true.

  Lemma g04_lookup_in : forall tid fp g b, g04_lookup tid fp g = Some b -> In (tid, fp, b) g.
  Proof.
    intros tid fp g b; induction g as [|[[t' f'] b'] g IH]; cbn; [discriminate|].
    destruct (Nat.eqb_spec tid t') as [E|E]; cbn.
    - destruct (fpr_eqb fp f') eqn:F.
      + apply fpr_eqb_eq in F. intros Hs. inversion Hs; subst. now left.
      + intros Hs. right. auto.
    - intros Hs. right. auto.
  Qed.

  Lemma nocoll_use : forall tid fp fp0 g b,
    nocoll_step tid fp g = true -> In (tid, fp0, b) g -> D fp0 = D fp -> fp0 = fp.
  Proof.
    intros tid fp fp0 g b Hn Hin Hd. unfold nocoll_step in Hn. rewrite forallb_forall in Hn.
    specialize (Hn _ Hin). cbn in Hn. rewrite Nat.eqb_refl, Hd, String.eqb_refl in Hn. cbn in Hn.
    now apply fpr_eqb_eq.
  Qed.

  (* the check of a checksum task, as an equation *)
  Lemma uptodate_cs : forall dry now s t,
    wf_cs_task t ->
    let fp := task_fp t (fs s) in
    let same := str_eq_opt (recc s t) (D fp) in
    uptodate matchb H Hx v dry now s t =
      ((is_nil (t_status t) || status_ok (fs s) t) && (same && gens_exist matchb (fs s) t),
       if negb dry && negb same then with_cks s (set_key (cs_key t) (D fp) (cks s)) else s).
  Proof.
    intros dry now s t [Hm [Hsrc [Hp _]]]. cbn zeta. unfold Model.uptodate.
    assert (Hnn : negb (is_nil (t_sources t)) = true) by (destruct (t_sources t); [congruence|reflexivity]).
    rewrite Hnn. unfold check_sources. rewrite Hm. unfold check_checksum, recc, Model.task_fp, fp_of. rewrite Hm.
    destruct (is_nil (t_status t)); cbn [negb andb orb]; [reflexivity|].
    now destruct (status_ok (fs s) t).
  Qed.

  Lemma recc_other : forall s t t' d, cs_key t <> cs_key t' ->
    recc (with_cks s (set_key (cs_key t) d (cks s))) t' = recc s t'.
  Proof. intros. unfold recc. cbn. apply lookup_set_neq. congruence. Qed.

  Lemma invP_same_cks : forall p s s' g, cks s' = cks s -> InvP p s g -> InvP p s' g.
  Proof. intros p s s' g E Hinv tid t d Hn Hr. unfold recc in Hr. rewrite E in Hr. eauto. Qed.

  (* after an attempt of tid: its record is gone, or it is the digest of the attempted fingerprint and the attempt succeeded,
     or it is untouched and the attempt succeeded *)
  Lemma invP_attempt : forall p s s' g tid t fp b,
    wf_cs_proj p -> nth_error p tid = Some t -> InvP p s g ->
    (recc s' t = None \/ (b = true /\ recc s' t = Some (D fp)) \/ (b = true /\ recc s' t = recc s t)) ->
    (forall t', cs_key t <> cs_key t' -> recc s' t' = recc s t') ->
    InvP p s' ((tid, fp, b) :: g).
  Proof.
    intros p s s' g tid t fp b [Hwf Hkeys] Hn Hinv Hrec Hoth tid' t' d Hn' Hr.
    destruct (Nat.eq_dec tid' tid) as [E|E].
    - subst tid'. assert (t' = t) by congruence. subst t'.
      destruct Hrec as [Hrec|[[-> Hrec]|[-> Hrec]]]; [congruence| |].
      + exists fp. split; [congruence|]. apply g04_lookup_same.
      + rewrite Hrec in Hr. destruct (Hinv _ _ _ Hn Hr) as [fp0 [Ed Hl]]. exists fp0. split; auto.
        cbn. rewrite Nat.eqb_refl. cbn. destruct (fpr_eqb fp0 fp); auto.
    - assert (Hk : cs_key t <> cs_key t').
      { intros Ek. apply E. symmetry. eapply Hkeys; eauto. }
      rewrite Hoth in Hr by auto. destruct (Hinv _ _ _ Hn' Hr) as [fp0 [Ed Hl]].
      exists fp0. split; auto. now rewrite g04_lookup_other.
  Qed.

  Lemma on_error_cs : forall s t, wf_cs_task t ->
    on_error v s t = with_cks s (remove_key (cs_key t) (cks s)).
  Proof.
    intros s t [Hm [Hsrc _]]. unfold on_error. rewrite Hm. destruct (t_sources t); [congruence|reflexivity].
  Qed.

  Lemma cks_mkdir : forall s d, cks (mkdir s d) = cks s.
  Proof. intros. unfold mkdir. destruct (String.eqb d ""); auto. now destruct (existsb _ _). Qed.

  Lemma c04_partial_run : forall p, wf_cs_proj p -> forall h s g,
    InvP p s g ->
    forallb (ev_c04_ok v) h = true ->
    nocoll_run p (fs s) g (observe v p s h) = true ->
    c04_run matchb p (fs s) g (observe v p s h) = true.
  Proof.
    intros p Hwf h; induction h as [|[t0 o] h IH]; intros s g Hinv Hev Hnc; cbn; auto.
    cbn [forallb] in Hev. apply andb_true_iff in Hev. destruct Hev as [He Hev].
    cbn [Model.observe] in Hnc |- *.
    destruct (step v p s (t0, o)) as [s' x] eqn:Es. cbn [c04_run nocoll_run] in Hnc |- *.
    apply andb_true_iff in Hnc. destruct Hnc as [Hn1 Hnc]. cbn [o_snap o_ev snd] in Hn1, Hnc.
    rewrite fs_of_snap_of in Hnc.
    destruct (c04_step matchb p (fs s) g {| o_ev := (t0, o); o_res := x; o_snap := snap_of s' |}) as [ok g'] eqn:Ec.
    cbn [snd] in Hnc. cbn [o_snap]. rewrite fs_of_snap_of.
    assert (Hgoal : ok = true /\ InvP p s' g').
    { unfold c04_step in Ec. cbn [o_ev o_res snd] in Ec.
      destruct o as [pth c|pth|pth|pth q|pth tm|m tid oc];
        try (file_op_case Es; inversion Ec; subst; split; auto; fail).
      unfold ev_c04_ok in He. cbn [snd] in He. apply andb_true_iff in He. destruct He as [Hnk Hlj].
      unfold Model.step in Es. cbn [snd fst] in Es. unfold invoke in Es.
      destruct (nth_error p tid) as [t|] eqn:Hn.
      2:{ inversion Ec; subst. split; auto.
          destruct m; inversion Es; subst; auto.
          rewrite list_json_quiet; auto. }
      pose proof Hwf as [Hwt Hkeys]. pose proof (Hwt _ _ Hn) as Hwt'. pose proof Hwt' as [Hm [Hsrc [Hpr [Hsg Hdep]]]].
      cbn [fst] in Ec. rewrite (deps_fs_none _ _ _ _ Hdep) in Ec.
      set (fp := task_fp t (fs s)) in *.
      set (same := str_eq_opt (recc s t) (D fp)).
      (* a skip is justified *)
      assert (Hjust : same = true -> gens_exist matchb (fs s) t = true ->
                match g04_lookup tid fp g with Some true => gens_exist matchb (fs s) t | _ => false end = true).
      { intros Hsame Hg. apply str_eq_opt_true in Hsame.
        destruct (Hinv _ _ _ Hn Hsame) as [fp0 [Ed Hl]].
        assert (fp0 = fp).
        { eapply nocoll_use; eauto using g04_lookup_in. }
        subst fp0. now rewrite Hl. }
      assert (Hrun : forall mm, (mm = Run \/ mm = Force \/ mm = Dry) -> m = mm ->
                run_task matchb H Hx v t0 s mm tid t oc = (s', x) -> ok = true /\ InvP p s' g').
      { intros mm Hmm -> Er. unfold run_task in Er. rewrite (deps_fs_none _ _ _ _ Hdep), with_fs_id in Er.
        unfold run_task_core, guard_ok, child_trace in Er. rewrite Hsg in Er. cbn [negb] in Er.
        rewrite Hnsafe, orb_false_r in Er. cbn [andb] in Er.
        rewrite Hpr in Er. cbn [andb] in Er.
        destruct Hmm as [->|[->| ->]].
        - (* Run *)
          rewrite (uptodate_cs false t0 s t Hwt') in Er. fold fp same in Er. cbn [negb andb] in Er.
          destruct ((is_nil (t_status t) || status_ok (fs s) t) && (same && gens_exist matchb (fs s) t)) eqn:Eu.
          + (* skipped *)
            apply andb_true_iff in Eu. destruct Eu as [_ Eu]. apply andb_true_iff in Eu. destruct Eu as [Hsame Hg].
            rewrite Hsame in Er. cbn in Er. inversion Er; subst. cbn in Ec. rewrite (Hjust Hsame Hg) in Ec.
            inversion Ec; subst. auto.
          + set (s1 := if negb same then with_cks s (set_key (cs_key t) (D fp) (cks s)) else s) in *.
            assert (Hr1 : recc s1 t = Some (D fp)).
            { unfold s1. destruct same eqn:Hsame; cbn [negb].
              - now apply str_eq_opt_true.
              - unfold recc. cbn. apply lookup_set_eq. }
            assert (Ho1 : forall t', cs_key t <> cs_key t' -> recc s1 t' = recc s t').
            { intros t' Hk. unfold s1. destruct same; cbn [negb]; auto. now apply recc_other. }
            unfold run_cmds, after_success in Er. rewrite Hnsafe in Er. cbn [andb] in Er.
            set (sok := write_outputs (N.succ t0) (with_trace (mkdir s1 (t_dir t)) (add_trace tid 0 (t_ncmds t) (trace (mkdir s1 (t_dir t))))) t) in *.
            assert (Hck : cks sok = cks s1) by (unfold sok; cbn; apply cks_mkdir).
            assert (Hokc : (sok, ROk) = (s', x) -> ok = true /\ InvP p s' g').
            { intros E1. inversion E1; subst. cbn in Ec. inversion Ec; subst. split; auto.
              eapply invP_attempt; eauto.
              - right. left. split; auto. unfold recc. rewrite Hck. exact Hr1.
              - intros t' Hk. unfold recc. rewrite Hck. now apply Ho1. }
            destruct oc as [|k| |k]; try (now apply Hokc).
            * destruct (Nat.ltb k (t_ncmds t)); [|now apply Hokc].
              rewrite on_error_cs in Er by auto. inversion Er; subst. cbn in Ec. inversion Ec; subst. split; auto.
              eapply invP_attempt; eauto.
              -- left. unfold recc. cbn. apply lookup_remove_eq.
              -- intros t' Hk. unfold recc. cbn. rewrite cks_mkdir. rewrite lookup_remove_neq by congruence. now apply Ho1.
        - (* Force *)
          cbn [negb andb] in Er.
          unfold run_cmds, after_success in Er. rewrite Hnsafe, Hnforce in Er. cbn [andb] in Er.
          set (sok := write_outputs (N.succ t0) (with_trace (mkdir s (t_dir t)) (add_trace tid 0 (t_ncmds t) (trace (mkdir s (t_dir t))))) t) in *.
          assert (Hck : cks sok = cks s) by (unfold sok; cbn; apply cks_mkdir).
          assert (Hokc : (sok, ROk) = (s', x) -> ok = true /\ InvP p s' g').
          { intros E1. inversion E1; subst. cbn in Ec. inversion Ec; subst. split; auto.
            eapply invP_attempt; eauto.
            - right. right. split; auto. unfold recc. now rewrite Hck.
            - intros t' Hk. unfold recc. now rewrite Hck. }
          destruct oc as [|k| |k]; try (now apply Hokc).
          * destruct (Nat.ltb k (t_ncmds t)); [|now apply Hokc].
            rewrite on_error_cs in Er by auto. inversion Er; subst. cbn in Ec. inversion Ec; subst. split; auto.
            eapply invP_attempt; eauto.
            -- left. unfold recc. cbn. apply lookup_remove_eq.
            -- intros t' Hk. unfold recc. cbn. rewrite cks_mkdir. apply lookup_remove_neq. congruence.
        - (* Dry *)
          rewrite (uptodate_cs true t0 s t Hwt') in Er. fold fp same in Er. cbn [negb andb] in Er.
          destruct ((is_nil (t_status t) || status_ok (fs s) t) && (same && gens_exist matchb (fs s) t)) eqn:Eu.
          + apply andb_true_iff in Eu. destruct Eu as [_ Eu]. apply andb_true_iff in Eu. destruct Eu as [Hsame Hg].
            inversion Er; subst. cbn in Ec. rewrite (Hjust Hsame Hg) in Ec. inversion Ec; subst. auto.
          + destruct (v_dry_mkdir_guard v); inversion Er; subst; cbn in Ec; inversion Ec; subst; split; auto.
            eapply invP_same_cks; [apply cks_mkdir | exact Hinv]. }
      destruct m.
      - apply (Hrun Run); auto.
      - apply (Hrun Force); auto.
      - apply (Hrun Dry); auto.
      - (* Status *)
        pose proof (uptodate_quiet matchb H Hx v t0 s t) as Eq.
        destruct (uptodate matchb H Hx v true t0 s t) as [up s1]. cbn in Eq. subst s1.
        inversion Es; subst. cbn in Ec. inversion Ec; subst. auto.
      - (* ListJson, dry by hypothesis *)
        rewrite list_json_quiet in Es by auto. inversion Es; subst. cbn in Ec. inversion Ec; subst. auto.
      - inversion Es; subst. cbn in Ec. inversion Ec; subst. auto.
      - inversion Es; subst. cbn in Ec. inversion Ec; subst. auto. }
    destruct Hgoal as [-> Hinv']. cbn. apply IH; auto.
  Qed.

  Theorem c04_partial : forall p s h,
    wf_cs_proj p -> cks s = [] ->
    forallb (ev_c04_ok v) h = true ->
    nocoll_run p (fs s) [] (observe v p s h) = true ->
    mon_C04 matchb p (snap_of s) (observe v p s h) = true.
  Proof.
    intros p s h Hwf He Hev Hnc. unfold mon_C04. rewrite fs_of_snap_of.
    apply c04_partial_run; auto.
    intros tid t d _ Hr. unfold recc in Hr. rewrite He in Hr. discriminate.
  Qed.
End Partial.
