(* C05 for the repaired protocol: after a successful attempt the next normal
   run skips iff fingerprint, generates and status are as they were; --force
   never skips.  Invariant + induction over all histories. *)
From Coq Require Import List String Ascii NArith Bool Arith ZArith Lia.
Import ListNotations.
From TV Require Import Fp.Model Fp.ProofsBase Fp.ProofsC12 Fp.ProofsSafe Fp.ProofsC04.
Local Open Scope string_scope.
Local Open Scope list_scope.

Section C05.
  Variable matchb : string -> path -> bool.
  Variable H : string -> string.
  Variable Hx : fpr -> string.
  Variable v : variant.
  Hypothesis Hsafe : v_safe v = true.
  Hypothesis Hfp : v_fp_exact v = true.
  Hypothesis Hts : v_ts_exact v = true.
  Hypothesis Hlist : v_listjson_dry v = true.
  Hypothesis Hdfg : v_dry_fail_guard v = true.
  Hypothesis Hforce : v_force_records v = true.
  Hypothesis Hinj : forall a b, Hx a = Hx b -> a = b.

  Notation step := (step matchb H Hx).
  Notation observe := (observe matchb H Hx).
  Notation task_fp := (task_fp matchb).

  (* the record is present exactly when the task's most recent attempt succeeded, and is its digest *)
  Definition Inv05 (p : project) (s : state) (g : ghost05) : Prop :=
    forall tid t, nth_error p tid = Some t ->
      match lookup_nat tid g with
      | Some (fp0, true) => rec_of s t = Some (Hx fp0)
      | _ => rec_of s t = None
      end.

  Lemma inv05_same_store : forall p s s' g, same_store s s' -> Inv05 p s g -> Inv05 p s' g.
  Proof.
    intros p s s' g Hss Hinv tid t Hn. rewrite (rec_of_same_store _ _ _ Hss). now apply Hinv.
  Qed.

  Lemma hx_eqb : forall a b, String.eqb (Hx a) (Hx b) = fpr_eqb b a.
  Proof.
    intros a b. destruct (String.eqb_spec (Hx a) (Hx b)) as [E|E].
    - apply Hinj in E. subst. symmetry. apply fpr_eqb_refl.
    - destruct (fpr_eqb b a) eqn:F; auto. apply fpr_eqb_eq in F. subst. congruence.
  Qed.

  Lemma inv05_attempt : forall p s s' g tid t fp (b : bool),
    wf_proj p -> nth_error p tid = Some t -> Inv05 p s g ->
    (rec_of s' t = if b then Some (Hx fp) else None) ->
    (forall t', rkey t <> rkey t' -> rec_of s' t' = rec_of s t') ->
    Inv05 p s' ((tid, (fp, b)) :: g).
  Proof.
    intros p s s' g tid t fp b [Hwf Hkeys] Hn Hinv Hrec Hoth tid' t' Hn'.
    cbn [lookup_nat]. destruct (Nat.eqb_spec tid' tid) as [E|E].
    - subst tid'. assert (t' = t) by congruence. subst t'. destruct b; auto.
    - assert (Hk : rkey t <> rkey t').
      { intros Ek. apply E. symmetry. eapply Hkeys; eauto. }
      rewrite Hoth by auto. now apply Hinv.
  Qed.

  Lemma c05_run_holds : forall p, wf_proj p -> forall h s g,
    Inv05 p s g -> c05_run matchb p (fs s) g (observe v p s h) = true.
  Proof.
    intros p Hwf h; induction h as [|[t0 o] h IH]; intros s g Hinv; cbn; auto.
    destruct (step v p s (t0, o)) as [s' x] eqn:Es. cbn [c05_run].
    destruct (c05_step matchb p (fs s) g {| o_ev := (t0, o); o_res := x; o_snap := snap_of s' |}) as [ok g'] eqn:Ec.
    cbn [o_snap]. rewrite fs_of_snap_of.
    assert (Hgoal : ok = true /\ Inv05 p s' g').
    { unfold c05_step in Ec. cbn [o_ev o_res snd] in Ec.
      destruct o as [pth c|pth|pth|pth q|pth tm|m tid oc];
        try (file_op_case Es; inversion Ec; subst; split; auto; fail).
      unfold Model.step in Es. cbn [snd fst] in Es. unfold invoke in Es.
      destruct (nth_error p tid) as [t|] eqn:Hn.
      2:{ inversion Ec; subst. split; auto.
          destruct m; inversion Es; subst; auto.
          rewrite list_json_quiet; auto. }
      destruct Hwf as [Hwt Hkeys]. destruct (Hwt _ _ Hn) as [Hsrc Hm].
      (* the monitor's expectation is the model's decision *)
      assert (Hexp : forall st fp0, rec_of st t = Some (Hx fp0) ->
                fpr_eqb (task_fp t (fs st)) fp0 && gens_exist matchb (fs st) t
                  && (is_nil (t_status t) || status_ok (fs st) t) = up_formula matchb Hx st t).
      { intros st fp0 Hr. unfold up_formula. rewrite Hr. cbn [str_eq_opt]. rewrite hx_eqb.
        destruct (fpr_eqb (task_fp t (fs st)) fp0), (gens_exist matchb (fs st) t),
                 (is_nil (t_status t) || status_ok (fs st) t); reflexivity. }
      assert (Hrun : forall mm, (mm = Run \/ mm = Force \/ mm = Dry) -> m = mm ->
                run_task matchb H Hx v t0 s mm tid t oc = (s', x) -> ok = true /\ Inv05 p s' g').
      { intros mm Hmm -> Er.
        change (run_task matchb H Hx v t0 s mm tid t oc)
          with (run_task_core matchb H Hx v t0 (pre_state mm t0 t s) mm tid t oc) in Er.
        cbn [fst] in Ec. change (deps_fs mm t0 t (fs s)) with (fs (pre_state mm t0 t s)) in Ec.
        assert (Hinv0 : Inv05 p (pre_state mm t0 t s) g) by (eapply inv05_same_store; [apply same_store_pre | exact Hinv]).
        clear Hinv. set (s0 := pre_state mm t0 t s) in *.
        pose proof (run_task_summary matchb H Hx v Hsafe Hfp Hts Hdfg _ _ _ _ _ _ _ _ Hsrc Hm Hmm Er) as Sm.
        pose proof (Hinv0 _ _ Hn) as Hi.
        destruct Sm as [Hnf Hup -> ->|Hd Hup Hss Hrd|Hnd Hup Hr Hnone Hoth|Hnd Hup -> Hrec Hoth].
        - (* skipped *)
          assert (Hat : is_attempt mm RSkipped = false) by (destruct mm; reflexivity).
          rewrite Hat in Ec.
          destruct Hmm as [->|[->| ->]]; try congruence.
          + destruct (lookup_nat tid g) as [[fp0 [|]]|] eqn:El.
            * rewrite (Hexp s0 _ Hi), Hup in Ec. inversion Ec; subst; auto.
            * inversion Ec; subst; auto.
            * inversion Ec; subst; auto.
          + inversion Ec; subst; auto.
        - subst mm. destruct Hrd as [-> | ->]; cbn in Ec; inversion Ec; subst; (split; [reflexivity | eapply inv05_same_store; eauto]).
        - assert (Hat : is_attempt mm x = true).
          { destruct Hmm as [->|[->| ->]]; try congruence; destruct Hr as [->|[->| ->]]; reflexivity. }
          assert (Hok : is_ok x = false) by (destruct Hr as [->|[->| ->]]; reflexivity).
          rewrite Hat, Hok in Ec.
          assert (Hinv' : Inv05 p s' ((tid, (task_fp t (fs s0), false)) :: g)).
          { eapply inv05_attempt; eauto. split; auto. }
          destruct Hmm as [->|[->| ->]]; try congruence.
          + destruct Hup as [Hup|Hup]; [discriminate|].
            destruct (lookup_nat tid g) as [[fp0 [|]]|] eqn:El.
            * rewrite (Hexp s0 _ Hi), Hup in Ec.
              destruct Hr as [->|[->| ->]]; inversion Ec; subst; auto.
            * inversion Ec; subst; auto.
            * inversion Ec; subst; auto.
          + assert (Hsk : is_skipped x = false) by (destruct Hr as [->|[->| ->]]; reflexivity).
            rewrite Hsk in Ec. inversion Ec; subst; auto.
        - assert (Hat : is_attempt mm ROk = true) by (destruct Hmm as [->|[->| ->]]; try congruence; reflexivity).
          rewrite Hat in Ec. cbn [is_ok] in Ec.
          assert (Hrec' : rec_of s' t = Some (Hx (task_fp t (fs s0)))).
          { destruct Hrec as [Hrec|[_ [Hf _]]]; auto. congruence. }
          assert (Hinv' : Inv05 p s' ((tid, (task_fp t (fs s0), true)) :: g)).
          { eapply inv05_attempt; eauto. split; auto. }
          destruct Hmm as [->|[->| ->]]; try congruence.
          + destruct Hup as [Hup|Hup]; [discriminate|].
            destruct (lookup_nat tid g) as [[fp0 [|]]|] eqn:El.
            * rewrite (Hexp s0 _ Hi), Hup in Ec. inversion Ec; subst; auto.
            * inversion Ec; subst; auto.
            * inversion Ec; subst; auto.
          + cbn in Ec. inversion Ec; subst; auto. }
      destruct m.
      - apply (Hrun Run); auto.
      - apply (Hrun Force); auto.
      - apply (Hrun Dry); auto.
      - rewrite (uptodate_safe matchb H Hx v Hfp Hts) in Es by auto. inversion Es; subst.
        cbn in Ec. inversion Ec; subst. auto.
      - rewrite list_json_quiet in Es by auto. inversion Es; subst.
        cbn in Ec. inversion Ec; subst. auto.
      - inversion Es; subst. cbn in Ec. inversion Ec; subst. auto.
      - inversion Es; subst. cbn in Ec. inversion Ec; subst. auto. }
    destruct Hgoal as [-> Hinv']. cbn. now apply IH.
  Qed.

  Lemma inv05_empty : forall p s, empty_store s -> Inv05 p s [].
  Proof.
    intros p s [E1 E2] tid t _. cbn. unfold rec_of. rewrite E1, E2.
    destruct (t_method t); reflexivity.
  Qed.

  Theorem c05_holds : forall p s h,
    wf_proj p -> empty_store s ->
    mon_C05 matchb p (snap_of s) (observe v p s h) = true.
  Proof.
    intros p s h Hwf He. unfold mon_C05. rewrite fs_of_snap_of.
    apply c05_run_holds; auto. now apply inv05_empty.
  Qed.
End C05.
