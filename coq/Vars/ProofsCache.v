(* Model E: the state shared between compilations in one process - the
   dynamic-variable cache and the matrix rows of the task definitions (C11). *)
From Coq Require Import List String Bool Ascii Lia.
Import ListNotations.
From TV Require Import Vars.Model Vars.Proofs.
Local Open Scope string_scope.
Local Open Scope list_scope.

(* ---------- keys ---------- *)

Lemma vars_eqb_eq : forall a b, vars_eqb a b = true <-> a = b.
Proof.
  induction a as [|[n v] a IH]; destruct b as [|[m w] b]; cbn; split; intro H; try discriminate; auto.
  - apply andb_true_iff in H. destruct H as [H H3]. apply andb_true_iff in H. destruct H as [H1 H2].
    apply String.eqb_eq in H1, H2. apply IH in H3. subst. reflexivity.
  - inversion H; subst. rewrite !String.eqb_refl. cbn. apply IH. reflexivity.
Qed.

Lemma key_eqb_eq : forall a b : key, key_eqb a b = true <-> a = b.
Proof.
  intros [[t1 d1] e1] [[t2 d2] e2]. cbn. split; intro H.
  - apply andb_true_iff in H. destruct H as [H H3]. apply andb_true_iff in H. destruct H as [H1 H2].
    apply String.eqb_eq in H1, H2. apply vars_eqb_eq in H3. subst. reflexivity.
  - inversion H; subst. rewrite !String.eqb_refl. cbn. apply vars_eqb_eq. reflexivity.
Qed.

(* the shell's answer depends only on what the key records *)
Definition key_respects (w : world) : Prop :=
  forall t d e t' d' e',
    mk_key (w_key w) t d e = mk_key (w_key w) t' d' e' -> w_sh w t d e = w_sh w t' d' e'.

(* every cached answer is the shell's answer for every context that maps to its key *)
Definition sound (w : world) (c : cache) : Prop :=
  forall k v, cget k c = Some v -> forall t d e, mk_key (w_key w) t d e = k -> v = w_sh w t d e.

Lemma sound_nil : forall w, sound w [].
Proof. intros w k v H. discriminate. Qed.

Lemma sound_cons :
  forall w c t d e, key_respects w -> sound w c ->
                    sound w ((mk_key (w_key w) t d e, w_sh w t d e) :: c).
Proof.
  intros w c t d e Hk Hs k v H t' d' e' Hkey. cbn [cget] in H.
  destruct (key_eqb (mk_key (w_key w) t d e) k) eqn:E.
  - apply key_eqb_eq in E. injection H as Hv. rewrite <- Hv. apply Hk. rewrite E, Hkey. reflexivity.
  - exact (Hs k v H t' d' e' Hkey).
Qed.

(* what HandleDynamicVar returns when nothing is cached *)
Definition pure_dynamic (w : world) (text vdir ldir : string) (env : vars) : string :=
  if String.eqb text "" then "" else w_sh w text (if String.eqb vdir "" then ldir else vdir) env.

Lemma handle_dynamic_sound :
  forall w text vdir ldir env c,
    key_respects w -> sound w c ->
    fst (handle_dynamic w text vdir ldir env c) = pure_dynamic w text vdir ldir env /\
    sound w (snd (handle_dynamic w text vdir ldir env c)).
Proof.
  intros w text vdir ldir env c Hk Hs. unfold handle_dynamic, pure_dynamic.
  destruct (String.eqb text ""); [split; auto|].
  destruct (cget _ c) as [v|] eqn:E; cbn.
  - split; auto. eapply Hs; eauto.
  - split; auto. apply sound_cons; auto.
Qed.

(* ---------- getVariables does not depend on a sound cache ---------- *)

Lemma eval_entry_sound :
  forall w d e r c1 c2,
    key_respects w -> sound w c1 -> sound w c2 ->
    fst (eval_entry w d e (r, c1)) = fst (eval_entry w d e (r, c2)) /\
    sound w (snd (eval_entry w d e (r, c1))) /\ sound w (snd (eval_entry w d e (r, c2))).
Proof.
  intros w d e r c1 c2 Hk H1 H2. unfold eval_entry. destruct (e_expr e) as [s|ps|ps|m]; cbn; auto.
  destruct (handle_dynamic_sound w (render ps r) (e_dir e) d (env_from_vars w r) c1 Hk H1) as [A1 B1].
  destruct (handle_dynamic_sound w (render ps r) (e_dir e) d (env_from_vars w r) c2 Hk H2) as [A2 B2].
  destruct (handle_dynamic w (render ps r) (e_dir e) d (env_from_vars w r) c1) as [v1 c1'].
  destruct (handle_dynamic w (render ps r) (e_dir e) d (env_from_vars w r) c2) as [v2 c2'].
  cbn in *. subst. auto.
Qed.

Lemma run_flat_sound :
  forall w fl r c1 c2,
    key_respects w -> sound w c1 -> sound w c2 ->
    fst (run_flat w fl (r, c1)) = fst (run_flat w fl (r, c2)) /\
    sound w (snd (run_flat w fl (r, c1))) /\ sound w (snd (run_flat w fl (r, c2))).
Proof.
  intros w fl. induction fl as [|de fl IH]; intros r c1 c2 Hk H1 H2; [cbn; auto|].
  rewrite !run_flat_cons.
  destruct (eval_entry_sound w (fst de) (snd de) r c1 c2 Hk H1 H2) as [A [B1 B2]].
  destruct (eval_entry w (fst de) (snd de) (r, c1)) as [r1 c1'].
  destruct (eval_entry w (fst de) (snd de) (r, c2)) as [r2 c2'].
  cbn in A, B1, B2. subst r2. apply IH; auto.
Qed.

Lemma get_variables_sound :
  forall w ls c1 c2,
    key_respects w -> sound w c1 -> sound w c2 ->
    fst (get_variables w ls c1) = fst (get_variables w ls c2) /\
    sound w (snd (get_variables w ls c1)) /\ sound w (snd (get_variables w ls c2)).
Proof. intros. rewrite !get_variables_flat. apply run_flat_sound; auto. Qed.

(* ---------- the env of the compiled task ---------- *)

Lemma env_resolve_sound :
  forall w dir todo done c1 c2,
    key_respects w -> sound w c1 -> sound w c2 ->
    fst (env_resolve w dir done todo c1) = fst (env_resolve w dir done todo c2) /\
    sound w (snd (env_resolve w dir done todo c1)) /\ sound w (snd (env_resolve w dir done todo c2)).
Proof.
  intros w dir todo. induction todo as [|e todo IH]; intros done c1 c2 Hk H1 H2; [cbn; auto|].
  cbn [env_resolve]. destruct (e_expr e) as [s|ps|ps|m]; try (apply IH; auto).
  destruct (handle_dynamic_sound w (render ps []) (e_dir e) dir (env_from_vars w (done ++ statics todo)) c1 Hk H1) as [A1 B1].
  destruct (handle_dynamic_sound w (render ps []) (e_dir e) dir (env_from_vars w (done ++ statics todo)) c2 Hk H2) as [A2 B2].
  destruct (handle_dynamic w (render ps []) (e_dir e) dir (env_from_vars w (done ++ statics todo)) c1) as [v1 c1'].
  destruct (handle_dynamic w (render ps []) (e_dir e) dir (env_from_vars w (done ++ statics todo)) c2) as [v2 c2'].
  cbn in *. subst. apply IH; auto.
Qed.

(* ---------- compilation ---------- *)

Lemma rget_rset_same : forall n v r, rget n (rset n v r) = Some v.
Proof.
  intros n v r. induction r as [|[m w] r IH]; cbn.
  - rewrite String.eqb_refl. reflexivity.
  - destruct (String.eqb m n) eqn:E; cbn; rewrite E; auto.
Qed.

Lemma eval_layers_sound :
  forall w ls r c1 c2,
    key_respects w -> sound w c1 -> sound w c2 ->
    fst (eval_layers w ls (r, c1)) = fst (eval_layers w ls (r, c2)) /\
    sound w (snd (eval_layers w ls (r, c1))) /\ sound w (snd (eval_layers w ls (r, c2))).
Proof. intros. unfold eval_layers. rewrite !layers_flat. apply run_flat_sound; auto. Qed.

Lemma task_variables_sound :
  forall w order taskdir after x c1 c2,
    key_respects w -> sound w c1 -> sound w c2 ->
    fst (task_variables w order taskdir after x c1) = fst (task_variables w order taskdir after x c2) /\
    sound w (snd (task_variables w order taskdir after x c1)) /\
    sound w (snd (task_variables w order taskdir after x c2)).
Proof.
  intros w order taskdir after x c1 c2 Hk H1 H2. unfold task_variables.
  destruct (x_dir_tmpl x) as [ps|]; [|apply get_variables_sound; auto].
  generalize (dir_point order after) as k. intro k.
  pose proof (eval_layers_sound w (firstn k (assemble order taskdir (w_os w) x)) [] c1 c2 Hk H1 H2) as H.
  remember (eval_layers w (firstn k (assemble order taskdir (w_os w) x)) ([], c1)) as st1 eqn:E1.
  remember (eval_layers w (firstn k (assemble order taskdir (w_os w) x)) ([], c2)) as st2 eqn:E2.
  destruct st1 as [r1 c1'], st2 as [r2 c2']. destruct H as [A [B1 B2]].
  assert (r1 = r2) as A'.
  { change r1 with (fst (r1, c1')). change r2 with (fst (r2, c2')). rewrite E1, E2. exact A. }
  assert (sound w c1') as B1'. { change c1' with (snd (r1, c1')). rewrite E1. exact B1. }
  assert (sound w c2') as B2'. { change c2' with (snd (r2, c2')). rewrite E2. exact B2. }
  subst r2. cbn [fst]. apply eval_layers_sound; auto.
Qed.

Lemma compile_sound :
  forall w P x s1 s2,
    key_respects w -> sound w (s_cache s1) -> sound w (s_cache s2) ->
    (p_defer_shared P = false -> fst (compile w P x s1) = fst (compile w P x s2)) /\
    sound w (s_cache (snd (compile w P x s1))) /\ sound w (s_cache (snd (compile w P x s2))).
Proof.
  intros w P x s1 s2 Hk H1 H2. unfold compile, phase1.
  destruct (task_variables_sound w (p_layers P) (p_taskdir P) (p_dir_after P) x (s_cache s1) (s_cache s2) Hk H1 H2)
    as [A [B1 B2]].
  destruct (task_variables w (p_layers P) (p_taskdir P) (p_dir_after P) x (s_cache s1)) as [vs1 c1].
  destruct (task_variables w (p_layers P) (p_taskdir P) (p_dir_after P) x (s_cache s2)) as [vs2 c2].
  cbn in A, B1, B2. subst vs2. unfold task_env.
  destruct (env_resolve_sound w (x_task_dir x) (env_static P x vs1) [] c1 c2 Hk B1 B2) as [A' [B1' B2']].
  destruct (env_resolve w (x_task_dir x) [] (env_static P x vs1) c1) as [ev1 c1'].
  destruct (env_resolve w (x_task_dir x) [] (env_static P x vs1) c2) as [ev2 c2'].
  cbn in A', B1', B2'. subst ev2. cbn [fst snd s_cache]. split; [|split; assumption].
  intro Hd. unfold phase2. cbn [pd_vars pd_env pd_items pd_defers s_rows s_defers]. rewrite Hd. cbn [andb]. f_equal.
  destruct (x_matrix x); auto. destruct (p_matrix_shared P); auto.
  rewrite !rget_rset_same. reflexivity.
Qed.

(* states reachable by compiling any tasks, in any number, from a fresh process *)
Inductive reachable (w : world) (P : params) : shared -> Prop :=
| reach_init : reachable w P empty_shared
| reach_step : forall s x, reachable w P s -> reachable w P (snd (compile w P x s)).

Lemma reachable_sound :
  forall w P s, key_respects w -> reachable w P s -> sound w (s_cache s).
Proof.
  intros w P s Hk H. induction H as [|s x H IH].
  - apply sound_nil.
  - destruct (compile_sound w P x s s Hk IH IH) as [_ [B _]]. exact B.
Qed.

(* C11: if the shell's answer depends only on what the cache key records, then
   what a task compiles to after ANY history of other compilations in the same
   process is what it compiles to in a fresh process. *)
Theorem noninterference :
  forall w P x s,
    key_respects w -> p_defer_shared P = false -> reachable w P s ->
    fst (compile w P x s) = fst (compile w P x empty_shared).
Proof.
  intros w P x s Hk Hd Hr.
  destruct (compile_sound w P x s empty_shared Hk (reachable_sound w P s Hk Hr) (sound_nil w)) as [A _].
  exact (A Hd).
Qed.

(* a key of text, directory and environment records everything the shell sees *)
Lemma full_key_respects :
  forall w, k_sh (w_key w) = true -> k_dir (w_key w) = true -> k_env (w_key w) = true -> key_respects w.
Proof.
  intros w H1 H2 H3 t d e t' d' e' H. unfold mk_key in H. rewrite H1, H2, H3 in H.
  inversion H; subst. reflexivity.
Qed.

(* a coarser key is enough exactly for commands that ignore what it leaves out *)
Lemma coarse_key_respects :
  forall w,
    k_sh (w_key w) = true ->
    (k_dir (w_key w) = true \/ forall t d d' e, w_sh w t d e = w_sh w t d' e) ->
    (k_env (w_key w) = true \/ forall t d e e', w_sh w t d e = w_sh w t d e') ->
    key_respects w.
Proof.
  intros w H1 Hd He t d e t' d' e' H. unfold mk_key in H. rewrite H1 in H.
  inversion H as [[Ht Hdd Hee]]. subst t'.
  assert (w_sh w t d e = w_sh w t d' e) as E1.
  { destruct Hd as [Hd|Hd]; [rewrite Hd in Hdd; subst; reflexivity|apply Hd]. }
  assert (w_sh w t d' e = w_sh w t d' e') as E2.
  { destruct He as [He|He]; [rewrite He in Hee; subst; reflexivity|apply He]. }
  congruence.
Qed.

(* ---------- the key of the current code ---------- *)

Definition plain_params (shared_rows : bool) : params :=
  {| p_layers := expected_layers; p_taskdir := expected_taskdir_layers; p_dir_after := "Special";
     p_envorder := ["GlobalEnv"; "TaskDotenv"; "TaskEnv"]; p_tdot_first := true;
     p_matrix_shared := shared_rows; p_defer_shared := false |}.

Definition plain_task (nm dir : string) (special : vars) (tvars : list entry) (probes : list name) : tctx :=
  {| x_name := nm; x_special := special; x_genv := []; x_gvars := []; x_incvars := []; x_incfile := [];
     x_call := []; x_tvars := tvars; x_root_dir := "ROOT"; x_task_dir := dir; x_dir_tmpl := None; x_tdot := []; x_tenv := [];
     x_matrix := None; x_vprobes := probes; x_eprobes := []; x_defers := [] |}.

Definition sh_pwd (text dir : string) (env : vars) : string := dir.
Definition sh_task (text dir : string) (env : vars) : string := vgetd "TASK" env.

Definition dir_task (d : string) : tctx :=
  plain_task d ("ROOT/" ++ d)%string [] [{| e_name := "P"; e_expr := Sh [TLit "pwd"]; e_dir := "" |}] ["P"].
Definition env_task (n : string) : tctx :=
  plain_task n "ROOT" [("TASK", n)] [{| e_name := "P"; e_expr := Sh [TLit "echo $TASK"]; e_dir := "" |}] ["P"].

Definition after (w : world) (P : params) (first second : tctx) : outputs :=
  fst (compile w P second (snd (compile w P first empty_shared))).

(* 7.16: a key that leaves the directory out lets `sh: pwd` of one task answer for another *)
Theorem key_without_dir_refuted :
  forall ks b, k_dir ks = false ->
    let w := mkw sh_pwd ks [] false in
    outputs_eqb (after w (plain_params b) (dir_task "d1") (dir_task "d2"))
                (fst (compile w (plain_params b) (dir_task "d2") empty_shared)) = false.
Proof.
  intros [s d e] b H. cbn in H. subst. destruct s, e, b; vm_compute; reflexivity.
Qed.

(* and one that leaves the environment out lets `sh: echo $TASK` do the same *)
Theorem key_without_env_refuted :
  forall ks b, k_env ks = false ->
    let w := mkw sh_task ks [] false in
    outputs_eqb (after w (plain_params b) (env_task "e1") (env_task "e2"))
                (fst (compile w (plain_params b) (env_task "e2") empty_shared)) = false.
Proof.
  intros [s d e] b H. cbn in H. subst. destruct s, d, b; vm_compute; reflexivity.
Qed.

(* ---------- the shared task definitions ---------- *)

(* C11: a compilation that resolves matrix refs into its own copy returns the
   shared rows as it found them *)
Theorem no_shared_mutation :
  forall w P x s,
    p_matrix_shared P = false -> p_defer_shared P = false ->
    s_rows (snd (compile w P x s)) = s_rows s /\ s_defers (snd (compile w P x s)) = s_defers s.
Proof.
  intros w P x s H Hd. unfold compile, phase1.
  destruct (task_variables w _ _ _ x (s_cache s)) as [vs c1]. destruct (task_env w P x vs c1) as [ev c2].
  cbn. rewrite H, Hd. split; [destruct (x_matrix x)|]; reflexivity.
Qed.

Definition matrix_task (items : string) : tctx :=
  {| x_name := "m"; x_special := []; x_genv := []; x_gvars := []; x_incvars := []; x_incfile := [];
     x_call := [{| e_name := "L"; e_expr := Lit items; e_dir := "" |}]; x_tvars := [];
     x_root_dir := "ROOT"; x_task_dir := "ROOT"; x_dir_tmpl := None; x_tdot := []; x_tenv := [];
     x_matrix := Some "L"; x_vprobes := []; x_eprobes := []; x_defers := [] |}.

(* 7.17: resolveMatrixRefs as it is writes the resolved list into the shared row *)
Theorem shared_row_write_refuted :
  forall sh ks,
    s_rows (snd (compile (mkw sh ks [] false) (plain_params true) (matrix_task "a1 a2") empty_shared))
    <> s_rows empty_shared.
Proof. intros sh ks. vm_compute. discriminate. Qed.

(* ... which no later compilation can observe as long as compilations do not overlap:
   every compilation overwrites the row before it reads it *)
Theorem shared_row_sequentially_harmless :
  forall w P x c r1 r2 d,
    fst (compile w P x {| s_cache := c; s_rows := r1; s_defers := d |})
    = fst (compile w P x {| s_cache := c; s_rows := r2; s_defers := d |}).
Proof.
  intros w P x c r1 r2 d. unfold compile, phase1. cbn [s_cache s_rows s_defers].
  destruct (task_variables w _ _ _ x c) as [vs c1]. destruct (task_env w P x vs c1) as [ev c2].
  unfold phase2. cbn. f_equal. destruct (x_matrix x); auto. destruct (p_matrix_shared P); auto.
  rewrite !rget_rset_same. reflexivity.
Qed.

(* ... and which two overlapping compilations of the same task do observe:
   A resolves, B resolves, A builds its product from B's list *)
Theorem shared_row_interleaving_refuted :
  forall sh ks,
    let w := mkw sh ks [] false in
    let P := plain_params true in
    let a := matrix_task "a1 a2" in
    let b := matrix_task "b1 b2 b3" in
    let '(pa, s1) := phase1 w P a empty_shared in
    let '(pb, s2) := phase1 w P b s1 in
    o_items (phase2 P a pa s2) = ["b1"; "b2"; "b3"] /\
    o_items (fst (compile w P a empty_shared)) = ["a1"; "a2"].
Proof. intros sh ks. vm_compute. split; reflexivity. Qed.

(* with a private copy the two phases can be interleaved in any way *)
Theorem private_rows_any_interleaving :
  forall P x pd s s',
    p_matrix_shared P = false -> p_defer_shared P = false -> phase2 P x pd s = phase2 P x pd s'.
Proof. intros P x pd s s' H Hd. unfold phase2. rewrite H, Hd. reflexivity. Qed.

(* ---------- the directory of the task-level sh: variables ---------- *)

Definition dir_from_global : tctx :=
  {| x_name := "t"; x_special := []; x_genv := [];
     x_gvars := [{| e_name := "GD"; e_expr := Lit "d1"; e_dir := "" |}];
     x_incvars := []; x_incfile := []; x_call := [];
     x_tvars := [{| e_name := "P"; e_expr := Sh [TLit "pwd"]; e_dir := "" |}];
     x_root_dir := "ROOT"; x_task_dir := "ROOT/d1"; x_dir_tmpl := Some [TVar "GD"];
     x_tdot := []; x_tenv := []; x_matrix := None; x_vprobes := ["P"]; x_eprobes := []; x_defers := [] |}.

Definition params_dir_after (after : string) : params :=
  {| p_layers := expected_layers; p_taskdir := expected_taskdir_layers; p_dir_after := after;
     p_envorder := ["GlobalEnv"; "TaskDotenv"; "TaskEnv"]; p_tdot_first := true; p_matrix_shared := false; p_defer_shared := false |}.

(* getVariables templates the task's dir: before the global vars are evaluated:
   with dir: '{{.GD}}' a task-level `sh: pwd` answers the ROOT directory although the
   task runs in ROOT/d1; templated after the include vars it answers the task's directory *)
Theorem early_task_dir_refuted :
  forall ks,
    let w := mkw sh_pwd ks [] false in
    o_vars (fst (compile w (params_dir_after "Special") dir_from_global empty_shared)) = ["ROOT"] /\
    o_vars (fst (compile w (params_dir_after "IncludeVars") dir_from_global empty_shared)) = ["ROOT/d1"].
Proof. intros [s d e]. destruct s, d, e; vm_compute; split; reflexivity. Qed.

(* ---------- defer: entries ---------- *)

Definition defer_task (who : string) : tctx :=
  {| x_name := "dtask"; x_special := []; x_genv := []; x_gvars := []; x_incvars := []; x_incfile := [];
     x_call := [{| e_name := "NAME"; e_expr := Lit who; e_dir := "" |}]; x_tvars := [];
     x_root_dir := "ROOT"; x_task_dir := "ROOT"; x_dir_tmpl := None; x_tdot := []; x_tenv := [];
     x_matrix := None; x_vprobes := []; x_eprobes := [];
     x_defers := [[TLit "cleanup "; TVar "NAME"]] |}.

Definition params_defer (b : bool) : params :=
  {| p_layers := expected_layers; p_taskdir := expected_taskdir_layers; p_dir_after := "IncludeVars";
     p_envorder := ["GlobalEnv"; "TaskDotenv"; "TaskEnv"]; p_tdot_first := true;
     p_matrix_shared := false; p_defer_shared := b |}.

(* if the compiled task holds the definition's own defer: entry, the first call's
   rendering replaces the template: the second call of the task, with other
   vars, runs the first call's deferred command, and the definition has changed *)
Theorem shared_defer_refuted :
  forall sh ks,
    let w := mkw sh ks [] false in
    let s1 := snd (compile w (params_defer true) (defer_task "one") empty_shared) in
    o_defers (fst (compile w (params_defer true) (defer_task "two") s1)) = ["cleanup one"] /\
    o_defers (fst (compile w (params_defer true) (defer_task "two") empty_shared)) = ["cleanup two"] /\
    s_defers s1 <> s_defers empty_shared.
Proof. intros sh ks. vm_compute. repeat split; try reflexivity. discriminate. Qed.
