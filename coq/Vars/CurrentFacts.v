(* Model E "Vars": helper lemmas for Properties/C10Current.v and Properties/C11Current.v
   (statements about the tree as it is now).  Nothing here depends on Extracted.Facts:
   the lemmas are the monitor forms of existing general theorems. *)
From Coq Require Import List String Bool.
Import ListNotations.
From TV Require Import Vars.Model Vars.Proofs Vars.ProofsSites Vars.ProofsCache.
Local Open Scope string_scope.
Local Open Scope list_scope.

Lemma slist_eqb_refl : forall l, slist_eqb l l = true.
Proof. induction l as [|x l IH]; cbn; auto. rewrite String.eqb_refl. exact IH. Qed.

(* the monitor of C10 on the documented values themselves *)
Lemma mon_vars_doc :
  forall sh c, mon_vars sh c (probe_values c (fst (doc_vars (mkw sh strong_key (c_os c) (c_exp c)) c []))) = true.
Proof. intros sh c. unfold mon_vars. apply slist_eqb_refl. Qed.

(* root_tasks_partial through the monitor that cases.v evaluates: whatever the three merge
   flags are, a task of the root file prints the documented values as long as no included
   file declares vars *)
Theorem root_tasks_monitor :
  forall sh fl c,
    c_depth c = 0 -> files_merged (c_chain c) = [] -> model_mon sh fl c = true.
Proof.
  intros sh fl c Hd Hf. unfold model_mon.
  rewrite (root_tasks_partial (mkw sh strong_key (c_os c) (c_exp c)) fl c [] (eq_refl (c_os c)) Hd Hf).
  apply mon_vars_doc.
Qed.
